(* The boolean checkers of Modifiers.v reflect the propositions:
     genuine_b_spec : genuine_b p d s len key = true <-> genuine p d s len key
     lens_at_spec   : In l (lens_at p d s) <-> exists key, genuine p d s l key
     ref_scan_spec, required_genuine. *)
From Coq Require Import List NArith Bool Arith Lia.
From YV Require Import Pat.Syntax Pat.Sem Pat.Matcher Pat.MatcherProofs Pat.Modifiers.
Import ListNotations.

(* ---- occurrences -------------------------------------------------------- *)
Lemma prefix_b_spec : forall eq v d,
  prefix_b eq v d = true <->
  exists mid post, d = mid ++ post /\ Forall2 (fun x y => eq x y = true) v mid.
Proof.
  induction v as [|x v IH]; intros d; cbn [prefix_b].
  - split; [|reflexivity]. intros _. exists [], d. split; [reflexivity|constructor].
  - destruct d as [|y d].
    + split; [discriminate|]. intros [mid [post [E F]]]. inversion F; subst. discriminate.
    + rewrite andb_true_iff, IH. split.
      * intros [Hxy [mid [post [E F]]]]. exists (y :: mid), post. subst.
        split; [reflexivity|]. constructor; assumption.
      * intros [mid [post [E F]]]. inversion F as [|x0 y0 v0 mid0 Hxy F0]; subst.
        cbn [app] in E. inversion E; subst. split; [exact Hxy|]. exists mid0, post. split; [reflexivity|exact F0].
Qed.

Lemma occurs_b_spec : forall eq v d s, occurs_b eq v d s = true <-> occurs eq v d s.
Proof.
  intros eq v d s. unfold occurs_b, occurs. rewrite andb_true_iff, Nat.leb_le, prefix_b_spec. split.
  - intros [Hs [mid [post [E F]]]]. exists (firstn s d), mid, post. repeat split.
    + rewrite <- E. symmetry. apply firstn_skipn.
    + apply firstn_length_le. exact Hs.
    + exact F.
  - intros [pre [mid [post [E [Hl F]]]]]. subst d s. split.
    + rewrite app_length. lia.
    + exists mid, post. split; [|exact F].
      rewrite skipn_app, skipn_all, Nat.sub_diag. reflexivity.
Qed.

Lemma Forall2_len : forall (A B : Type) (R : A -> B -> Prop) l1 l2, Forall2 R l1 l2 -> length l1 = length l2.
Proof. intros A B R l1 l2 F. induction F; cbn [length]; [reflexivity|f_equal; assumption]. Qed.

Lemma occurs_in_bounds : forall eq v d s, occurs eq v d s -> s + length v <= length d.
Proof.
  intros eq v d s [pre [mid [post [E [Hl F]]]]]. subst d s.
  apply Forall2_len in F. rewrite !app_length. lia.
Qed.

Lemma occurs_first : forall eq x v d s, occurs eq (x :: v) d s ->
  exists y, nth_error d s = Some y /\ eq x y = true.
Proof.
  intros eq x v d s [pre [mid [post [E [Hl F]]]]]. inversion F as [|x0 y v0 mid0 Hxy F0]; subst.
  exists y. split; [|exact Hxy]. rewrite nth_error_app2 by lia. rewrite Nat.sub_diag. reflexivity.
Qed.

(* ---- fullword ----------------------------------------------------------- *)
Lemma alnum_at_b_spec : forall k d i, alnum_at_b k d i = true <-> alnum_at k d i.
Proof.
  intros k d i. unfold alnum_at_b, alnum_at. destruct (nth_error d i) as [b|].
  - split; [intro H; exists b; auto|]. intros [b' [E H]]. inversion E; subst. exact H.
  - split; [discriminate|]. intros [b' [E _]]. discriminate.
Qed.

Lemma zero_at_b_spec : forall k d i, zero_at_b k d i = true <-> zero_at k d i.
Proof.
  intros k d i. unfold zero_at_b, zero_at. destruct (nth_error d i) as [b|].
  - rewrite N.eqb_eq. split; [intro H; exists b; auto|]. intros [b' [E H]]. inversion E; subst. exact H.
  - split; [discriminate|]. intros [b' [E _]]. discriminate.
Qed.

Lemma fullword_b_spec : forall w k d s e, fullword_b w k d s e = true <-> FullWord w k d s e.
Proof.
  intros w k d s e. unfold fullword_b, FullWord. destruct w.
  - rewrite andb_true_iff, !negb_true_iff. split.
    + intros [Hl Hr]. split.
      * intros p Hp [Hz Ha]. subst s. apply zero_at_b_spec in Hz. apply alnum_at_b_spec in Ha.
        rewrite Hz, Ha in Hl. discriminate.
      * intros [Hz Ha]. apply zero_at_b_spec in Hz. apply alnum_at_b_spec in Ha.
        rewrite Hz, Ha in Hr. discriminate.
    + intros [Hl Hr]. split.
      * destruct s as [|[|p]]; try reflexivity.
        destruct (zero_at_b k d (S p) && alnum_at_b k d p) eqn:E; [|reflexivity].
        apply andb_true_iff in E. destruct E as [Hz Ha]. exfalso. apply (Hl p eq_refl).
        split; [apply zero_at_b_spec|apply alnum_at_b_spec]; assumption.
      * destruct (zero_at_b k d (S e) && alnum_at_b k d e) eqn:E; [|reflexivity].
        apply andb_true_iff in E. destruct E as [Hz Ha]. exfalso. apply Hr.
        split; [apply zero_at_b_spec|apply alnum_at_b_spec]; assumption.
  - rewrite andb_true_iff, !negb_true_iff. split.
    + intros [Hl Hr]. split.
      * intros p Hp Ha. subst s. apply alnum_at_b_spec in Ha. rewrite Ha in Hl. discriminate.
      * intros Ha. apply alnum_at_b_spec in Ha. rewrite Ha in Hr. discriminate.
    + intros [Hl Hr]. split.
      * destruct s as [|p]; [reflexivity|].
        destruct (alnum_at_b k d p) eqn:E; [|reflexivity].
        exfalso. apply (Hl p eq_refl). apply alnum_at_b_spec. exact E.
      * destruct (alnum_at_b k d e) eqn:E; [|reflexivity].
        exfalso. apply Hr. apply alnum_at_b_spec. exact E.
Qed.

(* ---- keys --------------------------------------------------------------- *)
Lemma key_in_range_b_spec : forall x k, key_in_range_b x k = true <-> key_in_range x k.
Proof.
  intros [[lo hi]|] k; cbn [key_in_range_b key_in_range].
  - rewrite andb_true_iff, !N.leb_le. tauto.
  - apply N.eqb_eq.
Qed.

Lemma opt_N_eqb_spec : forall a b, opt_N_eqb a b = true <-> a = b.
Proof.
  intros [x|] [y|]; cbn [opt_N_eqb]; try (split; [discriminate|intro H; inversion H]); try tauto.
  rewrite N.eqb_eq. split; [intros ->; reflexivity|intro H; inversion H; reflexivity].
Qed.

Lemma key_of_report_report : forall x k, key_in_range x k -> key_of_report (key_report x k) = k.
Proof. intros [[lo hi]|] k H; cbn in *; [reflexivity|symmetry; exact H]. Qed.

Lemma N_range_In : forall lo hi k, In k (N_range lo hi) <-> (lo <= k /\ k <= hi)%N.
Proof.
  intros lo hi k. unfold N_range. rewrite in_map_iff. split.
  - intros [i [E Hi]]. apply in_seq in Hi. lia.
  - intros [H1 H2]. exists (N.to_nat (k - lo)). split; [lia|]. apply in_seq. lia.
Qed.

(* ---- text --------------------------------------------------------------- *)
Lemma text_occ_b_spec : forall text m d s len key,
  text_occ_b text m d s len key = true <-> text_occ text m d s len key.
Proof.
  intros text m d s len key. unfold text_occ_b, text_occ.
  rewrite !andb_true_iff, key_in_range_b_spec, opt_N_eqb_spec, existsb_exists. split.
  - intros [[Hk Hrep] [w [Hw H]]]. rewrite !andb_true_iff in H. destruct H as [[Hlen Hocc] Hfw].
    exists w, (key_of_report key). apply Nat.eqb_eq in Hlen. apply occurs_b_spec in Hocc.
    repeat split; try assumption.
    intro F. rewrite F in Hfw. cbn [negb orb] in Hfw. apply fullword_b_spec. exact Hfw.
  - intros [w [k [Hw [Hk [Hrep [Hlen [Hocc Hfw]]]]]]].
    assert (Ek : key_of_report key = k) by (rewrite Hrep; apply key_of_report_report; exact Hk).
    rewrite Ek. repeat split; try assumption.
    exists w. split; [exact Hw|]. rewrite !andb_true_iff. repeat split.
    + apply Nat.eqb_eq. exact Hlen.
    + apply occurs_b_spec. exact Hocc.
    + destruct (tm_fullword m); [|reflexivity]. cbn [negb orb]. apply fullword_b_spec. apply Hfw. reflexivity.
Qed.

(* ---- base64 ------------------------------------------------------------- *)
Lemma existsb_012 : forall f : nat -> bool,
  existsb f [0; 1; 2] = true <-> exists p, p <= 2 /\ f p = true.
Proof.
  intro f. rewrite existsb_exists. split.
  - intros [p [Hin H]]. exists p. split; [|exact H]. cbn [In] in Hin. lia.
  - intros [p [Hp H]]. exists p. split; [|exact H]. cbn [In]. lia.
Qed.

Lemma b64_occ_b_spec : forall text m d s len strict,
  b64_occ_b text m d s len strict = true <-> b64_occ text m d s len strict.
Proof.
  intros text m d s len strict. unfold b64_occ_b, b64_occ. rewrite existsb_exists. split.
  - intros [tw [Htw H]]. apply existsb_exists in H. destruct H as [kind [Hk H]].
    apply existsb_012 in H. destruct H as [p [Hp H]]. apply existsb_012 in H. destruct H as [y [Hy H]].
    apply andb_true_iff in H. destruct H as [Hs H].
    exists tw, kind, p, y. repeat split; try assumption.
    intro E. subst strict. cbn [negb orb] in Hs. apply Nat.eqb_eq. exact Hs.
  - intros [tw [kind [p [y [Htw [Hk [Hp [Hy [Hs H]]]]]]]]].
    exists tw. split; [exact Htw|]. apply existsb_exists. exists kind. split; [exact Hk|].
    apply existsb_012. exists p. split; [exact Hp|]. apply existsb_012. exists y. split; [exact Hy|].
    apply andb_true_iff. split; [|exact H].
    destruct strict; [|reflexivity]. cbn [negb orb]. apply Nat.eqb_eq. apply Hs. reflexivity.
Qed.

(* every base64 occurrence lies inside the data *)
Lemma b64_occ_in_bounds : forall text m d s len strict,
  b64_occ text m d s len strict -> s + len <= length d.
Proof.
  intros text m d s len strict [tw [kind [p [y [_ [_ [_ [_ [_ H]]]]]]]]].
  unfold b64_occ_at in H. rewrite !andb_true_iff in H. destruct H as [[[_ _] H] _].
  apply Nat.leb_le. exact H.
Qed.

(* ---- regexps ------------------------------------------------------------ *)
Lemma re_occ_b_spec : forall r m d s len, re_occ_b r m d s len = true <-> re_occ r m d s len.
Proof.
  intros r m d s len. unfold re_occ_b, re_occ. rewrite existsb_exists. split.
  - intros [w [Hw H]]. apply andb_true_iff in H. destruct H as [HM Hfw].
    exists w. split; [exact Hw|]. split; [apply matches_b_spec; exact HM|].
    intro F. rewrite F in Hfw. cbn [negb orb] in Hfw. apply fullword_b_spec. exact Hfw.
  - intros [w [Hw [HM Hfw]]]. exists w. split; [exact Hw|]. apply andb_true_iff. split.
    + apply matches_b_spec. exact HM.
    + destruct (rm_fullword m); [|reflexivity]. cbn [negb orb]. apply fullword_b_spec. apply Hfw. reflexivity.
Qed.

(* ---- the specification -------------------------------------------------- *)
Theorem genuine_b_spec : forall p d s len key,
  genuine_b p d s len key = true <-> genuine p d s len key.
Proof.
  intros [text m|r|r m] d s len key; cbn [genuine_b genuine].
  - destruct (has_b64 m).
    + rewrite andb_true_iff, opt_N_eqb_spec, b64_occ_b_spec. tauto.
    + apply text_occ_b_spec.
  - rewrite andb_true_iff, opt_N_eqb_spec, matches_b_spec. tauto.
  - rewrite andb_true_iff, opt_N_eqb_spec, re_occ_b_spec. tauto.
Qed.

(* a genuine occurrence lies inside the data *)
Theorem genuine_in_bounds : forall p d s len key, genuine p d s len key -> s + len <= length d.
Proof.
  intros [text m|r|r m] d s len key; cbn [genuine].
  - destruct (has_b64 m).
    + intros [_ H]. eapply b64_occ_in_bounds. exact H.
    + intros [w [k [_ [_ [_ [Hlen [Hocc _]]]]]]]. apply occurs_in_bounds in Hocc. lia.
  - intros [_ H]. apply M_bounds in H. lia.
  - intros [_ [w [_ [H _]]]]. apply M_bounds in H. lia.
Qed.

(* ---- candidates are complete ------------------------------------------- *)
Lemma lxor_key : forall y k x : N, N.lxor y k = x -> k = N.lxor y x.
Proof.
  intros y k x <-. rewrite <- N.lxor_assoc, N.lxor_nilpotent, N.lxor_0_l. reflexivity.
Qed.

Lemma cand_keys_complete : forall p d s len key,
  genuine p d s len key -> In key (cand_keys p d s).
Proof.
  intros [text m|r|r m] d s len key; cbn [genuine cand_keys].
  - destruct (has_b64 m) eqn:HB.
    + intros [-> _]. left. reflexivity.
    + intros [w [k [Hw [Hk [Hrep [Hlen [Hocc Hfw]]]]]]]. subst key.
      destruct (tm_xor m) as [[lo hi]|] eqn:X; cbn [key_report key_in_range] in *.
      * destruct (tm_nocase m) eqn:NC.
        -- apply in_map. apply N_range_In. exact Hk.
        -- destruct text as [|x text'].
           ++ apply in_map. apply N_range_In. exact Hk.
           ++ assert (Ho : exists y, nth_error d s = Some y /\ byte_eq false k x y = true).
              { destruct w; cbn [vbytes widen] in Hocc; eapply occurs_first; exact Hocc. }
              destruct Ho as [y [E Hb]]. rewrite E. left. f_equal.
              unfold byte_eq in Hb. cbn [andb orb] in Hb. rewrite orb_false_r in Hb.
              apply N.eqb_eq in Hb. symmetry. apply lxor_key. exact Hb.
      * left. reflexivity.
  - intros [-> _]. left. reflexivity.
  - intros [-> _]. left. reflexivity.
Qed.

Lemma cand_lens_complete : forall p d s len key,
  genuine p d s len key -> In len (cand_lens p d s).
Proof.
  intros [text m|r|r m] d s len key; cbn [genuine cand_lens].
  - destruct (has_b64 m).
    + intros [_ [tw [kind [p [y [Htw [Hk [Hp [_ [_ H]]]]]]]]]].
      apply dedup_In. apply in_flat_map. exists tw. split; [exact Htw|].
      apply in_flat_map. exists kind. split; [exact Hk|].
      apply in_map_iff. exists p. split; [|cbn [In]; lia].
      unfold b64_occ_at in H. rewrite !andb_true_iff in H. destruct H as [[[_ H] _] _].
      apply Nat.eqb_eq in H. symmetry. exact H.
    + intros [w [k [Hw [_ [_ [Hlen _]]]]]]. apply dedup_In. apply in_map_iff. exists w. split; [symmetry; exact Hlen|exact Hw].
  - intros [_ H]. apply in_map_iff. exists (s + len). split; [lia|]. apply ends_spec. exact H.
  - intros [_ [w [Hw [H _]]]]. apply dedup_In. apply in_flat_map. exists w. split; [exact Hw|].
    apply in_map_iff. exists (s + len). split; [lia|]. apply ends_spec. exact H.
Qed.

Theorem lens_at_spec : forall p d s l,
  In l (lens_at p d s) <-> exists key, genuine p d s l key.
Proof.
  intros p d s l. destruct p as [text m|r|r m]; cbn [lens_at].
  - rewrite filter_In, existsb_exists. split.
    + intros [_ [key [_ H]]]. exists key. apply genuine_b_spec. exact H.
    + intros [key H]. split; [eapply cand_lens_complete; exact H|].
      exists key. split; [eapply cand_keys_complete; exact H|apply genuine_b_spec; exact H].
  - rewrite in_map_iff. cbn [genuine]. split.
    + intros [j [Hl Hj]]. apply ends_spec in Hj. pose proof (M_bounds _ _ _ _ _ Hj) as Hb.
      exists None. split; [reflexivity|]. subst l. replace (s + (j - s)) with j by lia. exact Hj.
    + intros [key [_ H]]. exists (s + l). split; [lia|]. apply ends_spec. exact H.
  - rewrite dedup_In, in_flat_map. cbn [genuine]. split.
    + intros [w [Hw H]]. apply in_map_iff in H. destruct H as [j [Hl Hj]]. apply filter_In in Hj.
      destruct Hj as [Hj Hfw]. apply ends_spec in Hj. pose proof (M_bounds _ _ _ _ _ Hj) as Hb.
      exists None. split; [reflexivity|]. exists w. split; [exact Hw|]. subst l.
      replace (s + (j - s)) with j by lia. split; [exact Hj|].
      intro F. rewrite F in Hfw. cbn [negb orb] in Hfw. apply fullword_b_spec. exact Hfw.
    + intros [key [_ [w [Hw [H Hfw]]]]]. exists w. split; [exact Hw|].
      apply in_map_iff. exists (s + l). split; [lia|]. apply filter_In. split; [apply ends_spec; exact H|].
      destruct (rm_fullword m); [|reflexivity]. cbn [negb orb]. apply fullword_b_spec. apply Hfw. reflexivity.
Qed.

Theorem ref_scan_spec : forall p d s ls,
  In (s, ls) (ref_scan p d) <-> (ls = lens_at p d s /\ ls <> [] /\ s <= length d).
Proof.
  intros p d s ls. unfold ref_scan. rewrite filter_In, in_map_iff. split.
  - intros [[x [Hx Hin]] Hne]. inversion Hx; subst. apply in_seq in Hin. cbn [snd] in Hne.
    repeat split; [|lia]. intro Hnil. rewrite Hnil in Hne. discriminate.
  - intros [-> [Hne Hi]]. split.
    + exists s. split; [reflexivity|]. apply in_seq. lia.
    + cbn [snd]. destruct (lens_at p d s); [congruence|reflexivity].
Qed.

(* R |= S: the reference scan lists exactly the genuine occurrences *)
Theorem ref_scan_complete : forall p d s l key, genuine p d s l key ->
  exists ls, In (s, ls) (ref_scan p d) /\ In l ls.
Proof.
  intros p d s l key H. exists (lens_at p d s).
  assert (Hin : In l (lens_at p d s)) by (apply lens_at_spec; exists key; exact H).
  split; [|exact Hin]. apply ref_scan_spec. repeat split.
  - intro E. rewrite E in Hin. destruct Hin.
  - apply genuine_in_bounds in H. lia.
Qed.

Theorem ref_scan_sound : forall p d s ls l, In (s, ls) (ref_scan p d) -> In l ls ->
  exists key, genuine p d s l key.
Proof.
  intros p d s ls l H Hl. apply ref_scan_spec in H. destruct H as [-> _]. apply lens_at_spec. exact Hl.
Qed.

Lemma b64_occ_weaken : forall text m d s len, b64_occ text m d s len true -> b64_occ text m d s len false.
Proof.
  intros text m d s len [tw [kind [p [y [H1 [H2 [H3 [H4 [_ H6]]]]]]]]].
  exists tw, kind, p, y. repeat split; try assumption. discriminate.
Qed.

(* a start that must be reported is the start of a genuine occurrence *)
Theorem required_genuine : forall p d s, required_at p d s = true ->
  exists l key, genuine p d s l key.
Proof.
  intros [text m|r|r m] d s; cbn [required_at].
  - destruct (has_b64 m) eqn:HB.
    + intro H. apply existsb_exists in H. destruct H as [l [_ H]]. apply b64_occ_b_spec in H.
      exists l, None. cbn [genuine]. rewrite HB. split; [reflexivity|]. apply b64_occ_weaken. exact H.
    + destruct (lens_at (PText text m) d s) as [|l ls] eqn:E; [discriminate|]. intros _.
      assert (Hin : In l (lens_at (PText text m) d s)) by (rewrite E; left; reflexivity).
      apply lens_at_spec in Hin. destruct Hin as [key H]. exists l, key. exact H.
  - destruct (ends false d r s) as [|j js] eqn:E; [discriminate|]. intros _.
    assert (Hin : In j (ends false d r s)) by (rewrite E; left; reflexivity).
    apply ends_spec in Hin. pose proof (M_bounds _ _ _ _ _ Hin) as Hb.
    exists (j - s), None. cbn [genuine]. split; [reflexivity|]. replace (s + (j - s)) with j by lia. exact Hin.
  - intro H. apply existsb_exists in H. destruct H as [w [Hw H]]. apply andb_true_iff in H. destruct H as [Hne Hfw].
    destruct (ends (rm_nocase m) d (vre w r) s) as [|j js] eqn:E; [discriminate|].
    assert (Hin : In j (ends (rm_nocase m) d (vre w r) s)) by (rewrite E; left; reflexivity).
    apply ends_spec in Hin. pose proof (M_bounds _ _ _ _ _ Hin) as Hb.
    exists (j - s), None. cbn [genuine]. split; [reflexivity|]. exists w. split; [exact Hw|].
    replace (s + (j - s)) with j by lia. split; [exact Hin|].
    intro F. rewrite F in Hfw. cbn [negb orb] in Hfw. rewrite forallb_forall in Hfw.
    apply fullword_b_spec. apply Hfw. left. reflexivity.
Qed.

Lemma required_starts_spec : forall p d s,
  In s (required_starts p d) <-> (required_at p d s = true /\ s <= length d).
Proof.
  intros p d s. unfold required_starts. rewrite filter_In, in_seq. split; intros [H1 H2]; split; try assumption; lia.
Qed.

(* without base64 and without fullword-on-a-regexp, "required" is exactly
   "some genuine occurrence starts here" *)
Theorem required_exact : forall p d s,
  match p with
  | PText _ m => has_b64 m = false
  | PHex _ => True
  | PRegexp _ m => rm_fullword m = false
  end ->
  (required_at p d s = true <-> exists l key, genuine p d s l key).
Proof.
  intros p d s Hp. split; [apply required_genuine|].
  intros [l [key H]]. destruct p as [text m|r|r m]; cbn [required_at genuine] in *.
  - rewrite Hp in *. assert (Hin : In l (lens_at (PText text m) d s)).
    { apply lens_at_spec. exists key. cbn [genuine]. rewrite Hp. exact H. }
    destruct (lens_at (PText text m) d s); [destruct Hin|reflexivity].
  - destruct H as [_ H]. apply ends_spec in H. destruct (ends false d r s); [destruct H|reflexivity].
  - destruct H as [_ [w [Hw [H _]]]]. apply existsb_exists. exists w. split; [exact Hw|].
    rewrite Hp. cbn [negb orb]. rewrite andb_true_r.
    apply ends_spec in H. destruct (ends (rm_nocase m) d (vre w r) s); [destruct H|reflexivity].
Qed.

(* non-vacuity *)
Example genuine_example_text :
  genuine (PText [97; 98]%N (mkTM true true true true None None None))
          [65; 0; 66; 0; 32; 97; 98; 99; 32; 97; 66]%N 0 4 None.
Proof. apply genuine_b_spec. vm_compute. reflexivity. Qed.

Example genuine_example_xor :
  genuine (PText [97; 98]%N (mkTM false false false false (Some (1, 255)%N) None None))
          [96; 99; 32]%N 0 2 (Some 1%N).
Proof. apply genuine_b_spec. vm_compute. reflexivity. Qed.
