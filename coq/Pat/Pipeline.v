(* Architecture level (A): the scan pipeline for the literal family, following
   lib/src/scanner/context.rs:

     search_for_patterns   verify_anchored_patterns, then one call of
                           handle_atom_match for every atom occurrence the
                           search automaton reports (hits, in its order)
     handle_atom_match     backtrack subtraction, the exact-atom shortcut,
                           verify_literal / verify_literal_with_mask /
                           verify_xor (key recovered from the ATOM) /
                           verify_base64 (window from the 9-entry table)
     handle_sub_pattern_match -> track_match -> PatternMatches::add
                           (replace_if_longer = true for this family since commit a09b6a08:
                           of several sub-patterns matching at one start the longest wins,
                           whatever the order the atoms are found in; false before)

   The sub-patterns and atoms are inputs: in K stream (d) they are the real
   ones dumped from the compiled rules.  Definitions only; the theorems are in
   PipelineProofs.v. *)
From Coq Require Import List NArith Bool Arith.
From YV Require Import Pat.Syntax Pat.Sem Pat.Matcher Pat.Modifiers Pat.Base64 Pat.MatchList Pat.Atoms.
Import ListNotations.
Local Open Scope N_scope.

(* what a verification yields: (start, end, key) *)
Definition hit_result := option (nat * nat * option N).

(* verify_literal(pattern, data, match_start, flags): bounds, fullword, compare *)
Definition verify_literal (lit : bytes) (d : bytes) (pos : nat) (fl : spflags) : bool :=
  let e := (pos + length lit)%nat in
  Nat.leb e (length d) &&
  ((negb (f_fwl fl) && negb (f_fwr fl)) || verify_full_word fl 0 d pos e) &&
  prefix_b (byte_eq (f_nocase fl) 0) lit (skipn pos d).

(* the LiteralWithMask arm: data.get(pos..pos+len), verify_literal_with_mask, fullword *)
Definition verify_masked (lit mask : bytes) (d : bytes) (pos : nat) (fl : spflags) : bool :=
  let e := (pos + length lit)%nat in
  Nat.leb e (length d) && masked_prefix_b lit mask (skipn pos d) &&
  ((negb (f_fwl fl) && negb (f_fwr fl)) || verify_full_word fl 0 d pos e).

(* verify_xor: the key is atom[0] ^ pattern[atom.backtrack]; bounds, fullword with
   the key, compare under the key.  (pattern[backtrack] out of range would be a
   panic in the implementation: None here, excluded by atoms_ok.) *)
Definition verify_xor (lit : bytes) (d : bytes) (pos : nat) (a : atom) (fl : spflags) : option N :=
  match a_bytes a, nth_error lit (a_bt a) with
  | y :: _, Some x =>
      let key := N.lxor y x in
      let e := (pos + length lit)%nat in
      if Nat.leb e (length d) && verify_full_word fl key d pos e &&
         prefix_b (byte_eq false key) lit (skipn pos d)
      then Some key else None
  | _, _ => None
  end.

(* ---- verify_base64 ------------------------------------------------------- *)
(* strict decoding of the base64 crate with NO_PAD: every character in the
   alphabet, length mod 4 <> 1, unused trailing bits zero *)
Fixpoint unsextets_strict (l : list N) : option bytes :=
  match l with
  | [] => Some []
  | [_] => None
  | [a; b] => if b mod 16 =? 0 then Some [a * 4 + b / 16] else None
  | [a; b; c] => if c mod 4 =? 0 then Some [a * 4 + b / 16; (b mod 16) * 16 + c / 4] else None
  | a :: b :: c :: e :: t =>
      match unsextets_strict t with
      | Some r => Some ((a * 4 + b / 16) :: ((b mod 16) * 16 + c / 4) :: ((c mod 4) * 64 + e) :: r)
      | None => None
      end
  end.
Definition b64_decode_strict (a : alphabet) (cs : list N) : option bytes :=
  match sextets a cs with Some l => unsextets_strict l | None => None end.

(* (decode_start_delta, decode_len, match_len) for (padding, len mod 4), len = the
   length of the base64 encoding of the pattern: the table of verify_base64 *)
Definition b64_table (padding len : nat) : option (nat * nat * nat) :=
  match padding, (len mod 4)%nat with
  | 0, 0 => Some (0, len, len)
  | 0, 2 => Some (0, len + 2, len - 1)
  | 0, 3 => Some (0, len + 1, len - 1)
  | 1, 0 => Some (2, len + 4, len - 1)
  | 1, 2 => Some (2, len + 2, len - 2)
  | 1, 3 => Some (2, len + 1, len - 1)
  | 2, 0 => Some (3, len + 4, len - 1)
  | 2, 2 => Some (3, len + 2, len - 1)
  | 2, 3 => Some (3, len + 5, len - 1)
  | _, _ => None                         (* unreachable!() *)
  end%nat.

(* strip a trailing "==" or "=" (ascii form) *)
Definition strip_padding (s : bytes) : bytes :=
  match rev s with
  | 61 :: 61 :: r => rev r
  | 61 :: r => rev r
  | _ => s
  end.

(* wide form (after commit b2a39c9f): the characters at even positions, zeroes at odd
   ones (the last zero may be missing: the data may end right after a character), then
   trailing padding stripped exactly as in the ascii form.  Before that commit every
   '=' at an even offset was dropped, also in the middle of the window. *)
Definition wide_chars (s : bytes) : option bytes :=
  match unwiden s with
  | Some cs => Some (strip_padding cs)
  | None => None
  end.

Definition verify_base64 (lit : bytes) (d : bytes) (padding : nat) (pos : nat)
                         (alpha : alphabet) (wide : bool) : option (nat * nat) :=
  let len := enc_len (length lit) in
  match b64_table padding len with
  | None => None
  | Some (delta, dlen, mlen) =>
      let u := unit_of wide in
      let delta := (delta * u)%nat in let dlen := (dlen * u)%nat in let mlen := (mlen * u)%nat in
      if Nat.ltb pos delta then None else
      let ws := (pos - delta)%nat in
      let raw := firstn dlen (skipn ws d) in          (* decode_range, truncated at the end of the data *)
      match (if wide then wide_chars raw else Some (strip_padding raw)) with
      | None => None
      | Some enc =>
          match b64_decode_strict alpha enc with
          | None => None
          | Some dec =>
              if Nat.leb (padding + length lit) (length dec) &&
                 Nat.leb (pos + mlen) (length d) &&       (* the bounds check of commit 961c5819 *)
                 bytes_eqb (slice dec padding (length lit)) lit
              then Some (pos, (pos + mlen)%nat) else None
          end
      end
  end.

(* ---- handle_atom_match --------------------------------------------------- *)
Definition handle_atom_match (sp : subpat) (a : atom) (match_start : nat) (d : bytes) : hit_result :=
  if Nat.ltb match_start (a_bt a) then None else          (* checked_sub *)
  let pos := (match_start - a_bt a)%nat in
  let fl := sp_flags sp in
  if a_exact a then
    match sp_kind sp with
    | KLiteral _ _ | KMasked _ _ =>
        let e := (pos + length (a_bytes a))%nat in
        if verify_full_word fl 0 d pos e then Some (pos, e, None) else None
    | _ => None                                          (* unreachable!() in the implementation *)
    end
  else
    match sp_kind sp with
    | KLiteral lit _ =>
        if verify_literal lit d pos fl then Some (pos, (pos + length lit)%nat, None) else None
    | KMasked lit mask =>
        if verify_masked lit mask d pos fl then Some (pos, (pos + length lit)%nat, None) else None
    | KXor lit =>
        match verify_xor lit d pos a fl with
        | Some key => Some (pos, (pos + length lit)%nat, Some key)
        | None => None
        end
    | KBase64 lit padding alpha wide =>
        match verify_base64 lit d padding pos alpha wide with
        | Some (s, e) => Some (s, e, None)
        | None => None
        end
    | KOther => None
    end.

(* verify_anchored_patterns: an anchored literal is verified at its offset only *)
Definition verify_anchored (sp : subpat) (d : bytes) : hit_result :=
  match sp_kind sp with
  | KLiteral lit (Some off) =>
      if verify_literal lit d off (sp_flags sp) then Some (off, (off + length lit)%nat, None) else None
  | _ => None
  end.

Definition mtch_of (r : nat * nat * option N) : mtch :=
  let '(s, e, k) := r in mkM (N.of_nat s) (N.of_nat e) k.

Definition opt_list {A} (o : option A) : list A := match o with Some x => [x] | None => [] end.

(* a hit: (atom index, offset where the atom was found) *)
Definition hit := (nat * nat)%type.

Definition handle_hit (sps : list subpat) (atoms : list atom) (d : bytes) (h : hit) : hit_result :=
  match nth_error atoms (fst h) with
  | Some a => match nth_error sps (a_sp a) with
              | Some sp => handle_atom_match sp a (snd h) d
              | None => None
              end
  | None => None
  end.

(* the matches of one pattern (all of its sub-patterns), as PatternMatches::add builds them *)
Definition scan_pipeline (sps : list subpat) (atoms : list atom) (hits : list hit) (d : bytes) : match_list :=
  run_adds (map (fun r => (mtch_of r, true))
                (flat_map (fun sp => opt_list (verify_anchored sp d)) sps ++
                 flat_map (fun h => opt_list (handle_hit sps atoms d h)) hits)).

(* ---- the hits the search automaton must report --------------------------- *)
Definition atom_at (a : atom) (d : bytes) (pos : nat) : bool :=
  Nat.leb (pos + length (a_bytes a)) (length d) && bytes_eqb (slice d pos (length (a_bytes a))) (a_bytes a).

(* all occurrences of all atoms, by offset then atom index (one admissible order) *)
Definition all_hits (atoms : list atom) (d : bytes) : list hit :=
  flat_map (fun pos => flat_map (fun i => match nth_error atoms i with
                                          | Some a => if atom_at a d pos then [(i, pos)] else []
                                          | None => []
                                          end) (seq 0 (length atoms)))
           (seq 0 (S (length d))).

Definition triple_of_mtch (m : mtch) : N * N * option N := (m_start m, m_end m, m_key m).
