(* Base64 member of the literal family: COMPLETENESS of the pipeline model with
   respect to the specification, for occurrences whose window is a whole number
   of 4-character groups (PipelineProofs.pipeline_base64_complete_partial_statement
   with the side conditions it needs: a proper alphabet without '=', bytes < 256).

   The way: the window decodes (specification) -> its characters ARE the encoding
   of the decoded bytes (decoding whole groups is injective) -> the characters of
   the CORE depend only on the bytes of the text (locality of the encoding) -> the
   data under the match is the core the atoms were cut from (atoms_ok) -> the atom
   is found and verify_base64 accepts. *)
From Coq Require Import List NArith ZArith Bool Arith Lia.
From YV Require Import Pat.Syntax Pat.Sem Pat.Matcher Pat.Modifiers Pat.ModifiersProofs
  Pat.Base64 Pat.Base64Proofs Pat.MatchList Pat.Atoms Pat.Pipeline Pat.PipelineProofs Pat.PipelineB64Proofs.
Import ListNotations.

(* ---- decoding whole groups is injective -------------------------------------- *)
Lemma index_of_sound : forall c a k v, index_of c a k = Some v ->
  exists i, v = (k + N.of_nat i)%N /\ nth_error a i = Some c.
Proof.
  intros c a. induction a as [|x t IH]; intros k v H; cbn [index_of] in H; [discriminate|].
  destruct (x =? c)%N eqn:E.
  - inversion H; subst. apply N.eqb_eq in E. subst x. exists 0. split; [lia|reflexivity].
  - destruct (IH _ _ H) as [i [Hv Hn]]. exists (S i). split; [lia|exact Hn].
Qed.

Lemma sextets_inv : forall a cs l, length a = 64 -> sextets a cs = Some l ->
  cs = map (sext a) l /\ Forall (fun v => (v < 64)%N) l.
Proof.
  intros a cs. induction cs as [|c t IH]; intros l Ha H; cbn [sextets] in H.
  - inversion H. split; [reflexivity|constructor].
  - destruct (index_of c a 0) as [v|] eqn:E; [|discriminate].
    destruct (sextets a t) as [r|] eqn:Er; [|discriminate]. inversion H; subst l.
    destruct (IH r Ha eq_refl) as [Ht Hr].
    destruct (index_of_sound _ _ _ _ E) as [i [Hv Hn]].
    assert (Hi : i < 64) by (rewrite <- Ha; apply nth_error_Some; congruence).
    split.
    + cbn [map]. f_equal; [|exact Ht]. unfold sext. rewrite Hv. cbn. rewrite Nat2N.id.
      symmetry. apply nth_error_nth. exact Hn.
    + constructor; [lia|exact Hr].
Qed.

Lemma unsextets_full : forall l bs, Forall (fun v => (v < 64)%N) l -> length l mod 4 = 0 ->
  unsextets l = Some bs -> l = enc_sextets bs /\ length bs * 4 = length l * 3.
Proof.
  fix IH 1. intros [|a [|b [|c [|e t]]]] bs Hl Hm H; cbn [unsextets] in H; cbn [length] in Hm; try discriminate.
  - inversion H. split; reflexivity.
  - destruct (unsextets t) as [r|] eqn:E; [|discriminate]. inversion H; subst bs.
    inversion Hl as [|? ? Ha Hl1]; subst. inversion Hl1 as [|? ? Hb Hl2]; subst.
    inversion Hl2 as [|? ? Hc Hl3]; subst. inversion Hl3 as [|? ? He Ht]; subst.
    assert (Hmt : length t mod 4 = 0).
    { replace (S (S (S (S (length t))))) with (length t + 1 * 4) in Hm by lia. rewrite Nat.mod_add in Hm by lia. exact Hm. }
    destruct (IH t r Ht Hmt E) as [Et Hlen]. split.
    + cbn [enc_sextets]. rewrite <- Et. f_equal; [nlia|]. f_equal; [nlia|]. f_equal; [nlia|]. f_equal. nlia.
    + cbn [length]. lia.
Qed.

Lemma unsextets_strict_full : forall l, length l mod 4 = 0 -> unsextets_strict l = unsextets l.
Proof.
  fix IH 1. intros [|a [|b [|c [|e t]]]] Hm; cbn [length] in Hm; try discriminate; try reflexivity.
  cbn [unsextets_strict unsextets].
  assert (Hmt : length t mod 4 = 0).
  { replace (S (S (S (S (length t))))) with (length t + 1 * 4) in Hm by lia. rewrite Nat.mod_add in Hm by lia. exact Hm. }
  rewrite (IH t Hmt). reflexivity.
Qed.

(* ---- locality of the encoding ------------------------------------------------- *)
(* sextet i is made of the bytes 6i/8 and (6i+5)/8 *)
Lemma enc_local : forall q x x', length x = 3 * q -> length x' = 3 * q ->
  forall i, i < 4 * q ->
  nth (6 * i / 8) x 0%N = nth (6 * i / 8) x' 0%N ->
  nth ((6 * i + 5) / 8) x 0%N = nth ((6 * i + 5) / 8) x' 0%N ->
  nth i (enc_sextets x) 0%N = nth i (enc_sextets x') 0%N.
Proof.
  induction q as [|q IH]; intros x x' Hx Hx' i Hi H1 H2; [lia|].
  destruct x as [|a [|b [|c t]]]; cbn [length] in Hx; try lia.
  destruct x' as [|a' [|b' [|c' t']]]; cbn [length] in Hx'; try lia.
  cbn [enc_sextets].
  destruct i as [|[|[|[|i]]]].
  - cbn in H1. cbn [nth]. congruence.
  - change (6 * 1 / 8) with 0 in H1. change ((6 * 1 + 5) / 8) with 1 in H2. cbn [nth] in *. congruence.
  - change (6 * 2 / 8) with 1 in H1. change ((6 * 2 + 5) / 8) with 2 in H2. cbn [nth] in *. congruence.
  - change (6 * 3 / 8) with 2 in H1. cbn [nth] in *. congruence.
  - cbn [nth].
    assert (E1 : 6 * S (S (S (S i))) / 8 = 3 + 6 * i / 8).
    { replace (6 * S (S (S (S i)))) with (6 * i + 3 * 8) by lia. rewrite Nat.div_add by lia. lia. }
    assert (E2 : (6 * S (S (S (S i))) + 5) / 8 = 3 + (6 * i + 5) / 8).
    { replace (6 * S (S (S (S i))) + 5) with (6 * i + 5 + 3 * 8) by lia. rewrite Nat.div_add by lia. lia. }
    rewrite E1 in H1. rewrite E2 in H2. cbn [Nat.add nth] in H1, H2.
    apply (IH t t'); [lia|lia|lia|exact H1|exact H2].
Qed.

(* the first 8|x|/6 sextets of the encoding of x ++ y are those of the encoding of x *)
Lemma enc_prefix : forall (x y : bytes), firstn (8 * length x / 6) (enc_sextets (x ++ y)) = firstn (8 * length x / 6) (enc_sextets x).
Proof.
  intro x. induction x as [|a|a b|a b c t IH] using list_ind3; intro y.
  - reflexivity.
  - change (8 * length [a] / 6) with 1. destruct y as [|y0 [|y1 y]]; reflexivity.
  - change (8 * length [a; b] / 6) with 2. destruct y as [|y0 y]; reflexivity.
  - cbn [length].
    replace (8 * S (S (S (length t))) / 6) with (4 + 8 * length t / 6)
      by (replace (8 * S (S (S (length t)))) with (8 * length t + 4 * 6) by lia; rewrite Nat.div_add by lia; lia).
    cbn [app enc_sextets Nat.add firstn]. rewrite IH. reflexivity.
Qed.

(* ---- index arithmetic ----------------------------------------------------------- *)
Ltac ndm_on x k :=
  let q := fresh "q" in let r := fresh "r" in
  pose proof (Nat.div_mod_eq x k); pose proof (Nat.mod_upper_bound x k ltac:(lia));
  set (q := Nat.div x k) in *; set (r := Nat.modulo x k) in *; clearbody q r.
Ltac ndm1 :=
  match goal with
  | |- context [Nat.div ?x ?k] => ndm_on x k
  | |- context [Nat.modulo ?x ?k] => ndm_on x k
  | H : context [Nat.div ?x ?k] |- _ => ndm_on x k
  | H : context [Nat.modulo ?x ?k] |- _ => ndm_on x k
  end.
Ltac nnlia := repeat ndm1; lia.

Lemma enc_len_floor : forall m, enc_len m - (if Nat.eqb (m mod 3) 0 then 0 else 1) = 8 * m / 6.
Proof.
  intro m. unfold enc_len. destruct (Nat.eqb (m mod 3) 0) eqn:E.
  - apply Nat.eqb_eq in E. nnlia.
  - apply Nat.eqb_neq in E. nnlia.
Qed.

Lemma core_end : forall p n, 1 <= n -> core_start p + core_len p n = 8 * (p + n) / 6.
Proof.
  intros p n Hn. unfold core_len. rewrite enc_len_floor. unfold core_start, enc_len. nnlia.
Qed.

Lemma idx_lo : forall p i, enc_len p <= i -> p <= 6 * i / 8.
Proof. intros p i H. unfold enc_len in H. apply Nat.div_le_lower_bound; [lia|]. nnlia. Qed.

Lemma idx_hi : forall m i, i < 8 * m / 6 -> (6 * i + 5) / 8 < m.
Proof. intros m i H. apply Nat.div_lt_upper_bound; [lia|]. nnlia. Qed.

Lemma idx_lo_hi : forall i, 6 * i / 8 <= (6 * i + 5) / 8.
Proof. intro i. apply Nat.div_le_mono; lia. Qed.

(* ---- slices ---------------------------------------------------------------------- *)
Lemma nth_firstn_lt : forall (l : list N) k len, k < len -> nth k (firstn len l) 0%N = nth k l 0%N.
Proof.
  induction l as [|a l IH]; intros k len H; [destruct len; destruct k; reflexivity|].
  destruct len as [|len]; [lia|]. destruct k as [|k]; [reflexivity|]. cbn [firstn nth]. apply IH. lia.
Qed.

Lemma nth_skipn_add : forall (l : list N) from k, nth k (skipn from l) 0%N = nth (from + k) l 0%N.
Proof.
  induction l as [|a l IH]; intros from k; [destruct from; destruct k; reflexivity|].
  destruct from as [|from]; [reflexivity|]. cbn [skipn Nat.add nth]. apply IH.
Qed.

Lemma slice_nth_ext : forall (l1 l2 : list N) from len,
  from + len <= length l1 -> from + len <= length l2 ->
  (forall i, from <= i < from + len -> nth i l1 0%N = nth i l2 0%N) ->
  slice l1 from len = slice l2 from len.
Proof.
  intros l1 l2 from len H1 H2 H. unfold slice.
  apply (nth_ext _ _ 0%N 0%N).
  - rewrite !firstn_length, !skipn_length. lia.
  - intros k Hk. rewrite firstn_length, skipn_length in Hk.
    rewrite !nth_firstn_lt by lia. rewrite !nth_skipn_add. apply H. lia.
Qed.

Lemma slice_firstn : forall (l : list N) from len, slice (firstn (from + len) l) from len = slice l from len.
Proof.
  intros l from len. unfold slice. rewrite skipn_firstn_comm. replace (from + len - from) with len by lia.
  rewrite firstn_firstn, Nat.min_id. reflexivity.
Qed.

Lemma slice_map : forall (f : N -> N) l from len, slice (map f l) from len = map f (slice l from len).
Proof. intros. unfold slice. rewrite skipn_map, firstn_map. reflexivity. Qed.

(* ---- the core of the window is the core of the pattern ------------------------- *)
Lemma core_of_window : forall bs lit p q,
  length bs = 3 * q -> lit <> [] -> p + length lit <= length bs ->
  firstn (length lit) (skipn p bs) = lit ->
  slice (enc_sextets bs) (core_start p) (core_len p (length lit)) =
  slice (enc_sextets (repeat 88%N p ++ lit)) (core_start p) (core_len p (length lit)).
Proof.
  intros bs lit p q Hq Hne Hlen Hlit. set (n := length lit) in *.
  assert (Hn : 1 <= n) by (unfold n; destruct lit; [congruence|cbn [length]; lia]).
  pose proof (core_end p n Hn) as Hce.
  set (x0 := repeat 88%N p ++ lit).
  assert (Hx0 : length x0 = p + n) by (unfold x0; rewrite app_length, repeat_length; reflexivity).
  set (bs' := x0 ++ skipn (p + n) bs).
  assert (Hbs' : length bs' = 3 * q) by (unfold bs'; rewrite app_length, skipn_length, Hx0; lia).
  assert (Hagree : forall j, p <= j -> nth j bs 0%N = nth j bs' 0%N).
  { intros j Hj. unfold bs', x0.
    destruct (Nat.lt_ge_cases j (p + n)) as [Hlt|Hge].
    - rewrite app_nth1 by (rewrite app_length, repeat_length; fold n; lia).
      rewrite app_nth2 by (rewrite repeat_length; lia). rewrite repeat_length.
      rewrite <- Hlit. rewrite nth_firstn_lt by (fold n; lia). rewrite nth_skipn_add. f_equal. lia.
    - rewrite app_nth2 by (rewrite app_length, repeat_length; fold n; lia).
      rewrite app_length, repeat_length. fold n. rewrite nth_skipn_add. f_equal. lia. }
  assert (Hbound : 8 * (p + n) / 6 <= 4 * q).
  { assert (8 * (p + n) <= 8 * (3 * q)) by lia. assert (8 * (p + n) / 6 <= 8 * (3 * q) / 6) by (apply Nat.div_le_mono; lia).
    replace (8 * (3 * q)) with ((4 * q) * 6) in H0 by lia. rewrite Nat.div_mul in H0 by lia. exact H0. }
  (* the window against x0 ++ (what follows the text in the window) *)
  transitivity (slice (enc_sextets bs') (core_start p) (core_len p n)).
  - apply slice_nth_ext.
    + rewrite enc_sextets_length, Hq. replace (enc_len (3 * q)) with (4 * q) by (unfold enc_len; nnlia). lia.
    + rewrite enc_sextets_length, Hbs'. replace (enc_len (3 * q)) with (4 * q) by (unfold enc_len; nnlia). lia.
    + intros i Hi. apply (enc_local q); [exact Hq|exact Hbs'|lia| |].
      * apply Hagree. apply idx_lo. unfold core_start in Hi. lia.
      * apply Hagree. pose proof (idx_lo p i ltac:(unfold core_start in Hi; lia)). pose proof (idx_lo_hi i). lia.
  - (* ... and that against x0 alone *)
    rewrite <- (slice_firstn (enc_sextets bs')). rewrite <- (slice_firstn (enc_sextets x0)).
    rewrite Hce. unfold bs'. rewrite <- Hx0. rewrite enc_prefix. reflexivity.
Qed.

Lemma prefix_eqb_firstn : forall (v l : bytes), prefix_b N.eqb v l = true -> firstn (length v) l = v.
Proof.
  induction v as [|x v IH]; intros l H; [reflexivity|].
  destruct l as [|y l]; cbn [prefix_b] in H; [discriminate|].
  apply andb_true_iff in H. destruct H as [H1 H2]. apply N.eqb_eq in H1. subst y.
  cbn [length firstn]. f_equal. apply IH. exact H2.
Qed.

(* what the specification's window gives: the characters of the core, the strict
   decoding, characters of the alphabet only *)
Lemma window_facts : forall alpha cs bs lit p,
  alphabet_ok alpha -> lit <> [] ->
  b64_decode alpha cs = Some bs ->
  length bs mod 3 = 0 -> p + length lit <= length bs ->
  prefix_b N.eqb lit (skipn p bs) = true ->
  slice cs (core_start p) (core_len p (length lit)) =
    slice (b64_encode alpha (repeat 88%N p ++ lit)) (core_start p) (core_len p (length lit)) /\
  b64_decode_strict alpha cs = Some bs /\
  (forall c, In c cs -> In c alpha) /\
  length cs * 3 = length bs * 4.
Proof.
  intros alpha cs bs lit p [Hal Hnd] Hne Hdec Hmod Hlen Hpre.
  unfold b64_decode in Hdec. destruct (sextets alpha cs) as [l|] eqn:Es; [|discriminate].
  destruct (sextets_inv _ _ _ Hal Es) as [Hcs Hl].
  pose proof (PipelineB64Proofs.unsextets_length _ _ Hdec) as Hll.
  assert (Hq : exists q, length bs = 3 * q) by (exists (length bs / 3); nnlia).
  destruct Hq as [q Hq].
  assert (Hl4 : length l = 4 * q) by (rewrite Hll, Hq; unfold enc_len; nnlia).
  assert (Hm4 : length l mod 4 = 0) by (rewrite Hl4; nnlia).
  destruct (unsextets_full _ _ Hl Hm4 Hdec) as [El _].
  split; [|split; [|split]].
  - rewrite Hcs, slice_map, El. unfold b64_encode. rewrite slice_map. f_equal.
    apply (core_of_window bs lit p q Hq Hne Hlen). apply prefix_eqb_firstn. exact Hpre.
  - unfold b64_decode_strict. rewrite Es. rewrite unsextets_strict_full by exact Hm4. exact Hdec.
  - intros c Hc. rewrite Hcs in Hc. apply in_map_iff in Hc. destruct Hc as [v [<- Hv]].
    rewrite Forall_forall in Hl. specialize (Hl v Hv). unfold sext. apply nth_In. rewrite Hal. lia.
  - rewrite Hcs, map_length, Hl4, Hq. lia.
Qed.

Lemma strip_padding_id : forall s, (forall c, In c s -> c <> 61%N) -> strip_padding s = s.
Proof.
  intros s H. unfold strip_padding. destruct (rev s) as [|x r] eqn:E; [reflexivity|].
  assert (Hx : In x s) by (apply in_rev; rewrite E; left; reflexivity).
  pose proof (H x Hx) as Hne.
  destruct x as [|px]; [reflexivity|].
  repeat (destruct px as [px|px|]; try reflexivity; try (exfalso; apply Hne; reflexivity)).
Qed.

Lemma slice_slice : forall (l : bytes) a b c k, c + k <= b -> slice (slice l a b) c k = slice l (a + c) k.
Proof.
  intros l a b c k H. unfold slice. rewrite skipn_firstn_comm, firstn_firstn.
  replace (Nat.min k (b - c)) with k by lia. rewrite PipelineProofs.skipn_add. reflexivity.
Qed.

Lemma slice_length_le : forall (l : bytes) a k, a + k <= length l -> length (slice l a k) = k.
Proof. intros. apply slice_length. assumption. Qed.

(* ---- completeness, ascii encoding ----------------------------------------------- *)
Definition nof : spflags := mkF false false false false.

Lemma mod3_pad : forall m, (m + (3 - m mod 3) mod 3) mod 3 = 0.
Proof. intro m. nnlia. Qed.

Theorem pipeline_base64_complete_ascii : forall lit d p alpha atoms s,
  alphabet_ok alpha -> ~ In 61%N alpha -> p <= 2 -> lit <> [] ->
  atoms_ok (mkSP (KBase64 lit p alpha false) nof) (0, 0)%N atoms = true ->
  b64_occ_at alpha false lit p ((3 - (p + length lit) mod 3) mod 3) d s (core_len p (length lit) * 1) = true ->
  exists a pos, In a atoms /\ atom_at a d pos = true /\
    handle_atom_match (mkSP (KBase64 lit p alpha false) nof) a pos d = Some (s, s + core_len p (length lit) * 1, None).
Proof.
  intros lit d p alpha atoms s Hal Hno61 Hp Hne Hok Hocc.
  set (n := length lit) in *. assert (Hn : 1 <= n) by (unfold n; destruct lit; [congruence|cbn [length]; lia]).
  set (y := (3 - (p + n) mod 3) mod 3) in *. set (m := p + n + y). set (dlen := enc_len m).
  rewrite Nat.mul_1_r in *.
  unfold b64_occ_at in Hocc. fold n in Hocc. cbn [unit_of] in Hocc. rewrite !Nat.mul_1_r in Hocc. fold m dlen in Hocc.
  rewrite !andb_true_iff in Hocc. destruct Hocc as [[[H1 _] H3] H4]. apply Nat.leb_le in H1, H3.
  set (ws := s - core_start p) in *.
  unfold window in H4. set (raw := firstn dlen (skipn ws d)) in *.
  destruct (Nat.eqb (length raw) dlen) eqn:Eraw; [|discriminate]. apply Nat.eqb_eq in Eraw.
  destruct (b64_decode alpha raw) as [bs|] eqn:Edec; [|discriminate].
  apply andb_true_iff in H4. destruct H4 as [Hbl Hpre]. apply Nat.eqb_eq in Hbl.
  assert (Hmod : length bs mod 3 = 0) by (rewrite Hbl; unfold m, y; apply mod3_pad).
  destruct (window_facts alpha raw bs lit p Hal Hne Edec Hmod ltac:(fold n; lia) Hpre) as [Hcore [Hstrict [Hchars _]]].
  fold n in Hcore.
  pose proof (core_end p n Hn) as Hce.
  assert (Hcd : core_start p + core_len p n <= dlen).
  { rewrite Hce. unfold dlen, enc_len. assert (8 * (p + n) <= 8 * m) by (unfold m; lia).
    assert (8 * (p + n) / 6 <= 8 * m / 6) by (apply Nat.div_le_mono; lia). nnlia. }
  (* the data under the match is the core *)
  set (core := slice (b64_encode alpha (repeat 88%N p ++ lit)) (core_start p) (core_len p n)) in *.
  assert (Hdata : slice d s (core_len p n) = core).
  { rewrite <- Hcore. unfold raw. replace s with (ws + core_start p) by (unfold ws; lia).
    unfold slice. rewrite <- PipelineProofs.skipn_add. rewrite skipn_firstn_comm, firstn_firstn. f_equal. lia. }
  assert (Hcl : length core = core_len p n).
  { rewrite <- Hdata. apply slice_length. lia. }
  (* the atom *)
  unfold atoms_ok in Hok. cbn [sp_kind] in Hok. fold n core in Hok.
  apply andb_true_iff in Hok. destruct Hok as [Hex Hcov]. rewrite existsb_lazy_eq in Hcov.
  apply existsb_exists in Hcov. destruct Hcov as [a0 [Ha0 Hc0]]. rewrite !andb_true_iff in Hc0.
  destruct Hc0 as [[Hl1 Hl2] Hb]. apply Nat.leb_le in Hl1, Hl2. apply bytes_eqb_eq in Hb.
  set (len := length (a_bytes a0)) in *.
  rewrite forallb_forall in Hex. specialize (Hex a0 Ha0). apply negb_true_iff in Hex.
  exists a0, (s + a_bt a0). split; [exact Ha0|]. split.
  - unfold atom_at. fold len. apply andb_true_iff. split; [apply Nat.leb_le; lia|]. apply bytes_eqb_eq.
    rewrite Hb. rewrite <- Hdata. rewrite slice_slice by lia. reflexivity.
  - unfold handle_atom_match. replace (Nat.ltb (s + a_bt a0) (a_bt a0)) with false by (symmetry; apply Nat.ltb_ge; lia).
    replace (s + a_bt a0 - a_bt a0) with s by lia. rewrite Hex. cbn [sp_kind sp_flags].
    unfold verify_base64. fold n. rewrite (b64_table_formulas p n Hp Hn). fold y m dlen.
    cbn [unit_of]. rewrite !Nat.mul_1_r.
    replace (Nat.ltb s (core_start p)) with false by (symmetry; apply Nat.ltb_ge; lia).
    fold ws raw.
    rewrite strip_padding_id by (intros c Hc E; subst c; apply Hno61; apply Hchars; exact Hc).
    rewrite Hstrict.
    replace (Nat.leb (p + n) (length bs)) with true by (symmetry; apply Nat.leb_le; lia).
    replace (Nat.leb (s + core_len p n) (length d)) with true by (symmetry; apply Nat.leb_le; lia).
    replace (bytes_eqb (slice bs p n) lit) with true
      by (symmetry; apply bytes_eqb_eq; unfold slice; apply prefix_eqb_firstn; exact Hpre).
    reflexivity.
Qed.

(* ---- completeness, wide encoding -------------------------------------------------- *)
Lemma widen_len : forall l, length (widen l) = 2 * length l.
Proof. induction l as [|a l IH]; cbn [widen length]; lia. Qed.

Lemma firstn_widen : forall l k, firstn (2 * k) (widen l) = widen (firstn k l).
Proof.
  induction l as [|a l IH]; intros k; [destruct k; [reflexivity|replace (2 * S k) with (S (S (2 * k))) by lia; reflexivity]|].
  destruct k as [|k]; [reflexivity|]. replace (2 * S k) with (S (S (2 * k))) by lia.
  cbn [widen firstn]. rewrite IH. reflexivity.
Qed.

Lemma skipn_widen : forall l k, skipn (2 * k) (widen l) = widen (skipn k l).
Proof.
  induction l as [|a l IH]; intros k; [destruct k; [reflexivity|replace (2 * S k) with (S (S (2 * k))) by lia; reflexivity]|].
  destruct k as [|k]; [reflexivity|]. replace (2 * S k) with (S (S (2 * k))) by lia.
  cbn [widen skipn]. apply IH.
Qed.

Lemma unwiden_firstn_widen : forall s cs, unwiden s = Some cs -> forall k, 2 * k <= length s ->
  firstn (2 * k) s = widen (firstn k cs).
Proof.
  fix IH 1. intros [|c [|z t]] cs H k Hk; cbn [unwiden] in H.
  - inversion H. cbn [length] in Hk. assert (k = 0) by lia. subst k. reflexivity.
  - inversion H. cbn [length] in Hk. assert (k = 0) by lia. subst k. reflexivity.
  - destruct (z =? 0)%N eqn:Ez; [|discriminate]. apply N.eqb_eq in Ez. subst z.
    destruct (unwiden t) as [r|] eqn:E; [|discriminate]. inversion H; subst cs.
    destruct k as [|k]; [reflexivity|]. replace (2 * S k) with (S (S (2 * k))) by lia.
    cbn [firstn widen]. cbn [length] in Hk. rewrite (IH t r E k) by lia. reflexivity.
Qed.

Lemma unwiden_elems : forall s cs, unwiden s = Some cs -> forall b, In b s -> In b cs \/ b = 0%N.
Proof.
  fix IH 1. intros [|c [|z t]] cs H b Hb; cbn [unwiden] in H.
  - destruct Hb.
  - inversion H; subst cs. destruct Hb as [<-|[]]. left. left. reflexivity.
  - destruct (z =? 0)%N eqn:Ez; [|discriminate]. apply N.eqb_eq in Ez. subst z.
    destruct (unwiden t) as [r|] eqn:E; [|discriminate]. inversion H; subst cs.
    destruct Hb as [<-|[<-|Hb]]; [left; left; reflexivity|right; reflexivity|].
    destruct (IH t r E b Hb) as [Hi|Hz]; [left; right; exact Hi|right; exact Hz].
Qed.

Theorem pipeline_base64_complete_wide : forall lit d p alpha atoms s,
  alphabet_ok alpha -> ~ In 61%N alpha -> p <= 2 -> lit <> [] ->
  atoms_ok (mkSP (KBase64 lit p alpha true) nof) (0, 0)%N atoms = true ->
  b64_occ_at alpha true lit p ((3 - (p + length lit) mod 3) mod 3) d s (core_len p (length lit) * 2) = true ->
  exists a pos, In a atoms /\ atom_at a d pos = true /\
    handle_atom_match (mkSP (KBase64 lit p alpha true) nof) a pos d = Some (s, s + core_len p (length lit) * 2, None).
Proof.
  intros lit d p alpha atoms s Hal Hno61 Hp Hne Hok Hocc.
  set (n := length lit) in *. assert (Hn : 1 <= n) by (unfold n; destruct lit; [congruence|cbn [length]; lia]).
  set (y := (3 - (p + n) mod 3) mod 3) in *. set (m := p + n + y). set (dlen := enc_len m).
  unfold b64_occ_at in Hocc. fold n in Hocc. cbn [unit_of] in Hocc. fold m dlen in Hocc.
  rewrite !andb_true_iff in Hocc. destruct Hocc as [[[H1 _] H3] H4]. apply Nat.leb_le in H1, H3.
  set (ws := s - core_start p * 2) in *.
  unfold window in H4. set (raw := firstn (2 * dlen) (skipn ws d)) in *.
  destruct (Nat.leb (2 * dlen - 1) (length raw)) eqn:Eraw; [|discriminate]. apply Nat.leb_le in Eraw.
  destruct (unwiden raw) as [cs|] eqn:Eu; [|discriminate].
  destruct (b64_decode alpha cs) as [bs|] eqn:Edec; [|discriminate].
  apply andb_true_iff in H4. destruct H4 as [Hbl Hpre]. apply Nat.eqb_eq in Hbl.
  assert (Hmod : length bs mod 3 = 0) by (rewrite Hbl; unfold m, y; apply mod3_pad).
  destruct (window_facts alpha cs bs lit p Hal Hne Edec Hmod ltac:(fold n; lia) Hpre) as [Hcore [Hstrict [Hchars Hcslen]]].
  fold n in Hcore.
  pose proof (core_end p n Hn) as Hce.
  assert (Hcd : core_start p + core_len p n <= dlen).
  { rewrite Hce. unfold dlen, enc_len. assert (8 * (p + n) <= 8 * m) by (unfold m; lia).
    assert (8 * (p + n) / 6 <= 8 * m / 6) by (apply Nat.div_le_mono; lia). nnlia. }
  set (core := slice (b64_encode alpha (repeat 88%N p ++ lit)) (core_start p) (core_len p n)) in *.
  set (cs0 := core_start p) in *. set (cl := core_len p n) in *.
  (* the data under the match is the widened core *)
  assert (Hxlen : 2 * (cs0 + cl) <= length (skipn ws d)) by (rewrite skipn_length; unfold ws; lia).
  assert (Hrawlen : 2 * (cs0 + cl) <= length raw) by (unfold raw; rewrite firstn_length; lia).
  assert (Hdata : slice d s (cl * 2) = widen core).
  { rewrite <- Hcore. replace s with (ws + 2 * cs0) by (unfold ws; lia).
    unfold slice. rewrite <- PipelineProofs.skipn_add.
    replace (cl * 2) with (2 * (cs0 + cl) - 2 * cs0) by lia. rewrite <- skipn_firstn_comm.
    replace (firstn (2 * (cs0 + cl)) (skipn ws d)) with (firstn (2 * (cs0 + cl)) raw)
      by (unfold raw; rewrite firstn_firstn; f_equal; lia).
    rewrite (unwiden_firstn_widen _ _ Eu (cs0 + cl) Hrawlen). rewrite skipn_widen.
    rewrite skipn_firstn_comm. replace (cs0 + cl - cs0) with cl by lia. reflexivity. }
  assert (Hcl : length core = cl).
  { assert (E : length (widen core) = cl * 2) by (rewrite <- Hdata; apply slice_length; lia). rewrite widen_len in E. lia. }
  (* the atom *)
  unfold atoms_ok in Hok. cbn [sp_kind] in Hok. fold n in Hok. fold cs0 cl in Hok. fold core in Hok.
  apply andb_true_iff in Hok. destruct Hok as [Hex Hcov]. rewrite existsb_lazy_eq in Hcov.
  apply existsb_exists in Hcov. destruct Hcov as [a0 [Ha0 Hc0]]. rewrite !andb_true_iff in Hc0.
  destruct Hc0 as [[Hl1 Hl2] Hb]. apply Nat.leb_le in Hl1, Hl2. apply bytes_eqb_eq in Hb.
  set (len := length (a_bytes a0)) in *. rewrite widen_len, Hcl in Hl2.
  rewrite forallb_forall in Hex. specialize (Hex a0 Ha0). apply negb_true_iff in Hex.
  exists a0, (s + a_bt a0). split; [exact Ha0|]. split.
  - unfold atom_at. fold len. apply andb_true_iff. split; [apply Nat.leb_le; lia|]. apply bytes_eqb_eq.
    rewrite Hb. rewrite <- Hdata. rewrite slice_slice by lia. reflexivity.
  - unfold handle_atom_match. replace (Nat.ltb (s + a_bt a0) (a_bt a0)) with false by (symmetry; apply Nat.ltb_ge; lia).
    replace (s + a_bt a0 - a_bt a0) with s by lia. rewrite Hex. cbn [sp_kind sp_flags].
    unfold verify_base64. fold n. rewrite (b64_table_formulas p n Hp Hn). fold y m dlen cs0 cl.
    cbn [unit_of].
    replace (Nat.ltb s (cs0 * 2)) with false by (symmetry; apply Nat.ltb_ge; lia).
    fold ws. replace (dlen * 2) with (2 * dlen) by lia. fold raw.
    unfold wide_chars. rewrite Eu.
    rewrite strip_padding_id by (intros c Hc E; subst c; apply Hno61; apply Hchars; exact Hc).
    rewrite Hstrict.
    replace (Nat.leb (p + n) (length bs)) with true by (symmetry; apply Nat.leb_le; lia).
    replace (Nat.leb (s + cl * 2) (length d)) with true by (symmetry; apply Nat.leb_le; lia).
    replace (bytes_eqb (slice bs p n) lit) with true
      by (symmetry; apply bytes_eqb_eq; unfold slice; apply prefix_eqb_firstn; exact Hpre).
    reflexivity.
Qed.

(* the statement of PipelineProofs with the side conditions it needs *)
Theorem pipeline_base64_complete_partial : forall lit d p alpha wide atoms s,
  alphabet_ok alpha -> ~ In 61%N alpha -> p <= 2 -> lit <> [] ->
  let sp := mkSP (KBase64 lit p alpha wide) (mkF false false false false) in
  atoms_ok sp (0, 0)%N atoms = true ->
  b64_occ_at alpha wide lit p ((3 - (p + length lit) mod 3) mod 3) d s (core_len p (length lit) * unit_of wide) = true ->
  exists a pos, In a atoms /\ atom_at a d pos = true /\
                handle_atom_match sp a pos d = Some (s, s + core_len p (length lit) * unit_of wide, None).
Proof.
  intros lit d p alpha wide atoms s Hal H61 Hp Hne sp Hok Hocc. destruct wide; cbn [unit_of] in *.
  - apply pipeline_base64_complete_wide; assumption.
  - apply pipeline_base64_complete_ascii; assumption.
Qed.
