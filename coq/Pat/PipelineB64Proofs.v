(* Base64 member of the literal family: soundness of verify_base64 (the model of
   Pipeline.v, compared exactly with the implementation in K stream d) with
   respect to the specification Modifiers.b64_occ_at, for the ascii encoding
   (Base64 / CustomBase64).  The wide encoding and completeness stay stated
   (PipelineProofs.pipeline_base64_*_partial_statement). *)
From Coq Require Import List NArith ZArith Bool Arith Lia.
From YV Require Import Pat.Syntax Pat.Sem Pat.Matcher Pat.Modifiers Pat.ModifiersProofs
  Pat.Base64 Pat.MatchList Pat.Atoms Pat.Pipeline Pat.PipelineProofs.
Import ListNotations.

(* ---- decoding a prefix ---------------------------------------------------- *)
Lemma sextets_firstn : forall a cs l k, sextets a cs = Some l -> sextets a (firstn k cs) = Some (firstn k l).
Proof.
  intros a cs. induction cs as [|c cs IH]; intros l k H; cbn [sextets] in H.
  - inversion H. destruct k; reflexivity.
  - destruct (index_of c a 0) as [v|] eqn:E; [|discriminate].
    destruct (sextets a cs) as [r|] eqn:Er; [|discriminate]. inversion H; subst.
    destruct k as [|k]; [reflexivity|]. cbn [firstn sextets]. rewrite E, (IH r k eq_refl). reflexivity.
Qed.

Lemma sextets_length : forall a cs l, sextets a cs = Some l -> length l = length cs.
Proof.
  intros a cs. induction cs as [|c cs IH]; intros l H; cbn [sextets] in H.
  - inversion H. reflexivity.
  - destruct (index_of c a 0); [|discriminate]. destruct (sextets a cs) as [r|]; [|discriminate].
    inversion H. cbn [length]. f_equal. apply IH. reflexivity.
Qed.

Lemma enc_len_small : enc_len 0 = 0 /\ enc_len 1 = 2 /\ enc_len 2 = 3.
Proof. vm_compute. auto. Qed.

Lemma enc_len_plus3 : forall k, enc_len (3 + k) = 4 + enc_len k.
Proof. intro k. replace (3 + k) with (3 * 1 + k) by lia. rewrite enc_len_3q. lia. Qed.

Lemma enc_len_mono : forall a b, a <= b -> enc_len a <= enc_len b.
Proof. intros a b H. unfold enc_len. apply Nat.div_le_mono; lia. Qed.

(* the bytes of a prefix of the characters are a prefix of the bytes *)
Lemma unsextets_firstn : forall l bs, unsextets l = Some bs ->
  forall k, k <= length bs -> unsextets (firstn (enc_len k) l) = Some (firstn k bs).
Proof.
  fix IH 1. intros [|a [|b [|c [|e t]]]] bs H k Hk; cbn [unsextets] in H.
  - inversion H; subst. cbn [length] in Hk. assert (k = 0) by lia. subst. reflexivity.
  - discriminate.
  - inversion H; subst. cbn [length] in Hk.
    destruct k as [|[|k]]; [reflexivity|reflexivity|lia].
  - inversion H; subst. cbn [length] in Hk.
    destruct k as [|[|[|k]]]; [reflexivity|reflexivity|reflexivity|lia].
  - destruct (unsextets t) as [r|] eqn:E; [|discriminate]. inversion H; subst. cbn [length] in Hk.
    destruct k as [|[|[|k]]]; [reflexivity|reflexivity|reflexivity|].
    change (S (S (S k))) with (3 + k). rewrite enc_len_plus3. cbn [Nat.add firstn unsextets].
    rewrite (IH t r E k) by lia. reflexivity.
Qed.

Lemma unsextets_length : forall l bs, unsextets l = Some bs -> length l = enc_len (length bs).
Proof.
  fix IH 1. intros [|a [|b [|c [|e t]]]] bs H; cbn [unsextets] in H; try discriminate; try (inversion H; reflexivity).
  destruct (unsextets t) as [r|] eqn:E; [|discriminate]. inversion H; subst. cbn [length].
  rewrite (IH t r E). change (S (S (S (length r)))) with (3 + length r). rewrite enc_len_plus3. lia.
Qed.

Lemma b64_decode_firstn : forall a cs bs k, b64_decode a cs = Some bs -> k <= length bs ->
  b64_decode a (firstn (enc_len k) cs) = Some (firstn k bs).
Proof.
  intros a cs bs k H Hk. unfold b64_decode in *. destruct (sextets a cs) as [l|] eqn:E; [|discriminate].
  rewrite (sextets_firstn _ _ _ _ E). apply unsextets_firstn; assumption.
Qed.

Lemma b64_decode_length : forall a cs bs, b64_decode a cs = Some bs -> length cs = enc_len (length bs).
Proof.
  intros a cs bs H. unfold b64_decode in H. destruct (sextets a cs) as [l|] eqn:E; [|discriminate].
  rewrite <- (sextets_length _ _ _ E). apply unsextets_length. exact H.
Qed.

(* ---- the window ----------------------------------------------------------- *)
Lemma strip_padding_prefix : forall s, exists t, s = strip_padding s ++ t.
Proof.
  intro s. unfold strip_padding. destruct (rev s) as [|x [|y r]] eqn:E.
  - exists []. rewrite app_nil_r. reflexivity.
  - destruct (N.eq_dec x 61) as [->|Hx].
    + exists [61%N]. rewrite <- (rev_involutive s), E. reflexivity.
    + exists []. rewrite app_nil_r. destruct x as [|px]; [reflexivity|].
      repeat (destruct px as [px|px|]; try reflexivity; try (exfalso; apply Hx; reflexivity)).
  - destruct (N.eq_dec x 61) as [->|Hx].
    + destruct (N.eq_dec y 61) as [->|Hy].
      * exists [61%N; 61%N]. rewrite <- (rev_involutive s), E. cbn [rev]. rewrite <- !app_assoc. reflexivity.
      * exists [61%N]. rewrite <- (rev_involutive s), E.
        destruct y as [|py]; [cbn [rev]; rewrite <- !app_assoc; reflexivity|].
        repeat (destruct py as [py|py|]; try (cbn [rev]; rewrite <- !app_assoc; reflexivity); try (exfalso; apply Hy; reflexivity)).
    + exists []. rewrite app_nil_r. destruct x as [|px]; [reflexivity|].
      repeat (destruct px as [px|px|]; try reflexivity; try (exfalso; apply Hx; reflexivity)).
Qed.

Lemma firstn_prefix : forall (A : Type) (l t : list A) k, k <= length l -> firstn k (l ++ t) = firstn k l.
Proof. intros. rewrite firstn_app. replace (k - length l) with 0 by lia. cbn [firstn]. apply app_nil_r. Qed.

Lemma prefix_b_eqb_firstn : forall (lit l : bytes), firstn (length lit) l = lit -> prefix_b N.eqb lit l = true.
Proof.
  induction lit as [|x lit IH]; intros l H; [reflexivity|].
  destruct l as [|y l]; [discriminate|]. cbn [length firstn] in H. injection H as Hy Hl. subst y.
  cbn [prefix_b]. rewrite N.eqb_refl. cbn [andb]. apply IH. exact Hl.
Qed.

(* ---- soundness, ascii encoding -------------------------------------------- *)
Theorem pipeline_base64_sound_ascii_partial : forall lit d p pos alpha s e,
  p <= 2 -> lit <> [] ->
  verify_base64 lit d p pos alpha false = Some (s, e) ->
  sp_match (mkSP (KBase64 lit p alpha false) (mkF false false false false)) (0, 0)%N d s = Some (e, None).
Proof.
  intros lit d p pos alpha s e Hp Hne H.
  set (n := length lit) in *. assert (Hn : 1 <= n) by (unfold n; destruct lit; [congruence|cbn [length]; lia]).
  unfold verify_base64 in H. fold n in H. rewrite (b64_table_formulas p n Hp Hn) in H.
  cbn [unit_of] in H. rewrite !Nat.mul_1_r in H.
  set (dlen := enc_len (p + n + (3 - (p + n) mod 3) mod 3)) in *.
  destruct (Nat.ltb pos (core_start p)) eqn:Lt; [discriminate|]. apply Nat.ltb_ge in Lt.
  set (ws := pos - core_start p) in *. set (raw := firstn dlen (skipn ws d)) in *.
  destruct (b64_decode_strict alpha (strip_padding raw)) as [dec|] eqn:Ed; [|discriminate].
  destruct (Nat.leb (p + n) (length dec) && Nat.leb (pos + core_len p n) (length d) && bytes_eqb (slice dec p n) lit) eqn:C;
    [|discriminate].
  inversion H; subst s e. clear H. rewrite !andb_true_iff in C. destruct C as [[C1 C2] C3].
  apply Nat.leb_le in C1, C2. apply bytes_eqb_eq in C3.
  apply b64_decode_strict_loose in Ed.
  (* how many bytes after the text are covered *)
  set (y := Nat.min 2 (length dec - (p + n))).
  assert (Hy : y <= 2) by (unfold y; lia). assert (Hk : p + n + y <= length dec) by (unfold y; lia).
  set (L := enc_len (p + n + y)).
  pose proof (b64_decode_length _ _ _ Ed) as Hlen.
  assert (HL : L <= length (strip_padding raw)) by (rewrite Hlen; apply enc_len_mono; exact Hk).
  destruct (strip_padding_prefix raw) as [t1 Ht1].
  assert (Hraw : exists t2, skipn ws d = raw ++ t2) by (exists (skipn dlen (skipn ws d)); unfold raw; symmetry; apply firstn_skipn).
  destruct Hraw as [t2 Ht2].
  assert (Hcs : firstn L (skipn ws d) = firstn L (strip_padding raw)).
  { rewrite Ht2. remember (strip_padding raw) as spr. rewrite Ht1, <- app_assoc. apply firstn_prefix. exact HL. }
  unfold sp_match. cbn [sp_kind]. unfold b64_match_len. fold n. cbn [unit_of]. rewrite Nat.mul_1_r.
  assert (Hocc : b64_occ_at alpha false lit p y d pos (core_len p n) = true).
  { unfold b64_occ_at. fold n. cbn [unit_of]. rewrite !Nat.mul_1_r. fold ws. fold L.
    rewrite !andb_true_iff. repeat split.
    - apply Nat.leb_le. exact Lt.
    - apply Nat.eqb_refl.
    - apply Nat.leb_le. exact C2.
    - unfold window. rewrite Hcs. rewrite firstn_length_le by exact HL. rewrite Nat.eqb_refl.
      unfold L. rewrite (b64_decode_firstn _ _ _ _ Ed Hk).
      rewrite firstn_length_le by exact Hk. rewrite Nat.eqb_refl. cbn [andb].
      apply prefix_b_eqb_firstn. fold n.
      rewrite skipn_firstn_comm, firstn_firstn. replace (Nat.min n (p + n + y - p)) with n by lia.
      exact C3. }
  assert (Hex : existsb (fun ylen => b64_occ_at alpha false lit p ylen d pos (core_len p n)) [0; 1; 2] = true).
  { apply existsb_exists. exists y. split; [cbn [In]; lia|exact Hocc]. }
  rewrite Hex. reflexivity.
Qed.

(* ---- soundness, wide encoding ----------------------------------------------------- *)
Lemma unwiden_length : forall s cs, unwiden s = Some cs -> 2 * length cs - 1 <= length s /\ length s <= 2 * length cs.
Proof.
  fix IH 1. intros [|c [|z t]] cs H; cbn [unwiden] in H.
  - inversion H. cbn [length]. lia.
  - inversion H. cbn [length]. lia.
  - destruct (z =? 0)%N; [|discriminate]. destruct (unwiden t) as [r|] eqn:E; [|discriminate].
    inversion H; subst cs. destruct (IH t r E). cbn [length]. lia.
Qed.

Lemma unwiden_firstn : forall s cs, unwiden s = Some cs -> forall k, k <= length cs ->
  unwiden (firstn (2 * k) s) = Some (firstn k cs).
Proof.
  fix IH 1. intros [|c [|z t]] cs H k Hk; cbn [unwiden] in H.
  - inversion H; subst cs. cbn [length] in Hk. assert (k = 0) by lia. subst k. reflexivity.
  - inversion H; subst cs. cbn [length] in Hk. destruct k as [|[|k]]; [reflexivity|reflexivity|lia].
  - destruct (z =? 0)%N eqn:Ez; [|discriminate]. destruct (unwiden t) as [r|] eqn:E; [|discriminate].
    inversion H; subst cs. destruct k as [|k]; [reflexivity|].
    replace (2 * S k) with (S (S (2 * k))) by lia. cbn [firstn unwiden]. rewrite Ez.
    cbn [length] in Hk. rewrite (IH t r E k) by lia. reflexivity.
Qed.

Lemma firstn_In_bytes : forall (l : bytes) k b, In b (firstn k l) -> In b l.
Proof.
  induction l as [|a l IH]; intros k b H; destruct k; cbn [firstn] in H; try destruct H.
  - left. assumption.
  - right. eapply IH. eassumption.
Qed.

Theorem pipeline_base64_sound_wide : forall lit d p pos alpha s e,
  p <= 2 -> lit <> [] ->
  verify_base64 lit d p pos alpha true = Some (s, e) ->
  sp_match (mkSP (KBase64 lit p alpha true) (mkF false false false false)) (0, 0)%N d s = Some (e, None).
Proof.
  intros lit d p pos alpha s e Hp Hne H.
  set (n := length lit) in *. assert (Hn : 1 <= n) by (unfold n; destruct lit; [congruence|cbn [length]; lia]).
  unfold verify_base64 in H. fold n in H. rewrite (b64_table_formulas p n Hp Hn) in H.
  cbn [unit_of] in H.
  set (dlen := enc_len (p + n + (3 - (p + n) mod 3) mod 3)) in *.
  destruct (Nat.ltb pos (core_start p * 2)) eqn:Lt; [discriminate|]. apply Nat.ltb_ge in Lt.
  set (ws := pos - core_start p * 2) in *. set (raw := firstn (dlen * 2) (skipn ws d)) in *.
  unfold wide_chars in H.
  destruct (unwiden raw) as [cs|] eqn:Eu; [|discriminate].
  destruct (b64_decode_strict alpha (strip_padding cs)) as [dec|] eqn:Ed; [|discriminate].
  destruct (Nat.leb (p + n) (length dec) && Nat.leb (pos + core_len p n * 2) (length d) && bytes_eqb (slice dec p n) lit) eqn:C;
    [|discriminate].
  inversion H; subst s e. clear H. rewrite !andb_true_iff in C. destruct C as [[C1 C2] C3].
  apply Nat.leb_le in C1, C2. apply bytes_eqb_eq in C3.
  apply b64_decode_strict_loose in Ed.
  set (y := Nat.min 2 (length dec - (p + n))).
  assert (Hy : y <= 2) by (unfold y; lia). assert (Hk : p + n + y <= length dec) by (unfold y; lia).
  set (L := enc_len (p + n + y)).
  pose proof (b64_decode_length _ _ _ Ed) as Hlen.
  assert (HL : L <= length (strip_padding cs)) by (rewrite Hlen; apply enc_len_mono; exact Hk).
  destruct (strip_padding_prefix cs) as [t1 Ht1].
  assert (HLcs : L <= length cs).
  { rewrite Ht1, app_length. lia. }
  assert (Hpre : firstn L cs = firstn L (strip_padding cs)).
  { remember (strip_padding cs) as spc. rewrite Ht1. apply firstn_prefix. exact HL. }
  destruct (unwiden_length _ _ Eu) as [Hl1 Hl2].
  assert (Hrawlen : length raw <= dlen * 2) by (unfold raw; apply firstn_le_length).
  assert (HLd : 2 * L <= dlen * 2) by lia.
  assert (Hcs : firstn (2 * L) (skipn ws d) = firstn (2 * L) raw).
  { unfold raw. rewrite firstn_firstn. f_equal. lia. }
  unfold sp_match. cbn [sp_kind]. unfold b64_match_len. fold n. cbn [unit_of].
  assert (Hocc : b64_occ_at alpha true lit p y d pos (core_len p n * 2) = true).
  { unfold b64_occ_at. fold n. cbn [unit_of]. fold ws. fold L.
    rewrite !andb_true_iff. repeat split.
    - apply Nat.leb_le. exact Lt.
    - apply Nat.eqb_refl.
    - apply Nat.leb_le. exact C2.
    - unfold window. rewrite Hcs.
      assert (Hle : Nat.leb (2 * L - 1) (length (firstn (2 * L) raw)) = true).
      { apply Nat.leb_le. rewrite firstn_length. lia. }
      rewrite Hle. rewrite (unwiden_firstn _ _ Eu L HLcs). rewrite Hpre.
      unfold L. rewrite (b64_decode_firstn _ _ _ _ Ed Hk).
      rewrite firstn_length_le by exact Hk. rewrite Nat.eqb_refl. cbn [andb].
      apply prefix_b_eqb_firstn. fold n.
      rewrite skipn_firstn_comm, firstn_firstn. replace (Nat.min n (p + n + y - p)) with n by lia.
      exact C3. }
  assert (Hex : existsb (fun ylen => b64_occ_at alpha true lit p ylen d pos (core_len p n * 2)) [0; 1; 2] = true).
  { apply existsb_exists. exists y. split; [cbn [In]; lia|exact Hocc]. }
  rewrite Hex. reflexivity.
Qed.

(* the statement with a side condition that was provable before commit b2a39c9f *)
Corollary pipeline_base64_sound_wide_partial : pipeline_base64_sound_wide_partial_statement.
Proof. intros lit d p pos alpha s e Hp Hne _ H. eapply pipeline_base64_sound_wide; eassumption. Qed.

(* Regression (known finding C01:scan:base64wide-pad-inside-window, repaired by commit
   b2a39c9f): a '=' in the MIDDLE of a wide window is no longer dropped.  "foob"
   base64wide on the wide form of "..Zm9v=YgA..": rejected by the model, as by the
   specification; trailing padding still is: "..Zm9vYg==". *)
Definition b64w_pad_lit : bytes := [102; 111; 111; 98]%N.
Definition b64w_pad_data : bytes :=
  widen [46; 46; 90; 109; 57; 118; 61; 89; 103; 65; 46; 46]%N.
Definition b64w_trailing_pad_data : bytes :=
  widen [46; 46; 90; 109; 57; 118; 89; 103; 61; 61]%N.

Example base64wide_pad_inside_window_rejected :
  verify_base64 b64w_pad_lit b64w_pad_data 0 4 std_alphabet true = None /\
  sp_match (mkSP (KBase64 b64w_pad_lit 0 std_alphabet true) (mkF false false false false)) (0, 0)%N b64w_pad_data 4 = None /\
  verify_base64 b64w_pad_lit b64w_trailing_pad_data 0 4 std_alphabet true = Some (4, 14).
Proof. vm_compute. repeat split; reflexivity. Qed.
