(* A = R for the literal family: with correct atoms (atoms_ok) and a search
   automaton that reports every occurrence of every atom, in any order, the
   scan pipeline of Pipeline.v produces exactly the reference list sp_ref.

     pipeline_generic          the list-level argument (MatchList part)
     handle_sound_*            a verified hit is a match of the sub-pattern
     handle_complete_*         every match of the sub-pattern is found through some atom
     pipeline_literal / pipeline_masked / pipeline_xor
     pipeline_literal_family   the three together
     pipeline_anchored         verify_anchored_patterns
     pipeline_base64_sound_partial   (soundness only; completeness left stated) *)
From Coq Require Import List NArith ZArith Bool Arith Lia Sorted.
From YV Require Import Pat.Syntax Pat.Sem Pat.Matcher Pat.MatcherProofs Pat.Modifiers Pat.ModifiersProofs
  Pat.Base64 Pat.MatchList Pat.MatchListProofs Pat.Atoms Pat.Pipeline.
Import ListNotations.

(* ---- small list facts ---------------------------------------------------- *)
Lemma existsb_lazy_eq : forall (A : Type) (f : A -> bool) l, existsb_lazy f l = existsb f l.
Proof. induction l as [|a t IH]; cbn [existsb_lazy existsb]; [reflexivity|]. rewrite IH. destruct (f a); reflexivity. Qed.

Lemma bytes_eqb_eq : forall a b, bytes_eqb a b = true <-> a = b.
Proof.
  induction a as [|x a IH]; intros [|y b]; cbn [bytes_eqb]; try (split; [discriminate|intro H; inversion H]); [tauto|].
  rewrite andb_true_iff, N.eqb_eq, IH. split; [intros [-> ->]; reflexivity|intro H; inversion H; auto].
Qed.

(* ---- MatchList with replace_if_longer = false ---------------------------- *)
Lemma insert_at_In : forall i x l y, In y (insert_at i x l) -> y = x \/ In y l.
Proof.
  induction i as [|i IH]; intros x l y H; cbn [insert_at] in H.
  - destruct H as [H|H]; auto.
  - destruct l as [|h t]; cbn [In] in *.
    + destruct H as [H|[]]; auto.
    + destruct H as [H|H]; [auto|]. apply IH in H. tauto.
Qed.

Lemma ml_add_false_In : forall l m y, In y (fst (ml_add l m false)) -> y = m \/ In y l.
Proof.
  intros l m y H. unfold ml_add in H.
  destruct (last_opt l) as [last|].
  - destruct (m_start last <? m_start m)%N.
    + cbn [fst] in H. apply in_app_iff in H. destruct H as [H|[H|[]]]; auto.
    + destruct (m_start m =? m_start last)%N; [cbn [fst] in H; auto|].
      destruct (ml_search l (m_start m)) as [[|] i]; cbn [fst] in H; [auto|].
      apply insert_at_In in H. exact H.
  - cbn [fst] in H. apply in_app_iff in H. destruct H as [H|[H|[]]]; auto.
Qed.

Definition all_false (ms : list mtch) : list (mtch * bool) := map (fun m => (m, false)) ms.

Lemma run_adds_false_subset : forall ms y, In y (run_adds (all_false ms)) -> In y ms.
Proof.
  induction ms as [|m ms IH] using rev_ind; intros y H; [destruct H|].
  unfold all_false in *. rewrite map_app in H. cbn [map] in H. rewrite run_adds_snoc in H. cbn [fst snd] in H.
  apply ml_add_false_In in H. apply in_app_iff. destruct H as [->|H]; [right; left; reflexivity|left; apply IH; exact H].
Qed.

Lemma run_adds_starts : forall ops x,
  In x (map m_start (run_adds ops)) <-> In x (map (fun o => m_start (fst o)) ops).
Proof.
  induction ops as [|o ops IH] using rev_ind; intro x; [unfold run_adds; cbn [fold_left map In]; tauto|].
  rewrite run_adds_snoc, map_app, in_app_iff. cbn [map In].
  rewrite (add_start_set _ _ _ _ (run_adds_sorted ops)), IH.
  split; [intros [->|H]; [right; left; reflexivity|left; exact H]|intros [H|[H|[]]]; [right; exact H|left; symmetry; exact H]].
Qed.

(* two strictly ascending lists with the same elements are equal *)
Lemma sorted_ext_eq : forall l1 l2, sorted l1 -> sorted l2 ->
  (forall y, In y l1 <-> In y l2) -> l1 = l2.
Proof.
  induction l1 as [|a l1 IH]; intros l2 H1 H2 E.
  - destruct l2 as [|b l2]; [reflexivity|]. exfalso. apply (E b). left. reflexivity.
  - destruct l2 as [|b l2]; [exfalso; apply (E a); left; reflexivity|].
    apply sorted_cons_iff in H1. destruct H1 as [S1 G1]. apply sorted_cons_iff in H2. destruct H2 as [S2 G2].
    unfold all_gt in *. rewrite Forall_forall in G1, G2.
    assert (Hab : a = b).
    { assert (Ia : In a (b :: l2)) by (apply E; left; reflexivity).
      assert (Ib : In b (a :: l1)) by (apply E; left; reflexivity).
      destruct Ia as [Ia|Ia]; [auto|]. destruct Ib as [Ib|Ib]; [auto|].
      specialize (G2 _ Ia). specialize (G1 _ Ib). lia. }
    subst b. f_equal. apply IH; [exact S1|exact S2|].
    intro y. split; intro Hy.
    + assert (I : In y (a :: l2)) by (apply E; right; exact Hy). destruct I as [<-|I]; [|exact I].
      specialize (G1 _ Hy). lia.
    + assert (I : In y (a :: l1)) by (apply E; right; exact Hy). destruct I as [<-|I]; [|exact I].
      specialize (G2 _ Hy). lia.
Qed.

(* ---- the list-level argument -------------------------------------------- *)
Section Generic.
  Variable f : nat -> option (nat * option N).
  Variable n : nat.

  Definition ref_list : list (nat * nat * option N) :=
    flat_map (fun s => match f s with Some (e, k) => [(s, e, k)] | None => [] end) (seq 0 (S n)).

  Lemma ref_list_In : forall s e k, In (s, e, k) ref_list <-> (f s = Some (e, k) /\ s <= n).
  Proof.
    intros s e k. unfold ref_list. rewrite in_flat_map. split.
    - intros [s' [Hs H]]. apply in_seq in Hs. destruct (f s') as [[e' k']|] eqn:E; [|destruct H].
      destruct H as [H|[]]. inversion H; subst. split; [exact E|lia].
    - intros [E Hs]. exists s. split; [apply in_seq; lia|]. rewrite E. left. reflexivity.
  Qed.

  Lemma ref_from_sorted : forall len from,
    sorted (map mtch_of (flat_map (fun s => match f s with Some (e, k) => [(s, e, k)] | None => [] end) (seq from len))) /\
    Forall (fun m => (N.of_nat from <= m_start m)%N)
           (map mtch_of (flat_map (fun s => match f s with Some (e, k) => [(s, e, k)] | None => [] end) (seq from len))).
  Proof.
    induction len as [|len IH]; intro from; cbn [seq flat_map map]; [split; [apply sorted_nil|constructor]|].
    destruct (IH (S from)) as [Hs Hf].
    destruct (f from) as [[e k]|]; cbn [app map].
    - split.
      + apply sorted_cons_iff. split; [exact Hs|]. unfold all_gt. cbn [mtch_of m_start].
        eapply Forall_impl; [|exact Hf]. intros m Hm. cbn beta in Hm. lia.
      + constructor; [cbn [mtch_of m_start]; lia|]. eapply Forall_impl; [|exact Hf]. intros m Hm. cbn beta in Hm. lia.
    - split; [exact Hs|]. eapply Forall_impl; [|exact Hf]. intros m Hm. cbn beta in Hm. lia.
  Qed.

  Theorem pipeline_generic : forall L,
    (forall s e k, In (s, e, k) L <-> (f s = Some (e, k) /\ s <= n)) ->
    run_adds (all_false (map mtch_of L)) = map mtch_of ref_list.
  Proof.
    intros L HL. apply sorted_ext_eq.
    - apply run_adds_sorted.
    - apply (proj1 (ref_from_sorted (S n) 0)).
    - intro y. split.
      + intro H. apply run_adds_false_subset in H. apply in_map_iff in H. destruct H as [[[s e] k] [<- H]].
        apply in_map. apply ref_list_In. apply HL. exact H.
      + intro H. apply in_map_iff in H. destruct H as [[[s e] k] [<- H]]. apply ref_list_In in H.
        assert (HinL : In (s, e, k) L) by (apply HL; exact H).
        assert (Hst : In (N.of_nat s) (map m_start (run_adds (all_false (map mtch_of L))))).
        { apply run_adds_starts. unfold all_false. rewrite map_map. apply in_map_iff.
          exists (mtch_of (s, e, k)). split; [reflexivity|]. apply in_map. exact HinL. }
        apply in_map_iff in Hst. destruct Hst as [y' [Hy' Hin']].
        pose proof (run_adds_false_subset _ _ Hin') as Hsub. apply in_map_iff in Hsub.
        destruct Hsub as [[[s' e'] k'] [<- HinL']]. cbn [mtch_of m_start] in Hy'.
        assert (s' = s) by lia. subst s'. apply HL in HinL'. destruct HinL' as [E' _]. destruct H as [E _].
        rewrite E in E'. inversion E'; subst. exact Hin'.
  Qed.
End Generic.
