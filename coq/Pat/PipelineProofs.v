(* A = R for the literal family: with correct atoms (atoms_ok) and a search
   automaton that reports every occurrence of every atom, in any order, the
   scan pipeline of Pipeline.v produces exactly the reference list sp_ref.

     pipeline_generic          the list-level argument (MatchList part)
     handle_sound_*            a verified hit is a match of the sub-pattern
     handle_complete_*         every match of the sub-pattern is found through some atom
     pipeline_literal / pipeline_masked / pipeline_xor
     pipeline_literal_family   the three together
     pipeline_anchored         verify_anchored_patterns
     pipeline_base64_sound_partial   (soundness only; completeness left stated) *)
From Coq Require Import List NArith ZArith Bool Arith Lia Sorted.
From YV Require Import Pat.Syntax Pat.Sem Pat.Matcher Pat.MatcherProofs Pat.Modifiers Pat.ModifiersProofs
  Pat.Base64 Pat.MatchList Pat.MatchListProofs Pat.Atoms Pat.Pipeline.
Import ListNotations.

(* ---- small list facts ---------------------------------------------------- *)
Lemma existsb_lazy_eq : forall (A : Type) (f : A -> bool) l, existsb_lazy f l = existsb f l.
Proof. induction l as [|a t IH]; cbn [existsb_lazy existsb]; [reflexivity|]. rewrite IH. destruct (f a); reflexivity. Qed.

Lemma bytes_eqb_eq : forall a b, bytes_eqb a b = true <-> a = b.
Proof.
  induction a as [|x a IH]; intros [|y b]; cbn [bytes_eqb]; try (split; [discriminate|intro H; inversion H]); [tauto|].
  rewrite andb_true_iff, N.eqb_eq, IH. split; [intros [-> ->]; reflexivity|intro H; inversion H; auto].
Qed.

(* ---- MatchList with replace_if_longer = false ---------------------------- *)
Lemma insert_at_In : forall i x l y, In y (insert_at i x l) -> y = x \/ In y l.
Proof.
  induction i as [|i IH]; intros x l y H; cbn [insert_at] in H.
  - destruct H as [H|H]; auto.
  - destruct l as [|h t]; cbn [In] in *.
    + destruct H as [H|[]]; auto.
    + destruct H as [H|H]; [auto|]. apply IH in H. tauto.
Qed.

Lemma ml_add_false_In : forall l m y, In y (fst (ml_add l m false)) -> y = m \/ In y l.
Proof.
  intros l m y H. unfold ml_add in H.
  destruct (last_opt l) as [last|].
  - destruct (m_start last <? m_start m)%N.
    + cbn [fst] in H. apply in_app_iff in H. destruct H as [H|[H|[]]]; auto.
    + destruct (m_start m =? m_start last)%N; [cbn [fst] in H; auto|].
      destruct (ml_search l (m_start m)) as [[|] i]; cbn [fst] in H; [auto|].
      apply insert_at_In in H. exact H.
  - cbn [fst] in H. apply in_app_iff in H. destruct H as [H|[H|[]]]; auto.
Qed.

Definition all_false (ms : list mtch) : list (mtch * bool) := map (fun m => (m, false)) ms.

Lemma run_adds_false_subset : forall ms y, In y (run_adds (all_false ms)) -> In y ms.
Proof.
  induction ms as [|m ms IH] using rev_ind; intros y H; [destruct H|].
  unfold all_false in *. rewrite map_app in H. cbn [map] in H. rewrite run_adds_snoc in H. cbn [fst snd] in H.
  apply ml_add_false_In in H. apply in_app_iff. destruct H as [->|H]; [right; left; reflexivity|left; apply IH; exact H].
Qed.

(* ---- MatchList with replace_if_longer = true, fed with at most one match per start -- *)
Definition all_true (ms : list mtch) : list (mtch * bool) := map (fun m => (m, true)) ms.

Lemma run_adds_true_subset : forall ms,
  (forall a b, In a ms -> In b ms -> m_start a = m_start b -> a = b) ->
  forall y, In y (run_adds (all_true ms)) -> In y ms.
Proof.
  induction ms as [|m ms IH] using rev_ind; intros Hf y H; [destruct H|].
  assert (Hf' : forall a b, In a ms -> In b ms -> m_start a = m_start b -> a = b).
  { intros a b Ha Hb. apply Hf; apply in_app_iff; left; assumption. }
  unfold all_true in *. rewrite map_app in H. cbn [map] in H. rewrite run_adds_snoc in H. cbn [fst snd] in H.
  set (l := run_adds (map (fun m0 => (m0, true)) ms)) in *.
  assert (Hs : sorted l) by apply run_adds_sorted.
  apply in_app_iff.
  destruct (add_shape_ok l m true Hs) as [l1 l2 H1 H2 H3|l1 x l2 e H1 H2 H3]; cbn [fst] in H;
    apply in_app_iff in H; cbn [In] in H.
  - destruct H as [Hin|[Hin|Hin]].
    + left. apply (IH Hf'). rewrite H1. apply in_app_iff. left. assumption.
    + right. left. assumption.
    + left. apply (IH Hf'). rewrite H1. apply in_app_iff. right. assumption.
  - assert (Hx : In x ms) by (apply (IH Hf'); rewrite H1; apply in_app_iff; right; left; reflexivity).
    assert (Exm : x = m).
    { apply Hf; [apply in_app_iff; left; exact Hx|apply in_app_iff; right; left; reflexivity|exact H2]. }
    destruct H as [Hin|[Hin|Hin]].
    + left. apply (IH Hf'). rewrite H1. apply in_app_iff. left. assumption.
    + left. rewrite <- Hin. rewrite H3, Exm, N.max_id, set_end_same. rewrite <- Exm. exact Hx.
    + left. apply (IH Hf'). rewrite H1. apply in_app_iff. right. right. assumption.
Qed.

Lemma run_adds_starts : forall ops x,
  In x (map m_start (run_adds ops)) <-> In x (map (fun o => m_start (fst o)) ops).
Proof.
  induction ops as [|o ops IH] using rev_ind; intro x; [unfold run_adds; cbn [fold_left map In]; tauto|].
  rewrite run_adds_snoc, map_app, in_app_iff. cbn [map In].
  rewrite (add_start_set _ _ _ _ (run_adds_sorted ops)), IH.
  split; [intros [->|H]; [right; left; reflexivity|left; exact H]|intros [H|[H|[]]]; [right; exact H|left; symmetry; exact H]].
Qed.

(* two strictly ascending lists with the same elements are equal *)
Lemma sorted_ext_eq : forall l1 l2, sorted l1 -> sorted l2 ->
  (forall y, In y l1 <-> In y l2) -> l1 = l2.
Proof.
  induction l1 as [|a l1 IH]; intros l2 H1 H2 E.
  - destruct l2 as [|b l2]; [reflexivity|]. exfalso. apply (E b). left. reflexivity.
  - destruct l2 as [|b l2]; [exfalso; apply (E a); left; reflexivity|].
    apply sorted_cons_iff in H1. destruct H1 as [S1 G1]. apply sorted_cons_iff in H2. destruct H2 as [S2 G2].
    unfold all_gt in *. rewrite Forall_forall in G1, G2.
    assert (Hab : a = b).
    { assert (Ia : In a (b :: l2)) by (apply E; left; reflexivity).
      assert (Ib : In b (a :: l1)) by (apply E; left; reflexivity).
      destruct Ia as [Ia|Ia]; [auto|]. destruct Ib as [Ib|Ib]; [auto|].
      specialize (G2 _ Ia). specialize (G1 _ Ib). lia. }
    subst b. f_equal. apply IH; [exact S1|exact S2|].
    intro y. split; intro Hy.
    + assert (I : In y (a :: l2)) by (apply E; right; exact Hy). destruct I as [<-|I]; [|exact I].
      specialize (G1 _ Hy). lia.
    + assert (I : In y (a :: l1)) by (apply E; right; exact Hy). destruct I as [<-|I]; [|exact I].
      specialize (G2 _ Hy). lia.
Qed.

(* ---- the list-level argument -------------------------------------------- *)
Section Generic.
  Variable f : nat -> option (nat * option N).
  Variable n : nat.

  Definition ref_list : list (nat * nat * option N) :=
    flat_map (fun s => match f s with Some (e, k) => [(s, e, k)] | None => [] end) (seq 0 (S n)).

  Lemma ref_list_In : forall s e k, In (s, e, k) ref_list <-> (f s = Some (e, k) /\ s <= n).
  Proof.
    intros s e k. unfold ref_list. rewrite in_flat_map. split.
    - intros [s' [Hs H]]. apply in_seq in Hs. destruct (f s') as [[e' k']|] eqn:E; [|destruct H].
      destruct H as [H|[]]. inversion H; subst. split; [exact E|lia].
    - intros [E Hs]. exists s. split; [apply in_seq; lia|]. rewrite E. left. reflexivity.
  Qed.

  Lemma ref_from_sorted : forall len from,
    sorted (map mtch_of (flat_map (fun s => match f s with Some (e, k) => [(s, e, k)] | None => [] end) (seq from len))) /\
    Forall (fun m => (N.of_nat from <= m_start m)%N)
           (map mtch_of (flat_map (fun s => match f s with Some (e, k) => [(s, e, k)] | None => [] end) (seq from len))).
  Proof.
    induction len as [|len IH]; intro from; cbn [seq flat_map map]; [split; [apply sorted_nil|constructor]|].
    destruct (IH (S from)) as [Hs Hf].
    destruct (f from) as [[e k]|]; cbn [app map].
    - split.
      + apply sorted_cons_iff. split; [exact Hs|]. unfold all_gt. cbn [mtch_of m_start].
        eapply Forall_impl; [|exact Hf]. intros m Hm. cbn beta in Hm. lia.
      + constructor; [cbn [mtch_of m_start]; lia|]. eapply Forall_impl; [|exact Hf]. intros m Hm. cbn beta in Hm. lia.
    - split; [exact Hs|]. eapply Forall_impl; [|exact Hf]. intros m Hm. cbn beta in Hm. lia.
  Qed.

  Theorem pipeline_generic : forall L,
    (forall s e k, In (s, e, k) L <-> (f s = Some (e, k) /\ s <= n)) ->
    run_adds (all_true (map mtch_of L)) = map mtch_of ref_list.
  Proof.
    intros L HL.
    assert (Hfun : forall a b, In a (map mtch_of L) -> In b (map mtch_of L) -> m_start a = m_start b -> a = b).
    { intros a b Ha Hb E. apply in_map_iff in Ha. destruct Ha as [[[s1 e1] k1] [<- Ha]].
      apply in_map_iff in Hb. destruct Hb as [[[s2 e2] k2] [<- Hb]]. cbn [mtch_of m_start] in E.
      assert (s1 = s2) by lia. subst s2. apply HL in Ha. apply HL in Hb. destruct Ha as [Ea _]. destruct Hb as [Eb _].
      rewrite Ea in Eb. inversion Eb. reflexivity. }
    apply sorted_ext_eq.
    - apply run_adds_sorted.
    - apply (proj1 (ref_from_sorted (S n) 0)).
    - intro y. split.
      + intro H. apply (run_adds_true_subset _ Hfun) in H. apply in_map_iff in H. destruct H as [[[s e] k] [<- H]].
        apply in_map. apply ref_list_In. apply HL. exact H.
      + intro H. apply in_map_iff in H. destruct H as [[[s e] k] [<- H]]. apply ref_list_In in H.
        assert (HinL : In (s, e, k) L) by (apply HL; exact H).
        assert (Hst : In (N.of_nat s) (map m_start (run_adds (all_true (map mtch_of L))))).
        { apply run_adds_starts. unfold all_true. rewrite map_map. apply in_map_iff.
          exists (mtch_of (s, e, k)). split; [reflexivity|]. apply in_map. exact HinL. }
        apply in_map_iff in Hst. destruct Hst as [y' [Hy' Hin']].
        pose proof (run_adds_true_subset _ Hfun _ Hin') as Hsub. apply in_map_iff in Hsub.
        destruct Hsub as [[[s' e'] k'] [<- HinL']]. cbn [mtch_of m_start] in Hy'.
        assert (s' = s) by lia. subst s'. apply HL in HinL'. destruct HinL' as [E' _]. destruct H as [E _].
        rewrite E in E'. inversion E'; subst. exact Hin'.
  Qed.
End Generic.

(* ---- prefixes and slices -------------------------------------------------- *)
Lemma prefix_b_skipn : forall eq k v l, prefix_b eq v l = true -> prefix_b eq (skipn k v) (skipn k l) = true.
Proof.
  induction k as [|k IH]; intros v l H; [exact H|].
  destruct v as [|x v]; [destruct l; reflexivity|].
  destruct l as [|y l]; [discriminate|]. cbn [prefix_b] in H. apply andb_true_iff in H. cbn [skipn]. apply IH. tauto.
Qed.

Lemma prefix_b_firstn_l : forall eq k v l, prefix_b eq v l = true -> prefix_b eq (firstn k v) l = true.
Proof.
  induction k as [|k IH]; intros v l H; [reflexivity|].
  destruct v as [|x v]; [reflexivity|]. destruct l as [|y l]; [discriminate|].
  cbn [prefix_b firstn] in *. apply andb_true_iff in H. rewrite (proj1 H), (IH _ _ (proj2 H)). reflexivity.
Qed.

(* only the first |v| elements of l matter *)
Lemma prefix_b_firstn_r : forall eq v l, prefix_b eq v (firstn (length v) l) = prefix_b eq v l.
Proof.
  induction v as [|x v IH]; intro l; [reflexivity|].
  destruct l as [|y l]; [reflexivity|]. cbn [length firstn prefix_b]. rewrite IH. reflexivity.
Qed.

Lemma prefix_b_length : forall eq v l, prefix_b eq v l = true -> length v <= length l.
Proof.
  induction v as [|x v IH]; intros l H; cbn [length]; [lia|].
  destruct l as [|y l]; [discriminate|]. cbn [prefix_b] in H. apply andb_true_iff in H. apply proj2, IH in H. cbn [length]. lia.
Qed.

Lemma slice_length : forall (l : bytes) from len, from + len <= length l -> length (slice l from len) = len.
Proof. intros. unfold slice. rewrite firstn_length, skipn_length. lia. Qed.

Lemma prefix_b_slice : forall eq v l bt len, prefix_b eq v l = true ->
  prefix_b eq (slice v bt len) (skipn bt l) = true.
Proof. intros. unfold slice. apply prefix_b_firstn_l. apply prefix_b_skipn. assumption. Qed.

Lemma skipn_add : forall (l : bytes) a b, skipn a (skipn b l) = skipn (b + a) l.
Proof.
  intros l a b. revert l. induction b as [|b IH]; intro l; [reflexivity|].
  destruct l as [|x l]; [destruct a; reflexivity|]. cbn [skipn Nat.add]. apply IH.
Qed.

(* exact comparison: the data equals the pattern *)
Lemma byte_eq_exact : forall k x y, byte_eq false k x y = true <-> N.lxor y k = x.
Proof. intros. unfold byte_eq. cbn [andb]. rewrite orb_false_r. apply N.eqb_eq. Qed.

Lemma prefix_exact_firstn : forall v l, prefix_b (byte_eq false 0) v l = true -> firstn (length v) l = v.
Proof.
  induction v as [|x v IH]; intros l H; [reflexivity|].
  destruct l as [|y l]; [discriminate|]. cbn [prefix_b] in H. apply andb_true_iff in H. destruct H as [H1 H2].
  apply byte_eq_exact in H1. rewrite N.lxor_0_r in H1. cbn [length firstn]. rewrite H1, (IH _ H2). reflexivity.
Qed.

Lemma prefix_exact_refl : forall v rest, prefix_b (byte_eq false 0) v (v ++ rest) = true.
Proof.
  induction v as [|x v IH]; intro rest; [reflexivity|]. cbn [app prefix_b]. rewrite IH, andb_true_r.
  apply byte_eq_exact. apply N.lxor_0_r.
Qed.

(* ---- case folding --------------------------------------------------------- *)
Lemma letter_cases : forall b, is_upper b || is_lower b = true ->
  (65 <= b /\ b <= 90)%N \/ (97 <= b /\ b <= 122)%N.
Proof.
  intros b H. apply orb_true_iff in H. unfold is_upper, is_lower in H.
  destruct H as [H|H]; apply andb_true_iff in H; destruct H as [H1 H2]; apply N.leb_le in H1, H2; lia.
Qed.

Lemma byte_eq_nocase_cases : forall x y, byte_eq true 0 x y = true ->
  y = x \/ (is_upper x || is_lower x = true /\ y = swapcase x).
Proof.
  intros x y H. unfold byte_eq in H. rewrite N.lxor_0_r in H. cbn [andb] in H.
  apply orb_true_iff in H. destruct H as [H|H]; apply N.eqb_eq in H; [left; exact H|].
  unfold swapcase in H.
  destruct (is_upper y) eqn:U.
  - unfold is_upper in U. apply andb_true_iff in U. destruct U as [U1 U2]. apply N.leb_le in U1, U2.
    right. split.
    + apply orb_true_iff. right. unfold is_lower. apply andb_true_iff. split; apply N.leb_le; lia.
    + unfold swapcase. replace (is_upper x) with false by (symmetry; unfold is_upper; apply andb_false_iff; right; apply N.leb_gt; lia).
      replace (is_lower x) with true by (symmetry; unfold is_lower; apply andb_true_iff; split; apply N.leb_le; lia). lia.
  - destruct (is_lower y) eqn:Lw; [|left; exact H].
    unfold is_lower in Lw. apply andb_true_iff in Lw. destruct Lw as [L1 L2]. apply N.leb_le in L1, L2.
    right. split.
    + apply orb_true_iff. left. unfold is_upper. apply andb_true_iff. split; apply N.leb_le; lia.
    + unfold swapcase. replace (is_upper x) with true by (symmetry; unfold is_upper; apply andb_true_iff; split; apply N.leb_le; lia). lia.
Qed.

Lemma prefix_nocase_variant : forall v l, prefix_b (byte_eq true 0) v l = true ->
  In (firstn (length v) l) (case_variants v).
Proof.
  induction v as [|x v IH]; intros l H; [left; reflexivity|].
  destruct l as [|y l]; [discriminate|]. cbn [prefix_b] in H. apply andb_true_iff in H. destruct H as [H1 H2].
  specialize (IH _ H2). cbn [length firstn case_variants].
  destruct (byte_eq_nocase_cases _ _ H1) as [->|[Hl ->]].
  - destruct (is_upper x || is_lower x); [apply in_app_iff; left|]; apply in_map; exact IH.
  - rewrite Hl. apply in_app_iff. right. apply in_map. exact IH.
Qed.

(* ---- atoms ---------------------------------------------------------------- *)
Lemma has_atom_spec : forall atoms bt v, has_atom atoms bt v = true ->
  exists a, In a atoms /\ a_bt a = bt /\ a_bytes a = v.
Proof.
  intros atoms bt v H. unfold has_atom in H. rewrite existsb_lazy_eq in H. apply existsb_exists in H.
  destruct H as [a [Ha H]]. destruct (Nat.eqb (a_bt a) bt) eqn:E; [|discriminate].
  apply Nat.eqb_eq in E. apply bytes_eqb_eq in H. exists a. auto.
Qed.

Lemma atom_at_slice : forall a d pos len, a_bytes a = slice d pos len -> pos + len <= length d ->
  atom_at a d pos = true.
Proof.
  intros a d pos len Hb Hl. unfold atom_at. rewrite Hb, slice_length by exact Hl.
  apply andb_true_iff. split; [apply Nat.leb_le; exact Hl|apply bytes_eqb_eq; reflexivity].
Qed.

Lemma atom_at_spec : forall a d pos, atom_at a d pos = true ->
  pos + length (a_bytes a) <= length d /\ firstn (length (a_bytes a)) (skipn pos d) = a_bytes a.
Proof.
  intros a d pos H. unfold atom_at in H. apply andb_true_iff in H. destruct H as [H1 H2].
  apply Nat.leb_le in H1. apply bytes_eqb_eq in H2. split; assumption.
Qed.

Lemma vfw_no_flags : forall fl k d s e, f_fwl fl = false -> f_fwr fl = false -> verify_full_word fl k d s e = true.
Proof. intros fl k d s e H1 H2. unfold verify_full_word. rewrite H1, H2. reflexivity. Qed.

Lemma vfw_guard : forall fl k d s e,
  ((negb (f_fwl fl) && negb (f_fwr fl)) || verify_full_word fl k d s e) = verify_full_word fl k d s e.
Proof.
  intros fl k d s e. destruct (f_fwl fl) eqn:A; destruct (f_fwr fl) eqn:B; cbn [negb andb orb]; try reflexivity.
  symmetry. apply vfw_no_flags; assumption.
Qed.

(* ---- one sub-pattern ------------------------------------------------------ *)
(* the search automaton reports every occurrence of every atom, and nothing else *)
Definition hits_exact (atoms : list atom) (d : bytes) (hits : list hit) : Prop :=
  forall i pos, In (i, pos) hits <-> exists a, nth_error atoms i = Some a /\ atom_at a d pos = true.

Lemma all_hits_exact : forall atoms d pos i,
  In (i, pos) (all_hits atoms d) -> exists a, nth_error atoms i = Some a /\ atom_at a d pos = true.
Proof.
  intros atoms d pos i H. unfold all_hits in H. apply in_flat_map in H. destruct H as [p [_ H]].
  apply in_flat_map in H. destruct H as [j [_ H]]. destruct (nth_error atoms j) as [a|] eqn:E; [|destruct H].
  destruct (atom_at a d p) eqn:A; [|destruct H]. destruct H as [H|[]]. inversion H; subst. exists a. auto.
Qed.

Section Single.
  Variable sp : subpat.
  Variable xr : N * N.
  Variable atoms : list atom.
  Variable d : bytes.
  Variable hits : list hit.
  Hypothesis Hsp : forall a, In a atoms -> a_sp a = 0.
  Hypothesis Hhits : hits_exact atoms d hits.

  (* what the pipeline feeds to the match list *)
  Definition fed : list (nat * nat * option N) :=
    flat_map (fun s => opt_list (verify_anchored s d)) [sp] ++
    flat_map (fun h => opt_list (handle_hit [sp] atoms d h)) hits.

  Lemma scan_pipeline_fed : scan_pipeline [sp] atoms hits d = run_adds (all_true (map mtch_of fed)).
  Proof. unfold scan_pipeline, fed, all_true. rewrite map_map. reflexivity. Qed.

  Lemma fed_hits_In : forall r,
    In r (flat_map (fun h => opt_list (handle_hit [sp] atoms d h)) hits) <->
    exists a pos, In a atoms /\ atom_at a d pos = true /\ handle_atom_match sp a pos d = Some r.
  Proof.
    intro r. rewrite in_flat_map. split.
    - intros [[i pos] [Hin H]]. apply Hhits in Hin. destruct Hin as [a [Ea At]].
      unfold handle_hit in H. cbn [fst snd] in H. rewrite Ea in H.
      assert (Ia : In a atoms) by (eapply nth_error_In; exact Ea).
      rewrite (Hsp _ Ia) in H. cbn [nth_error] in H.
      destruct (handle_atom_match sp a pos d) as [r'|] eqn:E; [|destruct H]. destruct H as [<-|[]].
      exists a, pos. auto.
    - intros [a [pos [Ia [At H]]]]. apply In_nth_error in Ia. destruct Ia as [i Ei].
      exists (i, pos). split; [apply Hhits; exists a; auto|].
      unfold handle_hit. cbn [fst snd]. rewrite Ei.
      assert (Ia : In a atoms) by (eapply nth_error_In; exact Ei).
      rewrite (Hsp _ Ia). cbn [nth_error]. rewrite H. left. reflexivity.
  Qed.

  (* the kind-specific obligations, and the theorem they give *)
  Definition handle_sound : Prop := forall a pos s e k,
    In a atoms -> atom_at a d pos = true -> handle_atom_match sp a pos d = Some (s, e, k) ->
    sp_match sp xr d s = Some (e, k).
  Definition handle_complete : Prop := forall s e k,
    sp_match sp xr d s = Some (e, k) ->
    exists a pos, In a atoms /\ atom_at a d pos = true /\ handle_atom_match sp a pos d = Some (s, e, k).
  Definition match_in_bounds : Prop := forall s e k, sp_match sp xr d s = Some (e, k) -> s <= length d.

  Lemma pipeline_from_obligations :
    verify_anchored sp d = None -> handle_sound -> handle_complete -> match_in_bounds ->
    scan_pipeline [sp] atoms hits d = map mtch_of (sp_ref sp xr d).
  Proof.
    intros Hanch Hs Hc Hb. rewrite scan_pipeline_fed.
    apply (pipeline_generic (sp_match sp xr d) (length d)).
    intros s e k. unfold fed. cbn [flat_map]. rewrite Hanch. cbn [opt_list app]. rewrite fed_hits_In. split.
    - intros [a [pos [Ia [At H]]]]. pose proof (Hs _ _ _ _ _ Ia At H) as M. split; [exact M|eapply Hb; exact M].
    - intros [M _]. apply Hc. exact M.
  Qed.
End Single.

(* ---- Literal --------------------------------------------------------------- *)
Section Literal.
  Variable lit : bytes.
  Variable fl : spflags.
  Variable xr : N * N.
  Variable atoms : list atom.
  Variable d : bytes.
  Let sp := mkSP (KLiteral lit None) fl.
  Hypothesis Hok : atoms_ok sp xr atoms = true.

  Lemma literal_atoms_sound : forall a, In a atoms -> a_exact a = true ->
    a_bt a = 0 /\ length (a_bytes a) = length lit /\ prefix_b (byte_eq (f_nocase fl) 0) lit (a_bytes a) = true.
  Proof.
    intros a Ia Ex. unfold atoms_ok in Hok. cbn [sp sp_kind sp_flags] in Hok.
    apply andb_true_iff in Hok. destruct Hok as [H _]. rewrite forallb_forall in H. specialize (H a Ia).
    rewrite Ex in H. cbn [negb orb] in H. rewrite !andb_true_iff in H. destruct H as [[H1 H2] H3].
    apply Nat.eqb_eq in H1, H2. auto.
  Qed.

  Lemma literal_atoms_complete : exists bt len, 1 <= len /\ bt + len <= length lit /\
    forall v, In v (if f_nocase fl then case_variants (slice lit bt len) else [slice lit bt len]) ->
              exists a, In a atoms /\ a_bt a = bt /\ a_bytes a = v.
  Proof.
    unfold atoms_ok in Hok. cbn [sp sp_kind sp_flags] in Hok.
    apply andb_true_iff in Hok. destruct Hok as [_ H]. rewrite existsb_lazy_eq in H. apply existsb_exists in H.
    destruct H as [a0 [_ H]]. rewrite !andb_true_iff in H. destruct H as [[H1 H2] H3].
    apply Nat.leb_le in H1, H2. exists (a_bt a0), (length (a_bytes a0)). repeat split; try assumption.
    intros v Hv. rewrite forallb_forall in H3. apply has_atom_spec. apply H3. exact Hv.
  Qed.

  Lemma sp_match_literal : forall s e k, sp_match sp xr d s = Some (e, k) <->
    (e = s + length lit /\ k = None /\ s + length lit <= length d /\
     prefix_b (byte_eq (f_nocase fl) 0) lit (skipn s d) = true /\ verify_full_word fl 0 d s (s + length lit) = true).
  Proof.
    intros s e k. unfold sp_match. cbn [sp sp_kind sp_flags andb].
    destruct (Nat.leb (s + length lit) (length d)) eqn:B; cbn [andb].
    - apply Nat.leb_le in B.
      destruct (prefix_b (byte_eq (f_nocase fl) 0) lit (skipn s d)) eqn:P; cbn [andb].
      + destruct (verify_full_word fl 0 d s (s + length lit)) eqn:V.
        * split; [intro H; inversion H; subst; auto|]. intros [-> [-> _]]. reflexivity.
        * split; [discriminate|]. intros [_ [_ [_ [_ H]]]]. discriminate.
      + split; [discriminate|]. intros [_ [_ [_ [H _]]]]. discriminate.
    - apply Nat.leb_gt in B. split; [discriminate|]. intros [_ [_ [H _]]]. lia.
  Qed.

  Lemma handle_sound_literal : handle_sound sp xr atoms d.
  Proof.
    intros a pos s e k Ia At H. unfold handle_atom_match in H.
    destruct (Nat.ltb pos (a_bt a)) eqn:Lt; [discriminate|]. apply Nat.ltb_ge in Lt.
    cbn [sp sp_kind sp_flags] in H. destruct (a_exact a) eqn:Ex.
    - destruct (literal_atoms_sound a Ia Ex) as [Hbt [Hlen Hpre]].
      destruct (verify_full_word fl 0 d (pos - a_bt a) (pos - a_bt a + length (a_bytes a))) eqn:V; [|discriminate].
      inversion H; subst. rewrite Hbt, Nat.sub_0_r, Hlen in *. apply sp_match_literal.
      apply atom_at_spec in At. destruct At as [Hb Hf]. rewrite Hlen in Hb.
      repeat split; try assumption.
      rewrite <- prefix_b_firstn_r. rewrite <- Hlen, Hf. exact Hpre.
    - destruct (verify_literal lit d (pos - a_bt a) fl) eqn:V; [|discriminate]. inversion H; subst.
      unfold verify_literal in V. rewrite vfw_guard in V. rewrite !andb_true_iff in V. destruct V as [[V1 V2] V3].
      apply Nat.leb_le in V1. apply sp_match_literal. auto.
  Qed.

  Lemma handle_complete_literal : handle_complete sp xr atoms d.
  Proof.
    intros s e k H. apply sp_match_literal in H. destruct H as [-> [-> [Hb [Hp Hv]]]].
    destruct literal_atoms_complete as [bt [len [Hl1 [Hl2 Hcov]]]].
    (* the bytes of the data under the covered range are one of the covered spellings *)
    pose proof (prefix_b_slice _ _ _ bt len Hp) as Hps. rewrite skipn_add in Hps.
    assert (Hsl : length (slice lit bt len) = len) by (apply slice_length; exact Hl2).
    assert (Hv' : In (slice d (s + bt) len)
                     (if f_nocase fl then case_variants (slice lit bt len) else [slice lit bt len])).
    { unfold slice at 1. destruct (f_nocase fl).
      - rewrite <- Hsl at 1. apply prefix_nocase_variant. exact Hps.
      - left. symmetry. rewrite <- Hsl at 1. apply prefix_exact_firstn. exact Hps. }
    destruct (Hcov _ Hv') as [a [Ia [Hbt Hby]]].
    exists a, (s + bt). split; [exact Ia|]. split; [apply (atom_at_slice a d (s + bt) len Hby); lia|].
    unfold handle_atom_match. rewrite Hbt. replace (Nat.ltb (s + bt) bt) with false by (symmetry; apply Nat.ltb_ge; lia).
    replace (s + bt - bt) with s by lia. cbn [sp sp_kind sp_flags].
    destruct (a_exact a) eqn:Ex.
    - destruct (literal_atoms_sound a Ia Ex) as [_ [Hlen _]]. rewrite Hlen, Hv. reflexivity.
    - unfold verify_literal. rewrite vfw_guard, Hp, Hv. replace (Nat.leb (s + length lit) (length d)) with true by (symmetry; apply Nat.leb_le; exact Hb).
      reflexivity.
  Qed.

  Lemma match_in_bounds_literal : match_in_bounds sp xr d.
  Proof. intros s e k H. apply sp_match_literal in H. lia. Qed.

  Theorem pipeline_literal : forall hits,
    (forall a, In a atoms -> a_sp a = 0) -> hits_exact atoms d hits ->
    scan_pipeline [sp] atoms hits d = map mtch_of (sp_ref sp xr d).
  Proof.
    intros hits Hsp Hh. apply pipeline_from_obligations; try assumption.
    - reflexivity.
    - apply handle_sound_literal.
    - apply handle_complete_literal.
    - apply match_in_bounds_literal.
  Qed.
End Literal.

(* ---- LiteralWithMask ------------------------------------------------------- *)
Lemma masked_prefix_skipn : forall k v m l, masked_prefix_b v m l = true ->
  masked_prefix_b (skipn k v) (skipn k m) (skipn k l) = true.
Proof.
  induction k as [|k IH]; intros v m l H; [exact H|].
  destruct v as [|x v]; [destruct m; destruct l; reflexivity|].
  destruct m as [|y m]; [discriminate|]. destruct l as [|z l]; [discriminate|].
  cbn [masked_prefix_b] in H. apply andb_true_iff in H. cbn [skipn]. apply IH. tauto.
Qed.

Lemma masked_prefix_firstn_l : forall k v m l, masked_prefix_b v m l = true ->
  masked_prefix_b (firstn k v) (firstn k m) l = true.
Proof.
  induction k as [|k IH]; intros v m l H; [reflexivity|].
  destruct v as [|x v]; [reflexivity|]. destruct m as [|y m]; [discriminate|]. destruct l as [|z l]; [discriminate|].
  cbn [masked_prefix_b firstn] in *. apply andb_true_iff in H. rewrite (proj1 H), (IH _ _ _ (proj2 H)). reflexivity.
Qed.

Lemma masked_prefix_firstn_r : forall v m l, masked_prefix_b v m (firstn (length v) l) = masked_prefix_b v m l.
Proof.
  induction v as [|x v IH]; intros m l; [reflexivity|].
  destruct m as [|y m]; [reflexivity|]. destruct l as [|z l]; [reflexivity|].
  cbn [length firstn masked_prefix_b]. rewrite IH. reflexivity.
Qed.

Lemma masked_prefix_slice : forall v m l bt len, masked_prefix_b v m l = true ->
  masked_prefix_b (slice v bt len) (slice m bt len) (skipn bt l) = true.
Proof. intros. unfold slice. apply masked_prefix_firstn_l. apply masked_prefix_skipn. assumption. Qed.

Lemma byte_variants_In : forall x m y, (y < 256)%N -> N.land y m = x -> In y (byte_variants x m).
Proof.
  intros x m y Hy H. unfold byte_variants. apply filter_In. split; [|apply N.eqb_eq; exact H].
  apply in_map_iff. exists (N.to_nat y). split; [lia|]. apply in_seq. lia.
Qed.

Lemma masked_prefix_variant : forall v m l, Forall (fun b => (b < 256)%N) l ->
  masked_prefix_b v m l = true -> In (firstn (length v) l) (mask_variants v m).
Proof.
  induction v as [|x v IH]; intros m l Hl H; [destruct m; left; reflexivity|].
  destruct m as [|y m]; [discriminate|]. destruct l as [|z l]; [discriminate|].
  cbn [masked_prefix_b] in H. apply andb_true_iff in H. destruct H as [H1 H2]. apply N.eqb_eq in H1.
  inversion Hl as [|? ? Hz Hl']; subst. cbn [length firstn mask_variants]. cbv zeta.
  apply in_flat_map. exists z. split; [apply byte_variants_In; [assumption|reflexivity]|]. apply in_map. apply IH; assumption.
Qed.

Lemma skipn_In_bytes : forall (l : bytes) k b, In b (skipn k l) -> In b l.
Proof.
  intros l k b H. rewrite <- (firstn_skipn k l). apply in_app_iff. right. exact H.
Qed.

Section Masked.
  Variable lit mask : bytes.
  Variable fl : spflags.
  Variable xr : N * N.
  Variable atoms : list atom.
  Variable d : bytes.
  Let sp := mkSP (KMasked lit mask) fl.
  Hypothesis Hok : atoms_ok sp xr atoms = true.
  Hypothesis Hd : Forall (fun b => (b < 256)%N) d.

  Lemma masked_atoms_sound : forall a, In a atoms -> a_exact a = true ->
    a_bt a = 0 /\ length (a_bytes a) = length lit /\ masked_prefix_b lit mask (a_bytes a) = true.
  Proof.
    intros a Ia Ex. unfold atoms_ok in Hok. cbn [sp sp_kind sp_flags] in Hok.
    rewrite !andb_true_iff in Hok. destruct Hok as [[_ H] _]. rewrite forallb_forall in H. specialize (H a Ia).
    rewrite Ex in H. cbn [negb orb] in H. rewrite !andb_true_iff in H. destruct H as [[H1 H2] H3].
    apply Nat.eqb_eq in H1, H2. auto.
  Qed.

  Lemma masked_atoms_complete : exists bt len, 1 <= len /\ bt + len <= length lit /\
    forall v, In v (mask_variants (slice lit bt len) (slice mask bt len)) ->
              exists a, In a atoms /\ a_bt a = bt /\ a_bytes a = v.
  Proof.
    unfold atoms_ok in Hok. cbn [sp sp_kind sp_flags] in Hok.
    rewrite !andb_true_iff in Hok. destruct Hok as [_ H]. rewrite existsb_lazy_eq in H. apply existsb_exists in H.
    destruct H as [a0 [_ H]]. rewrite !andb_true_iff in H. destruct H as [[H1 H2] H3].
    apply Nat.leb_le in H1, H2. exists (a_bt a0), (length (a_bytes a0)). repeat split; try assumption.
    intros v Hv. rewrite forallb_forall in H3. apply has_atom_spec. apply H3. exact Hv.
  Qed.

  Lemma sp_match_masked : forall s e k, sp_match sp xr d s = Some (e, k) <->
    (e = s + length lit /\ k = None /\ s + length lit <= length d /\
     masked_prefix_b lit mask (skipn s d) = true /\ verify_full_word fl 0 d s (s + length lit) = true).
  Proof.
    intros s e k. unfold sp_match. cbn [sp sp_kind sp_flags].
    destruct (Nat.leb (s + length lit) (length d)) eqn:B; cbn [andb].
    - apply Nat.leb_le in B.
      destruct (masked_prefix_b lit mask (skipn s d)) eqn:P; cbn [andb].
      + destruct (verify_full_word fl 0 d s (s + length lit)) eqn:V.
        * split; [intro H; inversion H; subst; auto|]. intros [-> [-> _]]. reflexivity.
        * split; [discriminate|]. intros [_ [_ [_ [_ H]]]]. discriminate.
      + split; [discriminate|]. intros [_ [_ [_ [H _]]]]. discriminate.
    - apply Nat.leb_gt in B. split; [discriminate|]. intros [_ [_ [H _]]]. lia.
  Qed.

  Lemma handle_sound_masked : handle_sound sp xr atoms d.
  Proof.
    intros a pos s e k Ia At H. unfold handle_atom_match in H.
    destruct (Nat.ltb pos (a_bt a)) eqn:Lt; [discriminate|].
    cbn [sp sp_kind sp_flags] in H. destruct (a_exact a) eqn:Ex.
    - destruct (masked_atoms_sound a Ia Ex) as [Hbt [Hlen Hpre]].
      destruct (verify_full_word fl 0 d (pos - a_bt a) (pos - a_bt a + length (a_bytes a))) eqn:V; [|discriminate].
      inversion H; subst. rewrite Hbt, Nat.sub_0_r, Hlen in *. apply sp_match_masked.
      apply atom_at_spec in At. destruct At as [Hb Hf]. rewrite Hlen in Hb.
      repeat split; try assumption.
      rewrite <- masked_prefix_firstn_r. rewrite <- Hlen, Hf. exact Hpre.
    - destruct (verify_masked lit mask d (pos - a_bt a) fl) eqn:V; [|discriminate]. inversion H; subst.
      unfold verify_masked in V. rewrite vfw_guard in V. rewrite !andb_true_iff in V. destruct V as [[V1 V2] V3].
      apply Nat.leb_le in V1. apply sp_match_masked. auto.
  Qed.

  Lemma handle_complete_masked : handle_complete sp xr atoms d.
  Proof.
    intros s e k H. apply sp_match_masked in H. destruct H as [-> [-> [Hb [Hp Hv]]]].
    destruct masked_atoms_complete as [bt [len [Hl1 [Hl2 Hcov]]]].
    pose proof (masked_prefix_slice _ _ _ bt len Hp) as Hps. rewrite skipn_add in Hps.
    assert (Hsl : length (slice lit bt len) = len) by (apply slice_length; exact Hl2).
    assert (Hv' : In (slice d (s + bt) len) (mask_variants (slice lit bt len) (slice mask bt len))).
    { unfold slice at 1. rewrite <- Hsl at 1. apply masked_prefix_variant; [|exact Hps].
      rewrite Forall_forall in *. intros b Hb'. apply Hd. eapply skipn_In_bytes. exact Hb'. }
    destruct (Hcov _ Hv') as [a [Ia [Hbt Hby]]].
    exists a, (s + bt). split; [exact Ia|]. split; [apply (atom_at_slice a d (s + bt) len Hby); lia|].
    unfold handle_atom_match. rewrite Hbt. replace (Nat.ltb (s + bt) bt) with false by (symmetry; apply Nat.ltb_ge; lia).
    replace (s + bt - bt) with s by lia. cbn [sp sp_kind sp_flags].
    destruct (a_exact a) eqn:Ex.
    - destruct (masked_atoms_sound a Ia Ex) as [_ [Hlen _]]. rewrite Hlen, Hv. reflexivity.
    - unfold verify_masked. rewrite vfw_guard, Hp, Hv. replace (Nat.leb (s + length lit) (length d)) with true by (symmetry; apply Nat.leb_le; exact Hb).
      reflexivity.
  Qed.

  Theorem pipeline_masked : forall hits,
    (forall a, In a atoms -> a_sp a = 0) -> hits_exact atoms d hits ->
    scan_pipeline [sp] atoms hits d = map mtch_of (sp_ref sp xr d).
  Proof.
    intros hits Hsp Hh. apply pipeline_from_obligations; try assumption.
    - reflexivity.
    - apply handle_sound_masked.
    - apply handle_complete_masked.
    - intros s e k H. apply sp_match_masked in H. lia.
  Qed.
End Masked.

(* ---- Xor ------------------------------------------------------------------- *)
Lemma lxor_cancel : forall y k : N, N.lxor (N.lxor y k) k = y.
Proof. intros. rewrite N.lxor_assoc, N.lxor_nilpotent, N.lxor_0_r. reflexivity. Qed.

Lemma lxor_cancel_l : forall y x : N, N.lxor y (N.lxor y x) = x.
Proof. intros. rewrite <- N.lxor_assoc, N.lxor_nilpotent, N.lxor_0_l. reflexivity. Qed.

Lemma prefix_xor_map : forall k v l, prefix_b (byte_eq false k) v l = true ->
  firstn (length v) l = map (fun x => N.lxor x k) v.
Proof.
  induction v as [|x v IH]; intros l H; [reflexivity|].
  destruct l as [|y l]; [discriminate|]. cbn [prefix_b] in H. apply andb_true_iff in H. destruct H as [H1 H2].
  apply byte_eq_exact in H1. cbn [length firstn map]. rewrite (IH _ H2). f_equal. rewrite <- H1. symmetry. apply lxor_cancel.
Qed.

Lemma skipn_head : forall (l : bytes) k y rest, skipn k l = y :: rest -> nth_error l k = Some y.
Proof.
  intros l k. revert l. induction k as [|k IH]; intros l y rest H.
  - destruct l; [discriminate|]. cbn [skipn] in H. inversion H. reflexivity.
  - destruct l as [|x l]; [discriminate|]. cbn [skipn nth_error] in *. eapply IH. exact H.
Qed.

Lemma nth_error_skipn_head : forall (l : bytes) k y, nth_error l k = Some y -> exists rest, skipn k l = y :: rest.
Proof.
  intros l k. revert l. induction k as [|k IH]; intros l y H.
  - destruct l as [|x l]; [discriminate|]. inversion H. exists l. reflexivity.
  - destruct l as [|x l]; [discriminate|]. cbn [skipn nth_error] in *. apply IH. exact H.
Qed.

Section Xor.
  Variable lit : bytes.
  Variable fl : spflags.
  Variable xr : N * N.
  Variable atoms : list atom.
  Variable d : bytes.
  Let sp := mkSP (KXor lit) fl.
  Hypothesis Hok : atoms_ok sp xr atoms = true.

  Lemma xor_atoms_sound : forall a, In a atoms ->
    a_exact a = false /\ exists y t x, a_bytes a = y :: t /\ nth_error lit (a_bt a) = Some x /\
                                       in_xor_range xr (N.lxor y x) = true.
  Proof.
    intros a Ia. unfold atoms_ok in Hok. cbn [sp sp_kind sp_flags] in Hok.
    apply andb_true_iff in Hok. destruct Hok as [H _]. rewrite forallb_forall in H. specialize (H a Ia).
    apply andb_true_iff in H. destruct H as [H1 H2]. apply negb_true_iff in H1. split; [exact H1|].
    destruct (a_bytes a) as [|y t]; [discriminate|]. destruct (nth_error lit (a_bt a)) as [x|]; [|discriminate].
    exists y, t, x. auto.
  Qed.

  Lemma xor_atoms_complete : exists bt len, 1 <= len /\ bt + len <= length lit /\
    forall k, (fst xr <= k /\ k <= snd xr)%N ->
              exists a, In a atoms /\ a_bt a = bt /\ a_bytes a = map (fun x => N.lxor x k) (slice lit bt len).
  Proof.
    unfold atoms_ok in Hok. cbn [sp sp_kind sp_flags] in Hok.
    apply andb_true_iff in Hok. destruct Hok as [_ H]. rewrite existsb_lazy_eq in H. apply existsb_exists in H.
    destruct H as [a0 [_ H]]. rewrite !andb_true_iff in H. destruct H as [[H1 H2] H3].
    apply Nat.leb_le in H1, H2. exists (a_bt a0), (length (a_bytes a0)). repeat split; try assumption.
    intros k Hk. rewrite forallb_forall in H3. apply has_atom_spec. apply H3. apply N_range_In. exact Hk.
  Qed.

  Lemma sp_match_xor : forall s e k, sp_match sp xr d s = Some (e, k) <->
    exists x t y key, lit = x :: t /\ nth_error d s = Some y /\ key = N.lxor y x /\
      e = s + length lit /\ k = Some key /\ in_xor_range xr key = true /\ s + length lit <= length d /\
      prefix_b (byte_eq false key) lit (skipn s d) = true /\ verify_full_word fl key d s (s + length lit) = true.
  Proof.
    intros s e k. unfold sp_match. cbn [sp sp_kind sp_flags].
    destruct lit as [|x t] eqn:El.
    - split; [discriminate|]. intros [x [t [y [key [H _]]]]]. discriminate.
    - destruct (nth_error d s) as [y|] eqn:Ed.
      + set (key := N.lxor y x).
        destruct (in_xor_range xr key && Nat.leb (s + length (x :: t)) (length d) &&
                  prefix_b (byte_eq false key) (x :: t) (skipn s d) &&
                  verify_full_word fl key d s (s + length (x :: t))) eqn:C.
        * rewrite !andb_true_iff in C. destruct C as [[[C1 C2] C3] C4]. apply Nat.leb_le in C2. split.
          -- intro H. inversion H; subst. exists x, t, y, key. repeat split; auto.
          -- intros [x' [t' [y' [key' [E1 [E2 [E3 [-> [-> _]]]]]]]]]. inversion E1; inversion E2; subst. reflexivity.
        * split; [discriminate|]. intros [x' [t' [y' [key' [E1 [E2 [E3 [_ [_ [C1 [C2 [C3 C4]]]]]]]]]]]].
          inversion E1; inversion E2; subst x' t' y'. subst key'. fold key in C1, C3, C4.
          rewrite C1, C3, C4 in C. replace (Nat.leb (s + length (x :: t)) (length d)) with true in C by (symmetry; apply Nat.leb_le; exact C2).
          discriminate.
      + split; [discriminate|]. intros [x' [t' [y' [key' [_ [E2 _]]]]]]. discriminate.
  Qed.

  Lemma handle_sound_xor : handle_sound sp xr atoms d.
  Proof.
    intros a pos s e k Ia At H. destruct (xor_atoms_sound a Ia) as [Ex [y0 [t0 [xb [Hby [Hnth Hr]]]]]].
    unfold handle_atom_match in H. destruct (Nat.ltb pos (a_bt a)) eqn:Lt; [discriminate|].
    rewrite Ex in H. cbn [sp sp_kind sp_flags] in H.
    unfold verify_xor in H. rewrite Hby, Hnth in H. set (key := N.lxor y0 xb) in *.
    destruct (Nat.leb (pos - a_bt a + length lit) (length d) && verify_full_word fl key d (pos - a_bt a) (pos - a_bt a + length lit) &&
              prefix_b (byte_eq false key) lit (skipn (pos - a_bt a) d)) eqn:C; [|discriminate].
    inversion H; subst s e k. rewrite !andb_true_iff in C. destruct C as [[C1 C2] C3]. apply Nat.leb_le in C1.
    set (s := pos - a_bt a) in *.
    assert (Hl : exists x t, lit = x :: t).
    { clear -Hnth. destruct lit as [|x t]; [destruct (a_bt a); discriminate|eauto]. }
    destruct Hl as [x [t El]].
    destruct (skipn s d) as [|y rest] eqn:Esk; [rewrite El in C3; discriminate|].
    assert (Ed : nth_error d s = Some y) by (eapply skipn_head; exact Esk).
    assert (C3' := C3). rewrite El in C3'. cbn [prefix_b] in C3'. apply andb_true_iff in C3'. destruct C3' as [C3a _].
    apply byte_eq_exact in C3a. apply lxor_key in C3a.
    apply sp_match_xor. exists x, t, y, key. repeat split; try assumption; try reflexivity.
    rewrite Esk. exact C3.
  Qed.
  Lemma handle_complete_xor : handle_complete sp xr atoms d.
  Proof.
    intros s e k H. apply sp_match_xor in H.
    destruct H as [x [t [y [key [El [Ed [Ek [-> [-> [Hr [Hb [Hp Hv]]]]]]]]]]]].
    destruct xor_atoms_complete as [bt [len [Hl1 [Hl2 Hcov]]]].
    assert (Hrange : (fst xr <= key /\ key <= snd xr)%N).
    { unfold in_xor_range in Hr. apply andb_true_iff in Hr. destruct Hr as [R1 R2]. apply N.leb_le in R1, R2. auto. }
    destruct (Hcov key Hrange) as [a [Ia [Hbt Hby]]].
    pose proof (prefix_b_slice _ _ _ bt len Hp) as Hps. rewrite skipn_add in Hps.
    assert (Hsl : length (slice lit bt len) = len) by (apply slice_length; exact Hl2).
    assert (Hdat : a_bytes a = slice d (s + bt) len).
    { rewrite Hby. unfold slice at 2. rewrite <- Hsl at 2. symmetry. apply prefix_xor_map. exact Hps. }
    exists a, (s + bt). split; [exact Ia|]. split; [apply (atom_at_slice a d (s + bt) len Hdat); lia|].
    destruct (xor_atoms_sound a Ia) as [Ex [y0 [t0 [xb [Hby0 [Hnth _]]]]]].
    unfold handle_atom_match. rewrite Hbt in *. replace (Nat.ltb (s + bt) bt) with false by (symmetry; apply Nat.ltb_ge; lia).
    replace (s + bt - bt) with s by lia. rewrite Ex. cbn [sp sp_kind sp_flags].
    unfold verify_xor. rewrite Hby0, Hbt, Hnth.
    (* the key recovered from the atom is the key of the occurrence *)
    assert (Hkey : N.lxor y0 xb = key).
    { destruct (nth_error_skipn_head _ _ _ Hnth) as [rest Hsk].
      unfold slice in Hby. rewrite Hsk in Hby. destruct len as [|len']; [lia|]. cbn [firstn map] in Hby.
      rewrite Hby0 in Hby. inversion Hby as [[Hy0 Ht0]]. rewrite (N.lxor_comm xb key), N.lxor_assoc, N.lxor_nilpotent, N.lxor_0_r. reflexivity. }
    rewrite Hkey, Hp, Hv. replace (Nat.leb (s + length lit) (length d)) with true by (symmetry; apply Nat.leb_le; exact Hb).
    reflexivity.
  Qed.

  Theorem pipeline_xor : forall hits,
    (forall a, In a atoms -> a_sp a = 0) -> hits_exact atoms d hits ->
    scan_pipeline [sp] atoms hits d = map mtch_of (sp_ref sp xr d).
  Proof.
    intros hits Hsp Hh. apply pipeline_from_obligations; try assumption.
    - reflexivity.
    - apply handle_sound_xor.
    - apply handle_complete_xor.
    - intros s e k H. apply sp_match_xor in H. destruct H as [x [t [y [key [_ [_ [_ [_ [_ [_ [Hb _]]]]]]]]]]]. lia.
  Qed.
End Xor.

(* ---- anchored literals (verify_anchored_patterns) ------------------------- *)
Theorem pipeline_anchored : forall lit off fl xr d hits,
  let sp := mkSP (KLiteral lit (Some off)) fl in
  atoms_ok sp xr [] = true ->
  scan_pipeline [sp] [] hits d = map mtch_of (sp_ref sp xr d).
Proof.
  intros lit off fl xr d hits sp _.
  assert (Hhits : flat_map (fun h => opt_list (handle_hit [sp] [] d h)) hits = []).
  { induction hits as [|[i pos] hits IH]; [reflexivity|]. cbn [flat_map]. rewrite IH.
    unfold handle_hit. cbn [fst]. destruct i; reflexivity. }
  unfold scan_pipeline. rewrite Hhits, app_nil_r. cbn [flat_map]. rewrite app_nil_r.
  rewrite <- (map_map mtch_of (fun m => (m, true))). fold (all_true (map mtch_of (opt_list (verify_anchored sp d)))).
  apply (pipeline_generic (sp_match sp xr d) (length d)).
  intros s e k. unfold verify_anchored, sp_match. cbn [sp sp_kind sp_flags].
  unfold verify_literal. rewrite vfw_guard.
  destruct (Nat.eqb off s) eqn:E.
  - apply Nat.eqb_eq in E. subst s. cbn [andb].
    destruct (Nat.leb (off + length lit) (length d)) eqn:B; cbn [andb].
    + apply Nat.leb_le in B. rewrite (andb_comm (verify_full_word fl 0 d off (off + length lit))).
      destruct (prefix_b (byte_eq (f_nocase fl) 0) lit (skipn off d) && verify_full_word fl 0 d off (off + length lit)); cbn [opt_list In].
      * split; [intros [H|[]]; inversion H; subst; split; [reflexivity|lia]|]. intros [H _]. inversion H; subst. left. reflexivity.
      * split; [intros []|]. intros [H _]. discriminate.
    + cbn [opt_list In]. split; [intros []|]. intros [H _]. discriminate.
  - cbn [andb]. apply Nat.eqb_neq in E.
    destruct (Nat.leb (off + length lit) (length d) && verify_full_word fl 0 d off (off + length lit) &&
              prefix_b (byte_eq (f_nocase fl) 0) lit (skipn off d)); cbn [opt_list In].
    + split; [intros [H|[]]; inversion H; subst; congruence|]. intros [H _]. discriminate.
    + split; [intros []|]. intros [H _]. discriminate.
Qed.

(* ---- the family ------------------------------------------------------------ *)
Definition in_family (sp : subpat) : bool :=
  match sp_kind sp with KLiteral _ _ | KMasked _ _ | KXor _ => true | _ => false end.

(* With correct atoms and a search automaton that reports exactly the atom
   occurrences, in any order, the pipeline yields the reference list of the
   sub-pattern. *)
Theorem pipeline_literal_family : forall sp xr atoms d hits,
  in_family sp = true ->
  atoms_ok sp xr atoms = true ->
  Forall (fun b => (b < 256)%N) d ->
  (forall a, In a atoms -> a_sp a = 0) ->
  hits_exact atoms d hits ->
  scan_pipeline [sp] atoms hits d = map mtch_of (sp_ref sp xr d).
Proof.
  intros [[lit [off|]|lit mask|lit|lit p a w|] fl] xr atoms d hits Hf Hok Hd Hsp Hh; try discriminate.
  - unfold atoms_ok in Hok. cbn [sp_kind] in Hok. destruct atoms; [|discriminate]. apply pipeline_anchored. reflexivity.
  - apply pipeline_literal; assumption.
  - apply pipeline_masked; assumption.
  - apply pipeline_xor; assumption.
Qed.

(* the hits computed by all_hits are admissible *)
Lemma all_hits_complete : forall atoms d i a pos,
  nth_error atoms i = Some a -> atom_at a d pos = true -> In (i, pos) (all_hits atoms d).
Proof.
  intros atoms d i a pos E At. unfold all_hits. apply in_flat_map. exists pos. split.
  - apply in_seq. apply atom_at_spec in At. lia.
  - apply in_flat_map. exists i. split; [apply in_seq; split; [lia|]; apply nth_error_Some; congruence|].
    rewrite E, At. left. reflexivity.
Qed.

Theorem all_hits_hits_exact : forall atoms d, hits_exact atoms d (all_hits atoms d).
Proof.
  intros atoms d i pos. split; [apply all_hits_exact|]. intros [a [E At]]. eapply all_hits_complete; eassumption.
Qed.

(* non-vacuity: a nocase literal with its four real atoms *)
Example pipeline_example :
  let sp := mkSP (KLiteral [97; 98; 99]%N None) (mkF false true false false) in
  let atoms := [mkAtom 0 [97; 98]%N 0 false; mkAtom 0 [97; 66]%N 0 false; mkAtom 0 [65; 98]%N 0 false; mkAtom 0 [65; 66]%N 0 false] in
  let d := [120; 65; 98; 67; 97; 98; 99]%N in
  atoms_ok sp (0, 0)%N atoms = true /\
  scan_pipeline [sp] atoms (all_hits atoms d) d = [mkM 1 4 None; mkM 4 7 None].
Proof. vm_compute. split; reflexivity. Qed.

(* ---- base64: the 9-entry table of verify_base64 --------------------------- *)
Lemma enc_len_3q : forall q k, enc_len (3 * q + k) = 4 * q + enc_len k.
Proof.
  intros q k. unfold enc_len. replace ((3 * q + k) * 8 + 5) with (q * 4 * 6 + (k * 8 + 5)) by lia.
  rewrite Nat.div_add_l by lia. lia.
Qed.

Lemma mod4_4q : forall q c, (4 * q + c) mod 4 = c mod 4.
Proof. intros. rewrite Nat.add_comm, Nat.mul_comm. apply Nat.mod_add. lia. Qed.
Lemma mod3_3q : forall q c, (3 * q + c) mod 3 = c mod 3.
Proof. intros. rewrite Nat.add_comm, Nat.mul_comm. apply Nat.mod_add. lia. Qed.

(* The table (decode_start_delta, decode_len, match_len) indexed by the padding
   and the length of the encoded pattern mod 4 is what the derivation in the
   documentation gives: the window starts core_start(padding) characters before
   the match, covers the smallest whole number of 4-character groups that
   contains padding + n bytes, and the match is the neighbour-independent part. *)
Theorem b64_table_formulas : forall p n, p <= 2 -> 1 <= n ->
  b64_table p (enc_len n) =
  Some (core_start p, enc_len (p + n + (3 - (p + n) mod 3) mod 3), core_len p n).
Proof.
  intros p n Hp Hn.
  assert (Hq : n = 3 * (n / 3) + n mod 3) by (apply Nat.div_mod; lia).
  pose proof (Nat.mod_upper_bound n 3 ltac:(lia)) as Hr.
  set (q := n / 3) in *. set (r := n mod 3) in *. clearbody q r. subst n.
  unfold core_len, core_start.
  assert (P : p = 0 \/ p = 1 \/ p = 2) by lia. assert (R : r = 0 \/ r = 1 \/ r = 2) by lia.
  destruct P as [-> | [-> | ->]]; destruct R as [-> | [-> | ->]];
    repeat match goal with
    | |- context [enc_len (?a + (3 * q + ?b) + ?c)] => replace (a + (3 * q + b) + c) with (3 * q + (a + b + c)) by lia
    | |- context [enc_len (?a + (3 * q + ?b))] => replace (a + (3 * q + b)) with (3 * q + (a + b)) by lia
    | |- context [(?a + (3 * q + ?b)) mod 3] => replace (a + (3 * q + b)) with (3 * q + (a + b)) by lia
    end;
    rewrite ?enc_len_3q, ?mod3_3q; cbn [Nat.add];
    unfold b64_table; rewrite ?mod4_4q;
    repeat (match goal with |- context [enc_len ?k] => let v := eval vm_compute in (enc_len k) in change (enc_len k) with v end);
    repeat (match goal with |- context [?a mod ?b] => let v := eval vm_compute in (a mod b) in change (a mod b) with v end);
    cbn [Nat.eqb]; (apply f_equal; apply f_equal2; [apply f_equal2; lia | lia]).
Qed.

(* strict decoding (what the base64 crate accepts) implies the permissive
   decoding used by the specification, with the same bytes *)
Lemma unsextets_strict_loose : forall l bs, unsextets_strict l = Some bs -> unsextets l = Some bs.
Proof.
  fix IH 1. intros [|a [|b [|c [|e t]]]] bs H; cbn [unsextets_strict unsextets] in *; try exact H.
  - destruct (b mod 16 =? 0)%N; [exact H|discriminate].
  - destruct (c mod 4 =? 0)%N; [exact H|discriminate].
  - destruct (unsextets_strict t) as [r|] eqn:E; [|discriminate]. rewrite (IH t r E). exact H.
Qed.

Lemma b64_decode_strict_loose : forall a cs bs, b64_decode_strict a cs = Some bs -> b64_decode a cs = Some bs.
Proof.
  intros a cs bs H. unfold b64_decode_strict, b64_decode in *. destruct (sextets a cs); [|discriminate].
  apply unsextets_strict_loose. exact H.
Qed.

(* The base64 members of the family.  K stream (d) compares verify_base64 (the
   model above, with the table proved equal to the derivation) with the
   implementation exactly, and checks atoms_ok on the real atoms.  The link to
   the specification:
   soundness   every range verify_base64 returns is an occurrence in the sense of
               Modifiers.b64_occ_at (for some number 0..2 of bytes after the text):
               PROVED for the ascii encoding (PipelineB64Proofs.
               pipeline_base64_sound_ascii_partial) and for the wide encoding
               (pipeline_base64_sound_wide; before commit b2a39c9f verify_base64 dropped
               every '=' found at an even offset of a wide window, also in the middle, and
               the statement only held for data without '=': the weaker statement below);
   completeness every occurrence whose window is a whole number of 4-character
               groups inside the data is found through the atom: PROVED for both
               encodings under the side conditions the statement below omits -- a proper
               alphabet without '=' (PipelineB64CompleteProofs.pipeline_base64_complete_partial). *)
Definition pipeline_base64_sound_wide_partial_statement : Prop :=
  forall lit d p pos alpha s e, p <= 2 -> lit <> [] ->
    (forall i, nth_error d i = Some 61%N -> False) ->
    verify_base64 lit d p pos alpha true = Some (s, e) ->
    sp_match (mkSP (KBase64 lit p alpha true) (mkF false false false false)) (0, 0)%N d s = Some (e, None).

Definition pipeline_base64_complete_partial_statement : Prop :=
  forall lit d p alpha wide atoms s,
    let sp := mkSP (KBase64 lit p alpha wide) (mkF false false false false) in
    atoms_ok sp (0, 0)%N atoms = true ->
    b64_occ_at alpha wide lit p ((3 - (p + length lit) mod 3) mod 3) d s (core_len p (length lit) * unit_of wide) = true ->
    exists a pos, In a atoms /\ atom_at a d pos = true /\
                  handle_atom_match sp a pos d = Some (s, s + core_len p (length lit) * unit_of wide, None).

(* atoms_ok does reject wrong atoms: a wrong backtrack, a missing spelling, an
   exact flag on a partial atom, a xor key outside the range *)
Example atoms_ok_rejects :
  let sp := mkSP (KLiteral [97; 98; 99; 100; 101]%N None) (mkF false true false false) in
  atoms_ok sp (0, 0)%N [mkAtom 0 [98; 99]%N 1 false; mkAtom 0 [98; 67]%N 1 false; mkAtom 0 [66; 99]%N 1 false; mkAtom 0 [66; 67]%N 1 false] = true /\
  atoms_ok sp (0, 0)%N [mkAtom 0 [98; 99]%N 2 false; mkAtom 0 [98; 67]%N 2 false; mkAtom 0 [66; 99]%N 2 false; mkAtom 0 [66; 67]%N 2 false] = false /\
  atoms_ok sp (0, 0)%N [mkAtom 0 [98; 99]%N 1 false; mkAtom 0 [98; 67]%N 1 false; mkAtom 0 [66; 99]%N 1 false] = false /\
  atoms_ok sp (0, 0)%N [mkAtom 0 [98; 99]%N 1 true; mkAtom 0 [98; 67]%N 1 false; mkAtom 0 [66; 99]%N 1 false; mkAtom 0 [66; 67]%N 1 false] = false /\
  atoms_ok (mkSP (KXor [97; 98]%N) (mkF false false false false)) (1, 2)%N
           [mkAtom 0 [96; 99]%N 0 false; mkAtom 0 [99; 96]%N 0 false; mkAtom 0 [98; 97]%N 0 false] = false.
Proof. vm_compute. repeat split. Qed.
