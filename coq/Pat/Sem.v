(* Specification level (S): when does a regular expression over bytes match
   the data from position i to position j.  Position based, so that the
   assertions ^ $ \b \B (regexps.md) and `fullword` are predicates on
   (data, position).  Greediness is ignored on purpose: greedy and lazy
   repetitions denote the same set of (start, end) pairs; which of several
   ends is *reported* is not documented (DESIGN.md 1.3). *)
From Coq Require Import List NArith Bool Arith.
From YV Require Import Pat.Syntax.
Import ListNotations.
Local Open Scope N_scope.

(* ---- bytes ------------------------------------------------------------ *)
Definition is_upper (b : N) : bool := (65 <=? b) && (b <=? 90).
Definition is_lower (b : N) : bool := (97 <=? b) && (b <=? 122).
Definition is_digit (b : N) : bool := (48 <=? b) && (b <=? 57).
Definition is_alnum (b : N) : bool := is_upper b || is_lower b || is_digit b.
(* \w of regexps.md: alphanumeric or `_` *)
Definition is_word (b : N) : bool := is_alnum b || (b =? 95).
(* ASCII case folding, the meaning of `nocase` and /i *)
Definition swapcase (b : N) : N :=
  if is_upper b then b + 32 else if is_lower b then b - 32 else b.

Definition in_ranges (rs : list (N * N)) (b : N) : bool :=
  existsb (fun r => (fst r <=? b) && (b <=? snd r)) rs.

(* does byte b belong to class c (nc = case-insensitive).  For bracketed
   classes case folding is applied before negation: /[^a]/i excludes a and A. *)
Definition cls_match (nc : bool) (c : cls) (b : N) : bool :=
  match c with
  | CByte x => (b =? x) || (nc && (swapcase b =? x))
  | CMask v m => N.land b m =? v
  | CNotMask v m => negb (N.land b m =? v)
  | CAny => true
  | CRanges neg rs => xorb neg (in_ranges rs b || (nc && in_ranges rs (swapcase b)))
  end.

(* ---- assertions ------------------------------------------------------- *)
Definition word_at (d : bytes) (i : nat) : bool :=
  match nth_error d i with Some b => is_word b | None => false end.
Definition word_before (d : bytes) (i : nat) : bool :=
  match i with O => false | S k => word_at d k end.

(* The neighbours of position i as an assertion sees them: the byte before and the byte
   at i -- or, in the wide form of a regexp, the CHARACTERS: the byte two positions
   before (if there are two bytes before) and the byte at i (if two bytes follow).  The
   documentation only says that `wide` regexps match characters interleaved with
   zeroes; following DESIGN.md 1.3 the reading of the implementation (re/mod.rs
   WideIter) is taken where a neighbour is not a proper wide character: the byte in
   the character position is looked at, the byte in the zero position is not, and a
   single remaining byte is no neighbour at all (so ^ also holds at offset 1 and $ one
   byte before the end). *)
Definition nb_prev (wide : bool) (d : bytes) (i : nat) : option N :=
  if wide then (if Nat.leb 2 i then nth_error d (i - 2) else None)
  else match i with O => None | S k => nth_error d k end.
Definition nb_next (wide : bool) (d : bytes) (i : nat) : option N :=
  if wide then (if Nat.leb (i + 2) (length d) then nth_error d i else None)
  else nth_error d i.
Definition is_word_opt (o : option N) : bool := match o with Some b => is_word b | None => false end.
Definition is_none (o : option N) : bool := match o with Some _ => false | None => true end.

Fixpoint assert_holds_w (wide : bool) (a : assertion) (d : bytes) (i : nat) : bool :=
  let p := is_word_opt (nb_prev wide d i) in
  let c := is_word_opt (nb_next wide d i) in
  match a with
  | AStart => is_none (nb_prev wide d i)         (* ^ : the beginning of the data *)
  | AEnd => is_none (nb_next wide d i)           (* $ : the end of the data *)
  | AWordB => xorb p c
  | ANotWordB => negb (xorb p c)
  | AWordStart => negb p && c                    (* \b{start} *)
  | AWordEnd => p && negb c                      (* \b{end} *)
  | AWide a' => assert_holds_w true a' d i
  end.
Definition assert_holds (a : assertion) (d : bytes) (i : nat) : bool := assert_holds_w false a d i.

Definition le_opt (k : nat) (mx : option nat) : Prop :=
  match mx with None => True | Some m => (k <= m)%nat end.

(* k-fold iteration of a step relation *)
Inductive Iter (P : nat -> nat -> Prop) : nat -> nat -> nat -> Prop :=
| Iter0 : forall i, Iter P 0 i i
| IterS : forall k i m j, P i m -> Iter P k m j -> Iter P (S k) i j.

(* M nc d r i j : r matches d[i..j) *)
Inductive M (nc : bool) (d : bytes) : re -> nat -> nat -> Prop :=
| MEps : forall i, (i <= length d)%nat -> M nc d REps i i
| MCls : forall c i b, nth_error d i = Some b -> cls_match nc c b = true ->
                       M nc d (RCls c) i (S i)
| MCat : forall a b i k j, M nc d a i k -> M nc d b k j -> M nc d (RCat a b) i j
| MAltL : forall a b i j, M nc d a i j -> M nc d (RAlt a b) i j
| MAltR : forall a b i j, M nc d b i j -> M nc d (RAlt a b) i j
| MRep : forall r mn mx g k i j, (i <= length d)%nat -> (mn <= k)%nat -> le_opt k mx ->
                                 Iter (M nc d r) k i j -> M nc d (RRep r mn mx g) i j
| MAssert : forall a i, (i <= length d)%nat -> assert_holds a d i = true ->
                        M nc d (RAssert a) i i.
