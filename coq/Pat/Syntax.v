(* Abstract syntax of YARA patterns (text, hex, regexp) as far as the
   documentation under site/content/docs/writing_rules/{text,hex}_patterns.md
   and regexps.md defines it.  Every hex pattern and every regexp is a regular
   expression over bytes:

     hex byte  AB        RCls (CByte 0xAB)
     A? ?B ??            RCls (CMask v m)          (x land m = v; ?? is m = 0)
     ~AB ~A? ~?B         RCls (CNotMask v m)
     [n-m] [n] [n-] [-]  RRep (RCls CAny) n (Some m | None) false      (a jump)
     ( a | b )           RAlt a b
     regexp literal c    RCls (CByte c)
     .                   RCls CAny with /s, RCls (CRanges true [(10,10)]) without
     [a-c] [^a-c] \d ..  RCls (CRanges neg ranges)
     x* x+ x? x{n,m} ..  RRep x min max greedy      (greedy or lazy: same language)
     ^ $ \b \B           RAssert a

   The harness (harness/src/bin/c01.rs) has the same AST, prints it to YARA
   source for the compiler and to a Gallina term for the checker. *)
From Coq Require Import List NArith Bool.
Import ListNotations.

Definition byte := N.
Definition bytes := list N.

Inductive cls :=
| CByte (b : N)
| CMask (v m : N)
| CNotMask (v m : N)
| CAny
| CRanges (neg : bool) (rs : list (N * N)).

(* ^ $ \b \B \b{start} \b{end}; AWide a: the assertion a inside the `wide` form of a
   regexp, where the neighbouring CHARACTERS are two bytes away (Modifiers.widen_re) *)
Inductive assertion := AStart | AEnd | AWordB | ANotWordB | AWordStart | AWordEnd | AWide (a : assertion).

Inductive re :=
| REps
| RCls (c : cls)
| RCat (a b : re)
| RAlt (a b : re)
| RRep (r : re) (min : nat) (max : option nat) (greedy : bool)
| RAssert (a : assertion).

(* concatenation of a list of pieces *)
Fixpoint rcat (l : list re) : re :=
  match l with
  | [] => REps
  | [x] => x
  | x :: t => RCat x (rcat t)
  end.

(* a literal byte string *)
Definition rlit (s : bytes) : re := rcat (map (fun b => RCls (CByte b)) s).

(* a hex-pattern jump [n-m] / [n-] *)
Definition rjump (n : nat) (m : option nat) : re := RRep (RCls CAny) n m false.

(* Base64 alphabet: 64 distinct bytes (the compiler validates custom ones) *)
Definition alphabet := list N.

(* modifiers of a text pattern (text_patterns.md) *)
Record tmods := mkTM {
  tm_nocase : bool;
  tm_ascii : bool;
  tm_wide : bool;
  tm_fullword : bool;
  tm_xor : option (N * N);            (* xor(lo-hi); plain `xor` is (0,255) *)
  tm_b64 : option alphabet;           (* base64 / base64("...") : the alphabet in use *)
  tm_b64wide : option alphabet }.

(* modifiers of a regexp pattern (regexps.md): nocase or /i, wide, ascii, fullword *)
Record rmods := mkRM {
  rm_nocase : bool;
  rm_ascii : bool;
  rm_wide : bool;
  rm_fullword : bool }.

Inductive pat :=
| PText (text : bytes) (m : tmods)
| PHex (r : re)
| PRegexp (r : re) (m : rmods).
