(* C03 - the Teddy multi-pattern prefilter (lib/src/teddy/generic.rs) at the
   level of its bucketed nibble masks; the SIMD kernels, the chunking of the
   haystack and the handling of its last window are NOT modelled (they decide
   how candidates are computed, not which positions are candidates).

   Source facts: patterns are assigned to 8 or 16 buckets (Teddy::new: by the
   low nibbles of their first mask_len bytes, otherwise round robin - any
   assignment will do here); for each of the first mask_len = min(4, shortest
   pattern) byte positions there is a low-nibble table and a high-nibble table
   whose entry for nibble x has bit b set iff some pattern of bucket b has a
   byte with that nibble at that position (Slim/FatMaskBuilder::add); position i
   is a candidate for bucket b iff for every position j < mask_len both tables
   have bit b for haystack[i + j]; every pattern of a candidate bucket is then
   verified at i (verify64_all -> is_prefix).  Definitions only. *)
From Coq Require Import List ZArith Bool Lia.
Import ListNotations.
Local Open Scope Z_scope.

Definition bytes := list Z.

Record tcfg := mkTcfg { n_buckets : nat; bucket_of : nat -> nat; mask_len : nat }.

Fixpoint is_prefix (p d : bytes) : bool :=
  match p, d with
  | [], _ => true
  | x :: p', y :: d' => (x =? y) && is_prefix p' d'
  | _ :: _, [] => false
  end.
Definition occurs_at (p data : bytes) (i : nat) : bool := is_prefix p (skipn i data).

(* the mask tables *)
Definition lo_has (cfg : tcfg) (pats : list bytes) (pos : nat) (nib : Z) (b : nat) : bool :=
  existsb (fun k => Nat.eqb (bucket_of cfg k) b &&
                    match nth_error (nth k pats []) pos with Some x => x mod 16 =? nib | None => false end)
          (seq 0 (length pats)).
Definition hi_has (cfg : tcfg) (pats : list bytes) (pos : nat) (nib : Z) (b : nat) : bool :=
  existsb (fun k => Nat.eqb (bucket_of cfg k) b &&
                    match nth_error (nth k pats []) pos with Some x => x / 16 =? nib | None => false end)
          (seq 0 (length pats)).

Definition candidate (cfg : tcfg) (pats : list bytes) (data : bytes) (i : nat) (b : nat) : bool :=
  forallb (fun j => match nth_error data (i + j) with
                    | Some x => lo_has cfg pats j (x mod 16) b && hi_has cfg pats j (x / 16) b
                    | None => false
                    end) (seq 0 (mask_len cfg)).

(* candidates are verified: every pattern of the bucket is compared at i *)
Definition teddy_find (cfg : tcfg) (pats : list bytes) (data : bytes) : list (nat * nat) :=
  flat_map (fun i =>
    flat_map (fun b =>
      if candidate cfg pats data i b
      then flat_map (fun k => if Nat.eqb (bucket_of cfg k) b && occurs_at (nth k pats []) data i then [(k, i)] else [])
                    (seq 0 (length pats))
      else []) (seq 0 (n_buckets cfg))) (seq 0 (length data)).

(* the specification: every pattern at every position (what Aho-Corasick's
   find_overlapping_iter reports, up to order) *)
Definition naive_find (pats : list bytes) (data : bytes) : list (nat * nat) :=
  flat_map (fun i => flat_map (fun k => if occurs_at (nth k pats []) data i then [(k, i)] else [])
                              (seq 0 (length pats))) (seq 0 (length data)).

(* what Builder::build guarantees about the configuration *)
Definition cfg_ok (cfg : tcfg) (pats : list bytes) : Prop :=
  (forall k, (k < length pats)%nat -> (mask_len cfg <= length (nth k pats []))%nat) /\
  (forall k, (k < length pats)%nat -> (bucket_of cfg k < n_buckets cfg)%nat).
