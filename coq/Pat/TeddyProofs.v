(* C03 - Teddy's candidate filter never loses an occurrence, hence verifying
   its candidates finds exactly what the naive multi-pattern search finds. *)
From Coq Require Import List ZArith Bool Lia.
From YV Require Import Pat.Teddy.
Import ListNotations.
Local Open Scope Z_scope.

Lemma is_prefix_nth : forall p d, is_prefix p d = true ->
  forall j x, nth_error p j = Some x -> nth_error d j = Some x.
Proof.
  induction p as [|a p IH]; intros d H j x Hj; [destruct j; discriminate|].
  destruct d as [|b d]; cbn [is_prefix] in H; [discriminate|].
  apply andb_true_iff in H. destruct H as [Hab Hp]. apply Z.eqb_eq in Hab. subst b.
  destruct j; cbn [nth_error] in *; [exact Hj|]. apply IH; assumption.
Qed.

Lemma nth_error_skipn_add : forall (d : bytes) i j, nth_error (skipn i d) j = nth_error d (i + j).
Proof.
  induction d as [|a d IH]; intros i j.
  - rewrite skipn_nil. destruct j, i; reflexivity.
  - destruct i; [reflexivity|]. cbn [skipn Nat.add nth_error]. apply IH.
Qed.

Theorem teddy_candidates_complete : forall cfg pats data i k,
  cfg_ok cfg pats -> (k < length pats)%nat ->
  occurs_at (nth k pats []) data i = true ->
  candidate cfg pats data i (bucket_of cfg k) = true.
Proof.
  intros cfg pats data i k [Hlen _] Hk Hocc. unfold candidate. apply forallb_forall. intros j Hj.
  apply in_seq in Hj. specialize (Hlen k Hk).
  destruct (nth_error (nth k pats []) j) as [x|] eqn:Ex.
  2:{ apply nth_error_None in Ex. lia. }
  unfold occurs_at in Hocc. pose proof (is_prefix_nth _ _ Hocc j x Ex) as Hd.
  rewrite nth_error_skipn_add in Hd. rewrite Hd.
  apply andb_true_iff. split; apply existsb_exists; exists k; (split; [apply in_seq; lia|]);
    rewrite Nat.eqb_refl, Ex; cbn [andb]; apply Z.eqb_refl.
Qed.

Lemma naive_in : forall pats data k i,
  In (k, i) (naive_find pats data) <->
  (i < length data)%nat /\ (k < length pats)%nat /\ occurs_at (nth k pats []) data i = true.
Proof.
  intros pats data k i. unfold naive_find. rewrite in_flat_map. split.
  - intros [i' [Hi H]]. apply in_flat_map in H. destruct H as [k' [Hk H]].
    destruct (occurs_at (nth k' pats []) data i') eqn:E; [|contradiction].
    destruct H as [H|[]]. inversion H; subst. apply in_seq in Hi, Hk. repeat split; try lia. exact E.
  - intros [Hi [Hk E]]. exists i. split; [apply in_seq; lia|]. apply in_flat_map. exists k.
    split; [apply in_seq; lia|]. rewrite E. left; reflexivity.
Qed.

Lemma teddy_in : forall cfg pats data k i,
  In (k, i) (teddy_find cfg pats data) <->
  (i < length data)%nat /\ (k < length pats)%nat /\ (bucket_of cfg k < n_buckets cfg)%nat /\
  candidate cfg pats data i (bucket_of cfg k) = true /\ occurs_at (nth k pats []) data i = true.
Proof.
  intros cfg pats data k i. unfold teddy_find. rewrite in_flat_map. split.
  - intros [i' [Hi H]]. apply in_flat_map in H. destruct H as [b [Hb H]].
    destruct (candidate cfg pats data i' b) eqn:C; [|contradiction].
    apply in_flat_map in H. destruct H as [k' [Hk H]].
    destruct (Nat.eqb (bucket_of cfg k') b && occurs_at (nth k' pats []) data i') eqn:E; [|contradiction].
    destruct H as [H|[]]. inversion H; subst. apply andb_true_iff in E. destruct E as [Eb Eo].
    apply Nat.eqb_eq in Eb. subst b. apply in_seq in Hi, Hk, Hb. repeat split; try lia; assumption.
  - intros [Hi [Hk [Hb [C E]]]]. exists i. split; [apply in_seq; lia|]. apply in_flat_map.
    exists (bucket_of cfg k). split; [apply in_seq; lia|]. rewrite C. apply in_flat_map. exists k.
    split; [apply in_seq; lia|]. rewrite Nat.eqb_refl, E. left; reflexivity.
Qed.

Theorem teddy_equals_naive : forall cfg pats data, cfg_ok cfg pats ->
  forall k i, In (k, i) (teddy_find cfg pats data) <-> In (k, i) (naive_find pats data).
Proof.
  intros cfg pats data Hok k i. rewrite teddy_in, naive_in. split.
  - intros [Hi [Hk [_ [_ E]]]]. auto.
  - intros [Hi [Hk E]]. destruct Hok as [Hl Hb]. repeat split; auto.
    apply teddy_candidates_complete; [split; assumption|exact Hk|exact E].
Qed.

(* non-vacuity: three patterns in two buckets; the filter rejects position 0,
   accepts position 1 for bucket 1 although only "bcd" occurs there *)
Example teddy_example :
  let cfg := mkTcfg 2 (fun k => Nat.modulo k 2) 2 in
  let pats := [[97; 98; 99]; [98; 99; 100]; [120; 121]] in
  let data := [0; 98; 99; 100; 97; 98; 99] in
  cfg_ok cfg pats /\
  candidate cfg pats data 0 0 = false /\ candidate cfg pats data 1 1 = true /\
  teddy_find cfg pats data = [(1, 1); (0, 4)]%nat /\ naive_find pats data = [(1, 1); (0, 4)]%nat.
Proof.
  cbn zeta. split.
  - split; intros k Hk; cbn [length] in Hk;
      (destruct k as [|[|[|k]]]; [| | |lia]); cbn; try lia.
  - vm_compute. repeat split.
Qed.
