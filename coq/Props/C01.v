(* C01 - reported pattern matches are exactly the genuine occurrences.
   Property theorems only: each is closed by [exact] of a lemma proved in
   coq/Pat/*Proofs.v; the statements are pinned here. *)
From Coq Require Import List NArith ZArith Bool Lia Sorted.
From YV Require Import Gen.PatConsts Pat.Syntax Pat.Sem Pat.Matcher Pat.MatcherProofs
  Pat.Modifiers Pat.ModifiersProofs Pat.MatchList Pat.MatchListProofs
  Pat.C01Check Pat.C01CheckProofs Pat.Base64 Pat.Base64Proofs Pat.Chain Pat.ChainProofs
  Pat.Atoms Pat.AtomsProofs Pat.Pipeline Pat.PipelineProofs Pat.PipelineB64Proofs
  Pat.ChainRun Pat.ChainRunProofs Pat.ChainCompleteProofs Pat.PipelineB64CompleteProofs Pat.ChainEndProofs
  Gen.JumpCoalesce Pat.Jumps Pat.JumpsProofs.
Import ListNotations.

(* ---- R |= S : the reference matcher ------------------------------------ *)
(* the executable matcher computes exactly the match relation, for every
   regular expression, data and position (no fuel side condition) *)
Theorem matcher_sound_complete : forall nc d r i j, In j (ends nc d r i) <-> M nc d r i j.
Proof. exact ends_spec. Qed.
Print Assumptions matcher_sound_complete.

(* greedy or lazy: the same set of (start, end) pairs *)
Theorem greediness_does_not_change_matches : forall nc d r mn mx g1 g2 i j,
  M nc d (RRep r mn mx g1) i j <-> M nc d (RRep r mn mx g2) i j.
Proof. exact greediness_irrelevant. Qed.
Print Assumptions greediness_does_not_change_matches.

(* the boolean checker used on the implementation's output reflects the
   documented meaning of patterns and modifiers *)
Theorem genuine_checker_reflects : forall p d s len key,
  genuine_b p d s len key = true <-> genuine p d s len key.
Proof. exact genuine_b_spec. Qed.
Print Assumptions genuine_checker_reflects.

(* the reference scan lists exactly the genuine occurrences *)
Theorem reference_scan_complete : forall p d s l key, genuine p d s l key ->
  exists ls, In (s, ls) (ref_scan p d) /\ In l ls.
Proof. exact ref_scan_complete. Qed.
Print Assumptions reference_scan_complete.

Theorem reference_scan_sound : forall p d s ls l, In (s, ls) (ref_scan p d) -> In l ls ->
  exists key, genuine p d s l key.
Proof. exact ref_scan_sound. Qed.
Print Assumptions reference_scan_sound.

(* every start the specification demands is the start of a genuine occurrence,
   and outside base64 / fullword-on-a-regexp it demands all of them *)
Theorem required_are_genuine : forall p d s, required_at p d s = true ->
  exists l key, genuine p d s l key.
Proof. exact required_genuine. Qed.
Print Assumptions required_are_genuine.

Theorem required_is_everything : forall p d s,
  match p with
  | PText _ m => has_b64 m = false
  | PHex _ => True
  | PRegexp _ m => rm_fullword m = false
  end ->
  (required_at p d s = true <-> exists l key, genuine p d s l key).
Proof. exact required_exact. Qed.
Print Assumptions required_is_everything.

(* ---- S on one scan ------------------------------------------------------ *)
(* what a `true` of the per-case check means: soundness of every reported
   (offset, length, key), strictly ascending offsets (one match per start),
   completeness of starts within the documented limits, the configured limit *)
Theorem scan_check_means_c01 : forall p d mm rep,
  scan_spec p d mm rep = true ->
  (forall t, In t rep -> genuine p d (N.to_nat (t_start t)) (N.to_nat (t_len t)) (t_key t)) /\
  Sorted N.lt (map t_start rep) /\ NoDup (map t_start rep) /\
  (limit_reached mm rep = false ->
   forall s, required_at p d s = true -> s <= length d ->
             within_scan_limit p (ref_scan p d) s = true -> In (N.of_nat s) (map t_start rep)) /\
  (forall n, mm = Some n -> n <> 0%N -> (N.of_nat (length rep) <= n)%N).
Proof. exact scan_spec_correct. Qed.
Print Assumptions scan_check_means_c01.

(* ---- A : MatchList / PatternMatches ------------------------------------ *)
Theorem match_list_add_sorted : forall l m r, sorted l -> sorted (fst (ml_add l m r)).
Proof. exact add_sorted. Qed.
Print Assumptions match_list_add_sorted.

Theorem match_list_add_starts_unique : forall l m r, sorted l -> NoDup (map m_start (fst (ml_add l m r))).
Proof. exact add_starts_unique. Qed.
Print Assumptions match_list_add_starts_unique.

Theorem match_list_add_start_set : forall l m r x, sorted l ->
  (In x (map m_start (fst (ml_add l m r))) <-> x = m_start m \/ In x (map m_start l)).
Proof. exact add_start_set. Qed.
Print Assumptions match_list_add_start_set.

Theorem match_list_add_len : forall l m r, sorted l ->
  length (fst (ml_add l m r)) = if snd (ml_add l m r) then S (length l) else length l.
Proof. exact add_len. Qed.
Print Assumptions match_list_add_len.

Theorem match_list_add_keeps_others : forall l m r x, sorted l ->
  In x l -> m_start x <> m_start m -> In x (fst (ml_add l m r)).
Proof. exact add_other_matches_kept. Qed.
Print Assumptions match_list_add_keeps_others.

(* every history of adds yields a strictly ascending, start-unique list *)
Theorem match_list_always_sorted : forall ops, sorted (run_adds ops).
Proof. exact run_adds_sorted. Qed.
Print Assumptions match_list_always_sorted.

Theorem match_list_search_spec : forall l off i, sorted l ->
  (ml_search l off = (true, i) -> nth_error (map m_start l) i = Some off) /\
  (ml_search l off = (false, i) ->
     ~ In off (map m_start l) /\ i = length (filter (fun m => (m_start m <? off)%N) l)).
Proof. exact search_spec. Qed.
Print Assumptions match_list_search_spec.

(* the specification form of the search equals the std binary-search loop *)
Theorem match_list_search_is_binary_search : forall l off, sorted l -> ml_search_std l off = ml_search l off.
Proof. exact search_std_eq. Qed.
Print Assumptions match_list_search_is_binary_search.

Theorem match_list_matches_in_range : forall l lo hi, sorted l ->
  ml_matches_in_range l lo hi =
  Z.of_nat (length (filter (fun m => ((lo <=? Z.of_N (m_start m)) && (Z.of_N (m_start m) <=? hi))%Z) l)).
Proof. exact matches_in_range_spec. Qed.
Print Assumptions match_list_matches_in_range.

(* "replace_if_longer keeps the longest": after any sequence of add(_, true) the end
   stored for a start is the maximum of the ends added for it.  TRUE since commit
   a09b6a08 (before, the arm for "same start as the last match" overwrote `end`
   without comparing and the statement was refuted); and the stored end is always one
   of the ends that were added for that start. *)
Theorem match_list_keeps_longest : forall ms x,
  In x (adds_true ms) -> m_end x = max_list (ends_for (m_start x) ms).
Proof. exact add_keeps_longest_holds. Qed.
Print Assumptions match_list_keeps_longest.

Theorem match_list_end_was_added : forall ops y,
  In y (run_adds ops) -> In (m_end y) (ends_for (m_start y) (map fst ops)).
Proof. exact add_end_is_one_of_added. Qed.
Print Assumptions match_list_end_was_added.

(* the per-pattern limit; the bound is max(limit, 1) because a vacant entry is
   filled without looking at the limit (pm_add_limit_zero_refuted) *)
Theorem pattern_matches_limit : forall mx ops,
  pm_all (fun l => (len_N l <= N.max mx 1)%N) (pm_run (pm_set_max pm_new mx) ops).
Proof. exact pm_add_limit. Qed.
Print Assumptions pattern_matches_limit.

Theorem pattern_matches_limit_rejects_unchanged : forall p pid m r,
  snd (pm_add p pid m r) = MaxMatchesReached -> fst (pm_add p pid m r) = p.
Proof. exact pm_add_max_reached_unchanged. Qed.
Print Assumptions pattern_matches_limit_rejects_unchanged.

Theorem pattern_matches_capacity_never_underflows : forall mx ops,
  pm_cap_ok (pm_run (pm_set_max pm_new mx) ops) /\
  (0 <= pm_capacity (pm_run (pm_set_max pm_new mx) ops))%Z.
Proof. exact pm_capacity_inv_run. Qed.
Print Assumptions pattern_matches_capacity_never_underflows.

Theorem pattern_matches_always_sorted : forall mx ops,
  pm_all sorted (pm_run (pm_set_max pm_new mx) ops).
Proof. exact pm_run_sorted. Qed.
Print Assumptions pattern_matches_always_sorted.


(* ---- base64 and chaining ------------------------------------------------ *)
Theorem base64_decode_encode : forall a x, alphabet_ok a -> bytes_ok x ->
  b64_decode a (b64_encode a x) = Some x.
Proof. exact b64_decode_encode. Qed.
Print Assumptions base64_decode_encode.

(* data containing the encoding of x ++ text ++ y (|x| <= 2, whole 3-byte groups)
   is a genuine base64 occurrence at the computed offset *)
Theorem base64_occurrence_is_genuine : forall a x t y pre post d,
  alphabet_ok a -> bytes_ok (x ++ t ++ y) ->
  (length x <= 2)%nat -> (length y <= 2)%nat -> t <> [] ->
  ((length x + length t + length y) mod 3 = 0)%nat ->
  d = pre ++ b64_encode a (x ++ t ++ y) ++ post ->
  b64_occ_at a false t (length x) (length y) d
             (length pre + core_start (length x)) (core_len (length x) (length t)) = true.
Proof. exact b64_occurrence_genuine. Qed.
Print Assumptions base64_occurrence_is_genuine.

(* split_at_large_gaps (model of re/hir.rs; threshold, minimum piece length and
   the shape of the `chunks.is_empty()` branch read from the source) keeps the
   language of the pattern, for every list of items; a pattern that ends with
   a jump over the threshold keeps that jump in its last piece *)
Theorem split_at_large_gaps_preserves_language : forall nc d items i j,
  M nc d (join_chain (split_at_large_gaps items)) i j <-> M nc d (rcat items) i j.
Proof. exact split_preserves_language. Qed.
Print Assumptions split_at_large_gaps_preserves_language.

(* ---- A : the scan pipeline for the literal family ----------------------- *)
(* With correct atoms (atoms_ok, checked in K on the REAL atoms of the compiled
   rules) and a search automaton that reports exactly the occurrences of the
   atoms, in any order, the model of handle_atom_match / verify_* /
   MatchList::add yields the reference list of the sub-pattern: Literal
   (nocase or not, anchored or not), LiteralWithMask, Xor. *)
Theorem scan_pipeline_literal_family : forall sp xr atoms d hits,
  in_family sp = true ->
  atoms_ok sp xr atoms = true ->
  Forall (fun b => (b < 256)%N) d ->
  (forall a, In a atoms -> a_sp a = 0) ->
  hits_exact atoms d hits ->
  scan_pipeline [sp] atoms hits d = map mtch_of (sp_ref sp xr d).
Proof. exact pipeline_literal_family. Qed.
Print Assumptions scan_pipeline_literal_family.

(* the hit list used by K is admissible *)
Theorem all_hits_admissible : forall atoms d, hits_exact atoms d (all_hits atoms d).
Proof. exact all_hits_hits_exact. Qed.
Print Assumptions all_hits_admissible.

(* S <-> A: the sub-patterns c_literal_pattern produces (model compared with the
   real dump in K) match exactly at the genuine occurrences of the text pattern *)
Theorem compiled_text_pattern_means_genuine : forall text m d s len key,
  text <> [] -> has_b64 m = false -> (tm_xor m = None \/ tm_nocase m = false) ->
  (genuine (PText text m) d s len key <->
   exists sp, In sp (compile_text text m) /\ sp_match sp (xor_range_of m) d s = Some (s + len, key)).
Proof. exact compile_text_spec. Qed.
Print Assumptions compiled_text_pattern_means_genuine.

(* the 9-entry table of verify_base64 is the documented derivation *)
Theorem base64_window_table : forall p n, p <= 2 -> 1 <= n ->
  b64_table p (enc_len n) =
  Some (core_start p, enc_len (p + n + (3 - (p + n) mod 3) mod 3), core_len p n).
Proof. exact b64_table_formulas. Qed.
Print Assumptions base64_window_table.

(* Base64 / CustomBase64 (ascii encoding): what the model of verify_base64 returns
   is an occurrence in the sense of the specification *)
Theorem base64_pipeline_sound_ascii : forall lit d p pos alpha s e,
  p <= 2 -> lit <> [] ->
  verify_base64 lit d p pos alpha false = Some (s, e) ->
  sp_match (mkSP (KBase64 lit p alpha false) (mkF false false false false)) (0, 0)%N d s = Some (e, None).
Proof. exact pipeline_base64_sound_ascii_partial. Qed.
Print Assumptions base64_pipeline_sound_ascii.

(* ---- chains at run time (Pat/ChainRun.v) ---------------------------------------- *)
(* whatever the pieces, the verified piece matches (events) and their order: every
   reported match is a chain of piece matches, head first, every gap within its
   bounds, closed by a match of the last piece *)
Theorem chain_bookkeeping_sound : forall pieces (PM : nat -> nat -> nat -> Prop) evs y,
  (forall id s e, In (id, s, e) evs -> PM id s e) -> In y (run_chain pieces evs) ->
  confirmed pieces PM y.
Proof. exact run_chain_sound. Qed.
Print Assumptions chain_bookkeeping_sound.

(* ... and the list is strictly ascending, one match per start *)
Theorem chain_reports_sorted : forall pieces evs, sorted (run_chain pieces evs).
Proof. exact run_chain_sorted. Qed.
Print Assumptions chain_reports_sorted.

(* the pieces being those of Chain.split_at_large_gaps and the events matches of the
   pieces: every reported match is a match of the joined chain *)
Theorem chain_reports_matches_of_the_chain : forall nc d c pieces, chain_shape pieces c ->
  forall evs y,
  (forall id s e, In (id, s, e) evs -> PMre nc d (chain_res c) id s e) ->
  In y (run_chain pieces evs) ->
  exists s te, m_start y = N.of_nat s /\ m_end y = N.of_nat te /\ M nc d (join_chain c) s te.
Proof. exact chain_sound. Qed.
Print Assumptions chain_reports_matches_of_the_chain.

(* end to end for a chained hex pattern (abstract piece matcher: one end per start) *)
Theorem chained_hex_pattern_sound : forall items d y,
  In y (scan_chain_abs false false false (split_at_large_gaps items) d) ->
  exists s len, m_start y = N.of_nat s /\ m_end y = N.of_nat (s + len) /\ genuine (PHex (rcat items)) d s len None.
Proof. exact chain_hex_sound. Qed.
Print Assumptions chained_hex_pattern_sound.

(* literal pieces with the real atoms and hits (atoms_ok and hits_exact are checked on
   the real dump and trace in K stream (e)): the events are exactly the occurrences
   of the pieces, and every reported match is a match of the pattern *)
Theorem chain_literal_events_sound : forall pieces atoms d hits,
  (forall id p, nth_error pieces id = Some p -> cp_regexp p = false ->
     atoms_ok (piece_sp p) (0%N, 0%N) (filter (fun a => Nat.eqb (a_sp a) id) atoms) = true) ->
  hits_exact atoms d hits ->
  forall id s e, In (id, s, e) (hit_events pieces atoms hits d) ->
  exists p k, nth_error pieces id = Some p /\ cp_regexp p = false /\
              sp_match (piece_sp p) (0%N, 0%N) d s = Some (e, k).
Proof. exact hit_events_sound. Qed.
Print Assumptions chain_literal_events_sound.

Theorem chain_literal_events_complete : forall pieces atoms d hits,
  (forall id p, nth_error pieces id = Some p -> cp_regexp p = false ->
     atoms_ok (piece_sp p) (0%N, 0%N) (filter (fun a => Nat.eqb (a_sp a) id) atoms) = true) ->
  hits_exact atoms d hits ->
  forall id p s e k, nth_error pieces id = Some p -> cp_regexp p = false ->
  sp_match (piece_sp p) (0%N, 0%N) d s = Some (e, k) -> In (id, s, e) (hit_events pieces atoms hits d).
Proof. exact hit_events_complete. Qed.
Print Assumptions chain_literal_events_complete.

Theorem chain_of_literals_sound : forall nc items pieces atoms d hits y,
  let c := split_at_large_gaps items in
  chain_shape pieces c ->
  (forall id p, nth_error pieces id = Some p ->
     cp_regexp p = false /\ cp_flags p = mkF false nc false false /\
     exists r, nth_error (chain_res c) id = Some r /\ r = rlit (cp_lit p)) ->
  (forall id p, nth_error pieces id = Some p -> cp_regexp p = false ->
     atoms_ok (piece_sp p) (0%N, 0%N) (filter (fun a => Nat.eqb (a_sp a) id) atoms) = true) ->
  hits_exact atoms d hits ->
  In y (scan_chain pieces atoms hits d) ->
  exists s te, m_start y = N.of_nat s /\ m_end y = N.of_nat te /\ M nc d (rcat items) s te.
Proof. exact chain_literal_sound. Qed.
Print Assumptions chain_of_literals_sound.

(* REFUTED on the faithful model (both replayed on the implementation: known findings):
   completeness of starts with one end per (piece, start) and a bounded gap ... *)
Theorem chain_misses_with_one_end_per_start :
  exists items d, ~ chain_complete_starts false (split_at_large_gaps items) d
                      (scan_chain_abs false false false (split_at_large_gaps items) d).
Proof. exact chain_complete_one_end_refuted. Qed.
Print Assumptions chain_misses_with_one_end_per_start.

(* ... and soundness of the wide form, whose gap is a byte distance *)
Theorem chain_wide_form_gap_not_wide :
  exists items d y, In y (scan_chain_abs false true true (split_at_large_gaps items) d) /\
    exists s te, m_start y = N.of_nat s /\ m_end y = N.of_nat te /\ ~ M false d (widen_re (rcat items)) s te.
Proof. exact chain_wide_gap_refuted. Qed.
Print Assumptions chain_wide_form_gap_not_wide.

(* ... also with an unbounded gap when the pattern is greedy (the longest end is kept) *)
Theorem chain_misses_with_longest_end_per_start :
  exists items d, ~ chain_complete_starts false (split_at_large_gaps items) d
                      (scan_chain_abs false true false (split_at_large_gaps items) d).
Proof. exact chain_complete_one_end_greedy_refuted. Qed.
Print Assumptions chain_misses_with_longest_end_per_start.

(* ---- completeness of the chain bookkeeping -------------------------------------- *)
(* For a linear chain of pieces 0..n and ANY list of verified piece matches (events)
   in which every event starts before the end of every later one (true for the order
   by start offset and for the order by end offset; checked on the real events in K
   by events_ordered_b): the start of every chain of events -- head, ..., last piece,
   every gap within its bounds -- is reported.  Lazy and greedy, chain_length pruning
   and the greedy reset included. *)
Theorem chain_bookkeeping_complete_on_starts :
  forall (pieces : list cpiece) (n : nat) (gp : nat -> cgap) (greedy : bool),
  1 <= n -> length pieces = S n ->
  (forall p, nth_error pieces 0 = Some p -> cp_link p = None) ->
  (forall i p, nth_error pieces (S i) = Some p -> cp_link p = Some (i, gp i)) ->
  (forall id p, nth_error pieces id = Some p -> cp_last p = Nat.eqb id n) ->
  (forall id p, nth_error pieces id = Some p -> cp_greedy p = greedy) ->
  forall evs, ordered evs -> (forall k s e, In (k, s, e) evs -> s <= e /\ k <= n) ->
  forall s e s0, left gp evs n s e s0 -> In (N.of_nat s0) (starts (run_chain pieces evs)).
Proof. exact run_chain_complete_starts. Qed.
Print Assumptions chain_bookkeeping_complete_on_starts.

Theorem chain_event_order_check : forall evs, events_ordered_b evs = true -> ordered evs.
Proof. exact events_ordered_b_spec. Qed.
Print Assumptions chain_event_order_check.

(* end to end: fed with EVERY end of every piece (pieces that cannot match the empty
   string), the chain of a split pattern reports the start of every occurrence -- so
   the misses above are the piece matcher's (one end per start), not the bookkeeping's *)
Theorem chain_complete_with_all_piece_ends : forall nc greedy c d,
  snd c <> [] -> (forall r, In r (chain_res c) -> 1 <= min_len r) ->
  chain_complete_starts nc c d (scan_chain_all_ends nc greedy false c d).
Proof. exact chain_complete_all_ends. Qed.
Print Assumptions chain_complete_with_all_piece_ends.

(* Base64Wide / CustomBase64Wide: soundness in full (since commit b2a39c9f only trailing
   padding is stripped from a wide window; before, the statement was refuted: a '=' in
   the middle of the window was dropped) *)
Theorem base64_pipeline_sound_wide : forall lit d p pos alpha s e,
  p <= 2 -> lit <> [] ->
  verify_base64 lit d p pos alpha true = Some (s, e) ->
  sp_match (mkSP (KBase64 lit p alpha true) (mkF false false false false)) (0, 0)%N d s = Some (e, None).
Proof. exact pipeline_base64_sound_wide. Qed.
Print Assumptions base64_pipeline_sound_wide.

(* the regression of the repaired defect: the window with '=' in the middle is rejected,
   trailing padding still accepted *)
Theorem base64_wide_pad_inside_window_rejected :
  verify_base64 b64w_pad_lit b64w_pad_data 0 4 std_alphabet true = None /\
  sp_match (mkSP (KBase64 b64w_pad_lit 0 std_alphabet true) (mkF false false false false)) (0, 0)%N b64w_pad_data 4 = None /\
  verify_base64 b64w_pad_lit b64w_trailing_pad_data 0 4 std_alphabet true = Some (4, 14).
Proof. exact base64wide_pad_inside_window_rejected. Qed.
Print Assumptions base64_wide_pad_inside_window_rejected.

(* Base64* completeness (the statement left open before), with the side conditions it
   needs -- a proper alphabet without '=' (checked on the dumped alphabets in K stream
   (d)): every occurrence whose window is a whole number of 4-character groups is
   found through an atom and accepted by verify_base64, both encodings *)
Theorem base64_pipeline_complete : forall lit d p alpha wide atoms s,
  alphabet_ok alpha -> ~ In 61%N alpha -> p <= 2 -> lit <> [] ->
  let sp := mkSP (KBase64 lit p alpha wide) (mkF false false false false) in
  atoms_ok sp (0, 0)%N atoms = true ->
  b64_occ_at alpha wide lit p ((3 - (p + length lit) mod 3) mod 3) d s (core_len p (length lit) * unit_of wide) = true ->
  exists a pos, In a atoms /\ atom_at a d pos = true /\
                handle_atom_match sp a pos d = Some (s, s + core_len p (length lit) * unit_of wide, None).
Proof. exact pipeline_base64_complete_partial. Qed.
Print Assumptions base64_pipeline_complete.

(* the check K evaluates on the REAL recorded atom hits implies the hypothesis
   hits_exact of the pipeline and chain theorems *)
Theorem recorded_hits_check_gives_hits_exact : forall kernel atoms d hits,
  hits_ok kernel atoms d hits = true -> hits_exact atoms d hits.
Proof. exact hits_ok_exact. Qed.
Print Assumptions recorded_hits_check_gives_hits_exact.

(* ---- which end is reported for a start ------------------------------------------------- *)
(* the end of every reported match is the end of a match of the last piece that closes a
   chain of events from a head with that start *)
Theorem chain_reported_end_closes_a_chain :
  forall (pieces : list cpiece) (n : nat) (gp : nat -> cgap),
  (forall p, nth_error pieces 0 = Some p -> cp_link p = None) ->
  (forall i p, nth_error pieces (S i) = Some p -> cp_link p = Some (i, gp i)) ->
  (forall id p, nth_error pieces id = Some p -> cp_last p = Nat.eqb id n) ->
  forall evs y, In y (run_chain pieces evs) ->
  exists s0 st te, m_start y = N.of_nat s0 /\ m_end y = N.of_nat te /\ left gp evs n st te s0.
Proof. exact run_chain_end_closes. Qed.
Print Assumptions chain_reported_end_closes_a_chain.

(* LAZY, events in the order of their end offset: the smallest such end *)
Theorem chain_lazy_reports_shortest :
  forall (pieces : list cpiece) (n : nat) (gp : nat -> cgap) (greedy : bool),
  1 <= n -> length pieces = S n ->
  (forall p, nth_error pieces 0 = Some p -> cp_link p = None) ->
  (forall i p, nth_error pieces (S i) = Some p -> cp_link p = Some (i, gp i)) ->
  (forall id p, nth_error pieces id = Some p -> cp_last p = Nat.eqb id n) ->
  (forall id p, nth_error pieces id = Some p -> cp_greedy p = greedy) ->
  forall evs, greedy = false -> ordered evs -> ends_sorted evs ->
  (forall k s e, In (k, s, e) evs -> s <= e /\ k <= n) ->
  forall y s0, In y (run_chain pieces evs) -> m_start y = N.of_nat s0 ->
  forall s' e', left gp evs n s' e' s0 -> (m_end y <= N.of_nat e')%N.
Proof. exact chain_lazy_shortest. Qed.
Print Assumptions chain_lazy_reports_shortest.

(* end to end for a lazy split pattern fed with every end of every piece: one match per
   start, a genuine one, the shortest *)
Theorem chain_lazy_end_choice : forall nc c d,
  snd c <> [] -> (forall r, In r (chain_res c) -> 1 <= min_len r) ->
  chain_end_choice nc false c d (scan_chain_all_ends nc false false c d).
Proof. exact chain_lazy_end_choice_all_ends. Qed.
Print Assumptions chain_lazy_end_choice.

(* GREEDY: the trace that refuted "the longest" before commit a09b6a08 (MatchList::add
   overwrote the end without comparing) now keeps the longer end *)
Theorem chain_greedy_trace_keeps_the_longer_end :
  map (fun y => (m_start y, m_end y)) (run_chain greedy_pieces greedy_events) = [(0, 9)]%N.
Proof. exact chain_greedy_keeps_the_longer_end. Qed.
Print Assumptions chain_greedy_trace_keeps_the_longer_end.

(* ---- consecutive jumps of a hex pattern ------------------------------------------------ *)
(* the jump hex2hir.rs puts in place of two consecutive jumps (the arithmetic is read
   from the source: Gen/JumpCoalesce.v) matches exactly what the two jumps match one
   after the other *)
Theorem coalesced_jump_keeps_the_language : forall nc d j1 j2 i k, jump_wf j1 -> jump_wf j2 ->
  (M nc d (RCat (jump_re j1) (jump_re j2)) i k <-> M nc d (jump_re (coalesce j1 j2)) i k).
Proof. exact coalesce_language. Qed.
Print Assumptions coalesced_jump_keeps_the_language.

Theorem coalesced_jump_is_well_formed : forall j1 j2, jump_wf j1 -> jump_wf j2 -> jump_wf (coalesce j1 j2).
Proof. exact coalesce_wf. Qed.
Print Assumptions coalesced_jump_is_well_formed.

(* GREEDY (true since commit a09b6a08): the end reported for a start is at least the end
   of EVERY match of the last piece that closes a chain of events from that start -- with
   chain_reported_end_closes_a_chain: the largest closing end.  For every order of the
   events a kernel produces. *)
Theorem chain_greedy_reports_longest :
  forall (pieces : list cpiece) (n : nat) (gp : nat -> cgap) (greedy : bool),
  1 <= n -> length pieces = S n ->
  (forall p, nth_error pieces 0 = Some p -> cp_link p = None) ->
  (forall i p, nth_error pieces (S i) = Some p -> cp_link p = Some (i, gp i)) ->
  (forall id p, nth_error pieces id = Some p -> cp_last p = Nat.eqb id n) ->
  (forall id p, nth_error pieces id = Some p -> cp_greedy p = greedy) ->
  forall evs, greedy = true -> ordered evs ->
  (forall k s e, In (k, s, e) evs -> s <= e /\ k <= n) ->
  forall y s0, In y (run_chain pieces evs) -> m_start y = N.of_nat s0 ->
  forall s' e', left gp evs n s' e' s0 -> (N.of_nat e' <= m_end y)%N.
Proof. exact chain_greedy_longest. Qed.
Print Assumptions chain_greedy_reports_longest.

(* end to end for a greedy split pattern fed with every end of every piece: one match per
   start, a genuine one, the longest *)
Theorem chain_greedy_end_choice : forall nc c d,
  snd c <> [] -> (forall r, In r (chain_res c) -> 1 <= min_len r) ->
  chain_end_choice nc true c d (scan_chain_all_ends nc true false c d).
Proof. exact chain_greedy_end_choice_all_ends. Qed.
Print Assumptions chain_greedy_end_choice.
