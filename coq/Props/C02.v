(* C02 - rule verdicts equal the documented meaning of their conditions:
   property theorems only.  Each is closed by [exact] of a lemma proved in
   Cond/*Proofs.v; the statements are pinned here. *)
From Coq Require Import Permutation.
From Coq Require Import List ZArith Bool String.
From YV Require Import Cond.Syntax Cond.Sem Cond.Rename Cond.RuleSet Cond.Prec
  Cond.SemProofs Cond.RuleSetProofs Cond.PrecProofs Cond.Quirks Cond.QuirksProofs
  Cond.Machine Cond.MachineProofs Cond.Emit Cond.EmitBase Cond.EmitProofs.
Import ListNotations.
Local Open Scope Z_scope.

(* undefined_values.md: `and` / `or` are never undefined and treat an
   undefined operand as false - for all expressions and environments *)
Theorem undef_and : forall en a b,
  eval en a = VUndef \/ eval en b = VUndef -> eval en (EAnd a b) = VBool false.
Proof. exact SemProofs.undef_and. Qed.
Print Assumptions undef_and.

Theorem undef_or : forall en a b,
  (eval en a = VUndef -> eval en (EOr a b) = VBool (truthy (eval en b))) /\
  (eval en b = VUndef -> eval en (EOr a b) = VBool (truthy (eval en a))) /\
  is_undef (eval en (EOr a b)) = false /\ is_undef (eval en (EAnd a b)) = false.
Proof.
  intros en a b. split; [exact (undef_or_l en a b)|]. split; [exact (undef_or_r en a b)|].
  split; [exact (or_never_undef en a b) | exact (and_never_undef en a b)].
Qed.
Print Assumptions undef_or.

(* "All the remaining operators, including the not operator, return undefined
   if any of their operands is undefined" *)
Theorem undef_propagates : forall en a b,
  eval en a = VUndef ->
  eval en (ENot a) = VUndef /\ eval en (ENeg a) = VUndef /\ eval en (EBitNot a) = VUndef /\
  (forall op, eval en (EArith op a b) = VUndef /\ eval en (EArith op b a) = VUndef) /\
  (forall op, eval en (ECmp op a b) = VUndef /\ eval en (ECmp op b a) = VUndef) /\
  (forall op, eval en (EStrOp op a b) = VUndef /\ eval en (EStrOp op b a) = VUndef) /\
  (forall k, eval en (ERead k a) = VUndef) /\
  (forall p, eval en (EPat p AAt a b) = VUndef /\ eval en (EPat p AIn a b) = VUndef /\
             eval en (EPat p AIn b a) = VUndef /\ eval en (EOffset p a) = VUndef /\
             eval en (ELength p a) = VUndef) /\
  eval en (EDefined a) = VBool false /\ holds en a = false.
Proof.
  intros en a b H.
  repeat split; intros;
    first [ exact (not_undef en a H) | exact (neg_undef en a H) | exact (bitnot_undef en a H)
          | apply arith_undef; tauto | apply cmp_undef; tauto | apply strop_undef; tauto
          | apply read_undef; exact H | apply pat_at_undef; exact H | apply pat_in_undef; tauto
          | apply offset_undef; exact H | apply length_undef; exact H
          | (rewrite defined_spec, H; reflexivity) | exact (undef_condition_false en a H) ].
Qed.
Print Assumptions undef_propagates.

(* division and remainder by zero are undefined *)
Theorem div_mod_by_zero : forall en a b,
  eval en b = VInt 0 -> eval en (EArith Div a b) = VUndef /\ eval en (EArith Mod a b) = VUndef.
Proof. exact div_by_zero_undef. Qed.
Print Assumptions div_mod_by_zero.

Theorem eval_deterministic : forall en e v1 v2, eval en e = v1 -> eval en e = v2 -> v1 = v2.
Proof. exact SemProofs.eval_deterministic. Qed.
Print Assumptions eval_deterministic.

(* `of`: none <-> not any; N of = at least N (N > 0); monotone in N;
   0 of = none (conditions.md, "0 of them"; the implementation agrees since
   commit 2b4649c7) *)
Theorem of_quantifier_laws : forall en set ak a1 a2,
  (forall q q', eval en (EOf QNone q set ak a1 a2) = v_not (eval en (EOf QAny q' set ak a1 a2))) /\
  (forall q, eval en (EOf QAll q set ak a1 a2) = VBool (forallb truthy (of_items en set ak a1 a2))) /\
  (forall n, 0 < n -> eval en (EOf QExpr (EInt n) set ak a1 a2) = VBool (n <=? count_true (of_items en set ak a1 a2))) /\
  (forall n m, 0 < n -> n <= m -> eval en (EOf QExpr (EInt m) set ak a1 a2) = VBool true ->
                                  eval en (EOf QExpr (EInt n) set ak a1 a2) = VBool true) /\
  (forall q, eval en (EOf QExpr (EInt 0) set ak a1 a2) = eval en (EOf QNone q set ak a1 a2)) /\
  (forall q, eval en (EOf QExpr (EInt 1) set ak a1 a2) = eval en (EOf QAny q set ak a1 a2)).
Proof.
  intros en set ak a1 a2.
  split; [exact (none_of_not_any en set ak a1 a2)|].
  split; [exact (of_all en set ak a1 a2)|].
  split; [exact (n_of_at_least en set ak a1 a2)|].
  split; [exact (n_of_monotone en set ak a1 a2)|].
  split; [exact (zero_of_is_none en set ak a1 a2) | exact (one_of_is_any en set ak a1 a2)].
Qed.
Print Assumptions of_quantifier_laws.

(* for-loops: any / all / none are existsb / forallb of the body *)
Theorem for_quantifier_laws : forall en q set body x items,
  eval en (EForOf QAny q set body) = VBool (existsb (fun i => holds (with_cur i en) body) set) /\
  eval en (EForOf QAll q set body) = VBool (forallb (fun i => holds (with_cur i en) body) set) /\
  eval en (EForOf QNone q set body) = VBool (negb (existsb (fun i => holds (with_cur i en) body) set)) /\
  eval en (EForTuple QAny q x items body) = VBool (existsb (fun v => holds (bind x v en) body) (eval_list en items)) /\
  eval en (EForTuple QAll q x items body) = VBool (forallb (fun v => holds (bind x v en) body) (eval_list en items)).
Proof.
  intros. split; [apply for_of_any|]. split; [apply for_of_all|]. split; [apply for_of_none|].
  split; [apply for_tuple_any | apply for_tuple_all].
Qed.
Print Assumptions for_quantifier_laws.

Theorem for_range_laws : forall en q x lo hi body l h,
  eval en lo = VInt l -> eval en hi = VInt h -> 0 < wrap64 (h - l + 1) ->
  eval en (EForRange QAny q x lo hi body)
    = VBool (existsb (fun k => holds (bind x (VInt (range_item l k)) en) body) (zseq (wrap64 (h - l + 1)))) /\
  eval en (EForRange QAll q x lo hi body)
    = VBool (forallb (fun k => holds (bind x (VInt (range_item l k)) en) body) (zseq (wrap64 (h - l + 1)))).
Proof.
  intros en q x lo hi body l h Hl Hh Hn. split.
  - exact (for_range_any en q x lo hi body l h Hl Hh Hn).
  - exact (for_range_all en q x lo hi body l h Hl Hh Hn).
Qed.
Print Assumptions for_range_laws.

(* `Q of (<boolean>, ..)` for Q = none | any | all | <expr> | <expr>%: the verdict
   is the same for every permutation of the items (repaired by commit 99b031b0;
   before, an undefined item ended the statement when it was reached) *)
Theorem of_tuple_order_independent : forall en qk q es es',
  Permutation (exprs_list es) (exprs_list es') ->
  eval en (EOfB qk q es) = eval en (EOfB qk q es').
Proof. exact SemProofs.of_tuple_order_independent. Qed.
Print Assumptions of_tuple_order_independent.

(* the value of a condition does not depend on how its patterns are numbered *)
Theorem id_renaming_invariance : forall f e en en',
  env_ren f en en' -> eval en' (rename f e) = eval en e.
Proof. exact SemProofs.id_renaming_invariance. Qed.
Print Assumptions id_renaming_invariance.

(* global_and_private.md, for every rule set / buffer / external variables *)
Theorem global_fail_suppresses : forall tr data globals rules g rg i,
  nth_error rules g = Some rg -> r_global rg = true ->
  nth_error (verdicts tr data globals rules) g = Some false ->
  In i (fst (run tr data globals rules)) \/ In i (snd (run tr data globals rules)) ->
  r_ns (nth i rules (mkRule 0 false false [] (EBool false))) <> r_ns rg.
Proof. exact global_fail_suppresses_run. Qed.
Print Assumptions global_fail_suppresses.

Theorem private_hidden : forall rules vs i,
  In i (reported_of rules vs) -> is_private rules i = false /\ In i (matching_of rules vs).
Proof. exact RuleSetProofs.private_hidden. Qed.
Print Assumptions private_hidden.

Theorem private_rules_still_evaluated : forall tr data globals flags rules,
  verdicts tr data globals (map (fun r => set_private (flags r) r) rules)
  = verdicts tr data globals rules.
Proof. exact verdicts_ignore_private. Qed.
Print Assumptions private_rules_still_evaluated.

(* precedence: the parser's binding powers (regenerated from cst2ast.rs)
   order every pair of operators as the documented table does, including
   associativity; finite domain, decided by computation *)
Theorem bp_agrees_with_doc :
  same_operators = true /\ all_pairs_ok = true /\ prefix_ok = true.
Proof. exact PrecProofs.bp_agrees_with_doc. Qed.
Print Assumptions bp_agrees_with_doc.

(* the Pratt loop parses the parenthesis-free flattening of every canonical
   tree back to the tree, for every table of binding powers *)
Theorem pratt_roundtrip : forall bp t min,
  canon bp min t = true ->
  exists N, forall fuel, (N <= fuel)%nat -> pratt bp fuel min (flatten t) = Some (t, []).
Proof. exact PrecProofs.pratt_roundtrip. Qed.
Print Assumptions pratt_roundtrip.

(* the two ways the implementation evaluates `N of <set>` - the host function
   pat_range_match when the pattern ids are consecutive, the emitted loop
   otherwise - agree for EVERY N, zero and negative included (this was refuted
   for N <= 0, findings 6 and 11, before commits 2b4649c7 / bf5119e4) *)
Theorem of_fast_path_equiv_loop : forall z ms,
  v_of QExpr (VInt z) (map (fun m => VBool (matched m)) ms) = VBool (pat_range_match z ms).
Proof. exact QuirksProofs.of_fast_path_equiv_loop. Qed.
Print Assumptions of_fast_path_equiv_loop.

(* the compiler's constant folding (checked i64 arithmetic since commit
   8b83ae6a; it went through f64 before: finding 10) never changes the value
   of a condition; an overflowing constant expression is rejected at compile
   time and is left unfolded by the model *)
Theorem fold_sound : forall e en, eval en (prefold e) = eval en e.
Proof. exact QuirksProofs.fold_sound. Qed.
Print Assumptions fold_sound.

(* ------------------------------------------------------------------------
   Architecture layer: the model of lib/src/compiler/emit.rs (Cond/Emit.v,
   built from the facts translate/gen_emit.py reads from the source on every
   run) on the stack machine of Cond/Machine.v.

   The tie of that model to the real emitter is exact: for every generated
   rule of the fragment, the WebAssembly decoded from the module written by
   Compiler::emit_wasm_file equals [Emit.emit_condition] instruction by
   instruction (Cond/Wasm.v, checked by K in Cond/Check.v), `and` / `or` as
   the n-ary nodes the IR holds.

   emit_correct: for every buffer, match lists, rule verdicts and well-typed
   external variables, the code emitted for a condition of the fragment
   ([Emit.frag1], structural, and well-typed by [tyof]: arithmetic with the guards of << >> \ %,
   comparisons, not / n-ary and / or / defined, uintN, $a [at|in], #a [in],
   @a[i], !a[i], external variables, rule references, with, any / all / N of
   <set>, and for <none|any|all|N> x in (lo..hi) with nested loops; not: what
   is emitted through emit_switch and percentages, whose code is compared
   with the emitted WebAssembly only), started in
   any state whose filesize global holds the buffer's size - the variable area
   may contain ANYTHING, e.g. what other rules or earlier loops left in the
   slots this condition is going to use - terminates normally with exactly the
   documented verdict on top of the stack.
   What the loop part rests on, all explicit in Cond/EmitProofs.v:
   [for_range_ok] assumes the theorem for the bounds, the quantifier and the
   body, and that the frame fits (sp + 7 <= MAX_VARS, part of [tyof]); the
   invariant [Fr] says the slots n, i, the loop variable (and max_count, count
   for <expr>) hold the iteration's values with their undefined-flags clear;
   the body is compiled above the frame, so it keeps it ([keeps (sp + 7)]);
   a nested loop takes the next 7 slots and re-initialises them on every outer
   iteration; integer expressions (bounds, quantifier) keep every slot
   ([int_all]).  An empty or inverted range and an undefined bound give false
   for every quantifier; an undefined quantifier makes the loop undefined;
   emit.rs has no iteration cap and neither has the model (Sem.v) any more. *)
Theorem emit_correct : forall data pm rules globals,
  (forall k t, global_ty k = Some t -> types_as t (globals k)) ->
  forall e st,
    frag1 e = true -> tyof [] 0 e = Some TBool -> start_ok data st ->
    exists st', bstep (host_spec data pm rules globals) (emit_condition e) st (ONormal st') /\
                s_stack st' = V32 (b2z (holds (env_of data pm rules globals []) e)) :: s_stack st.
Proof. exact EmitProofs.emit_correct. Qed.
Print Assumptions emit_correct.

(* the executable semantics computes the documented verdict for every
   sufficient amount of fuel *)
Theorem run_condition_correct : forall data pm rules globals,
  (forall k t, global_ty k = Some t -> types_as t (globals k)) ->
  forall e, frag1 e = true -> tyof [] 0 e = Some TBool ->
    exists N, forall fuel, (N <= fuel)%nat ->
      run_condition data pm rules globals fuel e = Some (holds (env_of data pm rules globals []) e).
Proof. exact EmitProofs.run_condition_correct. Qed.
Print Assumptions run_condition_correct.

(* no trap (i64.div_s on 0 or on MIN / -1, i64.rem_s on 0, unreachable) and
   no stuck state *)
Theorem emit_no_trap : forall data pm rules globals,
  (forall k t, global_ty k = Some t -> types_as t (globals k)) ->
  forall e st o,
    frag1 e = true -> tyof [] 0 e = Some TBool -> start_ok data st ->
    bstep (host_spec data pm rules globals) (emit_condition e) st o -> exists st', o = ONormal st'.
Proof. exact EmitProofs.emit_no_trap. Qed.
Print Assumptions emit_no_trap.

(* variables are written before they are read: the verdict does not depend on
   what earlier rules (or other loops using the same slots) left in the
   variable area *)
Theorem vars_written_before_read : forall data pm rules globals,
  (forall k t, global_ty k = Some t -> types_as t (globals k)) ->
  forall e st1 st2 o1 o2,
    frag1 e = true -> tyof [] 0 e = Some TBool -> start_ok data st1 -> start_ok data st2 ->
    s_stack st1 = [] -> s_stack st2 = [] ->
    bstep (host_spec data pm rules globals) (emit_condition e) st1 o1 ->
    bstep (host_spec data pm rules globals) (emit_condition e) st2 o2 ->
    exists a b, o1 = ONormal a /\ o2 = ONormal b /\ s_stack a = s_stack b.
Proof. exact EmitProofs.vars_written_before_read. Qed.
Print Assumptions vars_written_before_read.

(* one loop, compositionally: given the theorem for its parts *)
Theorem for_range_correct : forall data pm rules globals qk q x lo hi body,
    qk <> QPct -> (qk = QExpr -> Ok data pm rules globals q) -> Ok data pm rules globals lo -> Ok data pm rules globals hi ->
    Ok data pm rules globals body -> Ok data pm rules globals (EForRange qk q x lo hi body).
Proof. exact EmitProofs.for_range_ok. Qed.
Print Assumptions for_range_correct.

(* the relational semantics used above and the executable one used by K agree *)
Theorem machine_semantics_agree : forall host is st o,
  bstep host is st o -> exists f, forall g, (f <= g)%nat -> exec host g is st = Done o.
Proof. exact MachineProofs.bstep_exec. Qed.
Print Assumptions machine_semantics_agree.
