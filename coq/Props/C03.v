(* C03 - optimisations and engine selection never change results: property
   theorems only.  Each is closed by [exact] of a lemma proved in Opt/*Proofs.v
   (or Pat/TeddyProofs.v); statements are pinned here.

   Constant folding and fast-scan eligibility are modelled AS CODED; which
   variant of the code is present is read from the source on every run
   (Gen/FoldGen.v: fold_via_f64; Gen/FastScanGen.v:
   of_anchor_disallows_fast_scan), and the statement that holds for that
   variant is selected by the generated flag. *)
From Coq Require Import List ZArith Bool String Lia.
From YV Require Import Gen.FoldGen Opt.Fold Opt.FoldProofs
  Gen.BoundsGen Opt.Bounds Opt.BoundsProofs
  Gen.FastScanGen Opt.FastScan Opt.FastScanProofs Gen.HoistGen Opt.Hoist Opt.HoistProofs
  Pat.Teddy Pat.TeddyProofs.
Import ListNotations.
Local Open Scope Z_scope.

(* ---------------------------------------------------------------- constant folding *)
(* fold_sound, in full: for every condition e (integer literals in i64), every
   run-time environment: if the compiler folds e to e' then e' and e have the
   same value.  [bsound via e] is exactly that statement for the folding
   variant [via] (true: through f64, as fold_arithmetic does today). *)
Check bsound : bool -> bexp -> Prop.
Check (eq_refl : bsound = fun via e => forall rho beta e', env_ok rho -> bfold via e = COk e' ->
                                                           beval rho beta e' = beval rho beta e).

(* REFUTED for folding through f64 (the code before fix 8b83ae6a; selected
   again if the translator finds f64 in the integer path): 9007199254740993 + 1
   and 0x7fffffffffffffff + 1 fold to a different constant than the run-time
   arithmetic computes ... *)
Theorem fold_sound_refuted :
  (iwf w_beyond_2_53 = true /\ ~ isound true w_beyond_2_53) /\
  (iwf w_i64_overflow = true /\ ~ isound true w_i64_overflow).
Proof. exact ifold_sound_refuted. Qed.
Print Assumptions fold_sound_refuted.

(* ... so that a rule verdict changes: `9007199254740993 + 1 == 9007199254740994` *)
Theorem fold_changes_a_verdict :
  exists e e', bwf e = true /\ bfold true e = COk e' /\
    verdict (fun _ => None) (fun _ => None) e' <> verdict (fun _ => None) (fun _ => None) e.
Proof. exact bfold_sound_refuted. Qed.
Print Assumptions fold_changes_a_verdict.

(* proved under the guard: every constant-only + - * met while folding has
   operands and exact partial results of absolute value <= 2^53 *)
Theorem fold_sound_small : forall via e, bwf e = true -> bsmall via e = true -> bsound via e.
Proof. exact bfold_sound_small. Qed.
Print Assumptions fold_sound_small.

(* proved without guard for checked-i64 folding (the code as it is now:
   fold_via_f64 = false) *)
Theorem fold_sound_checked : forall e, bwf e = true -> bsound false e.
Proof. exact bfold_sound_checked. Qed.
Print Assumptions fold_sound_checked.

(* what holds for the source as it is now, selected by the generated flag *)
Theorem fold_sound : fold_statement fold_via_f64.
Proof. exact (fold_statement_holds fold_via_f64). Qed.
Print Assumptions fold_sound.

(* the bounds of the range test in the source are wide enough for the guard *)
Theorem fold_range_test_covers_guard : round53 range_lo_int <= - 2 ^ 53 /\ 2 ^ 53 <= round53 range_hi_int.
Proof. exact range_covers_small. Qed.
Print Assumptions fold_range_test_covers_guard.

(* ---------------------------------------------------------------- file size bounds, header constraints *)
Theorem bounds_merge_spec : forall b x v,
  contains (max_start b x) v = contains b v && start_ok x v /\
  contains (min_end b x) v = contains b v && end_ok x v.
Proof. exact BoundsProofs.bounds_merge_spec. Qed.
Print Assumptions bounds_merge_spec.

Theorem filesize_bounds_sound : forall n data other pat0 c,
  0 <= n < Bounds.i64_max ->
  ceval n data other pat0 c = true -> contains (filesize_bounds c) n = true.
Proof. exact BoundsProofs.filesize_bounds_sound. Qed.
Print Assumptions filesize_bounds_sound.

Theorem header_constraint_sound : forall n data other pat0 c,
  bytes_ok data ->
  (forall c' p bs, pat0 p = true -> c' = CPatAt0 p (Some bs) -> starts_with bs data = true) ->
  ceval n data other pat0 c = true -> is_satisfied (header_constraints c) data = true.
Proof. exact BoundsProofs.header_constraint_sound. Qed.
Print Assumptions header_constraint_sound.

(* disabling the patterns whose bounds / constraint exclude the file changes
   no verdict, for rule sets in which every rule satisfies [rule_ok]: its
   condition implies its bounds and constraint (the two theorems above), looks
   only at its own patterns, and its patterns carry exactly its bounds and
   constraint (pattern identity includes them) *)
Theorem prune_preserves_verdicts : forall n data pat_bounds pat_hc rules m prev,
  Forall (rule_ok n data pat_bounds pat_hc) rules ->
  verdicts rules (pruned pat_bounds pat_hc n data m) prev = verdicts rules m prev.
Proof. exact BoundsProofs.prune_preserves_verdicts. Qed.
Print Assumptions prune_preserves_verdicts.

Theorem prune_keeps_reported_matches : forall n data pat_bounds pat_hc r m prev p,
  rule_ok n data pat_bounds pat_hc r -> pr_eval r m prev = true -> In p (pr_pats r) ->
  pruned pat_bounds pat_hc n data m p = m p.
Proof. exact BoundsProofs.prune_keeps_reported_matches. Qed.
Print Assumptions prune_keeps_reported_matches.

(* ---------------------------------------------------------------- fast scan *)
Theorem fast_scan_matches_subset_with_first : forall el evs p,
  let N := tracked false el evs p in
  let F := tracked true el evs p in
  incl F N /\ (el p = false -> F = N) /\
  (el p = true -> F = first_hit p evs /\ exists rest, N = F ++ rest) /\
  (forall m, hd_error N = Some m -> In m F).
Proof. exact FastScanProofs.fast_scan_matches_subset_with_first. Qed.
Print Assumptions fast_scan_matches_subset_with_first.

(* "first" is the first match the scanner tracks; it is the lowest one when the
   scanner tracks the pattern's matches in ascending order, and not in general *)
Theorem fast_scan_keeps_lowest_if_ordered : forall el evs p,
  starts_ascending (tracked false el evs p) ->
  forall s, min_start (tracked false el evs p) = Some s ->
  exists len, In (s, len) (tracked true el evs p).
Proof. exact FastScanProofs.fast_scan_keeps_lowest_if_ordered. Qed.
Print Assumptions fast_scan_keeps_lowest_if_ordered.

Theorem fast_first_is_lowest_refuted :
  exists el evs p s, min_start (tracked false el evs p) = Some s /\
                     forall len, ~ In (s, len) (tracked true el evs p).
Proof. exact FastScanProofs.fast_first_is_lowest_refuted. Qed.
Print Assumptions fast_first_is_lowest_refuted.

(* verdicts: under the guard that every pattern whose match list a condition
   looks at is ineligible *)
Theorem fast_scan_same_verdicts : forall ofd rules evs,
  analysis_covers ofd rules ->
  scan_verdicts ofd true rules evs = scan_verdicts ofd false rules evs.
Proof. exact FastScanProofs.fast_scan_same_verdicts. Qed.
Print Assumptions fast_scan_same_verdicts.

(* what holds for the eligibility analysis as it is coded now (flag generated):
   without guard now that `N of (set) in/at ..` clears the bit (fix 2deda6b6);
   refuted without the guard for the former analysis *)
Theorem fast_scan_verdicts : fast_statement of_anchor_disallows_fast_scan.
Proof. exact (fast_statement_holds of_anchor_disallows_fast_scan). Qed.
Print Assumptions fast_scan_verdicts.

(* ---------------------------------------------------------------- grouping of regexps *)
(* operands `x matches /re/` of one `or` that land in the same bucket are
   evaluated on the left operand of the first member: equal to evaluating
   every operand on its own left operand when the key separates left operands
   that can differ *)
Theorem regex_grouping_sound : forall mt ops, key_sound mt ops -> or_grouped mt ops = or_ungrouped mt ops.
Proof. exact HoistProofs.grouping_sound. Qed.
Print Assumptions regex_grouping_sound.

Theorem regex_grouping_needs_the_key :
  exists mt ops, or_ungrouped mt ops = true /\ or_grouped mt ops = false.
Proof. exact HoistProofs.grouping_unsound_without_key. Qed.
Print Assumptions regex_grouping_needs_the_key.

(* the key, as coded, is a hash fed with every node of the left operand
   (generated fact; 64-bit hash collisions are not modelled) *)
Theorem regex_set_key_covers_the_left_operand : regex_set_key_hashes_whole_lhs = true.
Proof. reflexivity. Qed.
Print Assumptions regex_set_key_covers_the_left_operand.

(* ---------------------------------------------------------------- hoisting: displaced variables *)
Theorem shift_all_keeps_apart : forall from k (nodes : list (list Z)), 0 < k ->
  let all := List.concat (map (shift_node true from k) nodes) in
  (NoDup (List.concat nodes) -> NoDup all) /\ forall s, In s all -> ~ (from <= s < from + k).
Proof. exact HoistProofs.shift_all_keeps_apart. Qed.
Print Assumptions shift_all_keeps_apart.

Theorem unshifted_owner_collides :
  exists from k nodes, NoDup (List.concat nodes) /\
    ~ NoDup (shift_node true from k (nth 0 nodes []) ++ shift_node false from k (nth 1 nodes [])).
Proof. exact HoistProofs.unshifted_owner_collides. Qed.
Print Assumptions unshifted_owner_collides.

(* every Expr variant that owns variables has an arm in Expr::shift_vars
   (both lists regenerated from ir/mod.rs) *)
Theorem shift_vars_covers_owners : shift_vars_complete = true.
Proof. exact HoistProofs.shift_vars_covers_owners. Qed.
Print Assumptions shift_vars_covers_owners.

(* the IR traversal (on which hoisting, shift_vars, CSE and hashing rely) visits the expression of
   every quantifier that has one (lists regenerated from ir/mod.rs, ir/dfs.rs; the percentage was
   skipped until 21a3d45e) *)
Theorem quantifier_exprs_traversed :
  forall v, In v quantifier_expr_variants -> In v quantifier_traversed_variants.
Proof. exact HoistProofs.quantifier_exprs_traversed. Qed.
Print Assumptions quantifier_exprs_traversed.

(* ---------------------------------------------------------------- Teddy vs naive search *)
(* for every assignment of patterns to buckets and every mask length not
   exceeding the shortest pattern: a true occurrence is always a candidate ... *)
Theorem teddy_candidates_complete : forall cfg pats data i k,
  cfg_ok cfg pats -> (k < List.length pats)%nat ->
  occurs_at (nth k pats []) data i = true ->
  candidate cfg pats data i (bucket_of cfg k) = true.
Proof. exact TeddyProofs.teddy_candidates_complete. Qed.
Print Assumptions teddy_candidates_complete.

(* ... so verifying the candidates reports exactly the (pattern, position)
   pairs of the naive multi-pattern search *)
Theorem teddy_equals_naive : forall cfg pats data, cfg_ok cfg pats ->
  forall k i, In (k, i) (teddy_find cfg pats data) <-> In (k, i) (naive_find pats data).
Proof. exact TeddyProofs.teddy_equals_naive. Qed.
Print Assumptions teddy_equals_naive.
