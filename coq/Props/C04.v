(* C04 - a scanner's results do not depend on what it scanned before:
   property theorems only.  Model: Scanner/State.v over the GENERATED field
   list, reset() body, scan prologues and module thread-locals (Gen/ScanState.v). *)
From Coq Require Import List String NArith ZArith Bool.
From YV Require Import Gen.ScanState Scanner.State Scanner.StateProofs.
Import ListNotations.
Local Open Scope N_scope.

(* For every history over the API alphabet (scans with any outcome - complete,
   timed out at any point, module error -, option setters, set_global,
   set_module_output, conversion to a block scanner, block scans/finishes,
   scans by other scanners of the thread), every effect the scans may have
   had on the cells they can write, and every probe input: the evaluation of a
   contiguous probe starts from the same visible state on the used scanner as
   on a fresh scanner (fresh thread) that carries only what the API says
   persists.  Visible = every persistent or transient cell the evaluation may
   read (caches and scratch excluded).  The two guards exclude the recorded
   findings: a module error while user-supplied outputs are pending, and a
   user-supplied output for a module that owns a per-thread cache. *)
Theorem history_independence_contiguous : forall R h i,
  forallb wf_op h = true ->
  hist_ok fresh h = true ->
  tl_guard R (spec_persist h) ->
  forall c, visible R false c = true ->
    probe_contig R i (run R h fresh) c = probe_contig R i (spec_persist h) c.
Proof. exact StateProofs.history_independence_contiguous. Qed.
Print Assumptions history_independence_contiguous.

(* every transient cell has its creation-time value, or a value determined by
   the probe alone, when the evaluation of a contiguous scan starts *)
Theorem contiguous_prologue_establishes_transient_state : forall R i st,
  ginv st = true -> tl_guard R st ->
  forall c, classify c = Transient -> visible R false c = true ->
    probe_contig R i st c = established_contig R i st c.
Proof. exact StateProofs.contig_prologue_establishes. Qed.
Print Assumptions contiguous_prologue_establishes_transient_state.

(* block mode: the same, for every visible cell except the four that leak
   (filesize global, module fields of root_struct, per-thread module caches,
   snippets of a sequence whose finish() failed) *)
Theorem history_independence_block_patterns : forall R h i,
  forallb wf_op h = true -> hist_ok fresh h = true ->
  (run R h fresh (CF blk_needs_reset) =? 0) = false ->
  forall c, visible R true c = true -> block_leak c = false ->
    probe_block R i (run R h fresh) c = probe_block R i (spec_persist h) c.
Proof. exact StateProofs.history_independence_block_patterns. Qed.
Print Assumptions history_independence_block_patterns.

(* the unrestricted statement is false on the current tree *)
Theorem history_independence_refuted : ~ history_independence_stmt.
Proof. exact StateProofs.history_independence_refuted. Qed.
Print Assumptions history_independence_refuted.

(* the six witnesses (each names the history shape and the cell that leaks);
   all are replayed on the implementation by the harness corpus *)
Theorem history_independence_witnesses :
  leaks [OScan 5 clean Complete; OIntoBlocks] 3 CGFilesize /\
  leaks [OScan 5 clean Complete; OIntoBlocks] 3 CRootModules /\
  leaks [OOther eff_tl; OIntoBlocks] 3 (CTL tl_hash_MD5_CACHE) /\
  leaks [OOther eff_tl; OSetModuleOutput 4] 3 (CTL tl_hash_MD5_CACHE) /\
  leaks [OSetModuleOutput 11; OScan 5 clean (ModErr 6)] 3 CRootModules /\
  leaks [OIntoBlocks; OSetTimeout 1; OBlockScan 1 eff_snip Complete; OBlockFinish clean TimedOut] 3 (CF blk_snippets).
Proof.
  exact (conj leak_filesize (conj leak_module_fields (conj leak_tl_block (conj leak_tl_user_output
         (conj leak_user_outputs_after_module_error leak_snippets))))).
Qed.
Print Assumptions history_independence_witnesses.

(* GENERATED fact used by the theorems: every module main function
   re-initialises every per-thread cache of its module *)
Theorem module_mains_clear_their_caches : forall t, tl_cleared_by_main t = true.
Proof. exact StateProofs.all_tl_cleared. Qed.
Print Assumptions module_mains_clear_their_caches.

