(* C04 - a scanner's results do not depend on what it scanned before:
   property theorems only.  Model: Scanner/State.v over the GENERATED field
   list, reset() body, scan prologues and module thread-locals (Gen/ScanState.v). *)
From Coq Require Import List String NArith ZArith Bool.
From YV Require Import Gen.ScanState Scanner.State Scanner.StateProofs.
Import ListNotations.
Local Open Scope N_scope.

(* For every history over the API alphabet (scans with any outcome - complete,
   timed out at any point, module error -, option setters, set_global,
   set_module_output, conversion to a block scanner, block scans/finishes,
   scans by other scanners of the thread), every effect the scans may have
   had on the cells they can write, and every probe input: the evaluation of
   the probe (contiguous scan, or the first block of a block sequence after
   the history's last sequence was finished) starts from the same visible
   state on the used scanner as on a fresh scanner (fresh thread) that
   carries only what the API says persists.  Visible = every persistent or
   transient cell the evaluation may read (caches and scratch excluded).
   For rules whose modules keep only scan-scoped per-thread caches. *)
Theorem history_independence : forall R h i,
  forallb wf_op h = true -> scoped_only R ->
  (run R h fresh (CF blk_needs_reset) =? 0) = false ->
  forall c, visible R (negb (spec_persist h CKind =? 0)) c = true ->
    probe_of R h i (run R h fresh) c = probe_of R h i (spec_persist h) c.
Proof. exact StateProofs.history_independence. Qed.
Print Assumptions history_independence.

(* any rules, contiguous probe: under the guard that excludes the recorded
   finding (a user-supplied output for a module that owns a per-thread cache
   which is not scan-scoped: GENERATED tl_scan_scoped = false) *)
Theorem history_independence_contiguous : forall R h i,
  forallb wf_op h = true ->
  tl_guard R (spec_persist h) ->
  forall c, visible R false c = true ->
    probe_contig R i (run R h fresh) c = probe_contig R i (spec_persist h) c.
Proof. exact StateProofs.history_independence_contiguous. Qed.
Print Assumptions history_independence_contiguous.

(* any rules, block probe: every visible cell except those caches *)
Theorem history_independence_block : forall R h i,
  forallb wf_op h = true ->
  (spec_persist h CKind =? 0) = false ->
  (run R h fresh (CF blk_needs_reset) =? 0) = false ->
  forall c, visible R true c = true -> block_leak c = false ->
    probe_block R i (run R h fresh) c = probe_block R i (spec_persist h) c.
Proof. exact StateProofs.history_independence_block. Qed.
Print Assumptions history_independence_block.

(* every transient cell has its creation-time value, or a value determined by
   the probe alone, when the evaluation of a contiguous scan starts *)
Theorem contiguous_prologue_establishes_transient_state : forall R i st,
  ginv st = true -> tl_guard R st ->
  forall c, classify c = Transient -> visible R false c = true ->
    probe_contig R i st c = established_contig R i st c.
Proof. exact StateProofs.contig_prologue_establishes. Qed.
Print Assumptions contiguous_prologue_establishes_transient_state.

(* without the restriction on the rules the statement is still false: the
   per-thread caches of modules that are not scan-scoped leak (witnesses:
   cuckoo's per-thread report, replayed on the implementation by the harness corpus) *)
Theorem history_independence_refuted : ~ history_independence_stmt.
Proof. exact StateProofs.history_independence_refuted. Qed.
Print Assumptions history_independence_refuted.

Theorem history_independence_witnesses :
  leaks [OOther eff_tl; OIntoBlocks] 3 (CTL tl_cuckoo_LOCAL_DATA) /\
  leaks [OOther eff_tl; OSetModuleOutput 6] 3 (CTL tl_cuckoo_LOCAL_DATA).
Proof. exact (conj leak_tl_block leak_tl_user_output). Qed.
Print Assumptions history_independence_witnesses.

(* GENERATED branch table of PatternMatches::clear() (`if self.capacity > 10000
   { drop everything } else { clear every list }`): on every branch every match
   list is emptied - a branch that keeps a list with its content breaks this
   and history_independence *)
Theorem pattern_matches_clear_empties_every_list : forall st, pm_clear st (CF tracker_pattern_matches) = 0.
Proof. exact StateProofs.pm_clear_empties_lists. Qed.
Print Assumptions pattern_matches_clear_empties_every_list.

(* GENERATED fact used by the theorems: every module main function
   re-initialises every per-thread cache of its module *)
Theorem module_mains_clear_their_caches : forall t, tl_cleared_by_main t = true.
Proof. exact StateProofs.all_tl_cleared. Qed.
Print Assumptions module_mains_clear_their_caches.
