(* C05 - scanning never crashes: property theorems only.
   What is proved: (1) the conversions that host functions apply to the i64 /
   i32 arguments they receive from the WASM code of a rule condition cannot
   panic, for any argument value, for every function of the table regenerated
   from the source, except for the arguments on the explicit allow lists;
   (2) the integer arithmetic emitted by emit.rs cannot trap under the guards
   regenerated from emit.rs; (3) the conversion / instruction shapes of the
   defects repaired so far (DESIGN findings 5, 7, 8) are refuted as literals,
   statements that do not depend on the source.
   Memory safety of unsafe code, stack depth and allocation bounds are
   observed in child processes by the harness, not proved. *)
From Coq Require Import List ZArith String Bool Lia.
From YV Require Import Cond.HostTypes Cond.HostModel Cond.HostModelProofs Cond.Traps Cond.TrapsProofs Cond.StrModel Cond.StrModelProofs Gen.HostFns.
Import ListNotations.
Local Open Scope Z_scope.

(* ------------------------------------------------------------------ host functions *)

(* host_table_safe: the decidable condition on the generated table: every integer argument of
   every #[wasm_export] function of wasm/mod.rs and of every #[module_export]
   function of the math / hash / string / console modules is accepted by the
   interval analysis, or is produced by the code generator (emitter_controlled,
   checked against emit.rs by the translator), or is a recorded finding
   (known_unsafe, generated from known_findings.jsonl).  Fails as soon as a new
   unwrap / unchecked arithmetic on a run-time integer appears. *)
Theorem host_table_safe : table_safe Debug = true /\ table_safe Release = true.
Proof. split; vm_compute; reflexivity. Qed.
Print Assumptions host_table_safe.

(* no run-time integer argument needs the known-findings allow list (it is
   empty since the repairs fd32d03a / e7c1d7b6): the only arguments the analysis
   rejects are the emitter-controlled ones *)
Theorem no_runtime_exceptions :
  unsafe_runtime_args Debug emitter_controlled (host_fns ++ module_fns) = [] /\
  unsafe_runtime_args Release emitter_controlled (host_fns ++ module_fns) = [] /\
  table_safe_with Debug emitter_controlled [] (host_fns ++ module_fns) = true /\
  table_safe_with Release emitter_controlled [] (host_fns ++ module_fns) = true.
Proof. repeat split; vm_compute; reflexivity. Qed.
Print Assumptions no_runtime_exceptions.

(* host_no_panic: for every function of the generated tables, every integer
   argument that is not emitter-controlled, every value of the argument's type,
   every i64 value of the other arguments, every collection length and both
   profiles, the conversion code does not panic. *)
Theorem host_no_panic : forall prof f a env len v,
  In f (host_fns ++ module_fns) -> In a (f_args f) ->
  is_emitter_controlled emitter_controlled (f_name f) (a_name a) = false ->
  fits (a_ty a) v = true -> (forall n, fits I64 (env n) = true) ->
  run_arg prof env len a v <> Panic.
Proof.
  intros prof. apply host_no_panic_without_exceptions.
  destruct prof; [exact (proj1 (proj2 (proj2 no_runtime_exceptions)))|exact (proj2 (proj2 (proj2 no_runtime_exceptions)))].
Qed.
Print Assumptions host_no_panic.

(* the analysis itself, for any table: an accepted argument never panics *)
Theorem accepted_argument_never_panics : forall prof a env len v,
  arg_safe prof a = true -> fits (a_ty a) v = true -> (forall n, fits I64 (env n) = true) ->
  run_arg prof env len a v <> Panic.
Proof. exact arg_no_panic. Qed.
Print Assumptions accepted_argument_never_panics.

(* the conversions of the repaired defects, as they were (DESIGN findings 5 and 8): a
   run-time N = 2^31 in `N of`, math.abs(i64::MIN), hash.md5(i64::MAX, 1),
   console.log(1, i64::MAX) panic in the model (overflow checks on), and the
   analysis rejects each of these shapes.  Independent of the source. *)
Theorem unguarded_conversions_refuted :
  run_arg Debug no_env 0 before_fix_required 2147483648 = Panic /\
  run_arg Debug no_env 0 before_fix_abs i64_min = Panic /\
  run_arg Debug (fun _ => 1) 0 before_fix_hash_offset i64_max = Panic /\
  run_arg Debug (fun _ => i64_max) 0 before_fix_console_offset 1 = Panic /\
  forallb (fun a => negb (arg_safe Debug a)) [before_fix_required; before_fix_abs; before_fix_hash_offset; before_fix_console_offset] = true.
Proof. vm_compute. repeat split. Qed.
Print Assumptions unguarded_conversions_refuted.

(* the witnesses of the recorded exceptions evaluated on the CURRENT table: each
   panics iff the analysis rejects its argument (all are accepted by now) *)
Theorem witnesses_exact :
  forallb (witness_exact Debug) witnesses = true /\ known_have_witnesses = true.
Proof. split; vm_compute; reflexivity. Qed.
Print Assumptions witnesses_exact.

(* the functional models: `$a at N`, `$a in (lo..hi)` / `#a in (lo..hi)`,
   `@a[N]` / `!a[N]`, uintN(N) .. float64be(N), math.*(offset, length) never
   panic, for any i64 arguments, any match list, any data length, both profiles *)
Theorem pattern_functions_total : forall prof starts vals (lo hi n : Z),
  i64_min <= lo <= i64_max -> i64_min <= hi <= i64_max -> i64_min <= n <= i64_max ->
  is_pat_match_at host_fns prof starts n <> RPanic /\
  matches_in_range host_fns prof "is_pat_match_in" starts lo hi <> RPanic /\
  matches_in_range host_fns prof "pat_matches_in" starts lo hi <> RPanic /\
  pat_index host_fns prof "pat_offset" vals n <> RPanic /\
  pat_index host_fns prof "pat_length" vals n <> RPanic.
Proof.
  intros prof starts vals lo hi n Hlo Hhi Hn. repeat split.
  - apply is_pat_match_at_total; [destruct prof; vm_compute; reflexivity|assumption].
  - apply matches_in_range_total; try assumption. destruct prof; vm_compute; reflexivity.
  - apply matches_in_range_total; try assumption. destruct prof; vm_compute; reflexivity.
  - apply pat_index_total; [destruct prof; vm_compute; reflexivity|assumption].
  - apply pat_index_total; [destruct prof; vm_compute; reflexivity|assumption].
Qed.
Print Assumptions pattern_functions_total.

Theorem data_readers_total : forall prof f w dl off g o l,
  In f read_fns -> In g data_range_fns ->
  i64_min <= off <= i64_max -> i64_min <= o <= i64_max -> i64_min <= l <= i64_max ->
  read_at host_fns prof f w dl off <> RPanic /\ data_range module_fns prof g o l <> RPanic.
Proof.
  intros prof f w dl off g o l Hf Hg Hoff Ho Hl. split.
  - apply read_at_total; try assumption. destruct prof; vm_compute; reflexivity.
  - apply data_range_total; try assumption. destruct prof; vm_compute; reflexivity.
Qed.
Print Assumptions data_readers_total.

(* the functions that used to need the allow list: `N of` (pat_range_match),
   math.abs, hash.*(offset, size), console.log(offset, length) never panic, for
   any i64 arguments, both profiles *)
Theorem repaired_functions_total : forall prof nmatching r x f g dl off size,
  i64_min <= r <= i64_max -> i64_min <= x <= i64_max ->
  In f hash_fns -> In g console_fns -> i64_min <= off <= i64_max -> i64_min <= size <= i64_max ->
  pat_range_match host_fns prof nmatching r <> RPanic /\
  math_abs module_fns prof x <> RPanic /\
  hash_range module_fns prof f dl off size <> RPanic /\
  console_range module_fns prof g dl off size <> RPanic.
Proof.
  intros prof nmatching r x f g dl off size Hr Hx Hf Hg Ho Hs. repeat split.
  - apply pat_range_match_total; [destruct prof; vm_compute; reflexivity|assumption].
  - apply math_abs_total; [destruct prof; vm_compute; reflexivity|assumption].
  - apply hash_range_total; try assumption. destruct prof; vm_compute; reflexivity.
  - apply console_range_total; try assumption. destruct prof; vm_compute; reflexivity.
Qed.
Print Assumptions repaired_functions_total.

(* ------------------------------------------------------------------ string operators *)

(* string_ops_no_panic: the host functions behind contains / icontains /
   startswith / istartswith / endswith / iendswith / iequals / == != < > <= >=
   (lib/src/wasm/string.rs) do not panic for ANY pair of byte strings (any
   lengths: empty, shorter, equal, longer; ASCII or not), on every evaluation
   path (case-sensitive bstr operation, case-insensitive ASCII fast path,
   to_lowercase path): the fast paths slice the haystack behind the length
   guards regenerated from the source (str_guards) *)
Theorem string_ops_no_panic : forall op a b, str_eval str_guards op a b <> RPanic.
Proof. intros op a b. apply str_eval_no_panic. vm_compute. reflexivity. Qed.
Print Assumptions string_ops_no_panic.

(* for any guards: the three guards in front of a slice / windows() suffice *)
Theorem string_ops_no_panic_if_guarded : forall g op a b, needed_sguards g = true -> str_eval g op a b <> RPanic.
Proof. exact str_eval_no_panic. Qed.
Print Assumptions string_ops_no_panic_if_guarded.

(* refuted without the guards (independent of the source): `"ab" iendswith
   "xyzAB"` without the suffix-length guard, `"ab" istartswith "ABxyz"` without
   the prefix-length guard, `"ab" icontains ""` without the empty-needle guard;
   and every longer right operand panics once its guard is gone *)
Theorem string_ops_refuted :
  str_eval (mkSGuards true true true false) OIEndsWith [97; 98] [120; 121; 122; 65; 66] = RPanic /\
  str_eval (mkSGuards true true false true) OIStartsWith [97; 98] [65; 66; 120; 121; 122] = RPanic /\
  str_eval (mkSGuards false true true true) OIContains [97; 98] [] = RPanic /\
  (forall g h s, sg_ends_len g = false -> blen h < blen s -> ci_ends_fast g h s = RPanic) /\
  (forall g h p, sg_starts_len g = false -> blen h < blen p -> ci_starts_fast g h p = RPanic).
Proof. repeat split; try (vm_compute; reflexivity); [exact ends_guard_needed|exact starts_guard_needed]. Qed.
Print Assumptions string_ops_refuted.

(* the guarded istartswith fast path computes the reference prefix test *)
Theorem istartswith_fast_path_correct : forall h p, ci_starts_fast str_guards h p = Ret (starts true h p).
Proof. intros h p. apply ci_starts_fast_spec. vm_compute. reflexivity. Qed.
Print Assumptions istartswith_fast_path_correct.

(* ------------------------------------------------------------------ WASM traps *)

(* emit_no_trap: integer arithmetic over run-time values (+ - * \ % << >> unary
   minus, bitwise operators; any nesting, any values, undefined operands
   included) never traps under the guards regenerated from emit.rs (zero
   divisors -> undefined; divisor -1 -> `0 - lhs`; shift counts compared with 64) *)
Theorem emit_no_trap : forall env e, aeval div_guards env e <> WTrap.
Proof.
  intros env e. apply emit_no_trap_guarded; [vm_compute; reflexivity|vm_compute; reflexivity|left; vm_compute; reflexivity].
Qed.
Print Assumptions emit_no_trap.

(* for any guards: zero guards present and no division evaluated on (i64::MIN, -1) suffice *)
Theorem emit_no_trap_if_min_div_free : forall g env e,
  g_div_zero g = true -> g_rem_zero g = true ->
  (g_div_min_neg1 g = true \/ min_div_free g env e = true) ->
  aeval g env e <> WTrap.
Proof. exact emit_no_trap_guarded. Qed.
Print Assumptions emit_no_trap_if_min_div_free.

(* the percentage quantifier's conversion, as generated from emit_for, never traps *)
Theorem percentage_no_trap : forall n q, emit_pct pct_trunc_trapping n q <> WTrap.
Proof. intros n q. assert (E : pct_trunc_trapping = false) by (vm_compute; reflexivity). rewrite E. apply emit_pct_sat_no_trap. Qed.
Print Assumptions percentage_no_trap.

(* refuted for emit.rs as it was (DESIGN finding 7): with the zero guard only,
   `(-9223372036854775807-1) \ (filesize - 4)` on a 3-byte file traps, and the
   trapping conversion of `for (filesize * 1000)% i in (0..0x3fffffffffffffff)`
   (n = 2^62, q = 3000) traps.  Independent of the source; the second part says
   what holds for the current source: the guard / saturating conversion is there
   or the witness still traps. *)
Theorem emit_no_trap_refuted :
  aeval guards_before_fix div_witness_env div_witness = WTrap /\
  pct_max_count 4611686018427387904 3000 = WTrap /\
  (g_div_min_neg1 div_guards = true \/ aeval div_guards div_witness_env div_witness = WTrap) /\
  (pct_trunc_trapping = false \/ pct_max_count 4611686018427387904 3000 = WTrap).
Proof.
  split; [vm_compute; reflexivity|]. split; [vm_compute; reflexivity|].
  assert (D : div_refuted_b = true) by (vm_compute; reflexivity).
  assert (P : pct_refuted_b = true) by (vm_compute; reflexivity).
  unfold div_refuted_b in D. unfold pct_refuted_b in P.
  apply orb_true_iff in D. apply orb_true_iff in P. split.
  - destruct D as [D|D]; [left; exact D|right; apply is_trap_true; exact D].
  - destruct P as [P|P]; [left; destruct pct_trunc_trapping; [discriminate|reflexivity]|right; apply is_trap_true; exact P].
Qed.
Print Assumptions emit_no_trap_refuted.

(* the trapping divisions are exactly i64::MIN / -1 when only the zero guard is present *)
Theorem div_traps_exactly_min_by_minus_one : forall g a b,
  g_div_zero g = true -> g_div_min_neg1 g = false ->
  (emit_div g a b = WTrap <-> a = i64_min /\ b = -1).
Proof. exact emit_div_traps_iff. Qed.
Print Assumptions div_traps_exactly_min_by_minus_one.

(* percentage quantifier: the exact value ceil(n*q/100) fits in i64 when
   |n*q| <= 100 * i64::MAX, and trunc traps exactly outside the i64 range *)
Theorem percentage_bound : forall n q,
  - (100 * i64_max) <= n * q <= 100 * i64_max ->
  i64_min <= pct_exact n q <= i64_max /\ trunc_f64_s_int (Some (pct_exact n q)) <> WTrap.
Proof.
  intros n q H. pose proof (pct_exact_in_range n q H) as R. split; [exact R|].
  intro T. apply trunc_traps_iff in T. tauto.
Qed.
Print Assumptions percentage_bound.

(* ------------------------------------------------------------------ non-vacuity *)
(* the tables are not empty, the allow lists are used, the hypotheses of the
   theorems are satisfiable and the interpreter distinguishes the cases *)
Example c05_nonvacuous :
  (20 <=? Z.of_nat (List.length host_fns)) = true /\ (20 <=? Z.of_nat (List.length module_fns)) = true /\
  (* an accepted argument with a guard + unwrap: is_pat_match_at.offset *)
  (match find_arg host_fns "is_pat_match_at" "offset" with
   | Some a => arg_safe Debug a && existsb (fun u => match u_conv u with TryIntoUnwrap _ => true | _ => false end) (a_uses a)
   | None => false end) = true /\
  (* the same unwrap without its guard is rejected, and panics on -1 *)
  arg_safe Debug (mkArg "offset" I64 [mkUse (TryIntoUnwrap USize) false false]) = false /\
  run_arg Debug no_env 0 (mkArg "offset" I64 [mkUse (TryIntoUnwrap USize) false false]) (-1) = Panic /\
  (* emitter-controlled arguments would be rejected: the allow list matters *)
  (match find_arg host_fns "map_lookup_by_index_integer_integer" "index" with Some a => negb (arg_safe Debug a) | None => false end) = true /\
  (* guarded arithmetic: (filesize - 4) \ (filesize - 3) on a 3-byte file is undefined, not a trap *)
  aeval div_guards (fun _ => Some 3) (ADiv (ASub (AVar 0) (AConst 4)) (ASub (AVar 0) (AConst 3))) = WUndef /\
  min_div_free div_guards (fun _ => Some 3) (ADiv (ASub (AVar 0) (AConst 4)) (ASub (AVar 0) (AConst 3))) = true /\
  pct_max_count 2 50 = WVal 1.
Proof. vm_compute. repeat split. Qed.
