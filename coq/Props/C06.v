(* C06 - a source that fails to compile leaves no trace in the compiler. *)
From Coq Require Import String List NArith Bool.
From YV Require Import Gen.SnapshotGen Compiler.Snapshot Compiler.SnapshotProofs.
From YV Require Gen.AstBuilderArms Compiler.Accounting Compiler.AccountingProofs Compiler.AccountingC06.
From YV Require Compiler.Suppress Compiler.SuppressProofs Compiler.Includes Compiler.IncludesProofs.
Import ListNotations.
Local Open Scope N_scope.

(* the generated tables (fields, snapshot, restore statements, mutation sites of
   the fallible region of c_rule) satisfy the decidable undo condition *)
Theorem snapshot_tables_ok : tables_ok = true.
Proof. vm_compute. reflexivity. Qed.
Print Assumptions snapshot_tables_ok.

(* For every compiler state, and every sequence of the mutations the source can
   perform while compiling a rule that then fails, restoring the snapshot taken
   before the rule gives back every field that must be restored (everything
   but the documented append-only pools, diagnostics and per-rule scratch). *)
Theorem restore_undoes :
  forall s0 ws, wf s0 -> shape_ok s0 ->
    Forall (good (vnum (s0 F_next_pattern_id))) ws ->
    forall f, must_restore f = true -> restore s0 (apply_all ws s0) f = s0 f.
Proof. exact (restore_undoes_if_tables_ok snapshot_tables_ok). Qed.
Print Assumptions restore_undoes.

(* every error exit of the fallible region of c_rule runs restore_snapshot *)
Theorem error_exits_restore : exits_restore = true.
Proof. vm_compute. reflexivity. Qed.
Print Assumptions error_exits_restore.

(* hence: whichever error exit a failing rule takes, and whatever it did before,
   the compiler state it leaves behind equals the state before the rule on
   every field that must be restored *)
Theorem failing_rule_leaves_no_trace :
  forall e, In e fallible_exits ->
  forall s0 ws, wf s0 -> shape_ok s0 ->
    Forall (good (vnum (s0 F_next_pattern_id))) ws ->
    forall f, must_restore f = true -> exit_state (snd e) s0 ws f = s0 f.
Proof.
  intros e He s0 ws Hwf Hsh Hws f Hf.
  pose proof error_exits_restore as H. unfold exits_restore in H. rewrite forallb_forall in H.
  rewrite (H e He). exact (restore_undoes s0 ws Hwf Hsh Hws f Hf).
Qed.
Print Assumptions failing_rule_leaves_no_trace.

(* second sentence of the property: "every error is recorded in errors() and
   every skipped rule in ignored_rules()" - the c_items loop of add_source, over
   the GENERATED facts about what its Err arm and c_rule's tolerated-error arms
   push (Gen/AstBuilderArms.v; model in Compiler/Accounting.v, shared with C09):
   a rule whose compilation fails is listed among the ignored rules and adds at
   least one error, whatever the other items of the source do *)
Theorem failing_rule_is_recorded : forall oracle items s name x,
  In (Gen.AstBuilderArms.KRule, name) items ->
  oracle name = Compiler.Accounting.OFailed x ->
  In name (Compiler.Accounting.c_ignored (Compiler.Accounting.c_items oracle items s)) /\
  (Compiler.Accounting.c_errs s < Compiler.Accounting.c_errs (Compiler.Accounting.c_items oracle items s))%nat.
Proof.
  intros oracle items s name x Hin Ho. split.
  - exact (Compiler.AccountingC06.failed_rule_in_ignored oracle items s name x Hin Ho).
  - exact (Compiler.AccountingProofs.failed_rule_reports_error oracle items s name x Hin Ho).
Qed.
Print Assumptions failing_rule_is_recorded.

(* no field that build() reads is classified as tolerated junk by accident:
   the vectors and maps that the scanner indexes by id must all be restored *)
Theorem indexed_tables_are_restored :
  forallb must_restore [F_rules; F_sub_patterns; F_anchored_sub_patterns; F_atoms; F_re_code;
                        F_fast_scan_patterns; F_next_pattern_id; F_patterns; F_filesize_bounds;
                        F_header_constraints] = true.
Proof. vm_compute. reflexivity. Qed.
Print Assumptions indexed_tables_are_restored.

(* non-vacuity: a state with an anchored literal and a shared pattern, and a
   failing rule that appends an anchored sub-pattern, atoms, a pattern and
   bumps next_pattern_id: the hypotheses hold and the work is not trivial *)
Definition ex_state : cstate := fun f =>
  match f with
  | F_rules => VVec [1] | F_sub_patterns => VVec [10; 11] | F_anchored_sub_patterns => VVec [0]
  | F_atoms => VVec [5; 6; 7] | F_re_code => VVec [] | F_fast_scan_patterns => VVec [1; 1]
  | F_next_pattern_id => VNum 2 | F_patterns => VVMap [(100, 0); (101, 1)]
  | F_filesize_bounds => VKMap [(1, 9)] | F_header_constraints => VKMap []
  | F_symbol_table => VVec [0; 1]
  | _ => VOther []
  end.
Definition ex_work : list work :=
  [WIncr F_next_pattern_id; WAppend F_fast_scan_patterns 1; WInsertVal F_patterns 102 2;
   WAppend F_anchored_sub_patterns 2; WAppend F_sub_patterns 12; WAppend F_atoms 8;
   WInsertKey F_filesize_bounds 2 3; WAppend F_rules 2].
Example c06_nonvacuous :
  forallb (fun f => wf_val 2 (ex_state f) && shape_val (act_for f) (ex_state f)) all_fields = true /\
  forallb (fun w => in_source w && fresh_ids 2 w) ex_work = true /\
  forallb (fun f => negb (must_restore f) ||
                    fval_eqb (restore ex_state (apply_all ex_work ex_state) f) (ex_state f)) all_fields = true /\
  fval_eqb (apply_all ex_work ex_state F_anchored_sub_patterns) (ex_state F_anchored_sub_patterns) = false.
Proof. vm_compute. repeat split. Qed.

(* per-source state: every exit of add_source taken after the warning-suppression hook exists
   clears the suppressions (exits regenerated from the source) *)
Theorem add_source_exits_clear_suppressions : Compiler.Suppress.all_exits_clear = true.
Proof. vm_compute. reflexivity. Qed.
Print Assumptions add_source_exits_clear_suppressions.

(* hence, for every history of add_source calls (each with arbitrary suppression comments, arbitrary
   warnings, leaving through any of its exits, failing or not), the warnings recorded are exactly
   those each source produces on a fresh compiler, and no suppression is left behind *)
Theorem warnings_independent_of_history : forall disabled h,
  forallb Compiler.Suppress.valid_exit h = true ->
  Compiler.Suppress.warns (Compiler.Suppress.run disabled h) = flat_map (Compiler.Suppress.alone disabled) h /\
  Compiler.Suppress.supp (Compiler.Suppress.run disabled h) = [].
Proof. exact (Compiler.SuppressProofs.warnings_independent_of_history_gen add_source_exits_clear_suppressions). Qed.
Print Assumptions warnings_independent_of_history.

(* "every error is recorded in errors()": the errors of the parser (a rule with a syntax error sitting
   next to a rule with a semantic error in one source) are appended to errors() on every way out of
   add_source taken after the source was parsed; Compiler/Accounting.v counts them unconditionally
   (add_source = AST errors + c_items), this generated fact is what makes that faithful *)
Theorem add_source_records_parser_errors : forallb snd add_source_exits_record_parser_errors = true.
Proof. vm_compute. reflexivity. Qed.
Print Assumptions add_source_records_parser_errors.

(* the include stack (circular-include detection, lookup directory of relative includes) is left as it
   was found by every source, whatever it includes and whichever of its rules or included files fail *)
Theorem include_stack_push_pop_balanced : include_stack_balanced = true.
Proof. vm_compute. reflexivity. Qed.
Print Assumptions include_stack_push_pop_balanced.

Theorem include_stack_restored : forall fuel files items st,
  Compiler.Includes.run_items include_stack_balanced fuel files items st = st.
Proof. rewrite include_stack_push_pop_balanced. exact Compiler.IncludesProofs.include_stack_restored_gen. Qed.
Print Assumptions include_stack_restored.

(* the diagnostics of what follows an `include` are attributed to the including source whether or not the
   included file had errors: its source id is restored on the only path through the include arm *)
Theorem include_restores_the_source_id : include_restores_source_id = true.
Proof. vm_compute. reflexivity. Qed.
Print Assumptions include_restores_the_source_id.
