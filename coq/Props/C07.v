(* C07 - a rule's outcome is independent of unrelated rules in the set:
   property theorems only (proved in Cond/IndependenceProofs.v, SemProofs.v). *)
From Coq Require Import List ZArith Bool.
From YV Require Import Cond.Syntax Cond.Sem Cond.Rename Cond.SemProofs Cond.Quirks Cond.QuirksProofs Cond.Independence Cond.IndependenceProofs
  Gen.PatternIdentity Cond.IdentityShape.
Import ListNotations.

(* For every matching semantics M, buffer, external variables, verdicts of
   the rules r refers to, and every list of rules compiled before (S1) and
   after (S2) - sharing any of r's patterns or none - the verdict of r and
   the matches reported for each of its patterns are those of r compiled
   alone. *)
Theorem independence : forall M data globals others S1 r S2,
  verdict_in M data globals others (S1 ++ r :: S2) (length S1)
  = verdict_in M data globals others [r] 0 /\
  forall i, matches_in M data (S1 ++ r :: S2) (length S1) i = matches_in M data [r] 0 i.
Proof. exact IndependenceProofs.independence. Qed.
Print Assumptions independence.

(* the id of a pattern designates that pattern's identity in the final table *)
Theorem dedup_respects_identity : forall rules tbl idss tbl',
  compile_from tbl rules = (idss, tbl') ->
  (exists ext, tbl' = tbl ++ ext) /\
  forall k r, nth_error rules k = Some r ->
    exists ids, nth_error idss k = Some ids /\ length ids = length (cr_pats r) /\
      forall i p, nth_error (cr_pats r) i = Some p ->
        exists id, nth_error ids i = Some id /\ nth_error tbl' id = Some p.
Proof. exact IndependenceProofs.dedup_respects_identity. Qed.
Print Assumptions dedup_respects_identity.

(* the source still has the shape the model assumes (regenerated on every run) *)
Theorem model_matches_source :
  identity_is_structural = true /\ dedup_keyed_by_whole_pattern = true /\ ids_in_declaration_order = true /\
  has_fields wanted_literal_fields literal_pattern_fields = true /\
  has_fields wanted_regexp_fields regexp_pattern_fields = true.
Proof. exact IdentityShape.model_matches_source. Qed.
Print Assumptions model_matches_source.

(* distinct identities get distinct ids *)
Theorem dedup_table_nodup : forall ps tbl ids tbl',
  NoDup tbl -> assign tbl ps = (ids, tbl') -> NoDup tbl'.
Proof. exact assign_nodup. Qed.
Print Assumptions dedup_table_nodup.

Theorem id_renaming_invariance : forall f e en en',
  env_ren f en en' -> eval en' (rename f e) = eval en e.
Proof. exact SemProofs.id_renaming_invariance. Qed.
Print Assumptions id_renaming_invariance.

(* the implementation evaluates `N of <set>` with pat_range_match when the
   pattern ids of the set are consecutive - which other rules change - and
   with a loop otherwise: both agree for every N (refuted for N <= 0 before
   commit bf5119e4, finding 6), so the evaluator used above covers both *)
Theorem of_fast_path_equiv_loop : forall z ms,
  v_of QExpr (VInt z) (map (fun m => VBool (matched m)) ms) = VBool (pat_range_match z ms).
Proof. exact QuirksProofs.of_fast_path_equiv_loop. Qed.
Print Assumptions of_fast_path_equiv_loop.
