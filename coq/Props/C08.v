(* C08 - serialized rules behave identically after deserialization; truncated
   blobs and foreign headers are rejected: property theorems only.  Each is
   closed by [exact] of a lemma proved under Codec/; statements are pinned here.

   What is proved: facts about EVERY sequential byte decoder (hence bincode's
   decoder of `Rules`, whatever its fields), about bincode's integer encoding,
   about the universe of serde shapes `Rules` is made of, and about the header
   written/checked by serialize_into/deserialize, whose constants, layout, byte
   orders and comparison operators are regenerated from the source
   (Gen/CodecGen.v).  What is rebuilt after decoding (WASM module, Teddy) and
   scanning behaviour is compared on the implementation (harness c08). *)
From Coq Require Import List NArith ZArith Bool.
From YV Require Import Gen.CodecGen Codec.Reader Codec.ReaderProofs Codec.Varint Codec.VarintProofs
  Codec.Universe Codec.UniverseProofs Codec.Header Codec.HeaderProofs Codec.RulesShape Codec.RulesShapeProofs.
Import ListNotations.

(* 1. truncation, for every decoder *)
Theorem decoder_strict_prefix_rejected : forall A (d : dec A) b v n,
  run d b = Ok v n -> forall k, k < n -> run d (firstn k b) = Err Eof.
Proof. exact strict_prefix_rejected. Qed.
Print Assumptions decoder_strict_prefix_rejected.

Theorem decoder_ignores_rest : forall A (d : dec A) b v n r,
  run d b = Ok v n -> run d (b ++ r) = Ok v n.
Proof. exact run_app_ok. Qed.
Print Assumptions decoder_ignores_rest.

(* 2. bincode's variable-length integers *)
Theorem varint_roundtrip : forall w n r, (n < wmax w)%N ->
  run (dec_varint w) (enc_varint n ++ r) = Ok n (length (enc_varint n)).
Proof. exact VarintProofs.varint_roundtrip. Qed.
Print Assumptions varint_roundtrip.

Theorem varint_prefix_free : forall a b r1 r2, (a < wmax W64)%N -> (b < wmax W64)%N ->
  enc_varint a ++ r1 = enc_varint b ++ r2 -> a = b /\ r1 = r2.
Proof. exact VarintProofs.varint_prefix_free. Qed.
Print Assumptions varint_prefix_free.

Theorem zigzag_roundtrip : forall z, unzigzag (zigzag z) = z.
Proof. exact VarintProofs.zigzag_roundtrip. Qed.
Print Assumptions zigzag_roundtrip.

Theorem signed_varint_roundtrip : forall w z r, srange w z = true ->
  run (dec_svarint w) (enc_svarint z ++ r) = Ok z (length (enc_svarint z)).
Proof. exact svarint_roundtrip. Qed.
Print Assumptions signed_varint_roundtrip.

(* 3. every shape serde feeds to bincode for Rules *)
Theorem universe_roundtrip : forall t v, wt t v = true ->
  forall r, run (decode t) (encode v ++ r) = Ok v (length (encode v)).
Proof. exact UniverseProofs.universe_roundtrip. Qed.
Print Assumptions universe_roundtrip.

(* 4. foreign headers *)
Theorem foreign_magic_rejected : forall A (d : dec A) post blob,
  firstn version_offset blob <> magic -> deserialize d post blob = DErr InvalidFormat.
Proof. exact HeaderProofs.foreign_magic_rejected. Qed.
Print Assumptions foreign_magic_rejected.

Theorem foreign_version_rejected : forall A (d : dec A) post blob,
  data_offset <= length blob -> firstn version_offset blob = magic -> version_field blob <> version ->
  deserialize d post blob = DErr (InvalidVersion (version_field blob)).
Proof. exact HeaderProofs.foreign_version_rejected. Qed.
Print Assumptions foreign_version_rejected.

Theorem foreign_header_rejected : forall A (d : dec A) post blob,
  forallb byte_ok blob = true -> firstn data_offset blob <> header ->
  deserialize d post blob = DErr InvalidFormat \/
  (version_field blob <> version /\ deserialize d post blob = DErr (InvalidVersion (version_field blob))).
Proof. exact HeaderProofs.foreign_header_rejected. Qed.
Print Assumptions foreign_header_rejected.

Theorem header_alteration_rejected : forall A (d : dec A) post body i b,
  forallb byte_ok body = true -> byte_ok b = true ->
  i < data_offset -> nth i (serialize body) b <> b ->
  let blob' := upd i b (serialize body) in
  deserialize d post blob' = DErr InvalidFormat \/
  (version_field blob' <> version /\ deserialize d post blob' = DErr (InvalidVersion (version_field blob'))).
Proof. exact HeaderProofs.header_alteration_rejected. Qed.
Print Assumptions header_alteration_rejected.

(* 5. interrupted writes: for every payload decoder and every post-decode
   validation, every strict prefix of an accepted blob is rejected *)
Theorem short_rejected : forall A (d : dec A) post blob a n,
  deserialize d post blob = DOk a n -> forall k, k < n ->
  deserialize d post (firstn k blob) = DErr (if Nat.ltb k data_offset then InvalidFormat else DecodeError Eof).
Proof. exact HeaderProofs.short_rejected. Qed.
Print Assumptions short_rejected.

(* 6. round trip and re-serialization at the model level *)
Theorem deserialize_serialize : forall t v post, wt t v = true -> post v = true ->
  deserialize (decode t) post (serialize (encode v)) = DOk v (length (serialize (encode v))).
Proof. exact deserialize_serialize_post. Qed.
Print Assumptions deserialize_serialize.

Theorem reserialize_stable : forall t v v' n, wt t v = true ->
  deserialize (decode t) (fun _ => true) (serialize (encode v)) = DOk v' n ->
  serialize (encode v') = serialize (encode v) /\ n = length (serialize (encode v)).
Proof. exact HeaderProofs.reserialize_stable. Qed.
Print Assumptions reserialize_stable.

(* 7. the instance for the shape of `struct Rules` (RulesShape.v, validated on
   real blobs): every strict prefix of a serialized Rules value is rejected *)
Theorem rules_blob_prefix_rejected : forall v post k, wt rules_ty v = true -> post v = true ->
  k < length (serialize (encode v)) ->
  deserialize (decode rules_ty) post (firstn k (serialize (encode v))) =
  DErr (if Nat.ltb k data_offset then InvalidFormat else DecodeError Eof).
Proof. exact (serialized_prefix_rejected_post rules_ty). Qed.
Print Assumptions rules_blob_prefix_rejected.

(* 7b. the globals blob (types::Struct, recursive; shape generated from the definitions) *)
Theorem globals_blob_roundtrip : forall v, wt globals_ty v = true ->
  forall r, run (decode globals_ty) (encode v ++ r) = Ok v (length (encode v)).
Proof. exact (UniverseProofs.universe_roundtrip globals_ty). Qed.
Print Assumptions globals_blob_roundtrip.

(* 8. the struct definitions in the source still carry exactly the serde attributes
   the shape of Rules was written for, and every field has a shape *)
Theorem rules_shape_matches_source :
  force rules_ty = reviewed_rules_ty /\ source_attrs_ok = true /\ mentions_unknown reviewed_rules_ty = false.
Proof. exact (conj generated_shape_is_reviewed (conj source_attrs_unchanged every_field_has_a_shape)). Qed.
Print Assumptions rules_shape_matches_source.

(* non-vacuity: an (empty) Rules value is well-typed, round-trips, and its
   prefixes are rejected in the two predicted ways; an altered version byte and a
   foreign magic are rejected *)
Definition empty_rules : val :=
  VTuple [VSeq []; VSeq []; VBool false; VSeq []; VBytes []; VNone; VSeq []; VSeq []; VUInt 0; VSeq [];
          VSeq []; VSeq []; VSeq []; VSeq []; VBytes []; VBytes []; VBytes [1; 2; 3]%N; VSeq [];
          VTuple [VStr [76; 115; 98; 48]%N; VTuple [VU8 64; VU8 0]; VUInt 0; VSeq []]; VBool false].
Example c08_nonvacuous :
  wt rules_ty empty_rules = true /\
  let blob := serialize (encode empty_rules) in
  deserialize (decode rules_ty) (fun _ => true) blob = DOk empty_rules (length blob) /\
  deserialize (decode rules_ty) (fun _ => true) (firstn 5 blob) = DErr InvalidFormat /\
  deserialize (decode rules_ty) (fun _ => true) (firstn (data_offset + 3) blob) = DErr (DecodeError Eof) /\
  (exists a, deserialize (decode rules_ty) (fun _ => true) (upd version_offset (N.succ (nth version_offset blob 0%N) mod 256)%N blob) = DErr (InvalidVersion a)) /\
  deserialize (decode rules_ty) (fun _ => true) (upd 0 (N.succ (nth 0 blob 0%N) mod 256)%N blob) = DErr InvalidFormat /\
  firstn data_offset blob = header.
Proof. vm_compute. repeat split. eexists. reflexivity. Qed.
