(* C09 - the compiler is total on arbitrary source text: property theorems only. *)
From Coq Require Import List NArith Bool Arith.
From YV Require Import Base.Utf8 Base.Utf8Proofs Gen.AstBuilderArms Compiler.Accounting
  Compiler.AccountingProofs Parser.Machine Parser.MachineProofs.
Import ListNotations.

(* the location reported for a source that is not valid UTF-8 lies inside the rendered (lossy)
   source, on character boundaries -- for every byte string *)
Theorem invalid_utf8_span_ok : forall l e,
  validate l 0 = Some e -> span_ok (lossy l) (error_span e) = true.
Proof. exact Utf8Proofs.invalid_utf8_span_ok. Qed.
Print Assumptions invalid_utf8_span_ok.
Check Utf8Proofs.utf8_examples.

(* c_items: every rule item ends in `rules` or in `ignored_rules`; one that failed adds an error *)
Theorem no_rule_lost : forall oracle items s name,
  In (KRule, name) items -> valid_outcome (oracle name) = true ->
  let s' := c_items oracle items s in
  In name (c_rules s') \/ In name (c_ignored s').
Proof. exact AccountingProofs.no_rule_lost. Qed.
Print Assumptions no_rule_lost.

Theorem failed_rule_reports_error : forall oracle items s name x,
  In (KRule, name) items -> oracle name = OFailed x ->
  c_errs s < c_errs (c_items oracle items s).
Proof. exact AccountingProofs.failed_rule_reports_error. Qed.
Print Assumptions failed_rule_reports_error.

(* the AST builder: every declared rule becomes an AST item or leaves at least one error --
   including the rule that hits MAX_AST_DEPTH (Builder::begin pushes an error there; the
   generated flag maxdepth_pushes_error must be true for this to check).  Before 2a225f1e the
   statement was refuted by the `Err(MaxDepthReached) => {}` arm. *)
Theorem ast_no_rule_lost : forall nodes c,
  In c nodes -> ci_kind c = KRule ->
  (ci_res c = BAbort -> 1 <= ci_errs c) ->
  (ci_res c = BMaxDepth -> maxdepth_pushes_error = true -> 1 <= ci_errs c) ->
  let a := build_ast nodes in
  In (KRule, ci_name c) (a_items a) \/ 1 <= a_errors a.
Proof. exact AccountingProofs.ast_no_rule_lost. Qed.
Print Assumptions ast_no_rule_lost.
Check AccountingProofs.depth_limit_is_reported : maxdepth_pushes_error = true.

(* from the declared rules of the CST to the built rules *)
Theorem source_no_rule_lost : forall oracle nodes s c,
  In c nodes -> ci_kind c = KRule ->
  (ci_res c = BAbort -> 1 <= ci_errs c) ->
  (ci_res c = BMaxDepth -> maxdepth_pushes_error = true -> 1 <= ci_errs c) ->
  valid_outcome (oracle (ci_name c)) = true ->
  let s' := add_source oracle nodes s in
  In (ci_name c) (c_rules s') \/ In (ci_name c) (c_ignored s') \/ c_errs s < c_errs s'.
Proof. exact AccountingProofs.source_no_rule_lost. Qed.
Print Assumptions source_no_rule_lost.

Check AccountingProofs.depth_limit_witness.
Check AccountingProofs.accounting_nonvacuous.

(* parser totality: the interpreter is a structurally recursive function (it always returns),
   and on every grammar/token list/fuel no assert, unwrap or index of the engine fires *)
Theorem parser_total : forall cfg toks src_len nt (g : nt -> prog nt) dispatch stop_ids n f fuel0,
  panic (co (r_final (parse cfg toks src_len nt g dispatch stop_ids n f fuel0))) = false.
Proof.
  intros. exact (proj2 (proj2 (proj2 (MachineProofs.lossless_balanced cfg toks src_len nt g dispatch stop_ids n f fuel0)))).
Qed.
Print Assumptions parser_total.

(* every rule item lands in exactly one of rules / ignored_rules *)
Theorem rule_count_exact : forall oracle items s,
  forallb (fun it => match fst it with KRule => valid_outcome (oracle (snd it)) | _ => true end) items = true ->
  let s' := c_items oracle items s in
  length (c_rules s') + length (c_ignored s') = length (c_rules s) + length (c_ignored s) + count_rules items.
Proof. exact AccountingProofs.rule_count_exact. Qed.
Print Assumptions rule_count_exact.

(* the hypothesis "an aborted rule carries an error" of ast_no_rule_lost: cst2ast.rs aborts without
   an error on record at exactly one site (the kind test of Builder::begin), reachable only if
   the grammar produces a CST shape the builder does not walk; the (grammar, builder) pair is the
   reviewed one (Compiler/CstAgreement.v) *)
From YV Require Import Compiler.CstAgreement.
Theorem one_silent_abort_site : silent_abort_sites = 1.
Proof. exact AccountingProofs.one_silent_abort_site. Qed.
Print Assumptions one_silent_abort_site.
Theorem cst_shape_pinned : cst_shape_digest = pinned_cst_shape.
Proof. exact AccountingProofs.cst_shape_pinned. Qed.
Print Assumptions cst_shape_pinned.
