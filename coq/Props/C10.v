(* C10 - the parser is lossless and structurally sound on any input: property theorems only.
   Each is closed by [exact] of a lemma proved in Parser/MachineProofs.v or
   Parser/PositionProofs.v; the statements are pinned here. *)
From Coq Require Import List NArith Bool Arith.
From YV Require Import Parser.Machine Parser.MachineProofs Parser.MachineExamples
  Parser.Position Parser.PositionProofs Gen.Grammar.
Import ListNotations.

(* For EVERY grammar built from the combinators (g, the top-level dispatch table and stop set
   are arbitrary), every token list, every parser fuel and every recursion bound:
   - the events pass the structural check with an empty stack: the i-th Token event is the
     i-th token (span and a kind that belongs to its token id), every End closes the innermost
     open Begin with the same kind and span;
   - the Token events are exactly the first [cursor] tokens, in order;
   - no assert/unwrap/index of the engine fires. *)
Theorem lossless_balanced : forall cfg toks src_len nt (g : nt -> prog nt) dispatch stop_ids n f fuel0,
  let r := parse cfg toks src_len nt g dispatch stop_ids n f fuel0 in
  chk cfg toks false (r_body r) [] 0 = Some ([], cur (co (r_final r))) /\
  Forall2 (ev_is cfg) (tok_events (r_body r)) (firstn (cur (co (r_final r))) toks) /\
  cur (co (r_final r)) <= length toks /\
  panic (co (r_final r)) = false.
Proof. exact MachineProofs.lossless_balanced. Qed.
Print Assumptions lossless_balanced.

(* unless the parser ran out of fuel, every token is emitted (nothing lost at the end) *)
Theorem parse_complete : forall cfg toks src_len nt (g : nt -> prog nt) dispatch stop_ids n f fuel0,
  let r := parse cfg toks src_len nt g dispatch stop_ids n f fuel0 in
  r_exit r = Finished ->
  cur (co (r_final r)) = length toks /\ Forall2 (ev_is cfg) (tok_events (r_body r)) toks.
Proof. exact MachineProofs.parse_complete. Qed.
Print Assumptions parse_complete.

(* what happens at out-of-fuel: the stream stops, the emitted tokens are a prefix; the rest
   is NOT emitted (MachineExamples.out_of_fuel_example shows cursor < length) *)
Theorem out_of_fuel_truncates : forall cfg toks src_len nt (g : nt -> prog nt) dispatch stop_ids n f fuel0,
  let r := parse cfg toks src_len nt g dispatch stop_ids n f fuel0 in
  r_exit r = FuelExhausted ->
  state (r_final r) = OutOfFuel /\
  Forall2 (ev_is cfg) (tok_events (r_body r)) (firstn (cur (co (r_final r))) toks).
Proof. exact MachineProofs.out_of_fuel_truncates. Qed.
Print Assumptions out_of_fuel_truncates.

(* node spans are the hulls of their tokens -- under the guard that no Begin/End span was
   computed from a last_token_span that truncate() had reset.  Without the guard the statement
   is false for some grammars (below); K checks the guard on every real run. *)
Theorem node_spans_exact : forall cfg toks src_len nt (g : nt -> prog nt) dispatch stop_ids n f fuel0,
  let r := parse cfg toks src_len nt g dispatch stop_ids n f fuel0 in
  hazard (r_final r) = false ->
  chk cfg toks true (r_body r) [] 0 = Some ([], cur (co (r_final r))).
Proof. exact MachineProofs.node_spans_exact. Qed.
Print Assumptions node_spans_exact.

Check MachineExamples.node_spans_exact_all_grammars_refuted :
  r_exit w_run = Finished /\ hazard (r_final w_run) = true /\
  chk w_cfg w_toks false (r_body w_run) [] 0 = Some ([], 2) /\
  chk w_cfg w_toks true (r_body w_run) [] 0 = None /\
  In (EBegin 8 0%N 2%N) (r_body w_run).

(* the real grammar (Gen/Grammar.v, regenerated from parser/src/parser/mod.rs): when the token
   list tiles the source and the run finished without hazard, the whole event stream including
   Begin/End SOURCE_FILE is lossless, nested, and every node span is exact and in bounds *)
Theorem yara_stream_sound : forall toks src_len n f fuel0,
  let r := yara_parse toks src_len n f fuel0 in
  r_exit r = Finished -> tiles src_len 0 toks = true -> hazard (r_final r) = false ->
  chk yara_cfg toks true (full_events yara_cfg src_len r) [] 0 = Some ([], length toks).
Proof.
  intros toks src_len n f fuel0 r Hx Ht Hh.
  exact (MachineProofs.full_stream_sound yara_cfg toks src_len true nonterminal grammar dispatch stop_ids
           n f fuel0 Hx Ht (fun _ => Hh)).
Qed.
Print Assumptions yara_stream_sound.

Check MachineExamples.real_grammar_run.   (* the hypotheses are satisfiable *)

(* positions: a token's own offset / own start position (UTF-8, UTF-16 or UTF-32 columns)
   finds that token, for every token list without empty tokens *)
Theorem token_at_own_offset : forall l i, wf_ptoks l = true -> i < length l ->
  token_at_offset l (offset_at l i) = Some i.
Proof. exact PositionProofs.token_at_own_offset. Qed.
Print Assumptions token_at_own_offset.

Theorem token_at_own_position : forall e l i, wf_ptoks l = true -> i < length l ->
  token_at_position e l (start_pos_at e l i) = Some i.
Proof. exact PositionProofs.token_at_own_position. Qed.
Print Assumptions token_at_own_position.

Check PositionProofs.position_example.

(* top-level progress: a token that starts no top-level item is consumed by the error branch
   of top_level_item, so the rounds of ParserImpl::next cannot loop on it *)
Theorem top_level_progress : forall cfg toks src_len nt (g : nt -> prog nt) dispatch stop_ids f s t,
  nth_error toks (cur (co s)) = Some t ->
  dispatch_of nt dispatch t = None ->
  Machine.is_trivia cfg (t_id t) = false ->
  existsb (N.eqb (t_id t)) stop_ids = false ->
  cur (co s) < cur (co (top_level_item cfg toks src_len nt g dispatch stop_ids f s)).
Proof. exact MachineProofs.top_level_progress. Qed.
Print Assumptions top_level_progress.

(* the parser's fuel (regenerated from ParserImpl::from) is at least the reviewed budget *)
Theorem parser_fuel_budget : (100000000 <=? parser_fuel)%N = true.
Proof. exact MachineExamples.parser_fuel_budget. Qed.
Print Assumptions parser_fuel_budget.

(* ---- the tokenizer wrapper (parser/src/tokenizer/mod.rs) over abstract lexers ---- *)
From YV Require Import Parser.Tokenizer Parser.TokenizerProofs Parser.TokenizerInst Gen.TokenizerGen.

(* Whatever the three lexers answer within their contract (None exactly at the end of the
   input, otherwise a non-empty span inside the remaining input) and however the parser
   interleaves next_token / enter_hex_pattern_mode / enter_hex_jump_mode, the tokens returned by
   the wrapper -- with the restart offsets and pseudo-token spans the current source has
   (Gen/TokenizerGen.v) -- are non-empty, contiguous, ordered, start at 0, stay inside the input
   and end at its length once next_token has reported the end: no byte is lost or duplicated. *)
Theorem tokens_tile_source : forall lex src ops,
  lex_ok lex ->
  let '(ts, st, ended) := run_ops yara_tcfg lex src ops init_tstate false in
  chain 0 ts (tcur st) /\ tcur st <= length src /\ (ended = true -> chain 0 ts (length src)).
Proof. exact TokenizerInst.yara_tokens_tile_source. Qed.
Print Assumptions tokens_tile_source.

(* the code before 03453382 (INVALID_UTF8 = start..start+1) does not tile: bytes e2 80 61 *)
Check TokenizerProofs.tokens_tile_source_old_code_refuted.
Check TokenizerProofs.tokens_tile_source_new_code.
Check TokenizerProofs.w_lex_ok : lex_ok w_lex.
