(* C11 - file-format modules are total, bounded and deterministic on any bytes.
   PARTIAL: what is proved concerns the arithmetic core pe::rva_to_offset
   (Modules/Rva.v, exactly as coded) and the loop / recursion skeletons with
   their caps (Modules/Caps.v, constants and guard shapes regenerated from the
   parsers: Gen/ModCaps.v).  The nom parsers, ASN.1, authenticode, protobuf
   serialisation are not modelled; a theorem here cannot exhibit a stack
   overflow or allocation growth of the real code: those are covered only by
   the supporting tests of harness/src/bin/c11.rs (child processes). *)
From Coq Require Import List NArith ZArith Arith Bool Lia.
From YV Require Import Modules.Rva Modules.RvaProofs Gen.ModCaps Modules.Caps Modules.CapsProofs.
Import ListNotations.

(* no arithmetic step of rva_to_offset under- or overflows, for any section
   table, any rva, any alignments *)
Theorem rva_no_overflow : forall rva ss fa sa,
  is_u32 rva = true -> (0 <= fa)%Z -> Forall (fun s => section_ok s = true) ss ->
  exists r, rva_to_offset rva ss fa sa = Returned r.
Proof. exact RvaProofs.rva_no_overflow. Qed.
Print Assumptions rva_no_overflow.

(* what a returned offset is *)
Theorem rva_result_spec : forall rva ss fa sa off,
  is_u32 rva = true -> (0 <= fa)%Z -> Forall (fun s => section_ok s = true) ss ->
  rva_to_offset rva ss fa sa = Returned (Some off) ->
  (exists x, min_va ss = Some x /\ (rva < x)%Z /\ off = rva) \/
  (exists s, In s ss /\ chosen rva 0 None ss = Some s /\
             (s_va s <= rva)%Z /\ (rva - s_va s < s_raw_size s)%Z /\
             off = Z.min u32_max (aligned_off s fa sa + (rva - s_va s)) /\
             (0 <= aligned_off s fa sa <= s_raw_off s)%Z /\ (s_raw_off s - aligned_off s fa sa < 1024)%Z).
Proof. exact RvaProofs.rva_result_spec. Qed.
Print Assumptions rva_result_spec.

(* iteration counts <= cap, recursion depth <= limit, for the four loop shapes
   the parsers use (counted parse, capped iterator, collect-to-cap, guarded
   recursion) *)
Theorem bounded_steps :
  (forall n cap, (counted n cap <= cap)%N) /\
  (forall A cap (items : list A), length (capped cap items) <= cap) /\
  (forall A cap accept (items acc : list A), length acc < cap -> length (collect cap accept items acc) <= cap) /\
  (forall maxd t d m, d <= maxd -> walk maxd d t = Some m -> m <= maxd).
Proof. exact CapsProofs.bounded_steps. Qed.
Print Assumptions bounded_steps.

(* the PE resource walk (level cut, queue guard and the cap on examined entries
   are generated from the source; no memory of visited directories): the
   number of directory entries examined is at most
   min(E(1 + E + E^2), MAX_PE_RESOURCE_DIR_ENTRIES + 1), hence bounded by a
   CONSTANT that does not depend on the file ("time bounded by a modest
   function of the input size" holds for this walk); the leaves kept are
   additionally capped by MAX_PE_RESOURCES (collect-to-cap, bounded_steps) *)
Theorem rsrc_walk_bounded : forall g E, (forall d, length (g d) <= E) -> forall root,
  (rsrc_entries_examined g root <= N.min (N.of_nat (E * (1 + E + E ^ 2))) (pe_MAX_PE_RESOURCE_DIR_ENTRIES + 1))%N /\
  (rsrc_entries_examined g root <= pe_MAX_PE_RESOURCE_DIR_ENTRIES + 1)%N.
Proof. exact CapsProofs.rsrc_examined_bounded. Qed.
Print Assumptions rsrc_walk_bounded.

(* without the counter: directories dequeued and entries met, quadratic resp.
   cubic in the entries per directory (what the counter cuts short) *)
Theorem rsrc_walk_uncapped_bounded : forall g E, (forall d, length (g d) <= E) -> forall root,
  rsrc_dirs_parsed g root <= 1 + E + E ^ 2 /\
  rsrc_entries_iterated g root <= E * (1 + E + E ^ 2).
Proof. exact CapsProofs.rsrc_walk_bounded. Qed.
Print Assumptions rsrc_walk_uncapped_bounded.

(* no directory is dequeued at a level whose entries are all skipped (repaired
   defect: level-3 directories used to be queued and parsed) *)
Theorem rsrc_no_wasted_level : rsrc_deepest_level <= rsrc_max_level.
Proof. exact CapsProofs.rsrc_no_wasted_level. Qed.
Print Assumptions rsrc_no_wasted_level.

(* the bound is exact for two directories of e entries that point back at the
   second one: the polynomial while it is below the cap, the cap itself (plus
   the entry that trips it) from 102 entries per directory on *)
Theorem rsrc_walk_bound_reached : forall e,
  rsrc_entries_examined (bomb e) 0 = N.min (N.of_nat (e * (1 + e + e ^ 2))) (pe_MAX_PE_RESOURCE_DIR_ENTRIES + 1) /\
  (102 <= e -> rsrc_entries_examined (bomb e) 0 = (pe_MAX_PE_RESOURCE_DIR_ENTRIES + 1)%N).
Proof. exact CapsProofs.rsrc_examined_reached. Qed.
Print Assumptions rsrc_walk_bound_reached.
