(* C11 - file-format modules are total, bounded and deterministic on any bytes.
   PARTIAL: what is proved concerns arithmetic cores over attacker-controlled
   integers, each modelled exactly as coded (pe::rva_to_offset: Modules/Rva.v;
   uleb128 / sleb128: Modules/Leb.v; dotnet var_uint / var_sint: Modules/VarInt.v;
   dotnet coded and table indexes, pe overlay, lnk length_data, elf
   rva_to_offset: Modules/Cores.v) and the loop / recursion skeletons with
   their caps (Modules/Caps.v, constants and guard shapes regenerated from the
   parsers: Gen/ModCaps.v).  The nom parsers, ASN.1, authenticode, protobuf
   serialisation are not modelled; a theorem here cannot exhibit a stack
   overflow or allocation growth of the real code: those are covered only by
   the supporting tests of harness/src/bin/c11.rs (child processes). *)
From Coq Require Import List NArith ZArith Arith Bool Lia.
From YV Require Import Modules.Rva Modules.RvaProofs Gen.ModCaps Modules.Caps Modules.CapsProofs
  Modules.Leb Modules.LebProofs Modules.VarInt Modules.VarIntProofs Modules.Cores Modules.CoresProofs.
Import ListNotations.

(* no arithmetic step of rva_to_offset under- or overflows, for any section
   table, any rva, any alignments *)
Theorem rva_no_overflow : forall rva ss fa sa,
  is_u32 rva = true -> (0 <= fa)%Z -> Forall (fun s => section_ok s = true) ss ->
  exists r, rva_to_offset rva ss fa sa = Returned r.
Proof. exact RvaProofs.rva_no_overflow. Qed.
Print Assumptions rva_no_overflow.

(* what a returned offset is *)
Theorem rva_result_spec : forall rva ss fa sa off,
  is_u32 rva = true -> (0 <= fa)%Z -> Forall (fun s => section_ok s = true) ss ->
  rva_to_offset rva ss fa sa = Returned (Some off) ->
  (exists x, min_va ss = Some x /\ (rva < x)%Z /\ off = rva) \/
  (exists s, In s ss /\ chosen rva 0 None ss = Some s /\
             (s_va s <= rva)%Z /\ (rva - s_va s < s_raw_size s)%Z /\
             off = Z.min u32_max (aligned_off s fa sa + (rva - s_va s)) /\
             (0 <= aligned_off s fa sa <= s_raw_off s)%Z /\ (s_raw_off s - aligned_off s fa sa < 1024)%Z).
Proof. exact RvaProofs.rva_result_spec. Qed.
Print Assumptions rva_result_spec.

(* iteration counts <= cap, recursion depth <= limit, for the four loop shapes
   the parsers use (counted parse, capped iterator, collect-to-cap, guarded
   recursion) *)
Theorem bounded_steps :
  (forall n cap, (counted n cap <= cap)%N) /\
  (forall A cap (items : list A), length (capped cap items) <= cap) /\
  (forall A cap accept (items acc : list A), length acc < cap -> length (collect cap accept items acc) <= cap) /\
  (forall maxd t d m, d <= maxd -> walk maxd d t = Some m -> m <= maxd).
Proof. exact CapsProofs.bounded_steps. Qed.
Print Assumptions bounded_steps.

(* the PE resource walk (level cut, queue guard and the cap on examined entries
   are generated from the source; no memory of visited directories): the
   number of directory entries examined is at most
   min(E(1 + E + E^2), MAX_PE_RESOURCE_DIR_ENTRIES + 1), hence bounded by a
   CONSTANT that does not depend on the file ("time bounded by a modest
   function of the input size" holds for this walk); the leaves kept are
   additionally capped by MAX_PE_RESOURCES (collect-to-cap, bounded_steps) *)
Theorem rsrc_walk_bounded : forall g E, (forall d, length (g d) <= E) -> forall root,
  (rsrc_entries_examined g root <= N.min (N.of_nat (E * (1 + E + E ^ 2))) (pe_MAX_PE_RESOURCE_DIR_ENTRIES + 1))%N /\
  (rsrc_entries_examined g root <= pe_MAX_PE_RESOURCE_DIR_ENTRIES + 1)%N.
Proof. exact CapsProofs.rsrc_examined_bounded. Qed.
Print Assumptions rsrc_walk_bounded.

(* without the counter: directories dequeued and entries met, quadratic resp.
   cubic in the entries per directory (what the counter cuts short) *)
Theorem rsrc_walk_uncapped_bounded : forall g E, (forall d, length (g d) <= E) -> forall root,
  rsrc_dirs_parsed g root <= 1 + E + E ^ 2 /\
  rsrc_entries_iterated g root <= E * (1 + E + E ^ 2).
Proof. exact CapsProofs.rsrc_walk_bounded. Qed.
Print Assumptions rsrc_walk_uncapped_bounded.

(* no directory is dequeued at a level whose entries are all skipped (repaired
   defect: level-3 directories used to be queued and parsed) *)
Theorem rsrc_no_wasted_level : rsrc_deepest_level <= rsrc_max_level.
Proof. exact CapsProofs.rsrc_no_wasted_level. Qed.
Print Assumptions rsrc_no_wasted_level.

(* the bound is exact for two directories of e entries that point back at the
   second one: the polynomial while it is below the cap, the cap itself (plus
   the entry that trips it) from 102 entries per directory on *)
Theorem rsrc_walk_bound_reached : forall e,
  rsrc_entries_examined (bomb e) 0 = N.min (N.of_nat (e * (1 + e + e ^ 2))) (pe_MAX_PE_RESOURCE_DIR_ENTRIES + 1) /\
  (102 <= e -> rsrc_entries_examined (bomb e) 0 = (pe_MAX_PE_RESOURCE_DIR_ENTRIES + 1)%N).
Proof. exact CapsProofs.rsrc_examined_reached. Qed.
Print Assumptions rsrc_walk_bound_reached.

(* ---------------------------------------------------------------- determinism, structural part *)
(* no module source iterates over a hash container (the containers found are
   listed in Gen/ModCaps.v: they are only inserted into, looked up and tested
   for membership), so no output list can inherit an unspecified iteration
   order; protobuf map fields (pe.version_info) are compared as maps.  This is a
   source scan, not a proof about the parsers; equality of repeated
   invocations is tested by K. *)
Theorem no_hash_order_in_module_outputs : module_hash_iteration_sites = [].
Proof. reflexivity. Qed.
Print Assumptions no_hash_order_in_module_outputs.

(* ---------------------------------------------------------------- macho export trie *)
(* visited nodes are keyed by their offset (generated fact): the number of
   nodes expanded, hence of exports, is at most the number of distinct offsets
   inside the trie data, for DAGs, cycles and self references alike; if the key
   becomes finer than the offset the statement selected is the explosion *)
Theorem trie_walk_bounded : trie_statement trie_visited_key_is_offset.
Proof. exact (CapsProofs.trie_statement_holds trie_visited_key_is_offset). Qed.
Print Assumptions trie_walk_bounded.

(* ---------------------------------------------------------------- LEB128 (utils/leb128.rs) *)
(* the u32 shift counter cannot overflow, at most 10 bytes are consumed, the
   result is a u64 *)
Theorem uleb_no_overflow : forall bytes,
  match uleb128 bytes with
  | LOk v n => (0 <= v < 2 ^ 64)%Z /\ (n <= 10)%nat
  | LShiftOverflow => False
  | _ => True
  end.
Proof. exact LebProofs.uleb_no_overflow. Qed.
Print Assumptions uleb_no_overflow.

Theorem uleb_roundtrip : forall n rest, (0 <= n < 2 ^ 64)%Z ->
  uleb128 (uleb_encode n ++ rest) = LOk n (length (uleb_encode n)).
Proof. exact LebProofs.uleb_roundtrip. Qed.
Print Assumptions uleb_roundtrip.

Theorem sleb_no_overflow : forall bytes,
  match sleb128 bytes with
  | LOk v n => (- 2 ^ 63 <= v < 2 ^ 63)%Z /\ (n <= 10)%nat
  | LShiftOverflow => False
  | _ => True
  end.
Proof. exact LebProofs.sleb_no_overflow. Qed.
Print Assumptions sleb_no_overflow.

(* ---------------------------------------------------------------- dotnet var_uint / var_sint *)
Theorem var_int_ranges : forall bytes, VarIntProofs.bytes_ok bytes ->
  (forall v n, var_uint bytes = Some (v, n) -> (0 <= v < 2 ^ 29)%Z /\ (n <= length bytes)%nat) /\
  (forall v n, var_sint bytes = Some (v, n) -> (- 2 ^ 28 <= v < 2 ^ 28)%Z /\ (n <= length bytes)%nat).
Proof. exact VarIntProofs.var_int_ranges. Qed.
Print Assumptions var_int_ranges.

Theorem var_uint_roundtrip : forall x rest, (0 <= x < 2 ^ 29)%Z ->
  exists n, var_uint (enc_uint x ++ rest) = Some (x, n) /\ n = length (enc_uint x).
Proof. exact VarIntProofs.var_uint_roundtrip. Qed.
Print Assumptions var_uint_roundtrip.

Theorem var_sint_roundtrip : forall w n rest, (w = 7 \/ w = 14 \/ w = 29)%Z -> (- 2 ^ (w - 1) <= n < 2 ^ (w - 1))%Z ->
  exists k, var_sint (enc_sint w n ++ rest) = Some (n, k) /\ k = length (enc_sint w n).
Proof. exact VarIntProofs.var_sint_roundtrip. Qed.
Print Assumptions var_sint_roundtrip.

(* ---------------------------------------------------------------- dotnet indexes *)
(* `16 - tag_size` (u32) and `1u64.checked_shl(..).unwrap()` are safe for the
   1..22 tables the parser asserts *)
Theorem coded_index_width_total : forall n rows, (1 <= n <= 22)%Z ->
  coded_index_width n rows = WBytes 2 \/ coded_index_width n rows = WBytes 4.
Proof. exact CoresProofs.coded_index_width_total. Qed.
Print Assumptions coded_index_width_total.

Theorem coded_from_u32_roundtrip : forall n t r, (1 <= n <= 22)%Z -> (0 <= t < n)%Z -> (0 <= r)%Z ->
  coded_from_u32 n ((r + 1) * 2 ^ tag_size n + t) = Some (t, r).
Proof. exact CoresProofs.coded_from_u32_roundtrip. Qed.
Print Assumptions coded_from_u32_roundtrip.

Theorem coded_from_u32_in_range : forall n u t r, (1 <= n <= 22)%Z -> (0 <= u < 2 ^ 32)%Z ->
  coded_from_u32 n u = Some (t, r) -> (0 <= t < n)%Z /\ (0 <= r < 2 ^ 32)%Z.
Proof. exact CoresProofs.coded_from_u32_in_range. Qed.
Print Assumptions coded_from_u32_in_range.

(* ---------------------------------------------------------------- pe overlay, lnk blocks, elf entry point *)
Theorem pe_overlay_spec : forall secs len off size, u32_pairs secs -> (0 <= len)%Z ->
  pe_overlay secs len = (off, size) ->
  (off = 0 /\ size = 0)%Z \/
  ((0 < size)%Z /\ (off + size = len)%Z /\ (0 <= off < 2 ^ 33)%Z /\ forall s, In s secs -> (fst s + snd s <= off)%Z).
Proof. exact CoresProofs.pe_overlay_spec. Qed.
Print Assumptions pe_overlay_spec.

Theorem lnk_length_data_in_bounds : forall input_len size_len size,
  (0 <= size_len <= input_len)%Z -> (0 <= size)%Z ->
  lnk_length_data input_len size_len size <> LUnderflow /\
  forall n, lnk_length_data input_len size_len size = LTake n -> (0 <= n <= input_len - size_len)%Z.
Proof. exact CoresProofs.lnk_length_data_in_bounds. Qed.
Print Assumptions lnk_length_data_in_bounds.

Theorem elf_rva_no_underflow : forall exe segs secs rva,
  Forall phdr_ok segs -> Forall shdr_ok secs -> (0 <= rva <= Cores.u64_max)%Z ->
  elf_rva_to_offset exe segs secs rva <> EUnderflow /\
  forall o, elf_rva_to_offset exe segs secs rva = EFound (Some o) -> (0 <= o <= Cores.u64_max)%Z.
Proof. exact CoresProofs.elf_rva_no_underflow. Qed.
Print Assumptions elf_rva_no_underflow.
