(* C12 - module data seen by rule conditions equals the module's output:
   property theorems only (model: Types/StructModel.v; tie to the code: verdict
   comparison on generated conditions, Types/StructCheck.v + harness c12). *)
From Coq Require Import List NArith ZArith Bool.
From Coq Require Import String.
From YV Require Import Types.StructModel Types.StructModelProofs Gen.ProtoSchema Types.StructCheck Types.ProtoSchemaProofs.
Import ListNotations.
Local Open Scope Z_scope.

(* For every descriptor, every output message (or none), every field path that
   the compiler accepts, with or without the fields generated for enums:
   walking the index lists computed on the compile-time structure through the
   structure built from the message yields the value stored in the message
   under those field NAMES; what is not in the message is undefined, an array
   that is not in the message is empty. *)
Theorem lookup_correct : forall (root : ty) (msg : option value) (enums : bool) (p : list step),
  compile_path root p [] <> None ->
  lookup root msg enums p = get_root root msg p.
Proof. exact lookup_correct_lemma. Qed.
Print Assumptions lookup_correct.

(* the shape of the repaired defect: a repeated message field of an absent
   message is empty at scan time although the compile-time structure holds a
   template item *)
Theorem absent_message_array_empty :
  let root := TMsg Proto2 [FD 1 1 false (TMsg Proto2 [FD 2 1 false (TArr (TMsg Proto2 [FD 3 1 false (TInt I64)] []))] [])] [] in
  lookup root (Some (VMsg [])) false [SField 1%N; SField 2%N] = RObjArr 0 /\
  lookup root (Some (VMsg [])) false [SField 1%N; SField 2%N; SIndex 0; SField 3%N] = Undef /\
  run [OLookup [0%nat; 0%nat]] (compile_struct root) = RObjArr 1.
Proof. exact absent_message_array_is_empty. Qed.
Print Assumptions absent_message_array_empty.

(* field indexes computed from the descriptor (with whatever generated enum /
   function / method fields) select the same protobuf field in the structure
   built from a message, with and without generated fields *)
Theorem index_stable_under_enum_fields : forall fs n f extra1 extra2,
  find_field n fs = Some f ->
  exists i, index_of n (ct_names fs extra1) = Some i /\ index_of n (ct_names fs extra2) = Some i /\
            nth_error (visible fs) i = Some f /\ (i < List.length (visible fs))%nat.
Proof. exact index_stable_lemma. Qed.
Print Assumptions index_stable_under_enum_fields.

Theorem index_selects_field : forall syn syn' fs extra present v n f,
  find_field n fs = Some f ->
  exists i, index_of n (ct_names fs extra) = Some i /\
    forall ct enums,
      nth_error (fields_of_tv (new_value ct enums syn (TMsg syn' fs extra) present v)) i =
      Some (n, new_value ct enums syn' (fd_ty f) (is_some (body_of v)) (fieldval (body_of v) f)).
Proof. exact index_stable_struct. Qed.
Print Assumptions index_selects_field.

(* proto2: scalar fields that the output does not set are undefined, also
   inside a nested message that is absent *)
Theorem absent_is_undefined : forall fs extra m enums n f,
  find_field n fs = Some f -> scalar_ty (fd_ty f) = true -> assoc_n (fd_number f) m = None ->
  lookup (TMsg Proto2 fs extra) (Some (VMsg m)) enums [SField n] = Undef.
Proof. exact absent_is_undefined_lemma. Qed.
Print Assumptions absent_is_undefined.

Theorem absent_message_is_undefined : forall fs extra m enums n f fs' extra' n' f',
  find_field n fs = Some f -> fd_ty f = TMsg Proto2 fs' extra' -> assoc_n (fd_number f) m = None ->
  find_field n' fs' = Some f' -> scalar_ty (fd_ty f') = true ->
  lookup (TMsg Proto2 fs extra) (Some (VMsg m)) enums [SField n; SField n'] = Undef.
Proof. exact absent_message_fields_undefined. Qed.
Print Assumptions absent_message_is_undefined.

(* arrays: length = number of repeated values, element i = i-th value;
   maps: with distinct keys, the entries in reflection (insertion) order *)
Theorem len_and_iteration_order :
  (forall ct enums syn e present l,
     res_of (new_value ct enums syn (TArr e) present (Some (VArr l))) = RObjArr (List.length l) /\
     forall i x, nth_error l i = Some x ->
       run [OIndex (Z.of_nat i)] (new_value ct enums syn (TArr e) present (Some (VArr l))) =
       res_of (new_value ct enums syn e true (Some x))) /\
  (forall ct enums syn k vt present l,
     keys_distinct (map (fun kv => conv_key k (fst kv)) l) = true ->
     new_value ct enums syn (TMap k vt) present (Some (VMap l)) =
     RMap false (map (fun kv => (conv_key k (fst kv), new_value ct enums syn vt true (Some (snd kv)))) l) /\
     res_of (new_value ct enums syn (TMap k vt) present (Some (VMap l))) = RObjMap (List.length l)).
Proof.
  split.
  - intros. destruct (array_len_and_order ct enums syn e present l) as [_ [H1 H2]]. split; assumption.
  - intros. now apply map_len_and_order.
Qed.
Print Assumptions len_and_iteration_order.

(* ---- at the schemas generated from lib/src/modules/protos/*.proto ---- *)
(* every generated module schema is well-formed: visible field names distinct
   from each other and from the generated enum fields, field numbers distinct,
   every visible field of every (nested) message at its field-number position
   in the compile-time structure; name tables without duplicates *)
Theorem generated_schemas_well_formed : forall m names g,
  In (m, (names, g)) proto_schemas ->
  wf_ty g = true /\ nums_distinct g = true /\ positions_ok g = true /\ nodup_s names = true.
Proof. exact generated_schema_wf. Qed.
Print Assumptions generated_schemas_well_formed.

Theorem lookup_correct_at_generated_schemas : forall m names g,
  In (m, (names, g)) proto_schemas ->
  forall msg enums p, compile_path g p [] <> None -> lookup g msg enums p = get_root g msg p.
Proof. exact lookup_correct_generated. Qed.
Print Assumptions lookup_correct_at_generated_schemas.

Theorem index_stable_at_generated_schemas : forall m names syn fs extra,
  In (m, (names, TMsg syn fs extra)) proto_schemas ->
  forall i f, nth_error (visible fs) i = Some f ->
    index_of (fd_name f) (ct_names fs extra) = Some i /\ index_of (fd_name f) (ct_names fs []) = Some i.
Proof. exact root_field_index_generated. Qed.
Print Assumptions index_stable_at_generated_schemas.

(* yara field options other than `name` / `ignore` (lowercase, fmt, acl,
   deprecation_notice) do not enter the structure: every field carrying one is
   an ordinary visible scalar field of the generated schema (a string for
   `lowercase`), so the value a condition reads is the value in the message *)
Theorem field_options_do_not_affect_values :
  forallb annotated_ok proto_annotated = true /\
  forall m names syn fs extra n f msgbody x enums,
    In (m, (names, TMsg syn fs extra)) proto_schemas ->
    find_field n fs = Some f -> fd_ty f = TStr -> assoc_n (fd_number f) msgbody = Some (VStr x) ->
    lookup (TMsg syn fs extra) (Some (VMsg msgbody)) enums [SField n] = RS x.
Proof. split; [exact annotated_fields_ordinary|exact annotated_root_field_value]. Qed.
Print Assumptions field_options_do_not_affect_values.

(* zero iterations: a loop (any quantifier) over an array or map without items is
   defined and false, so `not (for ..)` and `defined (for ..)` hold; an array
   field that the output leaves out or sets to no items is such a collection *)
Theorem loop_over_empty_collection : forall tbl F qt p sub l,
  (F p = RObjArr 0 -> eval3 tbl F (QFor qt p sub l) = Some false /\
                      eval tbl F (QNot (QFor qt p sub l)) = true /\
                      eval tbl F (QIsDefined (QFor qt p sub l)) = true) /\
  (F p = RObjMap 0 -> eval3 tbl F (QMapFor qt p [] sub l) = Some false /\
                      eval tbl F (QNot (QMapFor qt p [] sub l)) = true /\
                      eval tbl F (QIsDefined (QMapFor qt p [] sub l)) = true).
Proof. exact loop_over_empty_lemma. Qed.
Print Assumptions loop_over_empty_collection.

Theorem loop_over_unset_array_field : forall fs extra m enums n f e tbl qt sub l,
  find_field n fs = Some f -> fd_ty f = TArr e ->
  match assoc_n (fd_number f) m with Some (VArr (_ :: _)) => False | _ => True end ->
  eval3 tbl (lookup (TMsg Proto2 fs extra) (Some (VMsg m)) enums) (QFor qt [SField n] sub l) = Some false.
Proof. exact empty_array_loop_generated. Qed.
Print Assumptions loop_over_unset_array_field.

(* the real thing is not vacuous: test_proto2 and pe are among the schemas *)
Example generated_schemas_present :
  generated_schema "test_proto2" <> None /\ generated_schema "pe" <> None /\
  List.length proto_schemas = 20%nat /\
  lookup schema_test_proto2 (Some (VMsg [(22%N, VInt 7)])) false [SField (nm "test_proto2" "int64_one")] = RI 7 /\
  compile_path schema_test_proto2 [SField (nm "test_proto2" "nested"); SField (nm "test_proto2" "nested_int64_one")] []
    = Some [OLookup [44%nat; 3%nat]].
Proof. vm_compute. repeat split; discriminate. Qed.

Example c12_nonvacuous :
  let root := TMsg Proto2 [FD 1 7 false (TArr (TMsg Proto2 [FD 3 1 false (TInt U64)] []));
                           FD 2 3 false (TMap KStr TStr)] [9%N] in
  let msg := VMsg [(7%N, VArr [VMsg [(1%N, VInt (2 ^ 64 - 1))]]); (3%N, VMap [(VStr 5, VStr 6)])] in
  lookup root (Some msg) true [SField 1%N; SIndex 0; SField 3%N] = RI (-1) /\
  lookup root (Some msg) false [SField 2%N; SKey (VStr 5)] = RS 6%N /\
  compile_path root [SField 1%N; SIndex 0; SField 3%N] [] = Some [OLookup [1%nat]; OIndex 0; OLookup [0%nat]].
Proof. exact lookup_example. Qed.
