(* C13 - concurrent scanners sharing rules behave as if each ran alone:
   property theorems only, closed by [exact] of lemmas of
   Conc/InterleaveProofs.v.  The model (Conc/Interleave.v) uses the timeout
   formula, DEFAULT_SCAN_TIMEOUT and the poll comparisons regenerated from
   lib/src/scanner/context.rs (Gen/ConcGen.v).

   Scope: the model's steps are atomic accesses to the shared state; data
   races on `static mut ENGINE`, the lifetime transmutes around the store and
   wasmtime's internals are run-time behaviour a model cannot exhibit (the
   harness samples real schedules for those). *)
From Coq Require Import List NArith Bool Arith Lia.
From YV Require Import Gen.ConcGen Conc.Interleave Conc.InterleaveProofs Conc.InterleaveCheck.
Import ListNotations.
Local Open Scope N_scope.

(* The generated table of EVERY write to the engine epoch, HEARTBEAT_COUNTER
   and a store's epoch deadline in lib/src: engine-wide writes occur only in
   the heartbeat thread's loop, scanner-side code writes only its own store. *)
Theorem clock_single_writer_ok : clock_single_writer = true.
Proof. vm_compute. reflexivity. Qed.
Print Assumptions clock_single_writer_ok.

Section C13.
  Variable mix : N -> N -> N.      (* the private computation of a scan: any function *)

  (* the model's "scanner-side code writes the engine-wide clock" switch, as the source says *)
  Notation bump := (negb clock_single_writer).
  Lemma bump_off : bump = false.
  Proof. rewrite clock_single_writer_ok. reflexivity. Qed.

  (* NONINTERFERENCE: any number of threads, any programs (scans with or
     without timeouts, engine uses), any interleaving [tr] with the heartbeat:
     the results of thread i are, scan by scan in program order, the result
     the scan has when it is the only activity in the process, or a timeout,
     and a timeout only if that scan's own timeout (seconds) is at most the
     number of heartbeat transitions in the run. *)
  Theorem noninterference : forall progs tr s i p t,
    exec mix bump tr (init progs) = Some s -> nth_error progs i = Some p -> nth_error (thrs s) i = Some t ->
    exists done rest,
      scans_of p = done ++ rest /\
      Forall2 (ok_result mix (hearts tr)) (rev (results t)) done /\
      (todo t = [] -> running t = None -> rest = []).
  Proof. exact (InterleaveProofs.noninterference mix bump bump_off). Qed.

  (* the projection behind it: thread i's state after an interleaved run is
     its state after running alone under a clock that ticks where the
     heartbeat ticked between its own steps *)
  Theorem projection_on_one_scanner : forall tr s s' i t,
    exec mix bump tr s = Some s' -> nth_error (thrs s) i = Some t ->
    exists t', nth_error (thrs s') i = Some t' /\
               solo_run mix bump (erase i tr) (counter (sh s)) (epoch (sh s)) t = Some (counter (sh s'), epoch (sh s'), t').
  Proof. exact (InterleaveProofs.projection mix bump bump_off). Qed.

  (* A scanner without user timeout never times out in fewer than
     DEFAULT_SCAN_TIMEOUT (generated: one year of seconds) heartbeat
     transitions, whatever timeouts the other scanners have. *)
  Theorem no_timeout_without_deadline : forall progs tr s i p t,
    exec mix bump tr (init progs) = Some s -> nth_error progs i = Some p -> nth_error (thrs s) i = Some t ->
    hearts tr < default_scan_timeout ->
    exists done rest,
      scans_of p = done ++ rest /\
      Forall2 (fun r sc => s_timeout sc = None -> r = RDone (pure_acc mix sc)) (rev (results t)) done.
  Proof. exact (InterleaveProofs.no_timeout_without_deadline mix bump bump_off). Qed.

  (* A scan returns its solo result as long as fewer heartbeats than ITS OWN
     timeout have elapsed: no other scanner's deadline matters. *)
  Theorem own_deadline_only : forall progs tr s i p t,
    exec mix bump tr (init progs) = Some s -> nth_error progs i = Some p -> nth_error (thrs s) i = Some t ->
    exists done rest,
      scans_of p = done ++ rest /\
      Forall2 (fun r sc => hearts tr < timeout_secs (s_timeout sc) -> r = RDone (pure_acc mix sc)) (rev (results t)) done.
  Proof. exact (InterleaveProofs.own_deadline_only mix bump bump_off). Qed.

  (* Setting or expiring scanner j's deadline never changes scanner i: two runs
     with arbitrary other programs in which thread i has the same program and
     the heartbeat ticks at the same places relative to i's own steps leave
     thread i in the same state. *)
  Theorem deadline_is_private : forall progs1 progs2 tr1 tr2 s1 s2 i p t1 t2,
    exec mix bump tr1 (init progs1) = Some s1 -> exec mix bump tr2 (init progs2) = Some s2 ->
    nth_error progs1 i = Some p -> nth_error progs2 i = Some p ->
    erase i tr1 = erase i tr2 ->
    nth_error (thrs s1) i = Some t1 -> nth_error (thrs s2) i = Some t2 ->
    t1 = t2.
  Proof. exact (InterleaveProofs.deadline_is_private mix bump bump_off). Qed.

  (* First use: however many threads race, the engine is created at most once,
     at most one heartbeat thread is spawned, and the clock stands still until
     it is. *)
  Theorem init_idempotent : forall progs tr s, exec mix bump tr (init progs) = Some s -> init_ok (sh s).
  Proof. exact (InterleaveProofs.init_idempotent mix bump bump_off). Qed.

  Theorem init_effect_idempotent : forall f s, f <> EBumpEpoch -> apply_effect f (apply_effect f s) = apply_effect f s.
  Proof. exact InterleaveProofs.apply_effect_idempotent. Qed.

  (* the refutation in the conditional form that stays true: IF scanner-side
     code wrote the engine-wide epoch (the switch the table above excludes),
     a scanner timing out in its pattern search would make another scanner
     time out although not a single heartbeat has elapsed *)
  Theorem own_deadline_refuted_if_scanner_writes_epoch : forall b : bool,
    b = true ->
    exists progs tr s t sc,
      exec mix b tr (init progs) = Some s /\ hearts tr = 0 /\
      nth_error progs 1 = Some [IScan sc] /\ timeout_secs (s_timeout sc) = 1 /\
      nth_error (thrs s) 1 = Some t /\ results t = [RTimeout].
  Proof. exact (InterleaveProofs.own_deadline_refuted_if_scanner_writes_epoch mix). Qed.

  (* the scheduler used by the correspondence check only produces runs of the transition system *)
  Theorem scheduler_sound : forall picks m s, exists tr, exec mix bump tr s = Some (run_schedule mix bump picks m s).
  Proof. exact (InterleaveProofs.run_schedule_sound mix bump). Qed.
End C13.

Print Assumptions noninterference.
Print Assumptions projection_on_one_scanner.
Print Assumptions no_timeout_without_deadline.
Print Assumptions own_deadline_only.
Print Assumptions deadline_is_private.
Print Assumptions init_idempotent.
Print Assumptions init_effect_idempotent.
Print Assumptions own_deadline_refuted_if_scanner_writes_epoch.
Print Assumptions scheduler_sound.

(* non-vacuity: three threads; thread 1 has a 1 s timeout on a scan with poll
   points, thread 0 scans without timeout, thread 2 only uses the engine.
   Under one schedule the heartbeat expires thread 1's deadline; thread 0,
   interleaved with it, still returns its solo result; the engine was created
   once and one heartbeat thread was spawned. *)
Definition ex_progs : list (list item) :=
  [ [IUseEngine; IScan (mkScan None [BPollE; BWork 7; BPollC; BWork 9])];
    [IUseEngine; IScan (mkScan (Some 1) [BWork 1; BPollC; BWork 2; BPollE])];
    [IUseEngine] ].
Definition ex_trace : list label :=
  [LThread 2; LThread 0; LThread 1; LThread 1; LThread 0; LThread 1; LHeartE; LThread 0; LHeartC; LThread 0; LThread 1;
   LThread 0; LThread 0; LThread 0].
Example c13_nonvacuous :
  match exec mixf false ex_trace (init ex_progs) with
  | Some s =>
      map (fun t => rev (results t)) (thrs s) = [[RDone (pure_acc mixf (mkScan None [BPollE; BWork 7; BPollC; BWork 9]))]; [RTimeout]; []]
      /\ hb_spawns (sh s) = 1%nat /\ engine_creations (sh s) = 1%nat /\ counter (sh s) = 1
  | None => False
  end.
Proof. vm_compute. repeat split. Qed.
