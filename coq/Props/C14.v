(* C14 - block scanning equals scanning each block on its own: property
   theorems only.  Models: Pat/Blocks.v (rebase + MatchList::add over an
   abstract per-block search) and Scanner/State.v (what block mode inherits
   from the scanner's and the thread's past; generated from the source). *)
From Coq Require Import List String NArith ZArith Bool.
From YV Require Import Gen.ScanState Pat.Syntax Pat.MatchList Pat.Atoms Pat.Pipeline Pat.Blocks Pat.BlocksProofs
  Pat.BlocksPipeline Pat.BlocksPipelineProofs Scanner.State Scanner.StateProofs.
Import ListNotations.
Local Open Scope N_scope.

(* For every per-block search function, every same-start policy of
   MatchList::add and every list of (base, block) pairs - any order, gaps,
   overlaps, empty and repeated blocks -: each match the block scanner reports
   is a match of one block scanned on its own, shifted by that block's base;
   and the start offsets reported are exactly the shifted per-block starts
   (none lost). *)
Theorem blocks_union : forall keep scan_one blocks, selects keep ->
  (forall x, In x (scan_blocks keep scan_one blocks) -> In x (shifted scan_one blocks)) /\
  (forall s, In s (starts (scan_blocks keep scan_one blocks)) <-> In s (starts (shifted scan_one blocks))).
Proof. exact BlocksProofs.blocks_union. Qed.
Print Assumptions blocks_union.

(* exactly the union when no two blocks report different matches at the same
   absolute offset (always so without overlapping blocks) *)
Theorem blocks_union_exact : forall keep scan_one blocks, selects keep ->
  (forall a b, In a (shifted scan_one blocks) -> In b (shifted scan_one blocks) -> m_start a = m_start b -> a = b) ->
  forall x, In x (shifted scan_one blocks) -> In x (scan_blocks keep scan_one blocks).
Proof. exact BlocksProofs.blocks_union_exact. Qed.
Print Assumptions blocks_union_exact.

(* no match spans two blocks *)
Theorem no_cross_block_match : forall keep scan_one blocks, selects keep -> within scan_one ->
  forall x, In x (scan_blocks keep scan_one blocks) ->
    exists b, In b blocks /\ fst b <= m_start x /\ m_start x + m_len x <= fst b + N.of_nat (List.length (snd b)).
Proof. exact BlocksProofs.no_cross_block_match. Qed.
Print Assumptions no_cross_block_match.

(* the per-block search made concrete for the literal family (text, nocase,
   wide, fullword, masked hex, xor, base64: the pipeline model of C01): run on
   a block delivered at base b, the pipeline yields exactly the matches of the
   pipeline run on the block alone, shifted by b ... *)
Theorem pipeline_offset_translation : exists rf, forall base sps atoms hits d,
  forallb unanchored sps = true ->
  scan_pipeline_at rf base sps atoms hits d = map (shift_m base) (scan_pipeline sps atoms hits d).
Proof. exact BlocksPipelineProofs.pipeline_offset_translation. Qed.
Print Assumptions pipeline_offset_translation.

(* ... so that blocks_union holds with that concrete search in the place of the abstract one *)
Theorem blocks_union_literal_family : forall keep sps atoms blocks, selects keep ->
  (forall x, In x (scan_blocks keep (scan_one_literal sps atoms) blocks) -> In x (shifted (scan_one_literal sps atoms) blocks)) /\
  (forall s, In s (starts (scan_blocks keep (scan_one_literal sps atoms) blocks)) <->
             In s (starts (shifted (scan_one_literal sps atoms) blocks))).
Proof. exact BlocksPipelineProofs.blocks_union_literal_family. Qed.
Print Assumptions blocks_union_literal_family.

(* MatchList::add with the base of the block (GENERATED: both same-start arms
   move the base together with the end) and the snippet collection of
   blocks::Scanner::scan: after any sequence of blocks - any order, overlaps,
   the same start found again shorter or longer - every listed match is, as a
   whole, a match found in one delivered block (its recorded base is the base
   of a block that contains the whole range: no match spans two blocks), and
   a stored snippet covers it (Match::data / data_with_context find the bytes) *)
Theorem listed_matches_have_block_and_data : forall ctx bs,
  (forall b, In b bs -> found_in_block b) ->
  forall m, In m (fst (scan_blocks_b ctx bs)) ->
    (exists b, In b bs /\ in_block (fst b) m) /\
    (exists s, In s (snd (scan_blocks_b ctx bs)) /\ covers s m = true).
Proof. exact BlocksProofs.listed_matches_have_block_and_data. Qed.
Print Assumptions listed_matches_have_block_and_data.

(* patterns anchored at a fixed offset (`$a at N` as the only use): in every
   block, a match is recorded only at absolute offset N, inside a block that
   contains [N, N + len).  Uses the GENERATED fact that
   verify_anchored_patterns skips a block whose base is past the anchor. *)
Theorem anchored_only_at_offset : forall keep file n lit blocks m, selects keep ->
  In m (anchored_scan keep file n lit blocks) ->
  m_start m = n /\ exists b, In b blocks /\ fst b <= n /\ n + N.of_nat (List.length lit) <= fst b + snd b.
Proof. exact BlocksProofs.anchored_scan_only_at_offset. Qed.
Print Assumptions anchored_only_at_offset.

(* pruning in block mode (GENERATED from search_for_patterns: filesize bounds are
   never applied, header constraints only to a block whose base is 0): a rule's
   patterns are disabled by header constraints only on the evidence of a
   delivered block with base 0 that does not start with the header *)
Theorem header_disabled_needs_base0_block : forall file hdr bs,
  existsb (hdr_evidence file hdr) bs = true ->
  exists b, In b bs /\ fst b = 0 /\ hdr_unsatisfied file hdr b = true.
Proof. exact BlocksProofs.header_disabled_needs_base0_block. Qed.
Print Assumptions header_disabled_needs_base0_block.

(* that evidence is sound (the data does not start with the header, `$a at 0`
   cannot hold) when only blocks that contain the whole header are consulted,
   and it is not when shorter blocks are consulted too (recorded finding;
   which of the two applies is read from the source) *)
Theorem header_pruning_sound : header_pruning_requires_covering_block = true ->
  forall file hdr b, header_pruning_only_at_base_zero = true -> hdr_evidence file hdr b = true ->
    bytes_eqb (slice file 0 (N.of_nat (List.length hdr))) hdr = false.
Proof. exact BlocksProofs.header_pruning_sound. Qed.
Print Assumptions header_pruning_sound.

Theorem header_pruning_unsound_with_short_blocks : header_pruning_requires_covering_block = false ->
  exists file hdr b, hdr_evidence file hdr b = true /\ bytes_eqb (slice file 0 (N.of_nat (List.length hdr))) hdr = true.
Proof. exact BlocksProofs.header_pruning_unsound_with_short_blocks. Qed.
Print Assumptions header_pruning_unsound_with_short_blocks.

Theorem filesize_pruning_is_off_in_block_mode : filesize_pruning_only_contiguous = true.
Proof. reflexivity. Qed.
Print Assumptions filesize_pruning_is_off_in_block_mode.

(* whole-file notions in block mode: whatever the scanner (converted from a
   used Scanner or not) and the other scanners of the thread did before, the
   filesize global, the module fields of root_struct and the scan-scoped
   per-thread caches (hash, math) are as in a fresh block scanner when a new
   sequence of blocks starts (state model of C04, generated from the source) *)
Theorem whole_file_undefined : forall R h i,
  forallb wf_op h = true -> (spec_persist h CKind =? 0) = false ->
  (run R h fresh (CF blk_needs_reset) =? 0) = false ->
  forall c, whole_file_cell c = true -> probe_block R i (run R h fresh) c = fresh c.
Proof. exact StateProofs.whole_file_undefined. Qed.
Print Assumptions whole_file_undefined.

(* ... but not the per-thread caches that are not scan-scoped (recorded finding) *)
Theorem whole_file_undefined_all_caches_refuted : ~ whole_file_undefined_all_caches_stmt.
Proof. exact StateProofs.whole_file_undefined_all_caches_refuted. Qed.
Print Assumptions whole_file_undefined_all_caches_refuted.

(* pattern state in block mode does not depend on the history *)
Theorem block_pattern_state_history_independent : forall R h i,
  forallb wf_op h = true ->
  (spec_persist h CKind =? 0) = false ->
  (run R h fresh (CF blk_needs_reset) =? 0) = false ->
  forall c, visible R true c = true -> block_leak c = false ->
    probe_block R i (run R h fresh) c = probe_block R i (spec_persist h) c.
Proof. exact StateProofs.history_independence_block. Qed.
Print Assumptions block_pattern_state_history_independent.
