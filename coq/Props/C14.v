(* C14 - block scanning equals scanning each block on its own: property
   theorems only.  Models: Pat/Blocks.v (rebase + MatchList::add over an
   abstract per-block search) and Scanner/State.v (what block mode inherits
   from the scanner's and the thread's past; generated from the source). *)
From Coq Require Import List String NArith ZArith Bool.
From YV Require Import Gen.ScanState Pat.Blocks Pat.BlocksProofs Scanner.State Scanner.StateProofs.
Import ListNotations.
Local Open Scope N_scope.

(* For every per-block search function, every same-start policy of
   MatchList::add and every list of (base, block) pairs - any order, gaps,
   overlaps, empty and repeated blocks -: each match the block scanner reports
   is a match of one block scanned on its own, shifted by that block's base;
   and the start offsets reported are exactly the shifted per-block starts
   (none lost). *)
Theorem blocks_union : forall keep scan_one blocks, selects keep ->
  (forall x, In x (scan_blocks keep scan_one blocks) -> In x (shifted scan_one blocks)) /\
  (forall s, In s (starts (scan_blocks keep scan_one blocks)) <-> In s (starts (shifted scan_one blocks))).
Proof. exact BlocksProofs.blocks_union. Qed.
Print Assumptions blocks_union.

(* exactly the union when no two blocks report different matches at the same
   absolute offset (always so without overlapping blocks) *)
Theorem blocks_union_exact : forall keep scan_one blocks, selects keep ->
  (forall a b, In a (shifted scan_one blocks) -> In b (shifted scan_one blocks) -> m_start a = m_start b -> a = b) ->
  forall x, In x (shifted scan_one blocks) -> In x (scan_blocks keep scan_one blocks).
Proof. exact BlocksProofs.blocks_union_exact. Qed.
Print Assumptions blocks_union_exact.

(* no match spans two blocks *)
Theorem no_cross_block_match : forall keep scan_one blocks, selects keep -> within scan_one ->
  forall x, In x (scan_blocks keep scan_one blocks) ->
    exists b, In b blocks /\ fst b <= m_start x /\ m_start x + m_len x <= fst b + N.of_nat (List.length (snd b)).
Proof. exact BlocksProofs.no_cross_block_match. Qed.
Print Assumptions no_cross_block_match.

(* patterns anchored at a fixed offset (`$a at N` as the only use): in every
   block, a match is recorded only at absolute offset N, inside a block that
   contains [N, N + len).  Uses the GENERATED fact that
   verify_anchored_patterns skips a block whose base is past the anchor. *)
Theorem anchored_only_at_offset : forall keep file n lit blocks m, selects keep ->
  In m (anchored_scan keep file n lit blocks) ->
  m_start m = n /\ exists b, In b blocks /\ fst b <= n /\ n + N.of_nat (List.length lit) <= fst b + snd b.
Proof. exact BlocksProofs.anchored_scan_only_at_offset. Qed.
Print Assumptions anchored_only_at_offset.

(* whole-file notions in block mode: whatever the scanner (converted from a
   used Scanner or not) and the other scanners of the thread did before, the
   filesize global, the module fields of root_struct and the scan-scoped
   per-thread caches (hash, math) are as in a fresh block scanner when a new
   sequence of blocks starts (state model of C04, generated from the source) *)
Theorem whole_file_undefined : forall R h i,
  forallb wf_op h = true -> (spec_persist h CKind =? 0) = false ->
  (run R h fresh (CF blk_needs_reset) =? 0) = false ->
  forall c, whole_file_cell c = true -> probe_block R i (run R h fresh) c = fresh c.
Proof. exact StateProofs.whole_file_undefined. Qed.
Print Assumptions whole_file_undefined.

(* ... but not the per-thread caches that are not scan-scoped (recorded finding) *)
Theorem whole_file_undefined_all_caches_refuted : ~ whole_file_undefined_all_caches_stmt.
Proof. exact StateProofs.whole_file_undefined_all_caches_refuted. Qed.
Print Assumptions whole_file_undefined_all_caches_refuted.

(* pattern state in block mode does not depend on the history *)
Theorem block_pattern_state_history_independent : forall R h i,
  forallb wf_op h = true ->
  (spec_persist h CKind =? 0) = false ->
  (run R h fresh (CF blk_needs_reset) =? 0) = false ->
  forall c, visible R true c = true -> block_leak c = false ->
    probe_block R i (run R h fresh) c = probe_block R i (spec_persist h) c.
Proof. exact StateProofs.history_independence_block. Qed.
Print Assumptions block_pattern_state_history_independent.
