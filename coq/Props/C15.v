(* C15 - the formatter preserves meaning and is idempotent: property theorems
   only.  Each is closed by [exact] of a lemma proved elsewhere; statements are
   pinned here so that they cannot be weakened silently.

   What is proved: the rule engine (`Processor`, fmt/src/processor/mod.rs) and
   the `Bubble` stage (fmt/src/bubble.rs), as modelled in Fmt/Processor.v and
   Fmt/Bubble.v, cannot lose, duplicate, alter or reorder a significant token,
   for every token stream, provided the rules / classes satisfy a decidable
   safety predicate; and the rules / classes of the real pipeline, regenerated
   from fmt/src/lib.rs on every run (Gen/FmtRules.v), satisfy it.
   Not proved (evaluated on the implementation by the harness): idempotence,
   the `modified` flag, termination, and the five stages that are not
   rule-based (comments, hex re-flow, alignment, indentation, trailing
   spaces). *)
From Coq Require Import List NArith ZArith Bool Permutation.
From YV Require Import Fmt.Tokens Gen.FmtCats Fmt.Processor Fmt.ProcessorProofs
  Fmt.Bubble Fmt.BubbleProofs Gen.FmtRules Fmt.FmtRulesProofs.
Import ListNotations.

(* For every rule list whose drop rules only fire on whitespace-class tokens,
   whose insertions are whitespace-class / control tokens and which never
   swaps; for every input stream, pass-through category and fuel: a completed
   run yields exactly the significant tokens of the input, in order.
   Conditions are arbitrary (possibly panicking) functions of the context. *)
Theorem processor_preserves_significant : forall rs pt ts fuel out,
  safe_rules rs -> run fuel rs pt ts = (Done, out) -> sig out = sig ts.
Proof. exact ProcessorProofs.processor_preserves_significant. Qed.
Print Assumptions processor_preserves_significant.

(* also when the engine panics or is stopped: what has been yielded is a prefix *)
Theorem processor_output_prefix : forall rs pt ts fuel o out,
  safe_rules rs -> run fuel rs pt ts = (o, out) -> exists rest, sig ts = sig out ++ rest.
Proof. exact ProcessorProofs.processor_output_prefix. Qed.
Print Assumptions processor_output_prefix.

(* the decidable predicate on extracted rule descriptions implies safety of
   every concrete rule list they describe *)
Theorem safe_rules_b_sound : forall gs rs,
  safe_rules_b gs = true -> Forall2 refines gs rs -> safe_rules rs.
Proof. exact ProcessorProofs.safe_rules_sound. Qed.
Print Assumptions safe_rules_b_sound.

(* T: the rules of every Processor stage in fmt/src/lib.rs are safe *)
Theorem fmt_rules_safe : safe_stages_b Gen.FmtRules.stages = true.
Proof. exact FmtRulesProofs.fmt_rules_safe. Qed.
Print Assumptions fmt_rules_safe.

Theorem fmt_stage_preserves_significant : forall s rs ts fuel out,
  In s Gen.FmtRules.stages -> Forall2 refines (g_rules s) rs ->
  run fuel rs (g_pt s) ts = (Done, out) -> sig out = sig ts.
Proof. exact FmtRulesProofs.fmt_stage_preserves_significant. Qed.
Print Assumptions fmt_stage_preserves_significant.

(* Bubble: a permutation that keeps the order of every family of tokens that
   avoids one of the two classes *)
Theorem bubble_preserves_order : forall (air water p : token -> bool) ts out,
  ((forall t, p t = true -> air t = false) \/ (forall t, p t = true -> water t = false)) ->
  bubble air water ts = Some out -> filter p out = filter p ts.
Proof. exact BubbleProofs.bubble_preserves_order. Qed.
Print Assumptions bubble_preserves_order.

Theorem bubble_permutation : forall air water ts out,
  bubble air water ts = Some out -> Permutation out ts.
Proof. exact BubbleProofs.bubble_permutation. Qed.
Print Assumptions bubble_permutation.

(* T: every Bubble stage in fmt/src/lib.rs has a class without significant tokens *)
Theorem fmt_bubbles_safe : forallb bubble_safe_b Gen.FmtRules.bubbles = true.
Proof. exact FmtRulesProofs.fmt_bubbles_safe. Qed.
Print Assumptions fmt_bubbles_safe.

Theorem fmt_bubble_preserves_significant : forall aw ts out,
  In aw Gen.FmtRules.bubbles -> bubble_cl (fst aw) (snd aw) ts = Some out -> sig out = sig ts.
Proof. exact FmtRulesProofs.fmt_bubble_preserves_significant. Qed.
Print Assumptions fmt_bubble_preserves_significant.

(* non-vacuity: safe rule lists exist and run; an unsafe rule is detected and
   does lose a token; without its side condition Bubble does reorder *)
Check ProcessorProofs.safe_rules_example.
Check ProcessorProofs.unsafe_rule_detected.
Check BubbleProofs.bubble_can_reorder.
Check FmtRulesProofs.fmt_rules_nonvacuous.
