(* C15 - the formatter preserves meaning and is idempotent: property theorems
   only.  Each is closed by [exact] of a lemma proved elsewhere; statements are
   pinned here so that they cannot be weakened silently.

   What is proved: the rule engine (`Processor`, fmt/src/processor/mod.rs) and
   the `Bubble` stage (fmt/src/bubble.rs), as modelled in Fmt/Processor.v and
   Fmt/Bubble.v, cannot lose, duplicate, alter or reorder a significant token,
   for every token stream, provided the rules / classes satisfy a decidable
   safety predicate; and the rules / classes of the real pipeline, regenerated
   from fmt/src/lib.rs on every run (Gen/FmtRules.v), satisfy it.
   The five stages that are not rule-based (comments, hex re-flow, alignment,
   indentation, trailing spaces) are modelled as coded in Fmt/Stages.v (tokens
   carry their bytes, so widths and columns are exact) and each preserves the
   significant content of every stream; the ORDER of all stages and the
   options that select them are regenerated from `format_impl`
   (Gen/FmtRules.v, [pipeline]) and the end-to-end theorem composes the
   per-stage theorems over that list.  The `modified` flag is byte inequality
   (shape re-read from the source).
   Not proved (evaluated on the implementation by the harness): idempotence,
   termination, that no stage panics, that Align never ends its stream early
   (it can: [align_can_end_early]); the tokenizer/CST front end and `write_to`
   are outside the model. *)
From Coq Require Import List NArith ZArith Bool Permutation.
From YV Require Import Fmt.Tokens Gen.FmtCats Fmt.Processor Fmt.ProcessorProofs
  Fmt.Bubble Fmt.BubbleProofs Fmt.Stages Fmt.StagesProofs Fmt.Pipeline Gen.FmtRules
  Fmt.FmtRulesProofs Fmt.PipelineProofs Fmt.FmtCheck Fmt.YrFmtProofs.
Import ListNotations.

(* For every rule list whose drop rules only fire on whitespace-class tokens,
   whose insertions are whitespace-class / control tokens and which never
   swaps; for every input stream, pass-through category and fuel: a completed
   run yields exactly the significant tokens of the input, in order.
   Conditions are arbitrary (possibly panicking) functions of the context. *)
Theorem processor_preserves_significant : forall rs pt ts fuel out,
  safe_rules rs -> run fuel rs pt ts = (Done, out) -> sig out = sig ts.
Proof. exact ProcessorProofs.processor_preserves_significant. Qed.
Print Assumptions processor_preserves_significant.

(* also when the engine panics or is stopped: what has been yielded is a prefix *)
Theorem processor_output_prefix : forall rs pt ts fuel o out,
  safe_rules rs -> run fuel rs pt ts = (o, out) -> exists rest, sig ts = sig out ++ rest.
Proof. exact ProcessorProofs.processor_output_prefix. Qed.
Print Assumptions processor_output_prefix.

(* the decidable predicate on extracted rule descriptions implies safety of
   every concrete rule list they describe *)
Theorem safe_rules_b_sound : forall gs rs,
  safe_rules_b gs = true -> Forall2 refines gs rs -> safe_rules rs.
Proof. exact ProcessorProofs.safe_rules_sound. Qed.
Print Assumptions safe_rules_b_sound.

(* T: the rules of every Processor stage in fmt/src/lib.rs are safe *)
Theorem fmt_rules_safe : safe_stages_b Gen.FmtRules.stages = true.
Proof. exact FmtRulesProofs.fmt_rules_safe. Qed.
Print Assumptions fmt_rules_safe.

(* T: the stages that add or remove line breaks do not pass comments through
   (the comment stage classifies comments by the line breaks around them) *)
Theorem fmt_line_break_stages_see_comments :
  forallb line_break_stage_sees_comments Gen.FmtRules.stages = true.
Proof. exact FmtRulesProofs.fmt_line_break_stages_see_comments. Qed.
Print Assumptions fmt_line_break_stages_see_comments.

Theorem fmt_stage_preserves_significant : forall s rs ts fuel out,
  In s Gen.FmtRules.stages -> Forall2 refines (g_rules s) rs ->
  run fuel rs (g_pt s) ts = (Done, out) -> sig out = sig ts.
Proof. exact FmtRulesProofs.fmt_stage_preserves_significant. Qed.
Print Assumptions fmt_stage_preserves_significant.

(* Bubble: a permutation that keeps the order of every family of tokens that
   avoids one of the two classes *)
Theorem bubble_preserves_order : forall (air water p : token -> bool) ts out,
  ((forall t, p t = true -> air t = false) \/ (forall t, p t = true -> water t = false)) ->
  bubble air water ts = Some out -> filter p out = filter p ts.
Proof. exact BubbleProofs.bubble_preserves_order. Qed.
Print Assumptions bubble_preserves_order.

Theorem bubble_permutation : forall air water ts out,
  bubble air water ts = Some out -> Permutation out ts.
Proof. exact BubbleProofs.bubble_permutation. Qed.
Print Assumptions bubble_permutation.

(* T: every Bubble stage in fmt/src/lib.rs has a class without significant tokens *)
Theorem fmt_bubbles_safe : forallb bubble_safe_b Gen.FmtRules.bubbles = true.
Proof. exact FmtRulesProofs.fmt_bubbles_safe. Qed.
Print Assumptions fmt_bubbles_safe.

Theorem fmt_bubble_preserves_significant : forall aw ts out,
  In aw Gen.FmtRules.bubbles -> bubble_cl (fst aw) (snd aw) ts = Some out -> sig out = sig ts.
Proof. exact FmtRulesProofs.fmt_bubble_preserves_significant. Qed.
Print Assumptions fmt_bubble_preserves_significant.

(* ---- the five hand-written stages, for every token stream ---- *)
Theorem hex_patterns_preserves_significant : forall ts, sig (hex_patterns ts) = sig ts.
Proof. exact StagesProofs.hex_patterns_preserves_significant. Qed.
Print Assumptions hex_patterns_preserves_significant.

Theorem add_indentation_preserves_significant : forall sp ts, sig (add_indentation sp ts) = sig ts.
Proof. exact StagesProofs.add_indentation_preserves_significant. Qed.
Print Assumptions add_indentation_preserves_significant.

Theorem trailing_spaces_preserves_significant : forall ts, sig (trailing_spaces ts) = sig ts.
Proof. exact StagesProofs.trailing_spaces_preserves_significant. Qed.
Print Assumptions trailing_spaces_preserves_significant.

(* Align: exact when the iterator reaches the end of its input, a prefix otherwise *)
Theorem align_preserves_significant : forall ts out, align ts = Some (out, true) -> sig out = sig ts.
Proof. exact StagesProofs.align_preserves_significant. Qed.
Print Assumptions align_preserves_significant.

Theorem align_output_prefix : forall ts out fl, align ts = Some (out, fl) -> exists rest, sig ts = sig out ++ rest.
Proof. exact StagesProofs.align_output_prefix. Qed.
Print Assumptions align_output_prefix.

(* CommentProcessor: comment tokens are regrouped and retyped, their text
   changes only in the leading whitespace of lines; input without typed
   comments (what `Tokens` produces) *)
Theorem comments_preserves_significant : forall tab ts out,
  forallb (fun t => negb (typed_comment t)) ts = true ->
  comments tab ts = Some out -> sigc out = sigc ts.
Proof. exact StagesProofs.comments_preserves_significant. Qed.
Print Assumptions comments_preserves_significant.

Theorem sig_eq_sigc : forall a b, sig a = sig b -> sigc a = sigc b.
Proof. exact StagesProofs.sig_eq_sigc. Qed.
Print Assumptions sig_eq_sigc.

(* ---- end to end ---- *)
(* T: the generated pipeline has one comments stage, outside the conditionals *)
Theorem fmt_pipeline_ok : ok_pipeline false Gen.FmtRules.pipeline = true.
Proof. exact PipelineProofs.fmt_pipeline_ok. Qed.
Print Assumptions fmt_pipeline_ok.

(* for every option combination, tab size and indentation, every concrete
   rule lists refining the extracted ones, every fuel and every raw token
   stream: a completed run of the whole pipeline preserves the significant
   content (text tokens exactly, comments line by line modulo leading
   whitespace) *)
Theorem format_preserves_significant : forall (o : fmt_opts) ts out,
  raw ts = true ->
  bruns Gen.FmtRules.stages Gen.FmtRules.bubbles o (select (o_flag o) Gen.FmtRules.pipeline) ts out ->
  sigc out = sigc ts.
Proof. exact PipelineProofs.format_preserves_significant. Qed.
Print Assumptions format_preserves_significant.

(* the `modified` flag *)
Theorem modified_flag_truthful : forall inp out, modified_flag inp out = true <-> out <> inp.
Proof. exact StagesProofs.modified_flag_truthful. Qed.
Print Assumptions modified_flag_truthful.

(* `yr fmt`: the command-line front end writes the formatter's output, nothing
   else (model of cli/src/commands/fmt.rs with the file-opening mode re-read
   from the source; compared with the real binary by the harness) *)
Theorem yr_fmt_meets_spec : forall check files stopped modified failed crashed,
  yr_model Gen.FmtRules.yr_fmt_truncates check files stopped modified failed crashed
  = yr_model true check files stopped modified failed crashed.
Proof. exact YrFmtProofs.yr_fmt_meets_spec. Qed.
Print Assumptions yr_fmt_meets_spec.

(* non-vacuity: safe rule lists exist and run; an unsafe rule is detected and
   does lose a token; without its side condition Bubble does reorder; Align can
   end early; the comments stage needs raw input; the pipeline has stages *)
Check ProcessorProofs.safe_rules_example.
Check ProcessorProofs.unsafe_rule_detected.
Check BubbleProofs.bubble_can_reorder.
Check FmtRulesProofs.fmt_rules_nonvacuous.
Check FmtRulesProofs.fmt_line_break_stages_nonvacuous.
Check StagesProofs.align_can_end_early.
Check StagesProofs.comments_needs_raw_input.
Check StagesProofs.comments_reindent_example.
Check PipelineProofs.fmt_pipeline_lengths.
Check PipelineProofs.fmt_pipeline_defined.
Check YrFmtProofs.yr_fmt_without_truncation_leaves_a_tail.
