(* C16 - timeouts fire, are contained, and leave the scanner reusable:
   property theorems only.  Models: Scanner/Timeout.v (clock, deadlines, poll
   sites; the reactions to a timeout are GENERATED booleans read from
   search_for_patterns, the host function and eval_conditions) and
   Scanner/State.v (what the next scan starts from). *)
From Coq Require Import List String NArith ZArith Bool.
From YV Require Import Gen.ScanState Scanner.State Scanner.StateProofs Scanner.Timeout Scanner.TimeoutProofs.
Import ListNotations.
Local Open Scope N_scope.

(* For every scan (any sequence of epoch checks, host calls and searches with
   any number of atom hits), every clock value, every timeout and every
   schedule of heartbeats: the scan returns Timeout or exactly the result of
   the uninterrupted scan - never the matches found so far. *)
Theorem timeout_or_complete : forall items cnt ep t sc,
  scan items cnt ep t sc = RTimeout \/ scan items cnt ep t sc = RComplete (complete_result items).
Proof. exact TimeoutProofs.timeout_or_complete. Qed.
Print Assumptions timeout_or_complete.

(* once the deadline has passed, the next consultation of the clock stops the
   scan: the next atom-hit poll ends the search without handling the hit ... *)
Theorem fires_at_next_search_poll : forall h hits s sc acc,
  deadline s <= counter s ->
  exists s' sc', search (h :: hits) s sc acc = (s', sc', acc, true).
Proof. exact TimeoutProofs.fires_at_next_search_poll. Qed.
Print Assumptions fires_at_next_search_poll.

(* ... the next epoch check of the emitted code traps ... *)
Theorem fires_at_next_epoch_check : forall r s sc acc,
  epoch_deadline s <= epoch s ->
  exists s', run_items (IEpochCheck :: r) s sc acc = (s', acc, true).
Proof. exact TimeoutProofs.fires_at_next_epoch_check. Qed.
Print Assumptions fires_at_next_epoch_check.

(* ... both deadlines pass together (counter and epoch move in lockstep) ... *)
Theorem expiry_seen_by_both : forall s, inlock s ->
  (deadline s <= counter s <-> epoch_deadline s <= epoch s).
Proof. exact TimeoutProofs.expiry_seen_by_both. Qed.
Print Assumptions expiry_seen_by_both.

(* ... and a search that timed out makes the very next epoch check trap *)
Theorem search_timeout_forces_trap : forall hits s sc acc s1 sc1 acc1,
  search hits s sc acc = (s1, sc1, acc1, true) ->
  forall r, exists s', run_items (IEpochCheck :: r) (fst (fst (host_search hits s sc acc))) sc1 acc1 = (s', acc1, true).
Proof. exact TimeoutProofs.search_timeout_forces_trap. Qed.
Print Assumptions search_timeout_forces_trap.

(* deadline = counter + min(ceil(timeout), DEFAULT_SCAN_TIMEOUT) cannot overflow u64
   (DEFAULT_SCAN_TIMEOUT is generated from the source) *)
Theorem clamp_no_overflow : forall cnt ep t,
  cnt <= u64_max - DEFAULT_SCAN_TIMEOUT -> ep <= u64_max - DEFAULT_SCAN_TIMEOUT ->
  deadline (after_reset cnt ep t) <= u64_max /\ epoch_deadline (after_reset cnt ep t) <= u64_max.
Proof. exact TimeoutProofs.clamp_no_overflow. Qed.
Print Assumptions clamp_no_overflow.

(* a scanner without a timeout is not interrupted by what other scanners'
   deadlines do to the shared clock *)
Theorem no_timeout_not_interrupted : forall items cnt ep sc,
  beats_total sc < DEFAULT_SCAN_TIMEOUT ->
  scan items cnt ep 0 sc = RComplete (complete_result items).
Proof. exact TimeoutProofs.no_timeout_not_interrupted. Qed.
Print Assumptions no_timeout_not_interrupted.

(* no spurious timeout: fewer heartbeats than the timeout -> complete *)
Theorem completes_before_deadline : forall items cnt ep t sc,
  beats_total sc < clamp t ->
  scan items cnt ep t sc = RComplete (complete_result items).
Proof. exact TimeoutProofs.completes_before_deadline. Qed.
Print Assumptions completes_before_deadline.

(* after a timed-out scan (interrupted anywhere: any effect function) the next
   contiguous scan starts its evaluation from the state of a fresh scanner
   with the same options (C04's invariant) *)
Theorem reset_after_timeout_clean : forall R h i0 e i,
  forallb wf_op (h ++ [OScan i0 e TimedOut]) = true ->
  tl_guard R (spec_persist (h ++ [OScan i0 e TimedOut])) ->
  forall c, visible R false c = true ->
    probe_contig R i (run R (h ++ [OScan i0 e TimedOut]) fresh) c
    = probe_contig R i (spec_persist (h ++ [OScan i0 e TimedOut])) c.
Proof. exact StateProofs.reset_after_timeout_clean. Qed.
Print Assumptions reset_after_timeout_clean.

(* block mode: after a finish() that timed out, every visible cell - the
   snippets included - except the per-thread caches that are not scan-scoped (C04) *)
Theorem block_reset_after_timeout_clean : forall R h e i,
  let h' := h ++ [OBlockFinish e TimedOut] in
  forallb wf_op h' = true ->
  (spec_persist h' CKind =? 0) = false ->
  forall c, visible R true c = true -> block_leak c = false ->
    probe_block R i (run R h' fresh) c = probe_block R i (spec_persist h') c.
Proof. exact StateProofs.block_reset_after_timeout_clean. Qed.
Print Assumptions block_reset_after_timeout_clean.
