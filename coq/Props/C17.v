(* C17 - scan results are internally consistent: property theorems only.
   Each is closed by [exact] of a lemma proved elsewhere; statements are
   pinned here so they cannot be weakened silently. *)
From Coq Require Import List NArith ZArith Bool Lia Permutation.
From YV Require Import Scanner.PrivIter Scanner.PrivIterProofs Scanner.Tracking
  Gen.TrackingGen Scanner.Results Scanner.TrackingProofs Scanner.ResultsProofs
  Scanner.MatchesIter Scanner.MatchesIterProofs.
Import ListNotations.
Local Open Scope Z_scope.

(* what an iterator with a given include_private setting must yield *)
Definition visible (rules : list rule) (inc : bool) (ids : list nat) : list nat :=
  filter (fun id => inc || negb (is_priv rules id)) ids.

(* MatchingRules: for every rule list, every verdict function (hence every
   buffer and every condition), every include_private setting, the trace of
   (len() before next(), yielded rule) is the exact countdown over the
   matching rules that are visible, no counter underflows, and the final len
   is 0. *)
Theorem matching_len_exact : forall rules verdict inc,
  drain (is_priv rules) (include_private (matching_iter rules (scan_rules rules verdict)) inc)
  = Some (countdown (visible rules inc (matching (scan_rules rules verdict))), 0).
Proof.
  intros rules verdict inc.
  exact (drain_exact _ _ _ (include_private_inv _ _ _ inc (matching_iter_inv rules verdict))).
Qed.
Print Assumptions matching_len_exact.

Theorem non_matching_len_exact : forall rules verdict inc,
  drain (is_priv rules) (include_private (nonmatching_iter rules (scan_rules rules verdict)) inc)
  = Some (countdown (visible rules inc (rem (nonmatching_iter rules (scan_rules rules verdict)))), 0).
Proof.
  intros rules verdict inc.
  exact (drain_exact _ _ _ (include_private_inv _ _ _ inc (nonmatching_iter_inv rules verdict))).
Qed.
Print Assumptions non_matching_len_exact.

(* the contract holds at every point of an iteration, also when
   include_private is switched in the middle *)
Theorem iterator_step_contract : forall A (priv : A -> bool) (it : iter A),
  Inv priv it ->
  it_len it = Z.of_nat (length (pending priv it)) /\
  (forall b, Inv priv (include_private it b)) /\
  match it_next priv it with
  | Panic => False
  | Exhausted it' => pending priv it = [] /\ Inv priv it'
  | Yield x it' => pending priv it = x :: pending priv it' /\ Inv priv it'
  end.
Proof.
  intros A priv it H. split; [exact (pending_length A priv it H)|].
  split; [intros b; exact (include_private_inv A priv it b H)|].
  pose proof (next_spec A priv it H) as N.
  destruct (it_next priv it); tauto.
Qed.
Print Assumptions iterator_step_contract.

(* matching and non-matching rules partition the compiled rules *)
Theorem rules_partition : forall rules verdict,
  Permutation (matching (scan_rules rules verdict)
               ++ rem (nonmatching_iter rules (scan_rules rules verdict)))
              (seq 0 (length rules)).
Proof. exact ResultsProofs.rules_partition. Qed.
Print Assumptions rules_partition.

(* private rules appear only when asked for *)
Theorem private_only_when_asked : forall rules ids id,
  In id (visible rules false ids) -> is_priv rules id = false.
Proof.
  intros rules ids id H. unfold visible in H. apply filter_In in H.
  destruct H as [_ H]. cbn [orb] in H. destruct (is_priv rules id); [discriminate|reflexivity].
Qed.
Print Assumptions private_only_when_asked.

(* Rule::patterns() *)
Theorem patterns_len_exact : forall pats inc,
  drain snd (include_private (patterns_iter pats) inc)
  = Some (countdown (pending snd (include_private (patterns_iter pats) inc)), 0).
Proof.
  intros pats inc.
  exact (drain_exact _ _ _ (include_private_inv _ _ _ inc (patterns_iter_inv pats))).
Qed.
Print Assumptions patterns_len_exact.

(* Pattern::matches(): for every context, every pattern-match table and every
   point k of an iteration, len() is exactly the number of matches still
   yielded, these are the pattern's matches from position k on, and one more
   next() either yields (length drops by one) or the length was 0.  The
   constructor and next() shapes are regenerated from models.rs. *)
Theorem matches_len_exact : forall (C M : Type) (ctx : option C) (lookup : C -> option (list M))
    (detached : option (list M)) (k fuel : nat),
  let it0 := mk_matches matches_iter_from_ctx ctx lookup detached in
  let it := m_after matches_next_needs_ctx k it0 in
  let all := match ctx with Some c => match lookup c with Some l => l | None => [] end | None => [] end in
  (m_len it <= fuel)%nat ->
  length (m_drain matches_next_needs_ctx fuel it) = m_len it /\
  m_drain matches_next_needs_ctx fuel it = skipn k all /\
  match m_next matches_next_needs_ctx it with
  | (Some _, it') => m_len it = S (m_len it')
  | (None, it') => m_len it = 0%nat /\ it' = it
  end.
Proof. intros C M. exact (@MatchesIterProofs.matches_len_exact C M). Qed.
Print Assumptions matches_len_exact.

(* the invariant behind it is needed: matches held without a context would
   announce one item and yield none *)
Theorem matches_without_ctx_refuted : forall (C M : Type) (x : M),
  let it := mkM (C:=C) None (Some [x]) in
  m_len it = 1%nat /\ m_drain true 5 it = [].
Proof. intros C M. exact (@MatchesIterProofs.matches_without_ctx_refuted C M). Qed.
Print Assumptions matches_without_ctx_refuted.

(* the usize counter decremented by the global-rule purge never underflows *)
Theorem purge_counter_no_underflow : forall rules d1 d2 bm mp,
  countp (is_priv rules) (d1 ++ d2) <= mp ->
  0 <= snd (fold_left (purge_one rules) d1 (bm, mp)) - countp (is_priv rules) d2.
Proof. exact purge_no_underflow. Qed.
Print Assumptions purge_counter_no_underflow.

(* non-vacuity: a concrete scan with a failing global rule, a purged private
   match and a private non-matching rule (the shape of the repaired defect) *)
Example c17_nonvacuous :
  let rules := [mkRule 0 true false; mkRule 0 false true; mkRule 1 true false; mkRule 1 false false] in
  let verdict := fun (id : nat) (_ : list bool) => match id with 0%nat => true | 3%nat => true | _ => false end in
  matching (scan_rules rules verdict) = [3%nat] /\
  rem (nonmatching_iter rules (scan_rules rules verdict)) = [0; 1; 2]%nat /\
  drain (is_priv rules) (include_private (nonmatching_iter rules (scan_rules rules verdict)) true)
    = Some ([(3, 0%nat); (2, 1%nat); (1, 2%nat)], 0).
Proof. vm_compute. repeat split. Qed.

(* ---- faithfulness of match data and context windows ------------------------ *)
From YV Require Import Scanner.Snippets Scanner.SnippetsProofs.
Local Open Scope N_scope.

(* Scanner::scan: every match inside the data is reported with exactly ctx bytes
   on each side clipped to the data; the bytes at the relative range are the
   data at the match's range. *)
Theorem match_context_exact_contiguous : forall (data : list N) (rs re ctx : N),
  rs <= re -> re <= len data ->
  let '(ws, we) := window 0 (len data) rs re ctx in
  exists sl, get_ctx_single data rs re ctx = Some (sl, (rs - ws, re - ws))
             /\ slice data ws we = Some sl
             /\ slice sl (rs - ws) (re - ws) = slice data rs re.
Proof. exact single_exact. Qed.
Print Assumptions match_context_exact_contiguous.

(* blocks::Scanner: the same, clipped to the match's own block, for every list
   of pairwise disjoint blocks in any order and every context size; in
   particular the lookup never fails (Match::data cannot panic). *)
Theorem match_context_exact_blocks : forall (ctx : N) (blks : list block),
  Forall matches_ok blks -> disjoint_blocks blks ->
  forall b rs re, In b blks -> In (rs, re) (b_matches b) ->
  let '(ws, we) := window (b_base b) (b_hi b) rs re ctx in
  exists sl, get_ctx_multi (retain_all ctx blks) rs re ctx = Some (sl, (rs - ws, re - ws))
             /\ slice (b_data b) (ws - b_base b) (we - b_base b) = Some sl
             /\ slice sl (rs - ws) (re - ws) = slice (b_data b) (rs - b_base b) (re - b_base b).
Proof. exact blocks_context_exact. Qed.
Print Assumptions match_context_exact_blocks.

(* non-vacuity: three matches with overlapping context windows (the shape of
   the repaired defect), two blocks with a gap *)
Example c17_snippets_nonvacuous :
  let d1 := map N.of_nat (seq 0 30) in
  let d2 := map N.of_nat (seq 100 8) in
  let blks : list block := [(0, d1, [(9, 10); (12, 14); (15, 16)]); (40, d2, [(41, 43)])] in
  get_ctx_multi (retain_all 4 blks) 12 14 4 = Some ([8; 9; 10; 11; 12; 13; 14; 15; 16; 17], (4, 6)) /\
  get_ctx_multi (retain_all 4 blks) 41 43 4 = Some ([100; 101; 102; 103; 104; 105; 106], (1, 3)).
Proof. vm_compute. split; reflexivity. Qed.
