(* C18 - `yr scan` reports each file exactly once, for any thread count:
   property theorems only, closed by [exact] of lemmas of Cli/WalkProofs.v.
   The walk model (Cli/Walk.v) is instantiated with the channel capacity and
   the "main keeps a Receiver" fact regenerated from cli/src/walk.rs. *)
From Coq Require Import List Bool Arith Lia Permutation NArith.
From YV Require Import Cli.Walk Cli.WalkProofs Cli.WalkCheck Gen.WalkGen.
Import ListNotations.

Section C18.
  Variable file : Type.
  Variable result : Type.
  Variable results : file -> list result.          (* the result lines of a file: any function *)
  Variable file_dec : forall x y : file, {x = y} + {x <> y}.
  Variable result_dec : forall x y : result, {x = y} + {x <> y}.

  Notation cap := paths_channel_capacity.
  Notation krx := main_keeps_paths_receiver.

  (* EXACTLY ONCE: every number of workers n >= 1, every capacity, every list of
     directory entries, every schedule [tr] (any sequence of enabled
     transitions): in a completed run without abort, the files scanned plus
     the files reported as failed are exactly the files walked (multiset),
     the printed result lines are exactly the lines of the scanned files, each
     tagged with its own file, and the error lines are those of the failed
     files and unreadable entries. *)
  Theorem exactly_once : forall capacity keeps n items tr s,
    n >= 1 ->
    exec file result results capacity keeps tr (init file result n items) = Some s ->
    terminal file result s = true -> aborted file result s = false ->
    Permutation (g_scanned _ _ s ++ g_failed _ _ s) (files_of file items) /\
    Permutation (infos file result (printed _ _ s)) (expected file result results (g_scanned _ _ s)) /\
    Permutation (errs file result (printed _ _ s)) (map EFile (g_failed _ _ s) ++ werrs_of file items).
  Proof. intros capacity keeps. exact (WalkProofs.exactly_once file result results capacity keeps file_dec result_dec). Qed.

  (* ... and when no scan fails or times out (a tree that does not change under
     the walk), the printed lines are the union over ALL input files *)
  Theorem exactly_once_all_ok : forall capacity keeps n items tr s,
    n >= 1 ->
    exec file result results capacity keeps tr (init file result n items) = Some s ->
    terminal file result s = true -> forallb ok_label tr = true ->
    Permutation (g_scanned _ _ s) (files_of file items) /\
    Permutation (infos file result (printed _ _ s)) (expected file result results (files_of file items)).
  Proof. intros capacity keeps. exact (WalkProofs.exactly_once_all_ok file result results capacity keeps file_dec result_dec). Qed.

  Lemma cap_pos : cap >= 1.
  Proof. apply Nat.leb_le. vm_compute. reflexivity. Qed.

  (* the source drops the original Receiver of the paths channel right after
     the workers are spawned (Gen/WalkGen.v, regenerated on every run) *)
  Lemma receiver_dropped : krx = false.
  Proof. reflexivity. Qed.

  (* NO DEADLOCK, full form, with the capacity and receiver fact of the source:
     every state that is not final -- reachable or not, aborted or not -- has
     an enabled transition; in particular every reachable one *)
  Theorem no_deadlock : forall s,
    terminal file result s = false ->
    exists l s', step file result results cap krx s l = Some s'.
  Proof. intros s. exact (WalkProofs.no_deadlock_receiver_dropped file result results cap krx s receiver_dropped cap_pos). Qed.

  Theorem no_deadlock_reachable : forall n items tr s,
    exec file result results cap krx tr (init file result n items) = Some s ->
    terminal file result s = false ->
    exists l s', step file result results cap krx s l = Some s'.
  Proof. intros n items tr s _. exact (no_deadlock s). Qed.

  (* independently of the receiver fact: while nobody has aborted, no reachable
     non-final state is stuck *)
  Theorem no_deadlock_without_abort : forall keeps n items tr s,
    n >= 1 ->
    exec file result results cap keeps tr (init file result n items) = Some s ->
    aborted file result s = false -> terminal file result s = false ->
    exists l s', step file result results cap keeps s l = Some s'.
  Proof. intros keeps n items tr s Hn. exact (WalkProofs.no_deadlock file result results cap keeps file_dec result_dec n items tr s Hn cap_pos). Qed.

  (* every schedule is finite (each transition decreases a measure), so every
     maximal schedule of a run without abort ends in a final state *)
  Theorem every_schedule_terminates : forall capacity keeps tr s s',
    exec file result results capacity keeps tr s = Some s' ->
    length tr + measure file result results s' <= measure file result results s.
  Proof. intros capacity keeps. exact (WalkProofs.exec_terminates file result results capacity keeps). Qed.

  (* for either value of the receiver fact: the only stuck non-final state is
     the walker blocked on a full channel after every worker has left its loop *)
  Theorem stuck_is_hang : forall keeps s,
    terminal file result s = false -> (forall l, step file result results cap keeps s l = None) ->
    hang file result cap keeps s.
  Proof. intros keeps s. exact (WalkProofs.stuck_is_hang file result results cap keeps s cap_pos). Qed.

  (* the refutation, in the conditional form that stays true: IF main kept a
     Receiver of the paths channel while joining (as the code did before the
     fix 686deaba), one worker, capacity + 2 files and a first scan that times
     out would reach a state that is not final and in which no thread can ever
     move.  A regression to that shape flips Gen/WalkGen.v and breaks
     [receiver_dropped] above. *)
  Theorem hang_if_receiver_kept : forall (keeps : bool) (f0 : file),
    keeps = true ->
    exists tr s,
      exec file result results cap keeps tr (init file result 1 (repeat (IFile f0) (cap + 2))) = Some s /\
      terminal file result s = false /\ (forall l, step file result results cap keeps s l = None) /\
      hang file result cap keeps s /\ aborted file result s = true.
  Proof. intros keeps f0 Hk. exact (WalkProofs.abort_hang_reachable file result results cap keeps f0 Hk cap_pos). Qed.

  (* the executable scheduler used by the correspondence check follows the
     transition system, and with as many picks as the initial measure it ends
     in a final, non-aborted state (the hypotheses of the theorems above are
     satisfiable for every n, every entry list, every pick sequence) *)
  Theorem scheduler_sound : forall fate picks s,
    exec file result results cap krx (schedule_trace file result results cap krx fate picks s) s
    = Some (run_schedule file result results cap krx fate picks s).
  Proof. exact (WalkProofs.run_schedule_sound file result results cap krx). Qed.

  Theorem scheduler_completes : forall fate n items picks,
    n >= 1 -> (forall f, fate f <> CTimeout) ->
    measure file result results (init file result n items) <= length picks ->
    terminal file result (run_schedule file result results cap krx fate picks (init file result n items)) = true /\
    aborted file result (run_schedule file result results cap krx fate picks (init file result n items)) = false.
  Proof.
    intros fate n items picks Hn. exact (WalkProofs.run_schedule_terminal file result results cap krx fate n items picks Hn cap_pos).
  Qed.
End C18.

Print Assumptions exactly_once.
Print Assumptions exactly_once_all_ok.
Print Assumptions no_deadlock.
Print Assumptions no_deadlock_reachable.
Print Assumptions no_deadlock_without_abort.
Print Assumptions every_schedule_terminates.
Print Assumptions stuck_is_hang.
Print Assumptions hang_if_receiver_kept.
Print Assumptions scheduler_sound.
Print Assumptions scheduler_completes.

(* the executable probe model agrees: with capacity + 2 files the run hangs
   exactly when main keeps the Receiver (it does not: the probe must exit), with
   capacity + 1 files it never does *)
Example refutation_applies :
  probe_model_hangs (paths_channel_capacity + 2) = main_keeps_paths_receiver /\
  probe_model_hangs (paths_channel_capacity + 1) = false.
Proof. vm_compute. split; reflexivity. Qed.

(* non-vacuity: 3 workers, 5 files (one without result lines, one duplicated
   path is impossible in a directory so ids are distinct), one unreadable
   entry, a pseudo-random schedule: the run completes, nobody aborts, and
   the printed lines are the expected ones *)
Local Open Scope N_scope.
Definition ex_results (f : N) : list N := match f with 0 => [1; 2] | 1 => [] | 2 => [7] | 3 => [1] | _ => [5; 5] end.
Definition ex_items : list (item N) := [IFile 0; IFile 1; IErr 0%nat; IFile 2; IFile 3; IFile 4].
Definition ex_final : state N N :=
  run_schedule N N ex_results paths_channel_capacity main_keeps_paths_receiver (fun f => if N.eqb f 3 then CFail else COk)
               (picks 2024 (measure N N ex_results (init N N 3 ex_items))) (init N N 3 ex_items).
Example c18_nonvacuous :
  terminal N N ex_final = true /\ aborted N N ex_final = false /\
  mseq (infos N N (printed N N ex_final)) [(0,1);(0,2);(2,7);(4,5);(4,5)] = true /\
  g_failed N N ex_final = [3] /\ length (errs N N (printed N N ex_final)) = 2%nat.
Proof. vm_compute. repeat split. Qed.
