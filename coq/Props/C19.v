(* C19 - the C API reports errors as codes and per-thread messages: property
   theorems only.  The table [paths_of] (return paths of every exported yrx_*
   function with result code and last-error effect), the YRX_RESULT variants,
   [last_error_storage] and [set_conversion] are regenerated from capi/src on
   every run (translate/gen_capi.py), so each theorem is re-checked against the
   current source.  Parity with the Rust API is a differential statement
   (harness/src/bin/c19.rs, Capi/CapiCheck.v). *)
From Coq Require Import List NArith Bool.
From Coq Require Import String.
From YV Require Import Gen.CapiEffects Capi.LastError Capi.Flags Capi.Values Capi.Pending Capi.LastErrorProofs.
Import ListNotations.
Local Open Scope N_scope.

(* For every history of calls on arbitrary threads (any function, any return
   path, any message): a call on thread A leaves the slot of every other thread
   B unchanged, and B's slot after the whole history is what B's own calls
   alone would have produced. *)
Theorem thread_isolation :
  (forall (h : list call) (s : slots) (c : call) (b : tid),
      b <> c_tid c -> run s (h ++ [c]) b = run s h b) /\
  (forall (h : list call) (s : slots) (b : tid), run s h b = run s (own b h) b).
Proof. exact thread_isolation_lemma. Qed.
Print Assumptions thread_isolation.

(* a message read on thread t was produced by a failing call of thread t
   itself (or was there initially): never another thread's message *)
Theorem message_provenance : forall (h : list call) (s : slots) (t : tid) (m : msg),
  run s h t = Some m ->
  s t = Some m \/ exists c, In c h /\ c_tid c = t /\ snd (c_path c) = SetSome /\ c_msg c = m.
Proof. exact message_provenance_lemma. Qed.
Print Assumptions message_provenance.

(* every return path of every exported function yields a YRX_RESULT variant
   (functions declared to return YRX_RESULT) or is a non-result function
   (destructors, getters); no function is without return path *)
Theorem codes_total : forall f : fn,
  paths_of f <> [] /\
  forall p, In p (paths_of f) ->
    if returns_result f then exists c, fst p = RCode c /\ In c all_codes else fst p = ROther.
Proof. exact codes_total_lemma. Qed.
Print Assumptions codes_total.

(* every return path with a code that carries detail (syntax, variable, scan,
   timeout, invalid UTF-8, serialization errors) sets the message ... *)
Theorem failure_with_detail_sets : forall (f : fn) (c : code) (e : eff),
  In (RCode c, e) (paths_of f) -> carries_detail c = true -> e = SetSome.
Proof. exact failure_with_detail_lemma. Qed.
Print Assumptions failure_with_detail_sets.

(* ... so after such a call, in any state, the calling thread's slot holds the
   message of that call *)
Theorem failure_slot : forall (s : slots) (cl : call) (c : code),
  admissible cl = true -> fst (c_path cl) = RCode c -> carries_detail c = true ->
  step s cl (c_tid cl) = Some (c_msg cl).
Proof. exact failure_slot_lemma. Qed.
Print Assumptions failure_slot.

(* _yrx_set_last_error converts with CString::new(..).unwrap(): total on
   messages without interior NUL (whether a NUL can reach a message is examined
   by the harness) *)
Theorem set_message_total : forall m : list N,
  forallb (fun b => negb (N.eqb b 0)) m = true -> to_cstring set_conversion m = Some m.
Proof. exact to_cstring_total_lemma. Qed.
Print Assumptions set_message_total.

(* every flag that _yrx_compiler_create tests switches the compiler option it
   is named after (YRX_ERROR_ON_SLOW_LOOP -> error_on_slow_loop(true),
   YRX_DISABLE_INCLUDES -> enable_includes(false), ...); every flag constant
   is tested; the flags are distinct single bits; yrx_compiler_build re-creates
   the compiler with the stored flags (finite fact over the generated table) *)
Theorem compiler_flags_named_identically :
  (forall c v m a, In (c, v, m, a) compiler_flags -> expected_method c = Some (m, a)) /\
  flags_table_ok = true.
Proof. split; [exact flags_named_lemma|exact flags_table_ok_now]. Qed.
Print Assumptions compiler_flags_named_identically.

(* value plumbing, over the tables generated from capi/src (finite facts):
   identifiers / namespaces: pointer and length of the same accessor; YRX_MATCH
   offset/length = range().start / range().len(); every yara_x::MetaValue variant
   is handled once, with its own declared tag, the union member named after the
   tag and its payload unchanged, and a string containing NUL (which cannot be a
   C string) is routed to the bytes representation by the one guarded arm; buffers take pointer and length from the same
   vector; the scan callbacks run over matching_rules(), the iterators over the
   rule's own metadata / patterns / tags / matches; the ten global setters pass
   a value of the type in their name to set_global / define_global unchanged; the
   simple setters pass their argument on unchanged and yrx_scanner_set_timeout
   converts it with the Duration constructor of the unit the header documents
   (seconds -> Duration::from_secs) *)
Theorem value_plumbing_ok :
  out_params_ok = true /\ structs_ok = true /\ buffers_ok = true /\ loops_ok = true /\
  c_strings_ok = true /\ meta_ok = true /\ setters_ok = true /\ inner_calls_ok = true.
Proof. exact values_parts. Qed.
Print Assumptions value_plumbing_ok.

Theorem match_offset_length_from_range : forall f e,
  In ("yrx_pattern_iter_matches", "YRX_MATCH", f, e)%string struct_fields ->
  (f = "offset" /\ e = "m.range().start")%string \/ (f = "length" /\ e = "m.range().len()")%string.
Proof. exact match_fields_lemma. Qed.
Print Assumptions match_offset_length_from_range.

Theorem metadata_variants_tagged : forall v tag mem payload,
  In (v, tag, mem, payload) meta_arms ->
  In (v, tag, payload) expected_meta /\ member_of_tag tag = Some mem.
Proof. exact meta_arms_lemma. Qed.
Print Assumptions metadata_variants_tagged.

(* pending per-scan inputs: by the operations the wrappers perform on the stored
   module data (generated table), yrx_scanner_scan and yrx_scanner_scan_file hand
   it to the module and drain it, the block API does neither; hence after any
   whole-buffer scanning call nothing is pending, and for every history a scan
   that follows another one without a set_module_data in between sees no data *)
Theorem scan_consumes_module_data :
  pending_table_ok = true /\
  (forall s k, whole_buffer k = true -> p_data (scan_next s k) = None) /\
  (forall h1 k1 h2 k2 s,
     whole_buffer k1 = true -> whole_buffer k2 = true ->
     forallb (fun st => negb (sets_data st)) h2 = true ->
     snd (fst (scan_obs (prun (scan_next (prun s h1) k1) h2) k2)) = 0%N).
Proof.
  split; [exact pending_table_ok_now|]. split; [exact scan_consumes_data_lemma|].
  intros. now apply no_stale_data_lemma.
Qed.
Print Assumptions scan_consumes_module_data.

(* YRX_INVALID_STATE is a return path of exactly the functions for which the
   header documents it (yrx_scanner_scan / _scan_file as standard scans of a block
   scanner, set_module_output, set_module_data): a state guard in any other
   wrapper - e.g. a setter refusing block mode - breaks this *)
Theorem state_guards_as_documented : forall f : fn,
  has_invalid_state f = true <-> In (fn_name f) documented_invalid_state.
Proof. exact state_guards_lemma. Qed.
Print Assumptions state_guards_as_documented.

Example pending_nonvacuous :
  preplay (pinit 0%N) [PSetGlob 5 true; PSetData 1 true; PSetOut 7 true; PScanStep KScanFile false 1 7 5;
                       PScanStep KScan false 0 0 5; PSetData 2 true; PScanStep KScanBlock false 0 0 5;
                       PSetData 1 false; PSetGlob 2 true; PScanStep KFinish false 0 0 2; PScanStep KScan true 0 0 0] = true.
Proof. vm_compute. reflexivity. Qed.

(* non-vacuity: an admissible two-thread history in which thread 0 fails to
   compile, thread 1 succeeds, thread 0 reads its message *)
Example c19_nonvacuous :
  let h := [mkCall 0 F_yrx_compile (RCode YRX_SYNTAX_ERROR, SetSome) 7;
            mkCall 1 F_yrx_compile (RCode YRX_SUCCESS, SetNone) 0;
            mkCall 0 F_yrx_last_error (ROther, Unchanged) 0] in
  forallb admissible h = true /\ run empty_slots h 0 = Some 7 /\ run empty_slots h 1 = None.
Proof. vm_compute. repeat split. Qed.
