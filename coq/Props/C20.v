(* C20 - suggested fixes can be applied together and equivalent rewrites keep
   meaning: property theorems only (closed by [exact]; statements pinned here).

   What is proved: (1) the patch application of `yr fix warnings`
   (cli/src/commands/fix.rs, modelled in Fix/Patch.v with the sort / truncate
   facts regenerated from the source, Gen/FixApply.v) applies sorted, pairwise
   disjoint, in-bounds patches exactly as the reference [splice] says; it does
   NOT protect the file against overlapping patches ([apply_never_damages] is
   refuted, with the patches the compiler produces for `pe.is_pe == 1 == 1`);
   (2) the text literal offered for a hex pattern is read back by the
   tokenizer + string_lit as one literal with exactly the original bytes.
   Evaluated on the implementation by the harness (not proved): ranges on token
   boundaries, pairwise disjointness of the patches of one compilation, the
   fixed text recompiles without the fixed diagnostics and scans like the
   original.  The semantic equivalences of the individual rewrites (bool == 0/1,
   `0 of` -> `none of`, merged jumps) are compared by scanning, not proved
   here (DESIGN.md section 4 lists Fix/Rewrites.v; not built). *)
From Coq Require Import List NArith Bool Arith Permutation.
From YV Require Import Gen.FixApply Fix.Patch Fix.PatchProofs Fix.Escape Fix.EscapeProofs.
Import ListNotations.

Theorem apply_spec : forall ps s,
  sorted ps -> disjoint ps -> in_bounds ps s -> apply ps s = Ok (splice ps s).
Proof. exact PatchProofs.apply_spec. Qed.
Print Assumptions apply_spec.

(* patches arrive in warning order, not sorted: what matters is that the
   vector as sorted by fix.rs is a chain *)
Theorem apply_spec_sorted : forall ps s,
  chain 0 (sort_patches ps) -> in_bounds ps s -> apply ps s = Ok (splice (sort_patches ps) s).
Proof. exact PatchProofs.apply_spec_sorted. Qed.
Print Assumptions apply_spec_sorted.

Theorem sort_patches_perm : forall ps, Permutation (sort_patches ps) ps.
Proof. exact PatchProofs.sort_patches_perm. Qed.
Print Assumptions sort_patches_perm.

(* "the tool never damages the file it rewrites"
     forall ps s, Forall wf ps -> in_bounds ps s -> exists out, apply ps s = Ok out
   depends on what cli/src/commands/fix.rs does with overlapping patches, a fact
   re-read from the source on every run (Gen/FixApply.v):
   - without the guard that skips them it is FALSE: refuted by a concrete pair
     of overlapping, well-formed, in-bounds patches (those of
     `pe.is_pe == 1 == 1`; replayed on `yr fix warnings` by the harness), and
     with the file truncated before the loop the file is left damaged;
   - with the guard it holds for every patch list and text, and the result is
     the reference splice of the patches that are kept. *)
Theorem apply_never_damages_refuted : skips_overlapping = false ->
  ~ (forall ps s, Forall wf ps -> in_bounds ps s -> exists out, apply ps s = Ok out).
Proof. exact PatchProofs.apply_never_damages_refuted. Qed.
Print Assumptions apply_never_damages_refuted.

Theorem overlap_damages_file :
  sorts_by_start = true -> truncates_before_writing = true -> skips_overlapping = false ->
  apply witness_patches witness_text = Damaged (repeat 7%N 66 ++ [1]%N).
Proof. exact PatchProofs.overlap_damages_file. Qed.
Print Assumptions overlap_damages_file.

Theorem apply_never_damages_repaired : skips_overlapping = true ->
  forall ps s, Forall wf ps -> in_bounds ps s -> exists out, apply ps s = Ok out.
Proof. exact PatchProofs.apply_never_damages_repaired. Qed.
Print Assumptions apply_never_damages_repaired.

Theorem apply_skips_spec : skips_overlapping = true -> forall ps s,
  apply ps s = Ok (splice (keep 0 (length s) (sort_patches ps)) s).
Proof. exact PatchProofs.apply_skips_spec. Qed.
Print Assumptions apply_skips_spec.

(* whichever version: disjoint patches are never refused *)
Theorem apply_never_damages_disjoint : forall ps s,
  chain 0 (sort_patches ps) -> in_bounds ps s -> exists out, apply ps s = Ok out.
Proof. exact PatchProofs.apply_never_damages_disjoint. Qed.
Print Assumptions apply_never_damages_disjoint.

(* The command on a file that was named several times, each time written
   differently: one read-patch-write round per key of its map of patches.
   While the key is the path as written, the specification is refuted (the
   second round applies stale spans); with one round per file it holds. *)
Theorem yr_file_twice_refuted : groups_by_path_as_given = true ->
  ~ (forall n ps s, 1 <= n -> chain 0 (sort_patches ps) -> in_bounds ps s ->
     yr_file n ps s = Ok (splice (sort_patches ps) s)).
Proof. exact PatchProofs.yr_file_twice_refuted. Qed.
Print Assumptions yr_file_twice_refuted.

Theorem yr_file_once : groups_by_path_as_given = false ->
  forall n ps s, 1 <= n -> chain 0 (sort_patches ps) -> in_bounds ps s ->
  yr_file n ps s = Ok (splice (sort_patches ps) s).
Proof. exact PatchProofs.yr_file_once. Qed.
Print Assumptions yr_file_once.

Theorem yr_file_named_once : forall ps s,
  chain 0 (sort_patches ps) -> in_bounds ps s ->
  yr_file 1 ps s = Ok (splice (sort_patches ps) s).
Proof. exact PatchProofs.yr_file_named_once. Qed.
Print Assumptions yr_file_named_once.

(* which of the two holds non-vacuously for the current source *)
Eval vm_compute in (sorts_by_start, truncates_before_writing, skips_overlapping, groups_by_path_as_given).

(* hex pattern -> text literal: read back as ONE literal with the same bytes *)
Theorem read_escape : forall bs rest, read_literal (escape bs ++ rest) = Some (bs, rest).
Proof. exact EscapeProofs.read_escape. Qed.
Print Assumptions read_escape.

Theorem unescape_escape : forall bs, guard bs = true -> read_literal (escape bs) = Some (bs, []).
Proof. exact EscapeProofs.unescape_escape. Qed.
Print Assumptions unescape_escape.

Check PatchProofs.apply_spec_example.
Check EscapeProofs.escape_example.
Check EscapeProofs.table_ok_holds.
