(* Model of models.rs `Matches` (the iterator returned by Pattern::matches()):
   definitions only.  The iterator is a pair (ctx : Option<&ScanContext>,
   iterator : Option<slice::Iter<Match>>).

     fn next(&mut self) -> Option<Match> {
         let iter = self.iterator.as_mut()?;
         Some(Match { ctx: self.ctx?, inner: iter.next()? })   // fields evaluated in order
     }
     fn len(&self) -> usize { self.iterator.as_ref().map_or(0, |it| it.len()) }

   The two booleans (whether next() needs the context, whether the constructor
   derives the inner iterator from the context) are regenerated from the source
   (Gen/TrackingGen.v). *)
From Coq Require Import List Bool Arith.
Import ListNotations.

Section Model.
  Context {C M : Type}.

  Record miter := mkM { m_ctx : option C; m_it : option (list M) }.

  Definition m_len (it : miter) : nat :=
    match m_it it with Some l => length l | None => 0 end.

  Definition has_ctx (it : miter) : bool :=
    match m_ctx it with Some _ => true | None => false end.

  Definition m_next (needs_ctx : bool) (it : miter) : option M * miter :=
    match m_it it with
    | None => (None, it)
    | Some l =>
      if needs_ctx && negb (has_ctx it) then (None, it)      (* `self.ctx?` before `iter.next()?` *)
      else match l with
           | [] => (None, it)
           | x :: l' => (Some x, mkM (m_ctx it) (Some l'))
           end
    end.

  (* Pattern::matches(): `iterator: self.ctx.and_then(|ctx| ...get(pattern_id).map(|m| m.iter()))`
     when [from_ctx]; otherwise an inner iterator of unknown origin. *)
  Definition mk_matches (from_ctx : bool) (ctx : option C)
             (lookup : C -> option (list M)) (detached : option (list M)) : miter :=
    mkM ctx (if from_ctx then match ctx with Some c => lookup c | None => None end else detached).

  (* the state after k calls of next() *)
  Fixpoint m_after (needs_ctx : bool) (k : nat) (it : miter) : miter :=
    match k with 0 => it | S k' => m_after needs_ctx k' (snd (m_next needs_ctx it)) end.

  (* everything the iterator still yields *)
  Fixpoint m_drain (needs_ctx : bool) (fuel : nat) (it : miter) : list M :=
    match fuel with
    | 0 => []
    | S f => match m_next needs_ctx it with
             | (Some x, it') => x :: m_drain needs_ctx f it'
             | (None, _) => []
             end
    end.

  (* the invariant that justifies len(): an inner iterator exists only with a context *)
  Definition m_wf (needs_ctx : bool) (it : miter) : Prop :=
    needs_ctx = true -> m_ctx it = None -> m_it it = None.
End Model.
Arguments miter : clear implicits.
