(* Proofs about the model of models.rs `Matches` (Scanner/MatchesIter.v). *)
From Coq Require Import List Bool Arith Lia.
From YV Require Import Scanner.MatchesIter Gen.TrackingGen.
Import ListNotations.

Section Proofs.
  Context {C M : Type}.
  Notation miter := (miter C M).

  (* the constructor as the source writes it establishes the invariant *)
  Lemma mk_wf (b : bool) (ctx : option C) lookup detached :
    m_wf b (mk_matches (M:=M) true ctx lookup detached).
  Proof. unfold m_wf, mk_matches; cbn [m_ctx m_it]; intros _ H; rewrite H; reflexivity. Qed.

  Lemma next_wf (b : bool) (it : miter) : m_wf b it -> m_wf b (snd (m_next b it)).
  Proof.
    unfold m_wf, m_next; intros H Hb Hc.
    destruct (m_it it) as [l|] eqn:Hl; cbn [snd] in *; [|exact Hl].
    destruct (b && negb (has_ctx it)); cbn [snd] in *; [specialize (H Hb Hc); discriminate|].
    destruct l as [|x l']; cbn [snd m_ctx m_it] in *; specialize (H Hb Hc); discriminate.
  Qed.

  (* one call of next(): either an item and the length drops by one, or the
     announced length was 0 and the iterator is unchanged *)
  Lemma next_step (b : bool) (it : miter) :
    m_wf b it ->
    match m_next b it with
    | (Some x, it') => m_len it = S (m_len it') /\ m_ctx it' = m_ctx it /\
                       exists l', m_it it = Some (x :: l') /\ m_it it' = Some l'
    | (None, it') => m_len it = 0 /\ it' = it
    end.
  Proof.
    unfold m_wf, m_next, m_len, has_ctx; intros H.
    destruct (m_it it) as [l|] eqn:Hl; [|split; reflexivity].
    destruct b; cbn [andb].
    - destruct (m_ctx it) as [c|] eqn:Hc; cbn [negb].
      + destruct l as [|x l']; cbn [m_it m_ctx length]; [split; reflexivity|].
        split; [reflexivity|]. split; [reflexivity|]. exists l'; split; reflexivity.
      + specialize (H eq_refl eq_refl); discriminate.
    - destruct l as [|x l']; cbn [m_it m_ctx length]; [split; reflexivity|].
      split; [reflexivity|]. split; [reflexivity|]. exists l'; split; reflexivity.
  Qed.

  Lemma after_wf (b : bool) (k : nat) (it : miter) : m_wf b it -> m_wf b (m_after b k it).
  Proof.
    revert it; induction k as [|k IH]; intros it H; cbn [m_after]; [exact H|].
    apply IH, next_wf, H.
  Qed.

  (* draining yields exactly the announced number of items: the inner list *)
  Lemma drain_spec (b : bool) (fuel : nat) (it : miter) :
    m_wf b it -> m_len it <= fuel ->
    m_drain b fuel it = match m_it it with Some l => l | None => [] end.
  Proof.
    revert it; induction fuel as [|f IH]; intros it H Hf.
    - unfold m_len in Hf; cbn [m_drain]. destruct (m_it it) as [[|x l]|]; cbn [length] in Hf; try reflexivity; lia.
    - cbn [m_drain]. pose proof (next_step b it H) as Hs. pose proof (next_wf b it H) as Hw.
      destruct (m_next b it) as [[x|] it']; cbn [snd] in Hw.
      + destruct Hs as (Hlen & _ & l' & Hit & Hit'). rewrite Hit.
        rewrite (IH it' Hw) by lia. rewrite Hit'; reflexivity.
      + destruct Hs as [Hlen _]. unfold m_len in Hlen.
        destruct (m_it it) as [[|x l]|]; cbn [length] in Hlen; try reflexivity; discriminate.
  Qed.

  Lemma drain_length (b : bool) (fuel : nat) (it : miter) :
    m_wf b it -> m_len it <= fuel -> length (m_drain b fuel it) = m_len it.
  Proof. intros H Hf; rewrite (drain_spec b fuel it H Hf); unfold m_len; destruct (m_it it); reflexivity. Qed.

  (* THE statement: for the iterator Pattern::matches() builds (generated
     constructor shape, generated next() shape), at every point k of an
     iteration, len() is exactly the number of items still yielded, the items
     are the pattern's match list from position k on, and one more next()
     obeys the step contract. *)
  Theorem matches_len_exact (ctx : option C) (lookup : C -> option (list M)) detached (k fuel : nat) :
    let it0 := mk_matches matches_iter_from_ctx ctx lookup detached in
    let it := m_after matches_next_needs_ctx k it0 in
    let all := match ctx with Some c => match lookup c with Some l => l | None => [] end | None => [] end in
    m_len it <= fuel ->
    length (m_drain matches_next_needs_ctx fuel it) = m_len it /\
    m_drain matches_next_needs_ctx fuel it = skipn k all /\
    match m_next matches_next_needs_ctx it with
    | (Some _, it') => m_len it = S (m_len it')
    | (None, it') => m_len it = 0 /\ it' = it
    end.
  Proof.
    intros it0 it all Hf.
    assert (Hw0 : m_wf matches_next_needs_ctx it0) by apply mk_wf.
    assert (Hw : m_wf matches_next_needs_ctx it) by (apply after_wf, Hw0).
    split; [apply drain_length; assumption|]. split.
    - rewrite (drain_spec _ fuel it Hw Hf).
      assert (H0 : match m_it it0 with Some l => l | None => [] end = all).
      { subst it0 all; unfold mk_matches, matches_iter_from_ctx; cbn [m_it]. destruct ctx; reflexivity. }
      rewrite <- H0. subst it. clear Hf Hw H0 all. revert Hw0. generalize it0 as i. clear it0.
      induction k as [|k IH]; intros i Hi; cbn [m_after skipn]; [reflexivity|].
      pose proof (next_step _ i Hi) as Hs. pose proof (next_wf _ i Hi) as Hw.
      destruct (m_next matches_next_needs_ctx i) as [[x|] i']; cbn [snd] in *.
      + destruct Hs as (_ & _ & l' & Hit & Hit'). rewrite (IH i' Hw), Hit, Hit'. reflexivity.
      + destruct Hs as [Hl ->]. rewrite (IH i Hi). unfold m_len in Hl.
        destruct (m_it i) as [[|y l]|]; cbn [length] in Hl; try discriminate; destruct k; reflexivity.
    - pose proof (next_step _ it Hw) as Hs.
      destruct (m_next matches_next_needs_ctx it) as [[x|] it']; [tauto|exact Hs].
  Qed.

  (* the invariant is needed: an iterator holding matches without a context
     announces 1 item and yields none *)
  Lemma matches_without_ctx_refuted (x : M) :
    let it := mkM (C:=C) None (Some [x]) in
    m_len it = 1 /\ m_drain true 5 it = [].
  Proof. split; reflexivity. Qed.
End Proofs.

(* non-vacuity: a pattern with three matches, after one next() *)
Example matches_len_example :
  let it := m_after matches_next_needs_ctx 1 (mk_matches matches_iter_from_ctx (Some tt) (fun _ => Some [10; 20; 30]) None) in
  m_len it = 2 /\ m_drain matches_next_needs_ctx 9 it = [20; 30].
Proof. split; reflexivity. Qed.
