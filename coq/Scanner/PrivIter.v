(* Model of the three "private-aware" ExactSizeIterators of yara-x:
   scanner::MatchingRules, scanner::NonMatchingRules (lib/src/scanner/mod.rs)
   and models::Patterns (lib/src/models.rs).  They share one shape:

     next():  loop { x = inner.next()?;
                     if priv(x) { len_private -= 1 } else { len_non_private -= 1 }
                     if include_private || !priv(x) { return Some(x) } }
     len():   if include_private { len_non_private + len_private } else { len_non_private }

   The counters are `usize`; a decrement below zero panics in the dev profile
   (and wraps in release), which the model makes explicit with [Panic]. *)
From Coq Require Import List ZArith Bool Lia.
Import ListNotations.
Local Open Scope Z_scope.

Section PrivIter.
  Variable A : Type.
  Variable priv : A -> bool.

  Record iter := mkIter {
    rem   : list A;      (* what the inner iterator still holds *)
    l_np  : Z;           (* len_non_private *)
    l_p   : Z;           (* len_private *)
    incl  : bool }.      (* include_private *)

  Definition it_len (it : iter) : Z :=
    if incl it then l_np it + l_p it else l_np it.

  Definition include_private (it : iter) (yes : bool) : iter :=
    mkIter (rem it) (l_np it) (l_p it) yes.

  Inductive step_result :=
  | Exhausted (it : iter)
  | Yield (x : A) (it : iter)
  | Panic.

  Fixpoint next_loop (l : list A) (np p : Z) (inc : bool) : step_result :=
    match l with
    | [] => Exhausted (mkIter [] np p inc)
    | x :: l' =>
        if priv x then
          if p <=? 0 then Panic
          else if inc then Yield x (mkIter l' np (p - 1) inc)
               else next_loop l' np (p - 1) inc
        else
          if np <=? 0 then Panic
          else Yield x (mkIter l' (np - 1) p inc)
    end.

  Definition it_next (it : iter) : step_result :=
    next_loop (rem it) (l_np it) (l_p it) (incl it).

  (* What the iterator is still going to yield. *)
  Definition pending (it : iter) : list A :=
    filter (fun x => incl it || negb (priv x)) (rem it).

  Fixpoint countp (l : list A) : Z :=
    match l with
    | [] => 0
    | x :: l' => (if priv x then 1 else 0) + countp l'
    end.

  Definition Inv (it : iter) : Prop :=
    l_p it = countp (rem it) /\ l_np it = Z.of_nat (length (rem it)) - countp (rem it).

  (* Observable trace: (len() before the call, item) for every next() until
     exhaustion, then the final len().  [None] = a panic happened. *)
  Fixpoint drain_loop (fuel : nat) (it : iter) : option (list (Z * A) * Z) :=
    match fuel with
    | O => None
    | S f =>
        match it_next it with
        | Panic => None
        | Exhausted it' => Some ([], it_len it')
        | Yield x it' =>
            match drain_loop f it' with
            | None => None
            | Some (tr, fin) => Some ((it_len it, x) :: tr, fin)
            end
        end
    end.
  Definition drain (it : iter) := drain_loop (S (length (rem it))) it.

  (* The same with include_private set before every len()/next() following a
     schedule (then left as it is). *)
  Fixpoint drain_sched (fuel : nat) (it : iter) (sched : list bool) : option (list (Z * A) * Z) :=
    match fuel with
    | O => None
    | S f =>
        let it1 := match sched with b :: _ => include_private it b | [] => it end in
        match it_next it1 with
        | Panic => None
        | Exhausted it' => Some ([], it_len it')
        | Yield x it' =>
            match drain_sched f it' (tl sched) with
            | None => None
            | Some (tr, fin) => Some ((it_len it1, x) :: tr, fin)
            end
        end
    end.

  (* Specification of the trace for an exact-size iterator over [l]. *)
  Fixpoint countdown (l : list A) : list (Z * A) :=
    match l with
    | [] => []
    | x :: l' => (Z.of_nat (length l), x) :: countdown l'
    end.
End PrivIter.

Arguments mkIter {A}.
Arguments rem {A}. Arguments l_np {A}. Arguments l_p {A}. Arguments incl {A}.
Arguments it_len {A}. Arguments it_next {A}. Arguments include_private {A}.
Arguments Exhausted {A}. Arguments Yield {A}. Arguments Panic {A}.
Arguments pending {A}. Arguments countp {A}. Arguments Inv {A}.
Arguments drain {A}. Arguments drain_sched {A}. Arguments drain_loop {A}. Arguments countdown {A}. Arguments next_loop {A}.
