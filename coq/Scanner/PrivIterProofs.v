From Coq Require Import List ZArith Bool Lia.
From YV Require Import Scanner.PrivIter.
Import ListNotations.
Local Open Scope Z_scope.

Section Proofs.
  Variable A : Type.
  Variable priv : A -> bool.
  Notation iter := (@iter A).

  Lemma countp_bounds (l : list A) : 0 <= countp priv l <= Z.of_nat (length l).
  Proof. induction l as [|x l IH]; cbn [countp length]; [lia|]. destruct (priv x); lia. Qed.

  Lemma countp_app (l1 l2 : list A) : countp priv (l1 ++ l2) = countp priv l1 + countp priv l2.
  Proof. induction l1 as [|x l1 IH]; cbn [countp app]; [lia|]. rewrite IH; lia. Qed.

  Lemma pending_length (it : iter) :
    Inv priv it -> it_len it = Z.of_nat (length (pending priv it)).
  Proof.
    destruct it as [l np p inc]; unfold Inv, it_len, pending; cbn [rem l_np l_p incl].
    intros [Hp Hnp]; subst np p.
    induction l as [|x l IH]; cbn [filter countp length]; [destruct inc; reflexivity|].
    destruct inc; cbn [orb] in *.
    - cbn [length]. lia.
    - destruct (priv x); cbn [negb length]; lia.
  Qed.

  (* One call of next(): never panics, yields the head of [pending], keeps Inv. *)
  Lemma next_spec (it : iter) :
    Inv priv it ->
    match it_next priv it with
    | Panic => False
    | Exhausted it' => pending priv it = [] /\ Inv priv it' /\ rem it' = [] /\ incl it' = incl it
    | Yield x it' => pending priv it = x :: pending priv it' /\ Inv priv it' /\ incl it' = incl it
                     /\ (length (rem it') < length (rem it))%nat
    end.
  Proof.
    destruct it as [l np p inc]; unfold Inv, it_next, pending; cbn [rem l_np l_p incl].
    intros [Hp Hnp]; subst np p.
    induction l as [|x l IH]; cbn [next_loop filter countp length].
    - cbn [rem incl l_p l_np countp length]. repeat split; reflexivity.
    - pose proof (countp_bounds l) as Hb.
      destruct (priv x) eqn:Hx; cbn [negb].
      + destruct (Z.leb_spec (1 + countp priv l) 0) as [Hle|Hgt]; [lia|].
        destruct inc; cbn [orb].
        * cbn [rem incl l_p l_np]. repeat split; try reflexivity; try lia; try (cbn [length]; lia).
        * cbn [orb] in IH.
          replace (1 + countp priv l - 1) with (countp priv l) by lia.
          replace (Z.of_nat (S (length l)) - (1 + countp priv l))
            with (Z.of_nat (length l) - countp priv l) by lia.
          destruct (next_loop priv l _ _ false) as [it'|y it'|]; [exact IH| |exact IH].
          destruct IH as (H1 & H2 & H3 & H4). repeat split; try assumption; try apply H2. lia.
      + rewrite orb_true_r.
        destruct (Z.leb_spec (Z.of_nat (S (length l)) - (0 + countp priv l)) 0) as [Hle|Hgt]; [lia|].
        cbn [rem incl l_p l_np]. repeat split; try reflexivity; try lia; try (cbn [length]; lia).
  Qed.

  Lemma drain_loop_spec (fuel : nat) (it : iter) :
    Inv priv it -> (length (rem it) < fuel)%nat ->
    drain_loop priv fuel it = Some (countdown (pending priv it), 0).
  Proof.
    revert it; induction fuel as [|f IH]; intros it HI Hf; [lia|].
    cbn [drain_loop]. pose proof (next_spec it HI) as Hn.
    destruct (it_next priv it) as [it'|x it'|]; [| |contradiction].
    - destruct Hn as (Hp & HI' & Hr & Hi). rewrite Hp; cbn [countdown].
      rewrite (pending_length it' HI'). unfold pending; rewrite Hr; reflexivity.
    - destruct Hn as (Hp & HI' & Hi & Hlt).
      rewrite (IH it' HI') by lia. rewrite Hp; cbn [countdown].
      rewrite (pending_length it HI), Hp. reflexivity.
  Qed.

  (* The exact-size contract, at every point of the iteration. *)
  Theorem drain_exact (it : iter) :
    Inv priv it -> drain priv it = Some (countdown (pending priv it), 0).
  Proof. intros HI; apply drain_loop_spec; [exact HI|lia]. Qed.

  Lemma include_private_inv (it : iter) b : Inv priv it -> Inv priv (include_private it b).
  Proof. destruct it; unfold Inv; cbn; tauto. Qed.
End Proofs.
