(* ScanResults::{matching_rules, non_matching_rules} and Rule::patterns as
   PrivIter iterators over the model context. *)
From Coq Require Import List NArith ZArith Bool Lia.
From YV Require Import Scanner.PrivIter Scanner.Tracking Gen.TrackingGen.
Import ListNotations.
Local Open Scope Z_scope.

Definition matching_iter (rules : list rule) (c : ctx) : iter nat :=
  mkIter (matching c) (matching_len_np rules c) (matching_len_p rules c) false.

Definition nonmatching_iter (rules : list rule) (c : ctx) : iter nat :=
  mkIter (zeros_from 0 (firstn (length rules) (bitmap c)))
         (nonmatching_len_np rules c) (nonmatching_len_p rules c) false.

(* Rule::patterns(): patterns in declaration order, each with its private flag;
   RuleInfo::num_private_patterns is the number of private ones. *)
Fixpoint index_from {A} (i : nat) (l : list A) : list (nat * A) :=
  match l with [] => [] | x :: t => (i, x) :: index_from (S i) t end.

Definition patterns_iter (pats : list bool) : iter (nat * bool) :=
  let l := index_from 0 pats in
  mkIter l (Z.of_nat (length l) - countp snd l) (countp snd l) false.

Definition scan_rules (rules : list rule) (verdict : nat -> list bool -> bool) : ctx :=
  scan no_match_always rules verdict.
