(* The iterators built by ScanResults / Rule with the generated length
   formulas satisfy the PrivIter invariant after every scan. *)
From Coq Require Import List NArith ZArith Bool Lia Permutation.
From YV Require Import Scanner.PrivIter Scanner.PrivIterProofs Scanner.Tracking
  Gen.TrackingGen Scanner.Results Scanner.TrackingProofs.
Import ListNotations.
Local Open Scope Z_scope.

Section R.
  Variable rules : list rule.
  Variable verdict : nat -> list bool -> bool.
  Notation P := (is_priv rules).
  Notation c := (scan_rules rules verdict).

  Lemma firstn_bitmap : firstn (length rules) (bitmap c) = bitmap c.
  Proof.
    destruct (final_facts rules no_match_always verdict) as (_ & H2 & _).
    unfold scan_rules. unfold final in H2. rewrite <- H2. apply firstn_all.
  Qed.

  Theorem matching_iter_inv : Inv P (matching_iter rules c).
  Proof.
    destruct (final_facts rules no_match_always verdict) as (H1 & _).
    unfold final in H1. unfold Inv, matching_iter, matching_len_np, matching_len_p, scan_rules.
    cbn [rem l_p l_np]. rewrite H1. split; reflexivity.
  Qed.

  Theorem nonmatching_iter_inv : Inv P (nonmatching_iter rules c).
  Proof.
    pose proof firstn_bitmap as Hf.
    destruct (final_facts rules no_match_always verdict) as (H1 & H2 & H3 & H4 & H5).
    pose proof (matching_ones_perm rules no_match_always verdict) as Hp.
    unfold final in *. unfold scan_rules in *.
    unfold Inv, nonmatching_iter, nonmatching_len_np, nonmatching_len_p.
    cbn [rem l_p l_np]. rewrite Hf. split; [reflexivity|].
    pose proof (ones_zeros_length (bitmap (scan no_match_always rules verdict)) 0) as Hl.
    rewrite (Permutation_length Hp). lia.
  Qed.

  Theorem rules_partition :
    Permutation (matching c ++ rem (nonmatching_iter rules c)) (seq 0 (length rules)).
  Proof.
    pose proof firstn_bitmap as Hf.
    destruct (final_facts rules no_match_always verdict) as (H1 & H2 & _).
    pose proof (matching_ones_perm rules no_match_always verdict) as Hp.
    unfold final in *. unfold scan_rules in *. unfold nonmatching_iter. cbn [rem]. rewrite Hf.
    eapply Permutation_trans; [apply Permutation_app_tail, Hp|].
    rewrite <- H2. apply ones_zeros_perm.
  Qed.
End R.

Lemma index_from_snd {A} (l : list A) i : map snd (index_from i l) = l.
Proof. revert i; induction l as [|x l IH]; intros i; cbn; [reflexivity|]. rewrite IH; reflexivity. Qed.

Theorem patterns_iter_inv (pats : list bool) : Inv snd (patterns_iter pats).
Proof. unfold Inv, patterns_iter. cbn [rem l_p l_np]. split; reflexivity. Qed.
