(* Model of DataSnippets::get_with_context (lib/src/scanner/mod.rs) and of the
   snippet retention of the block scanner (lib/src/scanner/blocks.rs, the loop
   at the end of Scanner::scan).  Offsets are N (usize; the saturating_add on
   the right edge cannot overflow for slices that exist, see SnippetsProofs). *)
From Coq Require Import List NArith Bool Lia.
Import ListNotations.
Local Open Scope N_scope.

Definition len {A} (l : list A) : N := N.of_nat (length l).

(* <[u8]>::get(start..end) *)
Definition slice (d : list N) (s e : N) : option (list N) :=
  if (s <=? e) && (e <=? len d) then Some (firstn (N.to_nat (e - s)) (skipn (N.to_nat s) d)) else None.

(* usize::saturating_sub is N.sub *)

(* DataSnippets::SingleBlock arm.  Result: (slice with context, (rel_start, rel_end)). *)
Definition get_ctx_single (data : list N) (rs re ctx : N) : option (list N * (N * N)) :=
  let start := rs - ctx in
  let end_ := N.min (re + ctx) (len data) in
  match slice data start end_ with
  | Some sl => Some (sl, (rs - start, re - start))
  | None => None
  end.

(* DataSnippets::MultiBlock: BTreeMap<usize, Vec<u8>> as a list sorted by key,
   ascending.  Candidates: `btree.range(first..=range.start)` ascending, then
   `btree.range(..first).rev()`, with first = range.start.saturating_sub(ctx). *)
Definition snippets := list (N * list N).

Fixpoint get_ctx_multi_loop (cands : list (N * list N)) (rs re ctx : N) : option (list N * (N * N)) :=
  match cands with
  | [] => None
  | (off, sd) :: rest =>
      let start := rs - off in
      let end_ := re - off in
      if len sd <? end_ then get_ctx_multi_loop rest rs re ctx
      else
        let start' := start - ctx in
        let end' := N.min (end_ + ctx) (len sd) in
        match slice sd start' end' with
        | Some (x :: sl) => Some (x :: sl, (rs - (off + start'), re - (off + start')))
        | _ => get_ctx_multi_loop rest rs re ctx
        end
  end.

Definition candidates (sn : snippets) (rs ctx : N) : snippets :=
  let first := rs - ctx in
  filter (fun kv => (first <=? fst kv) && (fst kv <=? rs)) sn
  ++ rev (filter (fun kv => fst kv <? first) sn).

Definition get_ctx_multi (sn : snippets) (rs re ctx : N) : option (list N * (N * N)) :=
  get_ctx_multi_loop (candidates sn rs ctx) rs re ctx.

(* ---- retention: blocks::Scanner::scan, after the pattern search ------------ *)
(* insert into the map keyed by context_start; an existing snippet is replaced
   only by a strictly longer one *)
Fixpoint store (sn : snippets) (k : N) (d : list N) : snippets :=
  match sn with
  | [] => [(k, d)]
  | (k', d') :: t =>
      if k <? k' then (k, d) :: sn
      else if k =? k' then (if len d' <? len d then (k, d) :: t else sn)
      else (k', d') :: store t k d
  end.

(* one match [rs, re) found in the block (base, data) *)
Definition retain (ctx : N) (base : N) (data : list N) (sn : snippets) (m : N * N) : snippets :=
  let '(rs, re) := m in
  let context_start := N.max (rs - ctx) base in
  let context_end := N.min (re + ctx) (base + len data) in
  match slice data (context_start - base) (context_end - base) with
  | Some cd => store sn context_start cd
  | None => sn            (* debug_assert!(false) *)
  end.

Definition retain_block (ctx : N) (sn : snippets) (blk : N * list N * list (N * N)) : snippets :=
  let '(base, data, ms) := blk in fold_left (retain ctx base data) ms sn.

(* all the blocks of a scan, each with the matches found in it *)
Definition retain_all (ctx : N) (blks : list (N * list N * list (N * N))) : snippets :=
  fold_left (retain_block ctx) blks [].

(* ---- specification ---------------------------------------------------------- *)
(* the window a match must be reported with: ctx bytes on each side, clipped
   to the data [lo, hi) it was found in; as absolute offsets *)
Definition window (lo hi rs re ctx : N) : N * N := (N.max (rs - ctx) lo, N.min (re + ctx) hi).
