(* Correspondence cases for the match-data part of C17 (and C14's "bytes
   returned for each match are the bytes of the block"). *)
From Coq Require Import List NArith Bool.
From YV Require Import Scanner.Snippets.
Import ListNotations.
Local Open Scope N_scope.

(* one observed match: range, Match::data, Match::data_with_context *)
Record obs := mkObs { o_rs : N; o_re : N; o_data : list N; o_ctx : list N; o_rel_s : N; o_rel_e : N }.

Record case := mkCase {
  c_ctx    : N;                                  (* match_context_size *)
  c_single : bool;                               (* Scanner::scan (one block at base 0) or blocks::Scanner *)
  c_blocks : list (N * list N);                  (* (base, data); non-overlapping *)
  c_obs    : list obs }.

Fixpoint list_eqb (a b : list N) : bool :=
  match a, b with
  | [], [] => true
  | x :: a', y :: b' => (x =? y) && list_eqb a' b'
  | _, _ => false
  end.

Definition res_eqb (r : option (list N * (N * N))) (sl : list N) (a b : N) : bool :=
  match r with
  | Some (sl', (a', b')) => list_eqb sl' sl && (a' =? a) && (b' =? b)
  | None => false
  end.

(* the block a match was found in: the one containing its start *)
Definition in_block (blk : N * list N) (o : obs) : bool :=
  (fst blk <=? o_rs o) && (o_rs o <? fst blk + len (snd blk)).

Definition blocks_with_matches (k : case) : list (N * list N * list (N * N)) :=
  map (fun blk => (fst blk, snd blk,
                   map (fun o => (o_rs o, o_re o)) (filter (in_block blk) (c_obs k)))) (c_blocks k).

(* K: the model recomputes data and data_with_context for every match *)
Definition check_case (k : case) : bool :=
  if c_single k then
    match c_blocks k with
    | [(_, data)] =>
        forallb (fun o => res_eqb (get_ctx_single data (o_rs o) (o_re o) (c_ctx k)) (o_ctx o) (o_rel_s o) (o_rel_e o)
                          && match get_ctx_single data (o_rs o) (o_re o) 0 with
                             | Some (d, _) => list_eqb d (o_data o) | None => false end) (c_obs k)
    | _ => false
    end
  else
    let sn := retain_all (c_ctx k) (blocks_with_matches k) in
    forallb (fun o => res_eqb (get_ctx_multi sn (o_rs o) (o_re o) (c_ctx k)) (o_ctx o) (o_rel_s o) (o_rel_e o)
                      && match get_ctx_multi sn (o_rs o) (o_re o) 0 with
                         | Some (d, _) => list_eqb d (o_data o) | None => false end) (c_obs k).

(* S on the implementation's output: every match lies inside its block, its
   bytes are the block's bytes at that range, and its context window is
   c_ctx bytes on each side clipped to the block. *)
Definition block_bytes (blk : N * list N) (a b : N) : option (list N) :=
  slice (snd blk) (a - fst blk) (b - fst blk).

Definition obs_ok (ctx : N) (blks : list (N * list N)) (o : obs) : bool :=
  match find (fun blk => in_block blk o) blks with
  | None => false
  | Some blk =>
      let lo := fst blk in let hi := fst blk + len (snd blk) in
      (o_rs o <=? o_re o) && (o_re o <=? hi) &&
      match block_bytes blk (o_rs o) (o_re o) with
      | Some d => list_eqb d (o_data o) | None => false end &&
      let '(ws, we) := window lo hi (o_rs o) (o_re o) ctx in
      match block_bytes blk ws we with
      | Some d => list_eqb d (o_ctx o) | None => false end &&
      (o_rel_s o =? o_rs o - ws) && (o_rel_e o =? o_re o - ws)
  end.

Definition spec_case (k : case) : bool := forallb (obs_ok (c_ctx k) (c_blocks k)) (c_obs k).
