From Coq Require Import List Arith NArith Bool Lia.
From YV Require Import Scanner.Snippets.
Import ListNotations.
Local Open Scope N_scope.

(* ------------------------------------------------------------ slices *)
Lemma len_firstn_skipn (d : list N) (s e : N) :
  s <= e -> e <= len d -> len (firstn (N.to_nat (e - s)) (skipn (N.to_nat s) d)) = e - s.
Proof.
  unfold len. intros H1 H2. rewrite firstn_length, skipn_length. lia.
Qed.

Lemma slice_Some d s e sl : slice d s e = Some sl -> s <= e /\ e <= len d /\ len sl = e - s.
Proof.
  unfold slice. destruct (N.leb_spec s e) as [Ha|Ha]; cbn [andb]; [|discriminate].
  destruct (N.leb_spec e (len d)) as [Hb|Hb]; [|discriminate].
  intros Hx; inversion Hx; subst. repeat split; try assumption. apply len_firstn_skipn; assumption.
Qed.

Lemma slice_ok d s e : s <= e -> e <= len d -> exists sl, slice d s e = Some sl.
Proof.
  intros H1 H2. unfold slice.
  destruct (N.leb_spec s e); [|lia]. destruct (N.leb_spec e (len d)); [|lia].
  cbn [andb]. eexists; reflexivity.
Qed.

Lemma skipn_skipn' {A} (l : list A) a b : skipn a (skipn b l) = skipn (b + a) l.
Proof.
  revert l; induction b as [|b IH]; intros l; cbn [skipn plus]; [reflexivity|].
  destruct l as [|x l]; [destruct a; reflexivity|]. apply IH.
Qed.

Lemma sub_slice_nat {A} (d : list A) (s m a n : nat) :
  (a + n <= m)%nat ->
  firstn n (skipn a (firstn m (skipn s d))) = firstn n (skipn (s + a) d).
Proof.
  intros H. rewrite skipn_firstn_comm, firstn_firstn, skipn_skipn'.
  f_equal. lia.
Qed.

(* a slice of a slice is a slice of the original *)
Lemma slice_slice d s e sl a b :
  slice d s e = Some sl -> a <= b -> b <= e - s ->
  slice sl a b = slice d (s + a) (s + b).
Proof.
  intros Hs Hab Hb. destruct (slice_Some _ _ _ _ Hs) as (H1 & H2 & H3).
  unfold slice in *.
  destruct (N.leb_spec s e); [|lia]. destruct (N.leb_spec e (len d)); [|lia].
  cbn [andb] in Hs. inversion Hs; subst sl; clear Hs.
  destruct (N.leb_spec a b); [|lia]. rewrite H3.
  destruct (N.leb_spec b (e - s)); [|lia].
  destruct (N.leb_spec (s + a) (s + b)); [|lia].
  destruct (N.leb_spec (s + b) (len d)); [|lia]. cbn [andb]. f_equal.
  rewrite sub_slice_nat by lia.
  replace (N.to_nat s + N.to_nat a)%nat with (N.to_nat (s + a)) by lia.
  f_equal. lia.
Qed.

(* ------------------------------------------------------------ single block *)
(* Scanner::scan: the context window is exactly ctx bytes on each side
   clipped to the data, and the relative range points at the match *)
Theorem single_exact (data : list N) (rs re ctx : N) :
  rs <= re -> re <= len data ->
  let '(ws, we) := window 0 (len data) rs re ctx in
  exists sl, get_ctx_single data rs re ctx = Some (sl, (rs - ws, re - ws))
             /\ slice data ws we = Some sl
             /\ slice sl (rs - ws) (re - ws) = slice data rs re.
Proof.
  intros H1 H2. unfold window, get_ctx_single.
  replace (N.max (rs - ctx) 0) with (rs - ctx) by lia.
  destruct (slice_ok data (rs - ctx) (N.min (re + ctx) (len data))) as [sl Hsl]; [lia|lia|].
  rewrite Hsl. exists sl. split; [reflexivity|]. split; [reflexivity|].
  rewrite (slice_slice _ _ _ _ _ _ Hsl) by lia. f_equal; lia.
Qed.

(* ------------------------------------------------------------ multi block *)
(* one candidate snippet (off, sd) evaluated by the loop body *)
Definition try_one (off : N) (sd : list N) (rs re ctx : N) : option (list N * (N * N)) :=
  if len sd <? re - off then None
  else match slice sd (rs - off - ctx) (N.min (re - off + ctx) (len sd)) with
       | Some (x :: sl) => Some (x :: sl, (rs - (off + (rs - off - ctx)), re - (off + (rs - off - ctx))))
       | _ => None
       end.

Lemma loop_cons off sd rest rs re ctx :
  get_ctx_multi_loop ((off, sd) :: rest) rs re ctx =
  match try_one off sd rs re ctx with
  | Some r => Some r
  | None => get_ctx_multi_loop rest rs re ctx
  end.
Proof.
  cbn [get_ctx_multi_loop]. unfold try_one.
  destruct (len sd <? re - off); [reflexivity|].
  destruct (slice sd (rs - off - ctx) (N.min (re - off + ctx) (len sd))) as [[|x sl]|]; reflexivity.
Qed.

(* candidates that cannot contain the match are skipped *)
Lemma loop_skip pre rest rs re ctx :
  Forall (fun kv => len (snd kv) <? re - fst kv = true) pre ->
  get_ctx_multi_loop (pre ++ rest) rs re ctx = get_ctx_multi_loop rest rs re ctx.
Proof.
  induction 1 as [|[k d] pre Hk _ IH]; cbn [app]; [reflexivity|].
  rewrite loop_cons. unfold try_one. cbn [fst snd] in Hk. rewrite Hk. exact IH.
Qed.

(* The snippet stored for the match (key k0 = max(rs - ctx, base), covering at
   least the match's own window inside the block [base, hi)) yields exactly the
   window: ctx bytes on each side clipped to the block. *)
Lemma try_own_exact (base : N) (data : list N) (rs re ctx k0 e0 : N) (d0 : list N) :
  let hi := base + len data in
  base <= rs -> rs < re -> re <= hi ->
  k0 = N.max (rs - ctx) base ->
  N.min (re + ctx) hi <= e0 -> e0 <= hi ->
  slice data (k0 - base) (e0 - base) = Some d0 ->
  let '(ws, we) := window base hi rs re ctx in
  exists sl, try_one k0 d0 rs re ctx = Some (sl, (rs - ws, re - ws))
             /\ slice data (ws - base) (we - base) = Some sl
             /\ slice sl (rs - ws) (re - ws) = slice data (rs - base) (re - base).
Proof.
  intros hi Hb Hlt Hre Hk0 He0 He0' Hd0. unfold window.
  destruct (slice_Some _ _ _ _ Hd0) as (Hs1 & Hs2 & Hlen).
  assert (Hk0le : k0 <= rs) by lia.
  assert (Hk0ge : base <= k0) by lia.
  assert (Hlen' : len d0 = e0 - k0) by lia.
  unfold try_one.
  destruct (N.ltb_spec (len d0) (re - k0)) as [Hc|Hc]; [lia|].
  replace (rs - k0 - ctx) with (N.max (rs - ctx) base - k0) by lia.
  replace (N.max (rs - ctx) base - k0) with 0 by lia.
  set (ee := N.min (re - k0 + ctx) (len d0)).
  assert (Hee : ee = N.min (re + ctx) hi - k0) by (unfold ee; lia).
  destruct (slice_ok d0 0 ee) as [sl Hsl]; [lia|unfold ee; lia|].
  rewrite Hsl.
  destruct (slice_Some _ _ _ _ Hsl) as (_ & _ & Hl).
  destruct sl as [|x sl]; [unfold len in Hl; cbn [length] in Hl; lia|].
  exists (x :: sl). split; [|split].
  - f_equal. f_equal. f_equal; lia.
  - rewrite <- Hsl. rewrite (slice_slice _ _ _ _ 0 ee Hd0) by lia.
    f_equal; lia.
  - rewrite (slice_slice _ _ _ _ _ _ Hsl) by lia.
    rewrite (slice_slice _ _ _ _ _ _ Hd0) by lia. f_equal; lia.
Qed.

Theorem multi_exact (base : N) (data : list N) (sn : snippets) (rs re ctx k0 e0 : N) (d0 : list N) pre post :
  let hi := base + len data in
  base <= rs -> rs < re -> re <= hi ->
  k0 = N.max (rs - ctx) base ->
  N.min (re + ctx) hi <= e0 -> e0 <= hi ->
  slice data (k0 - base) (e0 - base) = Some d0 ->
  candidates sn rs ctx = pre ++ (k0, d0) :: post ->
  Forall (fun kv => len (snd kv) <? re - fst kv = true) pre ->
  let '(ws, we) := window base hi rs re ctx in
  exists sl, get_ctx_multi sn rs re ctx = Some (sl, (rs - ws, re - ws))
             /\ slice data (ws - base) (we - base) = Some sl
             /\ slice sl (rs - ws) (re - ws) = slice data (rs - base) (re - base).
Proof.
  intros hi Hb Hlt Hre Hk0 He0 He0' Hd0 Hc Hpre.
  pose proof (try_own_exact base data rs re ctx k0 e0 d0 Hb Hlt Hre Hk0 He0 He0' Hd0) as H.
  unfold window in *. destruct H as [sl (H1 & H2 & H3)].
  exists sl. split; [|split; assumption].
  unfold get_ctx_multi. rewrite Hc, (loop_skip _ _ _ _ _ Hpre), loop_cons, H1. reflexivity.
Qed.

(* ------------------------------------------------------------ retention *)
Definition keys (sn : snippets) : list N := map fst sn.

Inductive sorted : list N -> Prop :=
| sorted_nil : sorted []
| sorted_one x : sorted [x]
| sorted_cons x y l : x < y -> sorted (y :: l) -> sorted (x :: y :: l).

Lemma sorted_tail x l : sorted (x :: l) -> sorted l.
Proof. intros H; inversion H; subst; [constructor|assumption]. Qed.

Lemma sorted_head_lt x l : sorted (x :: l) -> forall y, In y l -> x < y.
Proof.
  revert x; induction l as [|z l IH]; intros x H y Hy; [contradiction|].
  inversion H; subst. destruct Hy as [->|Hy]; [assumption|].
  specialize (IH z H4 y Hy). lia.
Qed.

Lemma store_keys_head sn k d : forall x, In x (keys (store sn k d)) -> x = k \/ In x (keys sn).
Proof.
  induction sn as [|[k' d'] t IH]; intros x; cbn [store keys map fst In].
  - intros [H|[]]; left; symmetry; exact H.
  - destruct (k <? k'); [cbn [map fst In]; intros [H|H]; [left; symmetry; exact H|right; exact H]|].
    destruct (k =? k') eqn:E.
    + apply N.eqb_eq in E; subst.
      destruct (len d' <? len d); cbn [map fst In]; intros [H|H]; auto.
    + cbn [map fst In]. intros [H|H]; [right; left; exact H|].
      apply IH in H. destruct H as [H|H]; [left; exact H|right; right; exact H].
Qed.

Lemma store_sorted sn k d : sorted (keys sn) -> sorted (keys (store sn k d)).
Proof.
  induction sn as [|[k' d'] t IH]; intros Hs; cbn [store keys map fst]; [constructor|].
  destruct (N.ltb_spec k k') as [Hlt|Hge].
  - cbn [map fst]. constructor; assumption.
  - destruct (N.eqb_spec k k') as [->|Hne].
    + destruct (len d' <? len d); cbn [map fst]; exact Hs.
    + cbn [map fst]. specialize (IH (sorted_tail _ _ Hs)).
      destruct (store t k d) as [|[k2 d2] t2] eqn:Est; [constructor|].
      cbn [map fst keys] in *. constructor; [|exact IH].
      assert (Hin : In k2 (keys (store t k d))) by (rewrite Est; left; reflexivity).
      apply store_keys_head in Hin. destruct Hin as [->|Hin]; [lia|].
      apply (sorted_head_lt _ _ Hs); exact Hin.
Qed.

(* after storing (k, d) there is an entry at k at least as long as d, and
   entries never get shorter *)
Lemma store_has sn k d : exists d', In (k, d') (store sn k d) /\ len d <= len d' /\ (d' = d \/ In (k, d') sn).
Proof.
  induction sn as [|[k' d0] t IH]; cbn [store].
  - exists d. split; [left; reflexivity|]. split; [lia|tauto].
  - destruct (N.ltb_spec k k').
    + exists d. split; [left; reflexivity|]. split; [lia|tauto].
    + destruct (N.eqb_spec k k') as [->|Hne].
      * destruct (N.ltb_spec (len d0) (len d)).
        -- exists d. split; [left; reflexivity|]. split; [lia|tauto].
        -- exists d0. split; [left; reflexivity|]. split; [lia|]. right; left; reflexivity.
      * destruct IH as [d' (H1 & H2 & H3)]. exists d'. split; [right; exact H1|]. split; [exact H2|].
        destruct H3; [tauto|]. right; right; assumption.
Qed.

Lemma store_mono sn k d k1 d1 :
  In (k1, d1) sn -> exists d1', In (k1, d1') (store sn k d) /\ len d1 <= len d1' /\ (d1' = d1 \/ (k1 = k /\ d1' = d)).
Proof.
  induction sn as [|[k' d0] t IH]; cbn [store]; [contradiction|].
  intros Hin. destruct (N.ltb_spec k k').
  - exists d1. split; [right; exact Hin|]. split; [lia|tauto].
  - destruct (N.eqb_spec k k') as [->|Hne].
    + destruct (N.ltb_spec (len d0) (len d)).
      * destruct Hin as [Hin|Hin].
        -- inversion Hin; subst. exists d. split; [left; reflexivity|]. split; [lia|]. right; split; reflexivity.
        -- exists d1. split; [right; exact Hin|]. split; [lia|tauto].
      * exists d1. split; [exact Hin|]. split; [lia|tauto].
    + destruct Hin as [Hin|Hin].
      * inversion Hin; subst. exists d1. split; [left; reflexivity|]. split; [lia|tauto].
      * destruct (IH Hin) as [d1' (H1 & H2 & H3)]. exists d1'. split; [right; exact H1|]. tauto.
Qed.

(* ------------------------------------------------------------ whole block scans *)
Definition block := (N * list N * list (N * N))%type.      (* base, data, matches found in it *)
Definition b_base (b : block) : N := fst (fst b).
Definition b_data (b : block) : list N := snd (fst b).
Definition b_hi (b : block) : N := b_base b + len (b_data b).
Definition b_matches (b : block) : list (N * N) := snd b.

(* every match lies inside its block and is not empty *)
Definition matches_ok (b : block) : Prop :=
  forall rs re, In (rs, re) (b_matches b) -> b_base b <= rs /\ rs < re /\ re <= b_hi b.

(* a snippet is a view of (part of) a block *)
Definition view_of (b : block) (k : N) (d : list N) : Prop :=
  b_base b <= k /\ slice (b_data b) (k - b_base b) (k - b_base b + len d) = Some d.

Record SInv (ctx : N) (done : list block) (sn : snippets) : Prop := mkSInv {
  SI_sorted : sorted (keys sn);
  SI_view   : forall k d, In (k, d) sn -> exists b, In b done /\ view_of b k d;
  SI_own    : forall b rs re, In b done -> In (rs, re) (b_matches b) ->
              exists d0, In (N.max (rs - ctx) (b_base b), d0) sn /\
                         N.min (re + ctx) (b_hi b) <= N.max (rs - ctx) (b_base b) + len d0 }.

Lemma SInv_init ctx : SInv ctx [] [].
Proof. constructor; [constructor| intros k d []| intros b rs re []]. Qed.

Lemma retain_spec ctx (b : block) (sn : snippets) rs re :
  b_base b <= rs -> rs < re -> re <= b_hi b ->
  let k0 := N.max (rs - ctx) (b_base b) in
  let e0 := N.min (re + ctx) (b_hi b) in
  exists cd, retain ctx (b_base b) (b_data b) sn (rs, re) = store sn k0 cd
             /\ slice (b_data b) (k0 - b_base b) (e0 - b_base b) = Some cd
             /\ len cd = e0 - k0 /\ view_of b k0 cd.
Proof.
  intros H1 H2 H3 k0 e0. unfold b_hi in *.
  destruct (slice_ok (b_data b) (k0 - b_base b) (e0 - b_base b)) as [cd Hcd]; [lia|lia|].
  destruct (slice_Some _ _ _ _ Hcd) as (Ha & Hb & Hc).
  exists cd. split; [|split; [exact Hcd|split; [lia|]]].
  - unfold retain. fold k0. fold e0. rewrite Hcd. reflexivity.
  - split; [lia|]. rewrite <- Hcd. f_equal. lia.
Qed.

(* processing the matches of one block, one at a time *)
Lemma retain_matches_inv ctx (done : list block) (base : N) (data : list N) :
  forall (ms todo : list (N * N)) (sn : snippets),
    (forall rs re, In (rs, re) (ms ++ todo) -> base <= rs /\ rs < re /\ re <= base + len data) ->
    SInv ctx ((base, data, ms) :: done) sn ->
    SInv ctx ((base, data, ms ++ todo) :: done) (fold_left (retain ctx base data) todo sn).
Proof.
  intros ms todo; revert ms; induction todo as [|[rs re] todo IH]; intros ms sn Hok HI.
  - rewrite app_nil_r. exact HI.
  - cbn [fold_left]. replace (ms ++ (rs, re) :: todo) with ((ms ++ [(rs, re)]) ++ todo) in *
      by (rewrite <- app_assoc; reflexivity).
    apply IH; [exact Hok|].
    assert (Hm : base <= rs /\ rs < re /\ re <= base + len data).
    { apply Hok. apply in_or_app; left. apply in_or_app; right; left; reflexivity. }
    destruct Hm as (Hm1 & Hm2 & Hm3).
    set (b := (base, data, ms ++ [(rs, re)]) : block).
    destruct (retain_spec ctx b sn rs re Hm1 Hm2 Hm3) as [cd (Hr & Hsl & Hlen & Hview)].
    change (b_base b) with base in *. change (b_data b) with data in *.
    rewrite Hr. destruct HI as [HS HV HO].
    constructor.
    + apply store_sorted; exact HS.
    + intros k d Hin.
      (* either the freshly stored snippet or an older one *)
      assert (Hcase : (k = N.max (rs - ctx) base /\ d = cd) \/ In (k, d) sn).
      { clear - Hin. induction sn as [|[k' d'] t IHs]; cbn [store] in Hin.
        - destruct Hin as [Hin|[]]; inversion Hin; left; split; reflexivity.
        - destruct (N.max (rs - ctx) base <? k').
          + destruct Hin as [Hin|Hin]; [inversion Hin; left; split; reflexivity|right; exact Hin].
          + destruct (N.max (rs - ctx) base =? k') eqn:E.
            * destruct (len d' <? len cd).
              -- destruct Hin as [Hin|Hin]; [inversion Hin; left; split; reflexivity|right; right; exact Hin].
              -- right; exact Hin.
            * destruct Hin as [Hin|Hin]; [right; left; exact Hin|].
              destruct (IHs Hin) as [H|H]; [left; exact H|right; right; exact H]. }
      destruct Hcase as [[-> ->]|Hold].
      * exists b. split; [left; reflexivity|exact Hview].
      * destruct (HV k d Hold) as [b' [Hb' Hv']]. destruct Hb' as [<-|Hb'].
        -- exists b. split; [left; reflexivity|exact Hv'].
        -- exists b'. split; [right; exact Hb'|exact Hv'].
    + intros b' rs' re' Hb' Hin'.
      assert (Hold : (b' = b /\ (rs', re') = (rs, re)) \/
                     (exists b0, In b0 ((base, data, ms) :: done) /\ In (rs', re') (b_matches b0)
                                 /\ b_base b0 = b_base b' /\ b_hi b0 = b_hi b')).
      { destruct Hb' as [<-|Hb'].
        - unfold b_matches in Hin'. cbn [snd b] in Hin'. apply in_app_or in Hin'.
          destruct Hin' as [Hin'|[Hin'|[]]].
          + right. exists (base, data, ms). split; [left; reflexivity|]. split; [exact Hin'|]. split; reflexivity.
          + left. split; [reflexivity|symmetry; exact Hin'].
        - right. exists b'. split; [right; exact Hb'|]. split; [exact Hin'|]. split; reflexivity. }
      destruct Hold as [[-> Heq]|[b0 (Hb0 & Hin0 & Hbase & Hhi)]].
      * inversion Heq; subst rs' re'. change (b_base b) with base. 
        destruct (store_has sn (N.max (rs - ctx) base) cd) as [d' (H1 & H2 & _)].
        exists d'. split; [exact H1|]. unfold b_hi in *. change (b_base b) with base in *.
        change (b_data b) with data in *. lia.
      * destruct (HO b0 rs' re' Hb0 Hin0) as [d0 (H1 & H2)].
        destruct (store_mono sn (N.max (rs - ctx) base) cd _ _ H1) as [d1 (G1 & G2 & _)].
        exists d1. rewrite <- Hbase, <- Hhi. split; [exact G1|lia].
Qed.

Lemma retain_block_inv ctx done (b : block) sn :
  matches_ok b -> SInv ctx done sn -> SInv ctx (b :: done) (retain_block ctx sn b).
Proof.
  destruct b as [[base data] ms]. intros Hok HI. unfold retain_block.
  apply (retain_matches_inv ctx done base data [] ms sn).
  - intros rs re Hin. apply (Hok rs re Hin).
  - destruct HI as [HS HV HO]. constructor; [exact HS| |].
    + intros k d Hin. destruct (HV k d Hin) as [b' [Hb' Hv']]. exists b'. split; [right; exact Hb'|exact Hv'].
    + intros b' rs re [<-|Hb'] Hin; [destruct Hin|]. apply (HO b' rs re Hb' Hin).
Qed.

Lemma retain_all_inv ctx (blks : list block) :
  Forall matches_ok blks ->
  exists done, SInv ctx done (retain_all ctx blks) /\ (forall b, In b done <-> In b blks).
Proof.
  intros Hok. unfold retain_all.
  assert (G : forall todo done sn, Forall matches_ok todo -> SInv ctx done sn ->
              exists done', SInv ctx done' (fold_left (retain_block ctx) todo sn) /\
                            (forall b, In b done' <-> In b done \/ In b todo)).
  { induction todo as [|b todo IH]; intros done sn Ht HI; cbn [fold_left].
    - exists done. split; [exact HI|]. intros b; cbn [In]; tauto.
    - inversion Ht; subst. destruct (IH (b :: done) _ H2 (retain_block_inv ctx done b sn H1 HI)) as [d' (G1 & G2)].
      exists d'. split; [exact G1|]. intros x. rewrite G2. cbn [In]. tauto. }
  destruct (G blks [] [] Hok (SInv_init ctx)) as [done (G1 & G2)].
  exists done. split; [exact G1|]. intros b. rewrite G2. cbn [In]. tauto.
Qed.

(* ------------------------------------------------------------ the block-mode theorem *)
Definition disjoint_blocks (blks : list block) : Prop :=
  forall b1 b2, In b1 blks -> In b2 blks -> b1 = b2 \/ b_hi b1 <= b_base b2 \/ b_hi b2 <= b_base b1.

Lemma filter_split_sorted (p : N * list N -> bool) (l : snippets) k0 d0 :
  sorted (keys l) -> In (k0, d0) (filter p l) ->
  exists pre post, filter p l = pre ++ (k0, d0) :: post /\
                   forall kv, In kv pre -> In kv l /\ p kv = true /\ fst kv < k0.
Proof.
  induction l as [|[k d] t IH]; intros Hs Hin; cbn [filter] in *; [contradiction|].
  pose proof (sorted_tail _ _ Hs) as Hst.
  destruct (p (k, d)) eqn:Hp.
  - destruct Hin as [Hin|Hin].
    + inversion Hin; subst. exists [], (filter p t). split; [reflexivity|]. intros kv [].
    + destruct (IH Hst Hin) as [pre [post (H1 & H2)]].
      exists ((k, d) :: pre), post. split; [cbn [app]; rewrite H1; reflexivity|].
      intros kv [<-|Hkv].
      * split; [left; reflexivity|]. split; [exact Hp|]. cbn [fst].
        apply (sorted_head_lt k (keys t) Hs). apply filter_In in Hin. destruct Hin as [Hin _].
        change k0 with (fst (k0, d0)). apply in_map. exact Hin.
      * destruct (H2 kv Hkv) as (G1 & G2 & G3). split; [right; exact G1|]. split; assumption.
  - destruct (IH Hst Hin) as [pre [post (H1 & H2)]]. exists pre, post. split; [exact H1|].
    intros kv Hkv. destruct (H2 kv Hkv) as (G1 & G2 & G3). split; [right; exact G1|]. split; assumption.
Qed.

(* Block mode: for every list of pairwise disjoint blocks (any order, gaps
   allowed), every context size and every match of every block, the match is
   reported with exactly `ctx` bytes on each side clipped to ITS block, the
   bytes are the block's bytes, and the relative range points at the match. *)
Theorem blocks_context_exact (ctx : N) (blks : list block) :
  Forall matches_ok blks -> disjoint_blocks blks ->
  forall b rs re, In b blks -> In (rs, re) (b_matches b) ->
  let '(ws, we) := window (b_base b) (b_hi b) rs re ctx in
  exists sl, get_ctx_multi (retain_all ctx blks) rs re ctx = Some (sl, (rs - ws, re - ws))
             /\ slice (b_data b) (ws - b_base b) (we - b_base b) = Some sl
             /\ slice sl (rs - ws) (re - ws) = slice (b_data b) (rs - b_base b) (re - b_base b).
Proof.
  intros Hok Hdis b rs re Hb Hm.
  destruct (retain_all_inv ctx blks Hok) as [done (HI & Hdone)].
  set (sn := retain_all ctx blks) in *.
  destruct HI as [HS HV HO].
  assert (Hmok : b_base b <= rs /\ rs < re /\ re <= b_hi b).
  { rewrite Forall_forall in Hok. apply (Hok b Hb rs re Hm). }
  destruct Hmok as (Hm1 & Hm2 & Hm3).
  destruct (HO b rs re (proj2 (Hdone b) Hb) Hm) as [d0 (Hin0 & Hlen0)].
  set (k0 := N.max (rs - ctx) (b_base b)) in *.
  (* the own snippet is a view of b *)
  assert (Hview : view_of b k0 d0).
  { destruct (HV k0 d0 Hin0) as [b' (Hb' & Hb'base & Hb'sl)].
    apply Hdone in Hb'. destruct (slice_Some _ _ _ _ Hb'sl) as (_ & Hle & _).
    destruct (Hdis b b' Hb Hb') as [<-|[Hd|Hd]].
    - split; assumption.
    - unfold b_hi in *. lia.
    - unfold b_hi in *. lia. }
  destruct Hview as [Hk0 Hsl0].
  destruct (slice_Some _ _ _ _ Hsl0) as (_ & Hle0 & _).
  (* split the candidate list at the own snippet *)
  assert (Hinc : In (k0, d0) (filter (fun kv => (rs - ctx <=? fst kv) && (fst kv <=? rs)) sn)).
  { apply filter_In. split; [exact Hin0|]. cbn [fst].
    apply andb_true_intro. split; apply N.leb_le; unfold k0; lia. }
  destruct (filter_split_sorted _ sn k0 d0 HS Hinc) as [pre [post (Hsplit & Hpre)]].
  pose proof (multi_exact (b_base b) (b_data b) sn rs re ctx k0 (k0 + len d0) d0 pre
                (post ++ rev (filter (fun kv => fst kv <? rs - ctx) sn))) as HM.
  cbn zeta in HM. unfold b_hi in *.
  unfold window in *.
  apply HM; try assumption; try reflexivity; try lia.
  - rewrite <- Hsl0. f_equal. lia.
  - unfold candidates. rewrite Hsplit, <- app_assoc. reflexivity.
  - apply Forall_forall. intros [k d] Hkv. cbn [fst snd].
    destruct (Hpre (k, d) Hkv) as (Hinsn & Hp & Hlt). cbn [fst] in *.
    apply andb_prop in Hp. destruct Hp as [Hp1 Hp2]. apply N.leb_le in Hp1.
    apply N.ltb_lt.
    destruct (HV k d Hinsn) as [b' (Hb' & Hb'base & Hb'sl)].
    apply Hdone in Hb'. destruct (slice_Some _ _ _ _ Hb'sl) as (_ & Hle & _).
    destruct (Hdis b b' Hb Hb') as [<-|[Hd|Hd]]; unfold b_hi in *; unfold k0 in *; lia.
Qed.
