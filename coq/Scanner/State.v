(* Abstract model of the scanner state (C04 / C14 / C16).

   The cells are the GENERATED fields of ScanContext / MatchTracker / WasmState /
   Scanner / blocks::Scanner (Gen/ScanState.v) plus what lives outside those
   structs: the values of the two WASM globals, the bitmaps and the variable
   area in WASM memory, the store's epoch deadline, the two halves of
   root_struct, the parts of PatternMatches that `clear()` keeps, and the
   per-thread module caches (generated list).

   A cell holds an abstract [N]: 0 stands for "as created" (empty / None /
   false / Idle / undefined); anything else is an abstract token for "some
   other content".  [reset], the scan prologues and the block-scanner methods
   are the generated statement lists, interpreted here.  What the evaluation
   of conditions and the pattern search leave behind is an arbitrary function
   [eff] restricted to the cells they can write ([eval_writes],
   [search_writes]); theorems quantify over all such functions. *)
From Coq Require Import List String NArith ZArith Bool.
From YV Require Import Gen.ScanState.
Import ListNotations.
Local Open Scope N_scope.

Inductive cell : Set :=
| CF (f : field)
| CKind                      (* 0 = yara_x::Scanner, 1 = blocks::Scanner *)
| CGFilesize | CGPsd         (* values of the WASM globals (filesize + 1; 0 = undefined) *)
| CMRuleBits | CMPatBits     (* bitmaps in WASM memory *)
| CMVars                     (* variable slots, undefined-bitmap, lookup scratch *)
| CEpochDeadline | CEpochCallback
| CRootGlobals | CRootModules
| CPMKeys                    (* keys and capacity PatternMatches::clear() retains *)
| CPMCap                     (* PatternMatches::capacity: total capacity of the lists, decides the branch of clear() *)
| CPMMax                     (* PatternMatches::max_matches_per_pattern *)
| CPerNsKeys                 (* keys of matching_rules_per_ns (kept by the drain) *)
| CLocalUserOutputs          (* the local variable of scan_impl holding the taken user-supplied outputs *)
| CTL (t : tl_cache).

Definition cell_eqb (a b : cell) : bool :=
  match a, b with
  | CF f, CF g => field_beq f g
  | CKind, CKind | CGFilesize, CGFilesize | CGPsd, CGPsd | CMRuleBits, CMRuleBits
  | CMPatBits, CMPatBits | CMVars, CMVars | CEpochDeadline, CEpochDeadline
  | CEpochCallback, CEpochCallback | CRootGlobals, CRootGlobals | CRootModules, CRootModules
  | CPMKeys, CPMKeys | CPMCap, CPMCap | CPMMax, CPMMax | CPerNsKeys, CPerNsKeys
  | CLocalUserOutputs, CLocalUserOutputs => true
  | CTL s, CTL t => tl_cache_beq s t
  | _, _ => false
  end.

Definition other_cells : list cell :=
  [CKind; CGFilesize; CGPsd; CMRuleBits; CMPatBits; CMVars; CEpochDeadline; CEpochCallback;
   CRootGlobals; CRootModules; CPMKeys; CPMCap; CPMMax; CPerNsKeys; CLocalUserOutputs].
Definition all_cells : list cell := map CF all_fields ++ other_cells ++ map CTL all_tl_caches.

(* ---- classification (DESIGN.md appendix A, re-read against the code) ----
   No wildcard over [field]: a new field makes this definition fail. *)
Inductive class := Structural | Persistent | Consumed | Cache | Scratch | Transient | Profiling | Nonce.

Definition classify_field (f : field) : class :=
  match f with
  | ctx_wasm => Structural
  | ctx_runtime_objects => Transient
  | ctx_scan_timeout => Persistent                 (* set_timeout *)
  | ctx_match_context_size => Persistent           (* match_context_size *)
  | ctx_scan_state => Transient
  | ctx_matching_rules => Transient
  | ctx_matching_rules_per_ns => Transient
  | ctx_num_matching_private_rules => Transient
  | ctx_compiled_rules => Structural
  | ctx_root_struct => Structural                  (* content: CRootGlobals (persistent) + CRootModules (transient) *)
  | ctx_current_struct => Transient
  | ctx_module_outputs => Transient
  | ctx_user_provided_module_outputs => Consumed   (* set_module_output, consumed by one scan *)
  | ctx_tracker => Structural
  | ctx_deadline => Transient
  | ctx_scan_id => Nonce                           (* unique per scan by construction; only compared for equality
                                                      with the tag of the per-thread caches (see SNewScanId) *)
  | ctx_regex_cache => Cache                       (* RegexId -> compiled regexp of the immutable rules *)
  | ctx_regex_set_cache => Cache
  | ctx_custom_base64_engine_cache => Cache
  | ctx_console_log => Persistent                  (* console_log *)
  | ctx_vm => Scratch                              (* thread lists start empty in every try_match *)
  | ctx_time_spent_in_pattern => Profiling         (* cfg(feature = "rules-profiling"): cumulative by contract *)
  | ctx_time_spent_in_rule => Profiling
  | ctx_rule_execution_start_time => Profiling
  | ctx_last_executed_rule => Profiling
  | ctx_clock => Profiling
  | tracker_pattern_matches => Transient           (* the match lists; keys/capacity: CPMKeys, limit: CPMMax *)
  | tracker_unconfirmed_matches => Transient
  | tracker_disabled_patterns => Transient
  | tracker_compiled_rules => Structural
  | tracker_fast_scan => Persistent                (* fast_scan *)
  | wasm_module => Structural
  | wasm_main_func => Structural
  | wasm_main_memory => Structural
  | wasm_filesize => Structural                    (* the handle; the value is CGFilesize *)
  | wasm_pattern_search_done => Structural         (* the handle; the value is CGPsd *)
  | wasm_store => Structural
  | scn_rules => Structural
  | scn_wasm_store => Structural
  | scn_use_mmap => Persistent                     (* use_mmap *)
  | scn_max_scan_size => Persistent                (* max_scan_size *)
  | blk_rules => Structural
  | blk_wasm_store => Structural
  | blk_needs_reset => Transient
  | blk_snippets => Transient
  end.

Definition classify (c : cell) : class :=
  match c with
  | CF f => classify_field f
  | CKind => Persistent               (* into_blocks is an API call *)
  | CGFilesize | CGPsd => Transient
  | CMRuleBits | CMPatBits => Transient
  | CMVars => Scratch                 (* written before read by the emitted code *)
  | CEpochDeadline | CEpochCallback => Transient
  | CRootGlobals => Persistent        (* set_global *)
  | CRootModules => Transient
  | CPMKeys => Cache                  (* every reader uses len()/iteration: Some(empty) = None *)
  | CPMCap => Cache                   (* only read by clear() to choose its branch *)
  | CPMMax => Persistent              (* max_matches_per_pattern *)
  | CPerNsKeys => Cache
  | CLocalUserOutputs => Scratch      (* written (taken) before it is read, dropped when scan_impl returns *)
  | CTL _ => Transient                (* per file; shared by all scanners of the thread *)
  end.

Definition is_persistent (c : cell) : bool :=
  match classify c with Persistent | Consumed => true | _ => false end.

(* ---- states ---- *)
Definition state := cell -> N.
Definition upd (st : state) (c : cell) (v : N) : state :=
  fun c' => if cell_eqb c' c then v else st c'.

Definition enc (v : ival) : N := match v with ITrue => 1 | _ => 0 end.

Definition fresh : state := fun c =>
  match c with
  | CF f => enc (init_value f)
  | CGFilesize => Z.to_N (filesize_global_init + 1)
  | CGPsd => Z.to_N pattern_search_done_global_init
  | CPMMax => 1000000
  | _ => 0
  end.

(* ---- environment of one operation ---- *)
Inductive outcome := Complete | TimedOut | ModErr (i : N).

Record env := mkEnv {
  imported : string -> bool;   (* modules imported by the scanner's rules *)
  mod_bit : string -> N;       (* position of a module in the import list = its bit in the user-supplied set *)
  inp : N;                     (* identifies the scanned data *)
  eff : cell -> N;             (* what search / evaluation leave behind *)
  out : outcome }.

Definition supplied (u : N) (E : env) (m : string) : bool := N.testbit u (mod_bit E m).

(* set_timeout value: 0 = None, n + 1 = Some(n seconds, rounded up) *)
Definition clamp (t : N) : N :=
  match t with 0 => DEFAULT_SCAN_TIMEOUT | _ => N.min (t - 1) DEFAULT_SCAN_TIMEOUT end.

(* PatternMatches::is_empty() looks at the keys of the hash map *)
Definition nonempty (st : state) (f : field) : bool :=
  match f with
  | tracker_pattern_matches => negb (st CPMKeys =? 0)
  | _ => negb (st (CF f) =? 0)
  end.

Definition eval_writes (E : env) (c : cell) : bool :=
  match c with
  | CF ctx_runtime_objects | CF ctx_scan_state | CF ctx_matching_rules | CF ctx_matching_rules_per_ns
  | CF ctx_num_matching_private_rules | CF ctx_current_struct
  | CF tracker_pattern_matches | CF tracker_unconfirmed_matches | CF tracker_disabled_patterns
  | CF ctx_regex_cache | CF ctx_regex_set_cache | CF ctx_custom_base64_engine_cache | CF ctx_vm
  | CGPsd | CMRuleBits | CMPatBits | CMVars | CEpochDeadline | CPMKeys | CPMCap | CPerNsKeys => true
  | CTL t => imported E (tl_module t)
  | _ => false
  end.

Definition search_writes (c : cell) : bool :=
  match c with
  | CF ctx_scan_state
  | CF tracker_pattern_matches | CF tracker_unconfirmed_matches | CF tracker_disabled_patterns
  | CF ctx_custom_base64_engine_cache | CF ctx_vm
  | CMPatBits | CPMKeys | CPMCap => true
  | _ => false
  end.

Definition havoc (w : cell -> bool) (E : env) (st : state) : state :=
  fun c => if w c then eff E c else st c.

(* value written by the module loop: a function of the scanned data and of
   which outputs were supplied by the user *)
Definition probe_tag (i u : N) : N := 1 + i + 1000 * u.

(* the module loop of scan_impl, in closed form.  [upto] = None: all imported
   modules are processed; Some i: the main function of module number i fails
   (modules before i processed, i's main function ran, the rest untouched). *)
Definition module_loop (E : env) (local : bool) (upto : option N) (st : state) : state :=
  let ucell := if local then CLocalUserOutputs else CF ctx_user_provided_module_outputs in
  let u := st ucell in
  let reached m := match upto with None => true | Some i => mod_bit E m <=? i end in
  fun c =>
    match c with
    | CF ctx_module_outputs => probe_tag (inp E) u + match upto with None => 0 | Some i => 1 + i end
    | CRootModules => probe_tag (inp E) u + match upto with None => 0 | Some i => 1 + i end
    | CF ctx_user_provided_module_outputs =>
        if local then st c else
        match upto with None => st c | Some i => N.shiftl (N.shiftr u i) i end   (* entries before i removed *)
    | CLocalUserOutputs =>
        if local then match upto with None => st c | Some i => N.shiftl (N.shiftr u i) i end else st c
    | CTL t => if imported E (tl_module t) && reached (tl_module t)
                  && negb (supplied u E (tl_module t)) && tl_cleared_by_main t
               then 0 else st c
    | _ => st c
    end.

(* PatternMatches::clear(), branch by branch (GENERATED: threshold and what each branch does) *)
Definition pm_apply (br : pm_branch) (st : state) (c : cell) : N :=
  match br with
  | PMDropAll => match c with CF tracker_pattern_matches | CPMKeys | CPMCap => 0 | _ => st c end
  | PMClearEach => match c with CF tracker_pattern_matches => 0 | _ => st c end
  | PMKeepSome => st c            (* lists may survive with their content *)
  end.
Definition pm_clear (st : state) : state :=
  fun c => if pm_clear_threshold <? st CPMCap then pm_apply pm_clear_over st c else pm_apply pm_clear_under st c.

Section Exec.
  Variable E : env.
  (* how SCallReset is executed *)
  Variable do_reset : state -> state.

  Definition exec_simple (s : sstmt) (st : state) : state * bool :=
    match s with
    | SClear tracker_pattern_matches => (pm_clear st, true)
    | SClear f => (upd st (CF f) 0, true)
    | SAssign f v => (upd st (CF f) (enc v), true)
    | SDrain a b => (upd (upd st (CF b) (st (CF b) + st (CF a))) (CF a) 0, true)
    | SFillBitmaps r p =>
        (let st1 := if r then upd st CMRuleBits 0 else st in
         if p then upd st1 CMPatBits 0 else st1, true)
    | SSetDeadline => (upd st (CF ctx_deadline) (clamp (st (CF ctx_scan_timeout))), true)
    | SSetEpochDeadline => (upd st CEpochDeadline (clamp (st (CF ctx_scan_timeout))), true)
    | SSetEpochCallback => (upd st CEpochCallback 1, true)
    | SStartHeartbeatIfTimeout => (st, true)
    | SCallReset => (do_reset st, true)
    | SSetGlobalFilesize => (upd st CGFilesize (1 + inp E), true)
    | SSetGlobalPsd b => (upd st CGPsd (if b then 1 else 0), true)
    | SSetScanState t => (upd st (CF ctx_scan_state) t, true)
    | SModuleLoop early local =>
        match out E with
        | ModErr i => (module_loop E local (Some i) st, negb early)
        | _ => (module_loop E local None st, true)
        end
    | SNewScanId =>
        (* a new, process-wide unique scan id: from now on every access to a scan-scoped per-thread
           cache (GENERATED: tl_scan_scoped, the check precedes every access) finds a foreign tag and
           drops the cache first; modelled as dropping them here *)
        ((fun c => match c with
                   | CF ctx_scan_id => st c + 1
                   | CTL t => if tl_scan_scoped t then 0 else st c
                   | _ => st c
                   end), true)
    | SUndefFilesize => (upd st CGFilesize 0, true)
    | SClearModuleStructs => (upd st CRootModules 0, true)    (* structures without values: carry nothing of a scanned file *)
    | STakeUserOutputs =>
        (upd (upd st CLocalUserOutputs (st (CF ctx_user_provided_module_outputs))) (CF ctx_user_provided_module_outputs) 0, true)
    | SDropUserOutputs => (upd st CLocalUserOutputs 0, true)
    | SSearch =>
        (upd (havoc search_writes E st) CGPsd 1,
         match out E with Complete => true | _ => false end)
    | SEval =>
        (* in block mode the module functions find no scanned data / module
           output and return before populating their per-thread caches *)
        (havoc (fun c => eval_writes E c && match c with CTL _ => st CKind =? 0 | _ => true end) E st,
         match out E with Complete => true | _ => false end)
    | SCollectSnippets => (upd st (CF blk_snippets) (st (CF blk_snippets) + eff E (CF blk_snippets)), true)
    | STakeSnippets => (upd st (CF blk_snippets) 0, true)
    end.

  Fixpoint exec_sl (l : list sstmt) (st : state) : state * bool :=
    match l with
    | [] => (st, true)
    | s :: l' => let (st', cont) := exec_simple s st in
                 if cont then exec_sl l' st' else (st', false)
    end.

  (* The conditionals are pushed inside the pair so that the result is a
     syntactic pair whatever the guard is (this keeps symbolic evaluation in
     the proofs simple); [exec_stmt_natural] in StateProofs shows that this is
     the obvious `if guard then run body else skip`. *)
  Definition exec_stmt (s : stmt) (st : state) : state * bool :=
    match s with
    | S x => exec_simple x st
    | SIfNonEmpty g body =>
        let b := existsb (nonempty st) g in
        let r := exec_sl body st in
        ((fun c => if b then fst r c else st c), snd r || negb b)
    | SIfNeedsReset t e =>
        let b := st (CF blk_needs_reset) =? 0 in
        let rt := exec_sl t st in
        let re := exec_sl e st in
        ((fun c => if b then fst re c else fst rt c),
         (snd rt && snd re) || (if b then snd re else snd rt))
    end.

  Fixpoint exec_list (l : list stmt) (st : state) : state * bool :=
    match l with
    | [] => (st, true)
    | s :: l' => let (st', cont) := exec_stmt s st in
                 if cont then exec_list l' st' else (st', false)
    end.
End Exec.

(* reset() does not call itself *)
Definition do_reset (E : env) (st : state) : state := fst (exec_list E (fun s => s) reset_body st).
Definition run_body (E : env) (l : list stmt) (st : state) : state := fst (exec_list E (do_reset E) l st).

(* the statements executed before the search / the evaluation starts *)
Definition is_work (s : stmt) : bool := match s with S SSearch | S SEval => true | _ => false end.
Fixpoint prologue_of (l : list stmt) : list stmt :=
  match l with [] => [] | s :: l' => if is_work s then [] else s :: prologue_of l' end.

(* ---- the API alphabet ---- *)
Inductive op :=
| OScan (i : N) (e : cell -> N) (o : outcome)        (* scan / scan_with_options; complete, timed out at any point, module error *)
| OSetGlobal (v : N) | OSetTimeout (t : N) | OMaxMatches (n : N) | OFastScan (b : bool)
| OContextSize (n : N) | OSetModuleOutput (bit : N)
| OIntoBlocks
| OBlockScan (i : N) (e : cell -> N) (o : outcome)
| OBlockFinish (e : cell -> N) (o : outcome)
| OOther (e : cell -> N).                             (* scans by other scanners of the thread *)

(* the part of the environment that belongs to the scanner's rules *)
Record rules_env := mkRules { r_imported : string -> bool; r_mod_bit : string -> N }.
Definition env_of (R : rules_env) (i : N) (e : cell -> N) (o : outcome) : env :=
  mkEnv (r_imported R) (r_mod_bit R) i e o.

(* pointwise conditional on states *)
Definition ite (b : bool) (x y : state) : state := fun c => if b then x c else y c.

Definition step (R : rules_env) (o : op) (st : state) : state :=
  match o with
  | OScan i e oc => ite (st CKind =? 0) (run_body (env_of R i e oc) scan_impl_body st) st
  | OSetGlobal v => upd st CRootGlobals v
  | OSetTimeout t => upd st (CF ctx_scan_timeout) (t + 1)
  | OMaxMatches n => upd st CPMMax n
  | OFastScan b => upd st (CF tracker_fast_scan) (if b then 1 else 0)
  | OContextSize n => upd st (CF ctx_match_context_size) n
  | OSetModuleOutput b =>
      ite (st CKind =? 0)
        (upd st (CF ctx_user_provided_module_outputs) (N.lor (st (CF ctx_user_provided_module_outputs)) (N.shiftl 1 b)))
        st
  | OIntoBlocks => ite (st CKind =? 0) (upd (run_body (env_of R 0 (fun _ => 0) Complete) into_blocks_body st) CKind 1) st
  | OBlockScan i e oc => ite (st CKind =? 0) st (run_body (env_of R i e oc) block_scan_body st)
  | OBlockFinish e oc => ite (st CKind =? 0) st (run_body (env_of R 0 e oc) block_finish_body st)
  | OOther e => fun c => match c with CTL _ => e c | _ => st c end
  end.

Definition run (R : rules_env) (h : list op) (st : state) : state := fold_left (fun s o => step R o s) h st.

(* ---- what the API says persists ---- *)
Definition spec_step (o : op) (sp : state) : state :=
  match o with
  | OScan _ _ _ => ite (sp CKind =? 0) (upd sp (CF ctx_user_provided_module_outputs) 0) sp
  | OSetGlobal v => upd sp CRootGlobals v
  | OSetTimeout t => upd sp (CF ctx_scan_timeout) (t + 1)
  | OMaxMatches n => upd sp CPMMax n
  | OFastScan b => upd sp (CF tracker_fast_scan) (if b then 1 else 0)
  | OContextSize n => upd sp (CF ctx_match_context_size) n
  | OSetModuleOutput b =>
      ite (sp CKind =? 0)
        (upd sp (CF ctx_user_provided_module_outputs) (N.lor (sp (CF ctx_user_provided_module_outputs)) (N.shiftl 1 b)))
        sp
  | OIntoBlocks => ite (sp CKind =? 0) (upd sp CKind 1) sp
  | OBlockScan _ _ _ | OBlockFinish _ _ | OOther _ => sp
  end.
(* a fresh scanner (on a fresh thread) carrying only the persistent part of the history *)
Definition spec_persist (h : list op) : state := fold_left (fun s o => spec_step o s) h fresh.

(* ---- probes ---- *)
(* state in which the evaluation of the probe's conditions / the search of
   its first block starts *)
Definition probe_contig (R : rules_env) (i : N) (st : state) : state :=
  run_body (env_of R i (fun _ => 0) Complete) (prologue_of scan_impl_body) st.
Definition probe_block (R : rules_env) (i : N) (st : state) : state :=
  run_body (env_of R i (fun _ => 0) Complete) (prologue_of block_scan_body) st.

(* cells the probe's search / evaluation may read, caches and scratch excluded
   (transparency of the caches is a separate obligation, see StateProofs) *)
Definition visible (R : rules_env) (blocks : bool) (c : cell) : bool :=
  match c with
  | CTL t => r_imported R (tl_module t)
  | CF scn_use_mmap | CF scn_max_scan_size => false     (* only used before scan_impl *)
  | CF blk_needs_reset | CF blk_snippets => blocks       (* fields of blocks::Scanner *)
  | _ => match classify c with Persistent | Consumed | Transient => true | _ => false end
  end.

(* the bitmap guard of reset() is sound in this state *)
Definition ginv (st : state) : bool :=
  implb (negb (st CMRuleBits =? 0)) (negb (st (CF ctx_matching_rules) + st (CF ctx_matching_rules_per_ns) =? 0))
  && implb (negb (st CMPatBits =? 0) || negb (st (CF tracker_pattern_matches) =? 0)) (negb (st CPMKeys =? 0)).

(* an effect function respects how bits get set: track_rule_match sets a rule
   bit and pushes the rule; track_match sets a pattern bit and inserts a key *)
Definition wf_eff (e : cell -> N) : bool := ginv e.

Definition wf_op (o : op) : bool :=
  match o with
  | OScan _ e _ | OBlockScan _ e _ | OBlockFinish e _ => wf_eff e
  | _ => true
  end.
