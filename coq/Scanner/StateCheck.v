(* Correspondence cases for C04 (and the state part of C16): the harness
   writes the digests of the implementation's scan context before the probe
   and at the end of the probe's prologue, on the used and on the fresh
   scanner, plus both result dumps.
   [check_case] (K): the GENERATED prologue, run by the model on the digest
   taken before the probe, predicts the digest captured at the end of the
   prologue; the bitmap-guard invariant holds in every observed state.
   [spec_case] (S): the probe's result on the used scanner equals the result
   on the fresh scanner. *)
From Coq Require Import List String NArith ZArith Bool.
From YV Require Import Gen.ScanState Scanner.State.
Import ListNotations.
Local Open Scope N_scope.

(* cells exposed by verif_state_digest(), in the order the harness prints them *)
Definition digest_cells : list cell :=
  [ CKind; CF ctx_runtime_objects; CF ctx_scan_timeout; CF ctx_match_context_size; CF ctx_scan_state;
    CF ctx_matching_rules; CF ctx_matching_rules_per_ns; CPerNsKeys; CF ctx_num_matching_private_rules;
    CF ctx_current_struct; CF ctx_module_outputs; CF ctx_user_provided_module_outputs;
    CF tracker_pattern_matches; CPMKeys; CF tracker_unconfirmed_matches; CF tracker_disabled_patterns;
    CF tracker_fast_scan; CF ctx_deadline; CF ctx_regex_cache; CF ctx_regex_set_cache;
    CF ctx_custom_base64_engine_cache; CF ctx_console_log; CGFilesize; CGPsd; CMRuleBits; CMPatBits;
    CRootGlobals; CRootModules; CF blk_needs_reset; CF blk_snippets ].

Fixpoint state_of (cs : list cell) (vs : list N) : state :=
  match cs, vs with
  | c :: cs', v :: vs' => upd (state_of cs' vs') c v
  | _, _ => fun _ => 0
  end.

Inductive outcome_d :=
| ODone (rules : list (bool * list (list (N * N * N * N * N * N)))) (nmods : N)
| OTimeout | OModuleError | OOtherError | OPanic.

Definition m6_eqb (a b : N * N * N * N * N * N) : bool :=
  let '(a1, a2, a3, a4, a5, a6) := a in let '(b1, b2, b3, b4, b5, b6) := b in
  (a1 =? b1) && (a2 =? b2) && (a3 =? b3) && (a4 =? b4) && (a5 =? b5) && (a6 =? b6).
Fixpoint list_eqb {A} (eqb : A -> A -> bool) (a b : list A) : bool :=
  match a, b with
  | [], [] => true
  | x :: a', y :: b' => eqb x y && list_eqb eqb a' b'
  | _, _ => false
  end.
Definition rule_eqb (a b : bool * list (list (N * N * N * N * N * N))) : bool :=
  Bool.eqb (fst a) (fst b) && list_eqb (list_eqb m6_eqb) (snd a) (snd b).
Definition outcome_eqb (a b : outcome_d) : bool :=
  match a, b with
  | ODone r1 n1, ODone r2 n2 => list_eqb rule_eqb r1 r2 && (n1 =? n2)
  | OTimeout, OTimeout | OModuleError, OModuleError | OOtherError, OOtherError | OPanic, OPanic => true
  | _, _ => false
  end.

Record case := mkCase {
  k_block : bool;              (* probe in block mode? *)
  k_len : N;                   (* length of the probe's (first) buffer *)
  k_pre_used : list N; k_cap_used : list N;
  k_pre_fresh : list N; k_cap_fresh : list N;
  k_out_used : outcome_d; k_out_fresh : outcome_d }.

Definition R_k : rules_env := mkRules (fun _ => true) (fun _ => 0).

(* cells whose prologue value is a function of the probe (data, user-supplied
   outputs) that the model does not compute: used and fresh must agree *)
Definition from_probe (blk : bool) (c : cell) : bool :=
  negb blk && match c with CF ctx_module_outputs | CRootModules => true | _ => false end.

Definition cell_ok (blk : bool) (model obs other : state) (c : cell) : bool :=
  if from_probe blk c then obs c =? other c
  else match c with
       | CPMKeys => (obs c =? model c) || (obs c =? 0)   (* clear() drops the keys when the capacity exceeds its threshold *)
       | _ => obs c =? model c
       end.

Definition side_ok (blk : bool) (len : N) (pre cap other : list N) : bool :=
  (List.length pre =? List.length digest_cells)%nat && (List.length cap =? List.length digest_cells)%nat &&
  let st := state_of digest_cells pre in
  let obs := state_of digest_cells cap in
  let oth := state_of digest_cells other in
  let model := if blk then probe_block R_k len st else probe_contig R_k len st in
  ginv st && ginv obs && forallb (cell_ok blk model obs oth) digest_cells.

Definition check_case (k : case) : bool :=
  side_ok (k_block k) (k_len k) (k_pre_used k) (k_cap_used k) (k_cap_fresh k) &&
  side_ok (k_block k) (k_len k) (k_pre_fresh k) (k_cap_fresh k) (k_cap_used k).

Definition spec_case (k : case) : bool := outcome_eqb (k_out_used k) (k_out_fresh k).
