(* Proofs about the scanner state model (C04, with corollaries for C14 / C16).

   Main results
   - probe_contig_noninterference : after the GENERATED prologue of scan_impl, two
     states that agree on the persistent-by-API cells agree on every cell the
     evaluation may read (under the bitmap-guard invariant);
   - history_independence_contiguous : for every history, the probe's evaluation on
     the used scanner starts from the same visible state as on a fresh scanner
     carrying only what the API says persists;
   - history_independence_block_patterns : the same for block mode, except for the
     cells filesize / module fields / per-thread caches / snippets;
   - history_independence_refuted : the unrestricted statement is false in the
     model (six witnesses: each names the cell that leaks). *)
From Coq Require Import List String NArith ZArith Bool Lia.
From YV Require Import Gen.ScanState Scanner.State.
Import ListNotations.
Local Open Scope N_scope.

Ltac sym := cbv -[N.eqb N.add clamp N.min N.testbit N.leb N.shiftl N.shiftr N.lor N.succ probe_tag tl_module tl_cleared_by_main DEFAULT_SCAN_TIMEOUT].
Ltac sym_in H := cbv -[N.eqb N.add clamp N.min N.testbit N.leb N.shiftl N.shiftr N.lor N.succ probe_tag tl_module tl_cleared_by_main DEFAULT_SCAN_TIMEOUT] in H.

Ltac goal_atoms :=
  repeat match goal with
  | |- context [N.eqb ?a ?b] => let e := fresh "e" in destruct (N.eqb a b) eqn:e
  end.
Ltac props :=
  repeat match goal with
  | H : (_ =? _) = true |- _ => apply N.eqb_eq in H
  | H : (_ =? _) = false |- _ => apply N.eqb_neq in H
  end.

(* the `if`-pushing definition of exec_stmt is the natural one *)
Lemma exec_stmt_natural : forall E dr s st,
  (forall c, fst (exec_stmt E dr s st) c =
     fst (match s with
          | S x => exec_simple E dr x st
          | SIfNonEmpty g body => if existsb (nonempty st) g then exec_sl E dr body st else (st, true)
          | SIfNeedsReset t e => if st (CF blk_needs_reset) =? 0 then exec_sl E dr e st else exec_sl E dr t st
          end) c) /\
  snd (exec_stmt E dr s st) =
     snd (match s with
          | S x => exec_simple E dr x st
          | SIfNonEmpty g body => if existsb (nonempty st) g then exec_sl E dr body st else (st, true)
          | SIfNeedsReset t e => if st (CF blk_needs_reset) =? 0 then exec_sl E dr e st else exec_sl E dr t st
          end).
Proof.
  intros E dr s st. destruct s as [x|g body|t e]; cbn [exec_stmt].
  - split; reflexivity.
  - destruct (existsb (nonempty st) g); cbn;
    (split; [reflexivity | try destruct (snd (exec_sl E dr body st)); reflexivity]).
  - destruct (st (CF blk_needs_reset) =? 0); cbn;
    (split; [reflexivity | destruct (snd (exec_sl E dr t st)), (snd (exec_sl E dr e st)); reflexivity]).
Qed.

(* reset() contains no call to itself, so [do_reset] may ignore SCallReset *)
Lemma reset_body_not_recursive :
  forallb (fun s => match s with
                    | S SCallReset => false
                    | SIfNonEmpty _ b | SIfNeedsReset b _ => forallb (fun x => match x with SCallReset => false | _ => true end) b
                    | _ => true end) reset_body = true.
Proof. reflexivity. Qed.

Definition agree (st1 st2 : state) : Prop := forall c, is_persistent c = true -> st1 c = st2 c.

Lemma ginv_guard_false : forall st, ginv st = true ->
  (st CPMKeys =? 0) = true -> (st (CF ctx_matching_rules) + st (CF ctx_matching_rules_per_ns) =? 0) = true ->
  st CMRuleBits = 0 /\ st CMPatBits = 0 /\ st (CF tracker_pattern_matches) = 0.
Proof.
  intros st G K M. unfold ginv in G. rewrite K, M in G. cbn in G.
  destruct (st CMRuleBits =? 0) eqn:A; destruct (st CMPatBits =? 0) eqn:B;
  destruct (st (CF tracker_pattern_matches) =? 0) eqn:C; cbn in G; try discriminate.
  apply N.eqb_eq in A, B, C. auto.
Qed.

Ltac use_ginv :=
  repeat match goal with
  | G : ginv ?st = true, K : (?st CPMKeys =? 0) = true,
    M : (?st (CF ctx_matching_rules) + ?st (CF ctx_matching_rules_per_ns) =? 0) = true |- _ =>
      let a := fresh in let b := fresh in let c := fresh in
      destruct (ginv_guard_false st G K M) as (a & b & c); clear G; try rewrite a; try rewrite b; try rewrite c
  end.

(* no user-supplied output is pending for a module that owns a per-thread cache *)
Definition tl_guard (R : rules_env) (st : state) : Prop :=
  forall t, r_imported R (tl_module t) = true ->
    N.testbit (st (CF ctx_user_provided_module_outputs)) (r_mod_bit R (tl_module t)) = false.

(* GENERATED fact: every module main re-initialises every per-thread cache of its module *)
Lemma all_tl_cleared : forall t, tl_cleared_by_main t = true.
Proof. destruct t; reflexivity. Qed.

(* ---- the prologue of a contiguous scan re-establishes every transient cell ---- *)
Lemma probe_contig_noninterference : forall R i st1 st2,
  ginv st1 = true -> ginv st2 = true -> agree st1 st2 -> tl_guard R st1 ->
  forall c, visible R false c = true -> probe_contig R i st1 c = probe_contig R i st2 c.
Proof.
  intros R i st1 st2 G1 G2 A T c V.
  assert (T2 : tl_guard R st2).
  { intros t Ht. rewrite <- (A (CF ctx_user_provided_module_outputs) eq_refl). apply T, Ht. }
  destruct c as [f| | | | | | | | | | | | | |t]; [destruct f|..]; try discriminate V;
  try (specialize (T t V); specialize (T2 t V); sym_in V; sym_in T; sym_in T2);
  sym;
  repeat match goal with |- context [st1 ?c] => rewrite (A c eq_refl) end;
  try rewrite all_tl_cleared;
  goal_atoms; use_ginv; try rewrite V; try rewrite T2; try reflexivity; props; try lia.
Qed.

(* every transient cell has its fresh value (or a value determined by the
   probe) when the evaluation of a contiguous scan starts *)
Definition established_contig (R : rules_env) (i : N) (st : state) (c : cell) : N :=
  match c with
  | CF ctx_scan_state => 2
  | CF ctx_deadline | CEpochDeadline => clamp (st (CF ctx_scan_timeout))
  | CEpochCallback => 1
  | CGFilesize => 1 + i
  | CF ctx_module_outputs | CRootModules => probe_tag i (st (CF ctx_user_provided_module_outputs))
  | _ => 0
  end.

Lemma contig_prologue_establishes : forall R i st, ginv st = true -> tl_guard R st ->
  forall c, classify c = Transient -> visible R false c = true ->
    probe_contig R i st c = established_contig R i st c.
Proof.
  intros R i st G T c C V.
  destruct c as [f| | | | | | | | | | | | | |t]; [destruct f|..]; try discriminate C; try discriminate V;
  try (specialize (T t V); sym_in V; sym_in T);
  sym; try rewrite all_tl_cleared;
  goal_atoms; use_ginv; try rewrite V; try rewrite T; try reflexivity; props; try lia.
Qed.

(* ---- block mode: what the first block's prologue re-establishes ---- *)
Definition block_leak (c : cell) : bool :=
  match c with
  | CGFilesize | CRootModules | CTL _ | CF blk_snippets => true
  | _ => false
  end.

Lemma probe_block_noninterference : forall R i st1 st2,
  ginv st1 = true -> ginv st2 = true -> agree st1 st2 ->
  (st1 (CF blk_needs_reset) =? 0) = false -> (st2 (CF blk_needs_reset) =? 0) = false ->
  forall c, visible R true c = true -> block_leak c = false ->
    probe_block R i st1 c = probe_block R i st2 c.
Proof.
  intros R i st1 st2 G1 G2 A N1 N2 c V L.
  destruct c as [f| | | | | | | | | | | | | |t]; [destruct f|..]; try discriminate V; try discriminate L;
  sym; rewrite ?N1, ?N2;
  repeat match goal with |- context [st1 ?c] => rewrite (A c eq_refl) end;
  goal_atoms; use_ginv; try reflexivity; props; try lia.
Qed.

(* ---- histories ---- *)
Definition moderr_ok (sp : state) (o : op) : bool :=
  match o with
  | OScan _ _ (ModErr _) => sp (CF ctx_user_provided_module_outputs) =? 0
  | _ => true
  end.
Fixpoint hist_ok (sp : state) (h : list op) : bool :=
  match h with [] => true | o :: h' => moderr_ok sp o && hist_ok (spec_step o sp) h' end.

Lemma step_agree : forall R o st sp, agree st sp -> moderr_ok sp o = true ->
  agree (step R o st) (spec_step o sp).
Proof.
  intros R o st sp A M c P.
  assert (K : st CKind = sp CKind) by (apply A; reflexivity).
  destruct c as [f| | | | | | | | | | | | | |t]; [destruct f|..]; try discriminate P;
  destruct o as [i e oc| | | | | | | |i e oc|e oc|e]; try destruct oc;
  sym; sym_in M; rewrite ?K;
  repeat match goal with |- context [st ?c] => rewrite (A c eq_refl) end;
  goal_atoms; try reflexivity; props;
  try (rewrite M; rewrite N.shiftr_0_l, N.shiftl_0_l; reflexivity).
Qed.

Lemma run_agree : forall R h st sp, agree st sp -> hist_ok sp h = true ->
  agree (run R h st) (fold_left (fun s o => spec_step o s) h sp).
Proof.
  intros R h. induction h as [|o h IH]; intros st sp A H; cbn in *.
  - exact A.
  - apply andb_true_iff in H. destruct H as [H1 H2].
    apply IH; [apply step_agree; assumption | exact H2].
Qed.

Lemma ginv_iff : forall st, ginv st = true <->
  (st CMRuleBits <> 0 -> st (CF ctx_matching_rules) + st (CF ctx_matching_rules_per_ns) <> 0) /\
  (st CMPatBits <> 0 \/ st (CF tracker_pattern_matches) <> 0 -> st CPMKeys <> 0).
Proof.
  intros st. unfold ginv.
  destruct (st CMRuleBits =? 0) eqn:A; destruct (st CMPatBits =? 0) eqn:B;
  destruct (st (CF tracker_pattern_matches) =? 0) eqn:C; destruct (st CPMKeys =? 0) eqn:D;
  destruct (st (CF ctx_matching_rules) + st (CF ctx_matching_rules_per_ns) =? 0) eqn:F; props; cbn;
  split; intros; try discriminate; try reflexivity; try tauto; try (exfalso; intuition congruence).
Qed.

Lemma do_reset_ginv : forall E st, ginv st = true -> ginv (do_reset E st) = true.
Proof.
  intros E st G. apply ginv_iff in G. apply ginv_iff. sym. goal_atoms; props; try tauto; try lia.
Qed.

Ltac symr := cbv -[N.eqb N.add clamp N.min N.testbit N.leb N.shiftl N.shiftr N.lor N.succ probe_tag tl_module tl_cleared_by_main DEFAULT_SCAN_TIMEOUT do_reset].

Lemma step_ginv : forall R o st, wf_op o = true -> ginv st = true -> ginv (step R o st) = true.
Proof.
  intros R o st W G.
  destruct o as [i e oc| | | | | | | |i e oc|e oc|e]; try destruct oc;
  unfold wf_op, wf_eff in W;
  repeat match goal with
  | |- context [do_reset ?E st] => let G' := fresh "G'" in
      pose proof (do_reset_ginv E st G) as G'; apply ginv_iff in G'; revert G'; generalize (do_reset E st); intros st' G'
  end;
  try (apply ginv_iff in W); apply ginv_iff in G; apply ginv_iff;
  symr;
  repeat match goal with
  | |- context [do_reset ?E st] => let G' := fresh "G'" in
      pose proof (do_reset_ginv E st (proj2 (ginv_iff st) G)) as G'; apply ginv_iff in G'; revert G';
      generalize (do_reset E st); intros st' G'
  end;
  goal_atoms; try assumption; try tauto.
Qed.

Lemma run_ginv : forall R h st, forallb wf_op h = true -> ginv st = true -> ginv (run R h st) = true.
Proof.
  intros R h. induction h as [|o h IH]; intros st W G; cbn in *.
  - exact G.
  - apply andb_true_iff in W. destruct W as [W1 W2]. apply IH; [exact W2|]. apply step_ginv; assumption.
Qed.

Lemma spec_step_ginv : forall o sp, ginv sp = true -> ginv (spec_step o sp) = true.
Proof.
  intros o sp G. apply ginv_iff in G. apply ginv_iff.
  destruct o as [i e oc| | | | | | | |i e oc|e oc|e]; sym; goal_atoms; try assumption; try tauto.
Qed.

Lemma spec_fold_ginv : forall h sp, ginv sp = true -> ginv (fold_left (fun s o => spec_step o s) h sp) = true.
Proof.
  induction h as [|o h IH]; intros sp G; cbn; [exact G|]. apply IH, spec_step_ginv, G.
Qed.

Lemma fresh_ginv : ginv fresh = true.
Proof. reflexivity. Qed.

Lemma agree_refl : forall st, agree st st.
Proof. intros st c _. reflexivity. Qed.

(* ---- C04: history independence, contiguous scans ---- *)
Theorem history_independence_contiguous : forall R h i,
  forallb wf_op h = true ->            (* effects respect how bitmap bits get set (checked on real digests by K) *)
  hist_ok fresh h = true ->            (* no module error while user-supplied outputs are pending (known finding) *)
  tl_guard R (spec_persist h) ->       (* no user-supplied output for a module owning a per-thread cache (known finding) *)
  forall c, visible R false c = true ->
    probe_contig R i (run R h fresh) c = probe_contig R i (spec_persist h) c.
Proof.
  intros R h i W H T c V.
  pose proof (run_agree R h fresh fresh (agree_refl fresh) H) as A.
  apply probe_contig_noninterference; try assumption.
  - apply run_ginv; [exact W|exact fresh_ginv].
  - apply spec_fold_ginv, fresh_ginv.
  - intros t Ht. unfold spec_persist in T. rewrite (A (CF ctx_user_provided_module_outputs) eq_refl). apply T, Ht.
Qed.

(* ---- C04/C14: block mode, everything but the four leaking cells ---- *)
Lemma spec_needs_reset : forall h sp, sp (CF blk_needs_reset) = 1 ->
  fold_left (fun s o => spec_step o s) h sp (CF blk_needs_reset) = 1.
Proof.
  induction h as [|o h IH]; intros sp H; cbn; [exact H|]. apply IH.
  destruct o as [i e oc| | | | | | | |i e oc|e oc|e]; sym; goal_atoms; exact H.
Qed.

Theorem history_independence_block_patterns : forall R h i,
  forallb wf_op h = true -> hist_ok fresh h = true ->
  (run R h fresh (CF blk_needs_reset) =? 0) = false ->     (* the history's last block sequence was finished *)
  forall c, visible R true c = true -> block_leak c = false ->
    probe_block R i (run R h fresh) c = probe_block R i (spec_persist h) c.
Proof.
  intros R h i W H NR c V L.
  pose proof (run_agree R h fresh fresh (agree_refl fresh) H) as A.
  apply probe_block_noninterference; try assumption.
  - apply run_ginv; [exact W|exact fresh_ginv].
  - apply spec_fold_ginv, fresh_ginv.
  - unfold spec_persist. rewrite spec_needs_reset; reflexivity.
Qed.

(* ---- the unrestricted statement and its refutation ---- *)
Definition history_independence_stmt : Prop :=
  forall R h i, forallb wf_op h = true ->
    forall c, visible R (negb (spec_persist h CKind =? 0)) c = true ->
      (if spec_persist h CKind =? 0 then probe_contig R i (run R h fresh) c else probe_block R i (run R h fresh) c)
      = (if spec_persist h CKind =? 0 then probe_contig R i (spec_persist h) c else probe_block R i (spec_persist h) c).

Definition R_all : rules_env := mkRules (fun _ => true) (fun m => N.of_nat (String.length m)).
Definition clean : cell -> N := fun _ => 0.
(* a completed scan that matched nothing but populated the per-thread caches *)
Definition eff_tl : cell -> N := fun c => match c with CTL _ => 9 | _ => 0 end.

(* witness: (history, probe input, leaking cell) *)
Definition leaks (h : list op) (i : N) (c : cell) : Prop :=
  forallb wf_op h = true /\ visible R_all (negb (spec_persist h CKind =? 0)) c = true /\
  (if spec_persist h CKind =? 0 then probe_contig R_all i (run R_all h fresh) c else probe_block R_all i (run R_all h fresh) c)
  <> (if spec_persist h CKind =? 0 then probe_contig R_all i (spec_persist h) c else probe_block R_all i (spec_persist h) c).

(* 1. filesize stays defined after Scanner -> blocks::Scanner *)
Lemma leak_filesize : leaks [OScan 5 clean Complete; OIntoBlocks] 3 CGFilesize.
Proof. repeat split; vm_compute; congruence. Qed.
(* 2. the module fields of root_struct survive into block mode *)
Lemma leak_module_fields : leaks [OScan 5 clean Complete; OIntoBlocks] 3 CRootModules.
Proof. repeat split; vm_compute; congruence. Qed.
(* 3. per-thread caches filled by another scanner are visible to a block scanner *)
Lemma leak_tl_block : leaks [OOther eff_tl; OIntoBlocks] 3 (CTL tl_hash_MD5_CACHE).
Proof. repeat split; vm_compute; congruence. Qed.
(* 4. ... and to a contiguous scan whose hash output is supplied by the user ("hash" has length 4) *)
Lemma leak_tl_user_output : leaks [OOther eff_tl; OSetModuleOutput 4] 3 (CTL tl_hash_MD5_CACHE).
Proof. repeat split; vm_compute; congruence. Qed.
(* 5. a module error leaves the user-supplied outputs of later modules in place *)
Lemma leak_user_outputs_after_module_error :
  leaks [OSetModuleOutput 11; OScan 5 clean (ModErr 6)] 3 CRootModules.
Proof. repeat split; vm_compute; congruence. Qed.
(* 6. a finish() that times out keeps the snippets of the abandoned scan *)
Definition eff_snip : cell -> N := fun c => match c with CF blk_snippets => 2 | _ => 0 end.
Lemma leak_snippets : leaks [OIntoBlocks; OSetTimeout 1; OBlockScan 1 eff_snip Complete; OBlockFinish clean TimedOut] 3 (CF blk_snippets).
Proof. repeat split; vm_compute; congruence. Qed.

Theorem history_independence_refuted : ~ history_independence_stmt.
Proof.
  intros H. destruct leak_filesize as (W & V & D). apply D. exact (H R_all _ 3 W CGFilesize V).
Qed.

(* the guarded theorems are not vacuous *)
Example contiguous_hypotheses_satisfiable :
  let h := [OSetTimeout 3; OScan 5 (fun c => match c with CMRuleBits | CF ctx_matching_rules | CPMKeys | CMPatBits => 2 | _ => 0 end) TimedOut;
            OScan 6 clean (ModErr 2); OSetModuleOutput 11; OSetGlobal 4; OOther eff_tl] in
  forallb wf_op h = true /\ hist_ok fresh h = true /\ tl_guard R_all (spec_persist h).
Proof.
  cbv zeta. split; [reflexivity|]. split; [reflexivity|].
  intros t _. destruct t; reflexivity.
Qed.
Example block_hypotheses_satisfiable :
  let h := [OScan 5 clean Complete; OIntoBlocks; OBlockScan 1 eff_snip Complete; OBlockFinish clean Complete] in
  forallb wf_op h = true /\ hist_ok fresh h = true /\ (run R_all h fresh (CF blk_needs_reset) =? 0) = false.
Proof. repeat split. Qed.

(* ---- C14: whole-file notions in block mode ---- *)
(* "filesize, module fields and per-thread caches are as in a fresh block
   scanner, whatever happened before" *)
Definition whole_file_undefined_stmt : Prop :=
  forall R h i, forallb wf_op h = true -> (spec_persist h CKind =? 0) = false ->
    forall c, block_leak c = true -> c <> CF blk_snippets -> visible R true c = true ->
      probe_block R i (run R h fresh) c = fresh c.

Theorem whole_file_undefined_refuted : ~ whole_file_undefined_stmt.
Proof.
  intros H.
  assert (X := H R_all [OScan 5 clean Complete; OIntoBlocks] 3 eq_refl eq_refl CGFilesize eq_refl ltac:(discriminate) eq_refl).
  vm_compute in X. discriminate X.
Qed.

(* it holds for a scanner that was created as a block scanner on a thread no
   other scanner used: nothing in block mode writes these cells *)
Definition block_only (o : op) : bool :=
  match o with OScan _ _ _ | OOther _ | OIntoBlocks => false | _ => true end.

Lemma block_step_keeps : forall R o st, block_only o = true -> (st CKind =? 0) = false ->
  forall c, block_leak c = true -> c <> CF blk_snippets -> step R o st c = st c.
Proof.
  intros [imp mb] o st B K c L NS.
  destruct c as [f| | | | | | | | | | | | | |t]; [destruct f|..]; try discriminate L; try congruence;
  destruct o as [i e oc| | | | | | | |i e oc|e oc|e]; try discriminate B; try destruct oc;
  sym; rewrite ?K; cbn; goal_atoms; try reflexivity; try congruence;
  repeat match goal with |- context [imp ?x] => destruct (imp x) end; cbn; try reflexivity; try congruence.
Qed.

Lemma block_step_kind : forall R o st, block_only o = true -> (st CKind =? 0) = false ->
  (step R o st CKind =? 0) = false.
Proof.
  intros R o st B K. destruct o as [i e oc| | | | | | | |i e oc|e oc|e]; try discriminate B; try destruct oc;
  sym; rewrite ?K; cbn;
  destruct (st (CF blk_needs_reset) =? 0); destruct (st CPMKeys =? 0);
  destruct (st (CF ctx_matching_rules) + st (CF ctx_matching_rules_per_ns) =? 0); cbn; rewrite ?K;
  try assumption; try reflexivity; try congruence.
Qed.

Lemma block_run_keeps : forall R h st, forallb block_only h = true -> (st CKind =? 0) = false ->
  forall c, block_leak c = true -> c <> CF blk_snippets -> run R h st c = st c.
Proof.
  intros R h. induction h as [|o h IH]; intros st B K c L NS; [reflexivity|].
  cbn [forallb] in B. apply andb_true_iff in B. destruct B as [B1 B2].
  change (run R (o :: h) st c) with (run R h (step R o st) c).
  rewrite IH; try assumption; [apply block_step_keeps; assumption | apply block_step_kind; assumption].
Qed.

Theorem whole_file_undefined_born_blocks : forall R h i,
  forallb block_only h = true ->
  forall c, block_leak c = true -> c <> CF blk_snippets ->
    probe_block R i (run R (OIntoBlocks :: h) fresh) c = fresh c.
Proof.
  intros R h i B c L NS. cbn [run fold_left].
  change (fold_left (fun s o => step R o s) h (step R OIntoBlocks fresh)) with (run R h (step R OIntoBlocks fresh)).
  assert (E : forall st, probe_block R i st c = st c).
  { intros st. destruct c as [f| | | | | | | | | | | | | |t]; [destruct f|..]; try discriminate L; try congruence;
    sym; goal_atoms; reflexivity. }
  rewrite E. rewrite block_run_keeps; try assumption; [|reflexivity].
  destruct c as [f| | | | | | | | | | | | | |t]; [destruct f|..]; try discriminate L; try congruence; reflexivity.
Qed.

(* ---- C16: the scan after a timed-out scan starts clean ---- *)
Theorem reset_after_timeout_clean : forall R h i0 e i,
  forallb wf_op (h ++ [OScan i0 e TimedOut]) = true -> hist_ok fresh (h ++ [OScan i0 e TimedOut]) = true ->
  tl_guard R (spec_persist (h ++ [OScan i0 e TimedOut])) ->
  forall c, visible R false c = true ->
    probe_contig R i (run R (h ++ [OScan i0 e TimedOut]) fresh) c
    = probe_contig R i (spec_persist (h ++ [OScan i0 e TimedOut])) c.
Proof. intros R h i0 e i. apply history_independence_contiguous. Qed.

Theorem block_reset_after_timeout_clean : forall R h e i,
  let h' := h ++ [OBlockFinish e TimedOut] in
  forallb wf_op h' = true -> hist_ok fresh h' = true ->
  (spec_persist h' CKind =? 0) = false ->
  forall c, visible R true c = true -> block_leak c = false ->
    probe_block R i (run R h' fresh) c = probe_block R i (spec_persist h') c.
Proof.
  intros R h e i h' W H K c V L.
  apply history_independence_block_patterns; try assumption.
  (* finish() sets needs_reset before evaluating, also when it times out *)
  unfold h', run. rewrite fold_left_app. cbn [fold_left].
  set (st := fold_left (fun s o => step R o s) h fresh).
  assert (KK : (st CKind =? 0) = false).
  { pose proof (run_agree R h fresh fresh (agree_refl fresh)) as A.
    unfold h' in H, K. unfold spec_persist in K. rewrite fold_left_app in K. cbn [fold_left] in K.
    assert (HH : hist_ok fresh h = true).
    { clear -H. revert H. generalize fresh. induction h as [|o h IH]; intros sp H; cbn in *; [reflexivity|].
      apply andb_true_iff in H. destruct H as [H1 H2]. rewrite H1. cbn. apply IH, H2. }
    specialize (A HH). unfold st. change (fold_left (fun s o => step R o s) h fresh) with (run R h fresh).
    rewrite (A CKind eq_refl). revert K. sym. goal_atoms; congruence. }
  clearbody st. sym. rewrite KK. cbn. goal_atoms; reflexivity.
Qed.
