(* Proofs about the scanner state model (C04, with corollaries for C14 / C16).

   Main results
   - probe_contig_noninterference : after the GENERATED prologue of scan_impl, two
     states that agree on the persistent-by-API cells agree on every cell the
     evaluation may read (under the bitmap-guard invariant);
   - history_independence : for every history, the probe's evaluation (contiguous
     or block mode) starts on the used scanner from the same visible state as on a
     fresh scanner carrying only what the API says persists, for rules that import
     no module with a per-thread cache that is not scan-scoped;
   - history_independence_contiguous / _block : the same for any rules, under the
     guard / except the cells that the remaining finding is about (per-thread caches
     of the modules for which the generated tl_scan_scoped is false);
   - history_independence_refuted : without that restriction the statement is false
     in the model (two witnesses). *)
From Coq Require Import List String NArith ZArith Bool Lia.
From YV Require Import Gen.ScanState Scanner.State.
Import ListNotations.
Local Open Scope N_scope.

Ltac sym := cbv -[N.eqb N.ltb N.add clamp N.min N.testbit N.leb N.shiftl N.shiftr N.lor N.succ probe_tag tl_module tl_cleared_by_main tl_scan_scoped DEFAULT_SCAN_TIMEOUT].
Ltac sym_in H := cbv -[N.eqb N.ltb N.add clamp N.min N.testbit N.leb N.shiftl N.shiftr N.lor N.succ probe_tag tl_module tl_cleared_by_main tl_scan_scoped DEFAULT_SCAN_TIMEOUT] in H.

Ltac goal_atoms :=
  repeat match goal with
  | |- context [N.ltb ?a ?b] => let e := fresh "e" in destruct (N.ltb a b) eqn:e
  | |- context [N.eqb ?a ?b] => let e := fresh "e" in destruct (N.eqb a b) eqn:e
  end.
Ltac props :=
  repeat match goal with
  | H : (_ =? _) = true |- _ => apply N.eqb_eq in H
  | H : (_ =? _) = false |- _ => apply N.eqb_neq in H
  | H : (_ <? _) = true |- _ => apply N.ltb_lt in H
  | H : (_ <? _) = false |- _ => apply N.ltb_ge in H
  end.

(* the `if`-pushing definition of exec_stmt is the natural one *)
Lemma exec_stmt_natural : forall E dr s st,
  (forall c, fst (exec_stmt E dr s st) c =
     fst (match s with
          | S x => exec_simple E dr x st
          | SIfNonEmpty g body => if existsb (nonempty st) g then exec_sl E dr body st else (st, true)
          | SIfNeedsReset t e => if st (CF blk_needs_reset) =? 0 then exec_sl E dr e st else exec_sl E dr t st
          end) c) /\
  snd (exec_stmt E dr s st) =
     snd (match s with
          | S x => exec_simple E dr x st
          | SIfNonEmpty g body => if existsb (nonempty st) g then exec_sl E dr body st else (st, true)
          | SIfNeedsReset t e => if st (CF blk_needs_reset) =? 0 then exec_sl E dr e st else exec_sl E dr t st
          end).
Proof.
  intros E dr s st. destruct s as [x|g body|t e]; cbn [exec_stmt].
  - split; reflexivity.
  - destruct (existsb (nonempty st) g); cbn;
    (split; [reflexivity | try destruct (snd (exec_sl E dr body st)); reflexivity]).
  - destruct (st (CF blk_needs_reset) =? 0); cbn;
    (split; [reflexivity | destruct (snd (exec_sl E dr t st)), (snd (exec_sl E dr e st)); reflexivity]).
Qed.

(* reset() contains no call to itself, so [do_reset] may ignore SCallReset *)
Lemma reset_body_not_recursive :
  forallb (fun s => match s with
                    | S SCallReset => false
                    | SIfNonEmpty _ b | SIfNeedsReset b _ => forallb (fun x => match x with SCallReset => false | _ => true end) b
                    | _ => true end) reset_body = true.
Proof. reflexivity. Qed.

Ltac dcell c f t := destruct c as [f| | | | | | | | | | | | | | | |t].

Definition agree (st1 st2 : state) : Prop := forall c, is_persistent c = true -> st1 c = st2 c.

Lemma ginv_guard_false : forall st, ginv st = true ->
  (st CPMKeys =? 0) = true -> (st (CF ctx_matching_rules) + st (CF ctx_matching_rules_per_ns) =? 0) = true ->
  st CMRuleBits = 0 /\ st CMPatBits = 0 /\ st (CF tracker_pattern_matches) = 0.
Proof.
  intros st G K M. unfold ginv in G. rewrite K, M in G. cbn in G.
  destruct (st CMRuleBits =? 0) eqn:A; destruct (st CMPatBits =? 0) eqn:B;
  destruct (st (CF tracker_pattern_matches) =? 0) eqn:C; cbn in G; try discriminate.
  apply N.eqb_eq in A, B, C. auto.
Qed.

Ltac use_ginv :=
  repeat match goal with
  | G : ginv ?st = true, K : (?st CPMKeys =? 0) = true,
    M : (?st (CF ctx_matching_rules) + ?st (CF ctx_matching_rules_per_ns) =? 0) = true |- _ =>
      let a := fresh in let b := fresh in let c := fresh in
      destruct (ginv_guard_false st G K M) as (a & b & c); clear G; try rewrite a; try rewrite b; try rewrite c
  end.

(* no user-supplied output is pending for a module that owns a per-thread
   cache which is not scan-scoped (the remaining finding) *)
Definition tl_guard (R : rules_env) (st : state) : Prop :=
  forall t, r_imported R (tl_module t) = true -> tl_scan_scoped t = false ->
    N.testbit (st (CF ctx_user_provided_module_outputs)) (r_mod_bit R (tl_module t)) = false.

(* the rules import no module with a per-thread cache that is not scan-scoped *)
Definition scoped_only (R : rules_env) : Prop :=
  forall t, r_imported R (tl_module t) = true -> tl_scan_scoped t = true.

Lemma scoped_only_guard : forall R st, scoped_only R -> tl_guard R st.
Proof. intros R st S t I N. rewrite (S t I) in N. discriminate N. Qed.

(* GENERATED fact: every module main re-initialises every per-thread cache of its module *)
Lemma all_tl_cleared : forall t, tl_cleared_by_main t = true.
Proof. destruct t; reflexivity. Qed.

(* PatternMatches::clear(), GENERATED branch table: whatever the total capacity
   is, on either side of the threshold, no match list keeps its content *)
Lemma pm_clear_empties_lists : forall st, pm_clear st (CF tracker_pattern_matches) = 0.
Proof. intros st. unfold pm_clear. destruct (pm_clear_threshold <? st CPMCap); reflexivity. Qed.

(* ---- the prologue of a contiguous scan re-establishes every transient cell ---- *)
Lemma probe_contig_noninterference : forall R i st1 st2,
  ginv st1 = true -> ginv st2 = true -> agree st1 st2 -> tl_guard R st1 ->
  forall c, visible R false c = true -> probe_contig R i st1 c = probe_contig R i st2 c.
Proof.
  intros R i st1 st2 G1 G2 A T c V.
  assert (T2 : tl_guard R st2).
  { intros t Ht Hs. rewrite <- (A (CF ctx_user_provided_module_outputs) eq_refl). apply T; assumption. }
  dcell c f t; [destruct f|..]; try discriminate V;
  try (specialize (T t V); specialize (T2 t V); sym_in V; sym_in T; sym_in T2;
       destruct (tl_scan_scoped t) eqn:SC; [clear T T2|specialize (T eq_refl); specialize (T2 eq_refl)]);
  sym; try rewrite SC;
  repeat match goal with |- context [st1 ?c] => rewrite (A c eq_refl) end;
  try rewrite all_tl_cleared;
  goal_atoms; use_ginv; try rewrite V; try rewrite T2; try reflexivity; props; try lia;
  repeat match goal with |- context [if ?b then _ else _] => destruct b end; reflexivity.
Qed.

(* every transient cell has its fresh value (or a value determined by the
   probe) when the evaluation of a contiguous scan starts *)
Definition established_contig (R : rules_env) (i : N) (st : state) (c : cell) : N :=
  match c with
  | CF ctx_scan_state => 2
  | CF ctx_deadline | CEpochDeadline => clamp (st (CF ctx_scan_timeout))
  | CEpochCallback => 1
  | CGFilesize => 1 + i
  | CF ctx_module_outputs | CRootModules => probe_tag i (st (CF ctx_user_provided_module_outputs))
  | _ => 0
  end.

Lemma contig_prologue_establishes : forall R i st, ginv st = true -> tl_guard R st ->
  forall c, classify c = Transient -> visible R false c = true ->
    probe_contig R i st c = established_contig R i st c.
Proof.
  intros R i st G T c C V.
  dcell c f t; [destruct f|..]; try discriminate C; try discriminate V;
  try (specialize (T t V); sym_in V; sym_in T; destruct (tl_scan_scoped t) eqn:SC; [clear T|specialize (T eq_refl)]);
  sym; try rewrite SC; try rewrite all_tl_cleared;
  goal_atoms; use_ginv; try rewrite V; try rewrite T; try reflexivity; props; try lia;
  repeat match goal with |- context [if ?b then _ else _] => destruct b end; reflexivity.
Qed.

(* ---- block mode ---- *)
(* what a block scanner's state satisfies whatever happened before: the
   whole-file cells are undefined and no snippet is left once a sequence is closed *)
Definition binv (st : state) : Prop :=
  ((st CKind =? 0) = false -> st CGFilesize = 0 /\ st CRootModules = 0) /\
  ((st (CF blk_needs_reset) =? 0) = false -> st (CF blk_snippets) = 0).

(* the cells of the remaining finding: per-thread caches that are not scan-scoped *)
Definition block_leak (c : cell) : bool :=
  match c with CTL t => negb (tl_scan_scoped t) | _ => false end.

Lemma probe_block_noninterference : forall R i st1 st2,
  ginv st1 = true -> ginv st2 = true -> agree st1 st2 -> binv st1 -> binv st2 ->
  (st1 CKind =? 0) = false ->
  (st1 (CF blk_needs_reset) =? 0) = false -> (st2 (CF blk_needs_reset) =? 0) = false ->
  forall c, visible R true c = true -> block_leak c = false ->
    probe_block R i st1 c = probe_block R i st2 c.
Proof.
  intros R i st1 st2 G1 G2 A [K1 S1] [K2 S2] KK N1 N2 c V L.
  assert (KK2 : (st2 CKind =? 0) = false) by (rewrite <- (A CKind eq_refl); exact KK).
  destruct (K1 KK) as [F1 M1]. destruct (K2 KK2) as [F2 M2]. specialize (S1 N1). specialize (S2 N2).
  dcell c f t; [destruct f|..]; try discriminate V; try discriminate L;
  try (cbn in L; apply negb_false_iff in L);
  sym; rewrite ?N1, ?N2; try rewrite L;
  repeat match goal with |- context [st1 ?c] => rewrite (A c eq_refl) end;
  goal_atoms; use_ginv; try reflexivity; props; try lia; try congruence.
Qed.

(* ---- histories ---- *)
Lemma step_agree : forall R o st sp, agree st sp -> agree (step R o st) (spec_step o sp).
Proof.
  intros R o st sp A c P.
  assert (K : st CKind = sp CKind) by (apply A; reflexivity).
  dcell c f t; [destruct f|..]; try discriminate P;
  destruct o as [i e oc| | | | | | | |i e oc|e oc|e]; try destruct oc;
  sym; rewrite ?K;
  repeat match goal with |- context [st ?c] => rewrite (A c eq_refl) end;
  goal_atoms; try reflexivity; props; try congruence.
Qed.

Lemma run_agree : forall R h st sp, agree st sp ->
  agree (run R h st) (fold_left (fun s o => spec_step o s) h sp).
Proof.
  intros R h. induction h as [|o h IH]; intros st sp A; cbn in *.
  - exact A.
  - apply IH, step_agree, A.
Qed.

Lemma ginv_iff : forall st, ginv st = true <->
  (st CMRuleBits <> 0 -> st (CF ctx_matching_rules) + st (CF ctx_matching_rules_per_ns) <> 0) /\
  (st CMPatBits <> 0 \/ st (CF tracker_pattern_matches) <> 0 -> st CPMKeys <> 0).
Proof.
  intros st. unfold ginv.
  destruct (st CMRuleBits =? 0) eqn:A; destruct (st CMPatBits =? 0) eqn:B;
  destruct (st (CF tracker_pattern_matches) =? 0) eqn:C; destruct (st CPMKeys =? 0) eqn:D;
  destruct (st (CF ctx_matching_rules) + st (CF ctx_matching_rules_per_ns) =? 0) eqn:F; props; cbn;
  split; intros; try discriminate; try reflexivity; try tauto; try (exfalso; intuition congruence).
Qed.

Lemma do_reset_ginv : forall E st, ginv st = true -> ginv (do_reset E st) = true.
Proof.
  intros E st G. apply ginv_iff in G. apply ginv_iff. sym. goal_atoms; props; try tauto; try lia.
Qed.

Ltac symr := cbv -[N.eqb N.ltb N.add clamp N.min N.testbit N.leb N.shiftl N.shiftr N.lor N.succ probe_tag tl_module tl_cleared_by_main tl_scan_scoped DEFAULT_SCAN_TIMEOUT do_reset].

Lemma step_ginv : forall R o st, wf_op o = true -> ginv st = true -> ginv (step R o st) = true.
Proof.
  intros R o st W G.
  destruct o as [i e oc| | | | | | | |i e oc|e oc|e]; try destruct oc;
  unfold wf_op, wf_eff in W;
  try (apply ginv_iff in W); apply ginv_iff in G; apply ginv_iff;
  symr;
  repeat match goal with
  | |- context [do_reset ?E st] => let G' := fresh "G'" in
      pose proof (do_reset_ginv E st (proj2 (ginv_iff st) G)) as G'; apply ginv_iff in G'; revert G';
      generalize (do_reset E st); intros st' G'
  end;
  goal_atoms; try assumption; try tauto.
Qed.

Lemma run_ginv : forall R h st, forallb wf_op h = true -> ginv st = true -> ginv (run R h st) = true.
Proof.
  intros R h. induction h as [|o h IH]; intros st W G; cbn in *.
  - exact G.
  - apply andb_true_iff in W. destruct W as [W1 W2]. apply IH; [exact W2|]. apply step_ginv; assumption.
Qed.

(* the specification state never leaves the fresh values outside the persistent cells *)
Lemma spec_step_keeps : forall o sp c, is_persistent c = false -> spec_step o sp c = sp c.
Proof.
  intros o sp c P. dcell c f t; [destruct f|..]; try discriminate P;
  destruct o as [i e oc| | | | | | | |i e oc|e oc|e]; sym; goal_atoms; reflexivity.
Qed.
Lemma spec_fold_keeps : forall h sp c, is_persistent c = false ->
  fold_left (fun s o => spec_step o s) h sp c = sp c.
Proof.
  induction h as [|o h IH]; intros sp c P; cbn; [reflexivity|]. rewrite IH by exact P. apply spec_step_keeps, P.
Qed.

Lemma spec_persist_ginv : forall h, ginv (spec_persist h) = true.
Proof.
  intros h. unfold ginv, spec_persist. rewrite !spec_fold_keeps by reflexivity. reflexivity.
Qed.

Lemma spec_persist_binv : forall h, binv (spec_persist h).
Proof.
  intros h. unfold binv, spec_persist. split; intros _.
  - rewrite (spec_fold_keeps h fresh CGFilesize eq_refl), (spec_fold_keeps h fresh CRootModules eq_refl). split; reflexivity.
  - rewrite (spec_fold_keeps h fresh (CF blk_snippets) eq_refl). reflexivity.
Qed.

Lemma fresh_ginv : ginv fresh = true.
Proof. reflexivity. Qed.

Lemma agree_refl : forall st, agree st st.
Proof. intros st c _. reflexivity. Qed.

(* block-scanner invariant along histories *)
Lemma do_reset_other : forall E st c,
  match c with CKind | CGFilesize | CRootModules | CF blk_needs_reset | CF blk_snippets => True | _ => False end ->
  do_reset E st c = st c.
Proof.
  intros E st c H. dcell c f t; [destruct f|..]; try contradiction; sym; goal_atoms; reflexivity.
Qed.

Lemma step_binv : forall R o st, binv st -> binv (step R o st).
Proof.
  intros R o st [K S].
  destruct o as [i e oc| | | | | | | |i e oc|e oc|e]; try destruct oc; unfold binv;
  symr;
  repeat match goal with
  | |- context [do_reset ?E st CKind] => rewrite (do_reset_other E st CKind I)
  | |- context [do_reset ?E st CGFilesize] => rewrite (do_reset_other E st CGFilesize I)
  | |- context [do_reset ?E st CRootModules] => rewrite (do_reset_other E st CRootModules I)
  | |- context [do_reset ?E st (CF blk_needs_reset)] => rewrite (do_reset_other E st (CF blk_needs_reset) I)
  | |- context [do_reset ?E st (CF blk_snippets)] => rewrite (do_reset_other E st (CF blk_snippets) I)
  end;
  destruct (st CKind =? 0) eqn:KK; destruct (st (CF blk_needs_reset) =? 0) eqn:NN;
  cbv beta iota; rewrite ?KK, ?NN; cbv beta iota;
  (split; [intros H; try discriminate H; try (destruct (K eq_refl); split; assumption); try (split; reflexivity)
          |intros H; try discriminate H; try (apply S; reflexivity); try reflexivity]).
Qed.

Lemma run_binv : forall R h st, binv st -> binv (run R h st).
Proof.
  intros R h. induction h as [|o h IH]; intros st B; cbn; [exact B|]. apply IH, step_binv, B.
Qed.

Lemma fresh_binv : binv fresh.
Proof. split; intros H; [discriminate H|reflexivity]. Qed.

(* ---- C04: history independence ---- *)
Theorem history_independence_contiguous : forall R h i,
  forallb wf_op h = true ->            (* effects respect how bitmap bits get set (checked on real digests by K) *)
  tl_guard R (spec_persist h) ->       (* no user-supplied output for a module owning a per-thread cache that is not scan-scoped (known finding) *)
  forall c, visible R false c = true ->
    probe_contig R i (run R h fresh) c = probe_contig R i (spec_persist h) c.
Proof.
  intros R h i W T c V.
  pose proof (run_agree R h fresh fresh (agree_refl fresh)) as A.
  apply probe_contig_noninterference; try assumption.
  - apply run_ginv; [exact W|exact fresh_ginv].
  - apply spec_persist_ginv.
  - intros t Ht Hs. unfold spec_persist in T. rewrite (A (CF ctx_user_provided_module_outputs) eq_refl). apply T; assumption.
Qed.

Theorem history_independence_block : forall R h i,
  forallb wf_op h = true ->
  (spec_persist h CKind =? 0) = false ->
  (run R h fresh (CF blk_needs_reset) =? 0) = false ->     (* the history's last block sequence was finished *)
  forall c, visible R true c = true -> block_leak c = false ->
    probe_block R i (run R h fresh) c = probe_block R i (spec_persist h) c.
Proof.
  intros R h i W K NR c V L.
  pose proof (run_agree R h fresh fresh (agree_refl fresh)) as A.
  apply probe_block_noninterference; try assumption.
  - apply run_ginv; [exact W|exact fresh_ginv].
  - apply spec_persist_ginv.
  - apply run_binv, fresh_binv.
  - apply spec_persist_binv.
  - rewrite (A CKind eq_refl). exact K.
  - unfold spec_persist. rewrite spec_fold_keeps by reflexivity. reflexivity.
Qed.

(* the property, for both scanner kinds, for rules whose modules' per-thread caches are all scan-scoped *)
Definition probe_of (R : rules_env) (h : list op) (i : N) (st : state) : state :=
  if spec_persist h CKind =? 0 then probe_contig R i st else probe_block R i st.

Theorem history_independence : forall R h i,
  forallb wf_op h = true -> scoped_only R ->
  (run R h fresh (CF blk_needs_reset) =? 0) = false ->
  forall c, visible R (negb (spec_persist h CKind =? 0)) c = true ->
    probe_of R h i (run R h fresh) c = probe_of R h i (spec_persist h) c.
Proof.
  intros R h i W S NR c V. unfold probe_of. destruct (spec_persist h CKind =? 0) eqn:K; cbn in V.
  - apply history_independence_contiguous; try assumption. apply scoped_only_guard, S.
  - apply history_independence_block; try assumption.
    destruct c; try reflexivity. cbn. cbn in V. rewrite (S t V). reflexivity.
Qed.

(* ---- without the restriction on the rules the statement is false ---- *)
Definition history_independence_stmt : Prop :=
  forall R h i, forallb wf_op h = true ->
    (run R h fresh (CF blk_needs_reset) =? 0) = false ->
    forall c, visible R (negb (spec_persist h CKind =? 0)) c = true ->
      probe_of R h i (run R h fresh) c = probe_of R h i (spec_persist h) c.

Definition R_all : rules_env := mkRules (fun _ => true) (fun m => N.of_nat (String.length m)).
Definition clean : cell -> N := fun _ => 0.
(* a completed scan that matched nothing but populated the per-thread caches *)
Definition eff_tl : cell -> N := fun c => match c with CTL _ => 9 | _ => 0 end.

(* witness: (history, probe input, leaking cell) *)
Definition leaks (h : list op) (i : N) (c : cell) : Prop :=
  forallb wf_op h = true /\ (run R_all h fresh (CF blk_needs_reset) =? 0) = false /\
  visible R_all (negb (spec_persist h CKind =? 0)) c = true /\
  probe_of R_all h i (run R_all h fresh) c <> probe_of R_all h i (spec_persist h) c.

(* per-thread caches that are not scan-scoped, filled by any scan on the thread, are visible to a block scanner *)
Lemma leak_tl_block : leaks [OOther eff_tl; OIntoBlocks] 3 (CTL tl_cuckoo_LOCAL_DATA).
Proof. repeat split; vm_compute; congruence. Qed.
(* ... and to a contiguous scan whose output for that module is supplied by the user ("cuckoo" has length 6) *)
Lemma leak_tl_user_output : leaks [OOther eff_tl; OSetModuleOutput 6] 3 (CTL tl_cuckoo_LOCAL_DATA).
Proof. repeat split; vm_compute; congruence. Qed.

Theorem history_independence_refuted : ~ history_independence_stmt.
Proof.
  intros H. destruct leak_tl_block as (W & N & V & D). apply D. exact (H R_all _ 3 W N _ V).
Qed.

(* the repaired leaks no longer exist in the model: the same histories, the formerly leaking cells *)
Lemma repaired_witnesses :
  let eq h c := probe_of R_all h 3 (run R_all h fresh) c = probe_of R_all h 3 (spec_persist h) c in
  eq [OScan 5 clean Complete; OIntoBlocks] CGFilesize /\
  eq [OScan 5 clean Complete; OIntoBlocks] CRootModules /\
  eq [OOther eff_tl; OIntoBlocks] (CTL tl_hash_MD5_CACHE) /\
  eq [OOther eff_tl; OSetModuleOutput 4] (CTL tl_hash_MD5_CACHE) /\
  eq [OOther eff_tl; OSetModuleOutput 4] (CTL tl_math_DISTRIBUTION_CACHE) /\
  eq [OSetModuleOutput 11; OScan 5 clean (ModErr 6)] CRootModules /\
  eq [OIntoBlocks; OSetTimeout 1; OBlockScan 1 (fun c => match c with CF blk_snippets => 2 | _ => 0 end) Complete; OBlockFinish clean TimedOut] (CF blk_snippets).
Proof. cbv zeta. repeat split; vm_compute; reflexivity. Qed.

(* the guarded theorems are not vacuous *)
Definition R_scoped : rules_env :=
  mkRules (fun m => String.eqb m "hash" || String.eqb m "math" || String.eqb m "test_proto2")%bool (fun m => N.of_nat (String.length m)).
Example scoped_only_satisfiable : scoped_only R_scoped.
Proof. intros t. destruct t; cbn; intros H; try discriminate H; reflexivity. Qed.
Example history_hypotheses_satisfiable :
  let h := [OSetTimeout 3; OScan 5 (fun c => match c with CMRuleBits | CF ctx_matching_rules | CPMKeys | CMPatBits => 2 | _ => 0 end) TimedOut;
            OSetModuleOutput 11; OScan 6 clean (ModErr 2); OSetGlobal 4; OOther eff_tl; OIntoBlocks;
            OBlockScan 1 (fun c => match c with CF blk_snippets => 2 | _ => 0 end) Complete; OBlockFinish clean TimedOut] in
  forallb wf_op h = true /\ (run R_scoped h fresh (CF blk_needs_reset) =? 0) = false /\ (spec_persist h CKind =? 0) = false.
Proof. repeat split. Qed.
Example contiguous_guard_satisfiable :
  let h := [OScan 6 clean (ModErr 2); OSetModuleOutput 11; OSetGlobal 4; OOther eff_tl] in
  forallb wf_op h = true /\ tl_guard R_all (spec_persist h).
Proof. cbv zeta. split; [reflexivity|]. intros t _ _. destruct t; reflexivity. Qed.

(* ---- C14: whole-file notions in block mode ---- *)
(* filesize, module fields and the scan-scoped per-thread caches are as in a
   fresh block scanner, whatever the scanner or the thread did before *)
Definition whole_file_cell (c : cell) : bool :=
  match c with CGFilesize | CRootModules => true | CTL t => tl_scan_scoped t | _ => false end.

Theorem whole_file_undefined : forall R h i,
  forallb wf_op h = true -> (spec_persist h CKind =? 0) = false ->
  (run R h fresh (CF blk_needs_reset) =? 0) = false ->
  forall c, whole_file_cell c = true -> probe_block R i (run R h fresh) c = fresh c.
Proof.
  intros R h i W K NR c WC.
  pose proof (run_agree R h fresh fresh (agree_refl fresh)) as A.
  assert (KK : (run R h fresh CKind =? 0) = false) by (rewrite (A CKind eq_refl); exact K).
  destruct (run_binv R h fresh fresh_binv) as [B _]. destruct (B KK) as [F M].
  revert NR F M. generalize (run R h fresh). intros st NR F M.
  dcell c f t; [destruct f|..]; try discriminate WC; cbn in WC;
  sym; rewrite ?NR, ?WC; cbn; goal_atoms; try assumption; reflexivity.
Qed.

(* it is still false for the per-thread caches that are not scan-scoped *)
Definition whole_file_undefined_all_caches_stmt : Prop :=
  forall R h i, forallb wf_op h = true -> (spec_persist h CKind =? 0) = false ->
    (run R h fresh (CF blk_needs_reset) =? 0) = false ->
    forall t, r_imported R (tl_module t) = true -> probe_block R i (run R h fresh) (CTL t) = 0.
Theorem whole_file_undefined_all_caches_refuted : ~ whole_file_undefined_all_caches_stmt.
Proof.
  intros H.
  assert (X := H R_all [OOther eff_tl; OIntoBlocks] 3 eq_refl eq_refl eq_refl tl_cuckoo_LOCAL_DATA eq_refl).
  vm_compute in X. discriminate X.
Qed.

(* ---- C16: the scan after a timed-out scan starts clean ---- *)
Theorem reset_after_timeout_clean : forall R h i0 e i,
  forallb wf_op (h ++ [OScan i0 e TimedOut]) = true ->
  tl_guard R (spec_persist (h ++ [OScan i0 e TimedOut])) ->
  forall c, visible R false c = true ->
    probe_contig R i (run R (h ++ [OScan i0 e TimedOut]) fresh) c
    = probe_contig R i (spec_persist (h ++ [OScan i0 e TimedOut])) c.
Proof. intros R h i0 e i. apply history_independence_contiguous. Qed.

(* block mode: after a finish() that timed out, every visible cell (the snippets included) *)
Theorem block_reset_after_timeout_clean : forall R h e i,
  let h' := h ++ [OBlockFinish e TimedOut] in
  forallb wf_op h' = true ->
  (spec_persist h' CKind =? 0) = false ->
  forall c, visible R true c = true -> block_leak c = false ->
    probe_block R i (run R h' fresh) c = probe_block R i (spec_persist h') c.
Proof.
  intros R h e i h' W K c V L.
  apply history_independence_block; try assumption.
  (* finish() sets needs_reset before evaluating, also when it times out *)
  unfold h', run. rewrite fold_left_app. cbn [fold_left].
  set (st := fold_left (fun s o => step R o s) h fresh).
  assert (KK : (st CKind =? 0) = false).
  { pose proof (run_agree R h fresh fresh (agree_refl fresh)) as A.
    unfold h' in K. unfold spec_persist in K. rewrite fold_left_app in K. cbn [fold_left] in K.
    unfold st. change (fold_left (fun s o => step R o s) h fresh) with (run R h fresh).
    rewrite (A CKind eq_refl). revert K. sym. goal_atoms; congruence. }
  clearbody st. sym. rewrite KK. cbn. goal_atoms; reflexivity.
Qed.
