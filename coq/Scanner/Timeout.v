(* Timeout machine (C16).

   The process-wide clock is the pair (HEARTBEAT_COUNTER, engine epoch); the
   heartbeat thread advances both together.  reset() sets
   deadline = counter + clamp(timeout) and the store's epoch deadline
   = epoch + clamp(timeout).  A scan is a sequence of items:
     - IEpochCheck: a function entry / loop back-edge of the emitted code,
       where the runtime compares the epoch with the store's deadline;
     - ISearch hits: the host call search_for_patterns; before every atom hit
       ac_search_loop compares the counter with the deadline;
     - IHost w: any other host call (rule_match, pat_*, ...) contributing w
       to the result.
   The schedule gives the number of heartbeats that arrive just before each
   item / hit.  What happens on a timeout (scan state, forced epoch deadline,
   the mapping in eval_conditions) is read from the GENERATED booleans. *)
From Coq Require Import List NArith Bool.
From YV Require Import Gen.ScanState Scanner.State.
Import ListNotations.
Local Open Scope N_scope.

Record tstate := mkT {
  counter : N; epoch : N;            (* the clock *)
  deadline : N; epoch_deadline : N;  (* of this scanner *)
  st_timeout : bool;                 (* scan_state = ScanState::Timeout *)
  psd : bool }.                      (* pattern_search_done *)

Definition beat (s : tstate) (n : N) : tstate :=
  mkT (counter s + n) (epoch s + n) (deadline s) (epoch_deadline s) (st_timeout s) (psd s).

(* reset() with scan_timeout t (encoding of State.clamp: 0 = None, n + 1 = Some n) *)
Definition after_reset (cnt ep t : N) : tstate :=
  mkT cnt ep (cnt + clamp t) (ep + clamp t) false false.

Inductive item := IEpochCheck | ISearch (hits : list N) | IHost (w : N).

Definition next_beats (sc : list N) : N * list N :=
  match sc with [] => (0, []) | b :: r => (b, r) end.

(* ac_search_loop: (state, remaining schedule, result so far, timed out?) *)
Fixpoint search (hits : list N) (s : tstate) (sc : list N) (acc : list N) : tstate * list N * list N * bool :=
  match hits with
  | [] => (s, sc, acc, false)
  | h :: hs =>
      let (b, sc') := next_beats sc in
      let s' := beat s b in
      if deadline s' <=? counter s' then (s', sc', acc, true)       (* `HEARTBEAT_COUNTER >= self.deadline` *)
      else search hs s' sc' (h :: acc)
  end.

(* the host function search_for_patterns *)
Definition host_search (hits : list N) (s : tstate) (sc : list N) (acc : list N) : tstate * list N * list N :=
  let '(s1, sc1, acc1, tout) := search hits s sc acc in
  let s2 := mkT (counter s1) (epoch s1) (deadline s1)
                (if tout && host_search_forces_epoch_deadline_zero then 0 else epoch_deadline s1)
                (if tout then search_timeout_sets_state_timeout else st_timeout s1)
                true in
  (s2, sc1, acc1).

(* WASM main: (state, result so far, trapped with Timeout?) *)
Fixpoint run_items (items : list item) (s : tstate) (sc : list N) (acc : list N) : tstate * list N * bool :=
  match items with
  | [] => (s, acc, false)
  | IEpochCheck :: r =>
      let (b, sc') := next_beats sc in
      let s' := beat s b in
      if epoch_deadline s' <=? epoch s' then (s', acc, true) else run_items r s' sc' acc
  | ISearch hits :: r =>
      if psd s then run_items r s sc acc        (* the emitted code calls it only while pattern_search_done = 0 *)
      else let '(s', sc', acc') := host_search hits s sc acc in run_items r s' sc' acc'
  | IHost w :: r =>
      let (b, sc') := next_beats sc in
      run_items r (beat s b) sc' (w :: acc)
  end.

Inductive sresult := RComplete (r : list N) | RTimeout.

(* eval_conditions *)
Definition finish_eval (x : tstate * list N * bool) : sresult :=
  let '(s, acc, trap) := x in
  if trap then (if eval_passes_wasm_timeout_error then RTimeout else RComplete acc)
  else if st_timeout s && eval_maps_state_timeout_to_error then RTimeout else RComplete acc.

Definition scan (items : list item) (cnt ep t : N) (sc : list N) : sresult :=
  finish_eval (run_items items (after_reset cnt ep t) sc []).

(* what the scan reports when nothing interrupts it *)
Fixpoint collect (items : list item) (searched : bool) (acc : list N) : list N :=
  match items with
  | [] => acc
  | IEpochCheck :: r => collect r searched acc
  | ISearch hits :: r => if searched then collect r searched acc else collect r true (rev hits ++ acc)
  | IHost w :: r => collect r searched (w :: acc)
  end.
Definition complete_result (items : list item) : list N := collect items false [].

(* number of heartbeats delivered by the first n slots of a schedule *)
Fixpoint beats_total (sc : list N) : N := match sc with [] => 0 | b :: r => b + beats_total r end.
