(* Correspondence cases for C16.  The harness records, in a dry run, the
   sequence of sites at which the scan could be interrupted (deadline polls of
   the search loop, host calls), then makes the deadline pass at the k-th
   site and reports what the scan returned.
   [check_case] (K): the timeout machine, run on the recorded trace with the
   heartbeats delivered at site k, says whether the scan MUST time out (an
   atom-hit poll follows), MUST complete (no consultation follows), or may do
   either (only epoch checks of the emitted code follow: where those are is
   the WASM runtime's business).
   [spec_case] (S): the result is Timeout or equal to the uninterrupted
   result; the next scan on the same scanner equals a fresh scanner's; a
   scanner without timeout on the same thread is not affected. *)
From Coq Require Import List NArith Bool.
From YV Require Import Gen.ScanState Scanner.State Scanner.Timeout Scanner.StateCheck.
Import ListNotations.
Local Open Scope N_scope.

Inductive site := SPoll | SHostSearch | SHost.
Inductive grp := GHost | GSearch (n : nat).

Fixpoint group (l : list site) : list grp :=
  match l with
  | [] => []
  | SPoll :: r => match group r with GSearch n :: g => GSearch (Datatypes.S n) :: g | g => GSearch 1 :: g end
  | _ :: r => GHost :: group r
  end.

(* items and schedule; j = index (from 1) of the next site, k = site at which B heartbeats arrive *)
Fixpoint slots (n : nat) (j k B : N) : list N :=
  match n with O => [] | Datatypes.S n' => (if j =? k then B else 0) :: slots n' (j + 1) k B end.

Fixpoint build (checks : bool) (g : list grp) (j k B : N) : list item * list N :=
  match g with
  | [] => ([], [])
  | GHost :: r =>
      let (it, sc) := build checks r (j + 1) k B in
      (IHost 7 :: (if checks then IEpochCheck :: it else it),
       (if j =? k then B else 0) :: (if checks then 0 :: sc else sc))
  | GSearch n :: r =>
      let (it, sc) := build checks r (j + N.of_nat n) k B in
      (ISearch (repeat 1 n) :: it, slots n j k B ++ sc)
  end.

Definition predict (checks : bool) (sites : list site) (k t : N) : sresult :=
  let (it, sc) := build checks (group sites) 1 k (clamp t) in scan it 0 0 t sc.

Definition is_timeout_r (r : sresult) : bool := match r with RTimeout => true | _ => false end.

Record case := mkCase {
  k_sites : list site;      (* dry run *)
  k_k : N;                  (* the deadline passes at the k-th site (0: never) *)
  k_t : N;                  (* set_timeout, State.clamp encoding *)
  k_timed : outcome_d;      (* what the interrupted scan returned *)
  k_base : outcome_d;       (* what the uninterrupted scan returns *)
  k_next_used : N; k_next_fresh : N;     (* digests of the next scan's result: same scanner / fresh scanner *)
  k_other : N; k_other_base : N;         (* a scanner without timeout on the same thread / alone *)
  k_prompt : bool }.        (* real-heartbeat runs: the scan ended within the allowed wall time *)

Definition timed_out (k : case) : bool := match k_timed k with OTimeout => true | _ => false end.

(* k_t = 0 marks a run against the real heartbeat: the model predicts nothing there *)
Definition check_case (k : case) : bool :=
  if k_t k =? 0 then true else
  let a := is_timeout_r (predict true (k_sites k) (k_k k) (k_t k)) in
  let b := is_timeout_r (predict false (k_sites k) (k_k k) (k_t k)) in
  implb (a && b) (timed_out k) && implb (negb a && negb b) (negb (timed_out k)).

Definition spec_case (k : case) : bool :=
  (timed_out k || outcome_eqb (k_timed k) (k_base k)) &&
  (k_next_used k =? k_next_fresh k) && (k_other k =? k_other_base k) && k_prompt k.
