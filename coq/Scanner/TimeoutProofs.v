(* Proofs about the timeout machine (C16). *)
From Coq Require Import List NArith Bool Lia.
From YV Require Import Gen.ScanState Scanner.State Scanner.Timeout.
Import ListNotations.
Local Open Scope N_scope.

Lemma clamp_le : forall t, clamp t <= DEFAULT_SCAN_TIMEOUT.
Proof. intros t. unfold clamp. destruct t; [lia|]. apply N.le_min_r. Qed.

(* ---- search ---- *)
Lemma search_spec : forall hits s sc acc s' sc' acc' tout,
  search hits s sc acc = (s', sc', acc', tout) ->
  (tout = false -> acc' = rev hits ++ acc) /\
  st_timeout s' = st_timeout s /\ psd s' = psd s /\
  deadline s' = deadline s /\ epoch_deadline s' = epoch_deadline s.
Proof.
  induction hits as [|h hs IH]; intros s sc acc s' sc' acc' tout H; cbn in H.
  - inversion H; subst. repeat split; reflexivity.
  - destruct (next_beats sc) as [b sc1]. cbn in H.
    destruct (deadline s <=? counter s + b) eqn:D.
    + inversion H; subst. cbn. repeat split; try reflexivity. discriminate.
    + apply IH in H. destruct H as (A & B & C & E & F). cbn in *.
      repeat split; try assumption. intros T. rewrite (A T). rewrite <- app_assoc. reflexivity.
Qed.

(* once the deadline has passed, the next poll of the search loop stops the
   search: no further hit is handled *)
Theorem fires_at_next_search_poll : forall h hits s sc acc,
  deadline s <= counter s ->
  exists s' sc', search (h :: hits) s sc acc = (s', sc', acc, true).
Proof.
  intros h hits s sc acc D. cbn. destruct (next_beats sc) as [b sc1]. cbn.
  assert (X : (deadline s <=? counter s + b) = true) by (apply N.leb_le; lia).
  rewrite X. eauto.
Qed.

(* ... and the next epoch check of the emitted code traps *)
Theorem fires_at_next_epoch_check : forall r s sc acc,
  epoch_deadline s <= epoch s ->
  exists s', run_items (IEpochCheck :: r) s sc acc = (s', acc, true).
Proof.
  intros r s sc acc D. cbn. destruct (next_beats sc) as [b sc1]. cbn.
  assert (X : (epoch_deadline s <=? epoch s + b) = true) by (apply N.leb_le; lia).
  rewrite X. eauto.
Qed.

(* the two deadlines expire together: counter and epoch move in lockstep *)
Definition inlock (s : tstate) : Prop := deadline s + epoch s = epoch_deadline s + counter s.
Lemma after_reset_inlock : forall cnt ep t, inlock (after_reset cnt ep t).
Proof. intros. unfold inlock, after_reset. cbn. lia. Qed.
Lemma beat_inlock : forall s n, inlock s -> inlock (beat s n).
Proof. intros s n H. unfold inlock in *. cbn. lia. Qed.
Theorem expiry_seen_by_both : forall s, inlock s ->
  (deadline s <= counter s <-> epoch_deadline s <= epoch s).
Proof. intros s H. unfold inlock in H. lia. Qed.

(* a search that timed out makes every later epoch check trap (GENERATED:
   the host function sets the epoch deadline to 0) *)
Theorem search_timeout_forces_trap : forall hits s sc acc s1 sc1 acc1,
  search hits s sc acc = (s1, sc1, acc1, true) ->
  forall r, exists s', run_items (IEpochCheck :: r) (fst (fst (host_search hits s sc acc))) sc1 acc1 = (s', acc1, true).
Proof.
  intros hits s sc acc s1 sc1 acc1 H r. unfold host_search. rewrite H. cbn [fst].
  apply fires_at_next_epoch_check. cbn. apply N.le_0_l.
Qed.

(* ---- a timed-out search is never forgotten ---- *)
Lemma run_items_keeps_timeout : forall items s sc acc s' acc' trap,
  run_items items s sc acc = (s', acc', trap) -> st_timeout s = true -> st_timeout s' = true.
Proof.
  induction items as [|it r IH]; intros s sc acc s' acc' trap H T; cbn in H.
  - inversion H; subst. exact T.
  - destruct it as [|hits|w].
    + destruct (next_beats sc) as [b sc1]. cbn in H.
      destruct (epoch_deadline s <=? epoch s + b).
      * inversion H; subst. exact T.
      * eapply IH; [exact H|exact T].
    + destruct (psd s).
      * eapply IH; [exact H|exact T].
      * unfold host_search in H. destruct (search hits s sc acc) as [[[s1 sc1] acc1] tout] eqn:S.
        apply search_spec in S. destruct S as (_ & B & _).
        eapply IH; [exact H|]. cbn. destruct tout; [reflexivity|]. rewrite B. exact T.
    + destruct (next_beats sc) as [b sc1]. eapply IH; [exact H|exact T].
Qed.

Lemma run_items_complete : forall items s sc acc s' acc',
  run_items items s sc acc = (s', acc', false) -> st_timeout s' = false ->
  acc' = collect items (psd s) acc.
Proof.
  induction items as [|it r IH]; intros s sc acc s' acc' H T; cbn in H.
  - inversion H; subst. reflexivity.
  - destruct it as [|hits|w]; cbn [collect].
    + destruct (next_beats sc) as [b sc1]. cbn in H.
      destruct (epoch_deadline s <=? epoch s + b); [discriminate H|].
      apply IH in H; [|exact T]. exact H.
    + destruct (psd s) eqn:P.
      * apply IH in H; [|exact T]. rewrite P in H. exact H.
      * unfold host_search in H. destruct (search hits s sc acc) as [[[s1 sc1] acc1] tout] eqn:S.
        pose proof (search_spec _ _ _ _ _ _ _ _ S) as (A & _).
        destruct tout.
        -- (* the search timed out: the state says so until the end *)
           exfalso. apply run_items_keeps_timeout in H; [|reflexivity]. rewrite H in T. discriminate T.
        -- apply IH in H; [|exact T]. cbn in H. rewrite (A eq_refl) in H. exact H.
    + destruct (next_beats sc) as [b sc1]. apply IH in H; [|exact T]. exact H.
Qed.

(* ---- C16: a scan returns its complete result or Timeout, never a partial result ---- *)
Theorem timeout_or_complete : forall items cnt ep t sc,
  scan items cnt ep t sc = RTimeout \/ scan items cnt ep t sc = RComplete (complete_result items).
Proof.
  intros items cnt ep t sc. unfold scan, finish_eval.
  destruct (run_items items (after_reset cnt ep t) sc []) as [[s' acc'] trap] eqn:R.
  destruct trap.
  - left. reflexivity.
  - destruct (st_timeout s') eqn:T.
    + left. reflexivity.
    + right. cbn. f_equal. apply run_items_complete in R; [|exact T]. exact R.
Qed.

(* ---- a scanner whose deadline is not reached is never interrupted ---- *)
Lemma search_no_timeout : forall hits s sc acc,
  counter s + beats_total sc < deadline s ->
  exists s' sc', search hits s sc acc = (s', sc', rev hits ++ acc, false) /\
    counter s' + beats_total sc' < deadline s' /\ epoch s' + beats_total sc' = epoch s + beats_total sc /\
    deadline s' = deadline s /\ epoch_deadline s' = epoch_deadline s /\ st_timeout s' = st_timeout s /\ psd s' = psd s /\
    counter s' + beats_total sc' = counter s + beats_total sc.
Proof.
  induction hits as [|h hs IH]; intros s sc acc D.
  - exists s, sc. cbn. repeat split; try reflexivity; assumption.
  - destruct sc as [|b sc1]; cbn [search next_beats].
    + assert (X : (deadline (beat s 0) <=? counter (beat s 0)) = false) by (apply N.leb_gt; cbn in *; lia).
      rewrite X. destruct (IH (beat s 0) [] (h :: acc)) as (s' & sc' & E & A & B & C & F & G & P & Q); [cbn in *; lia|].
      exists s', sc'. rewrite E. cbn [rev]. rewrite <- app_assoc. cbn in *. repeat split; try assumption; try lia.
    + assert (X : (deadline (beat s b) <=? counter (beat s b)) = false) by (apply N.leb_gt; cbn in *; lia).
      rewrite X. destruct (IH (beat s b) sc1 (h :: acc)) as (s' & sc' & E & A & B & C & F & G & P & Q); [cbn in *; lia|].
      exists s', sc'. rewrite E. cbn [rev]. rewrite <- app_assoc. cbn in *. repeat split; try assumption; try lia.
Qed.

Lemma run_items_no_timeout : forall items s sc acc,
  counter s + beats_total sc < deadline s -> epoch s + beats_total sc < epoch_deadline s -> st_timeout s = false ->
  exists s', run_items items s sc acc = (s', collect items (psd s) acc, false) /\ st_timeout s' = false.
Proof.
  induction items as [|it r IH]; intros s sc acc D E T; cbn [run_items collect].
  - exists s. split; [reflexivity|exact T].
  - destruct it as [|hits|w].
    + destruct sc as [|b sc1]; cbn [next_beats].
      * assert (X : (epoch_deadline (beat s 0) <=? epoch (beat s 0)) = false) by (apply N.leb_gt; cbn in *; lia).
        rewrite X. destruct (IH (beat s 0) [] acc) as (s' & R & T'); cbn in *; try lia; try assumption.
        exists s'. split; assumption.
      * assert (X : (epoch_deadline (beat s b) <=? epoch (beat s b)) = false) by (apply N.leb_gt; cbn in *; lia).
        rewrite X. destruct (IH (beat s b) sc1 acc) as (s' & R & T'); cbn in *; try lia; try assumption.
        exists s'. split; assumption.
    + destruct (psd s) eqn:P.
      * destruct (IH s sc acc D E T) as (s' & R & T'). rewrite P in R. exists s'. split; assumption.
      * unfold host_search.
        destruct (search_no_timeout hits s sc acc D) as (s1 & sc1 & S & A & B & C & F & G & Q & W).
        rewrite S. cbn [andb].
        match goal with |- context [run_items r ?s2 sc1 _] =>
          destruct (IH s2 sc1 (rev hits ++ acc)) as (s' & R & T'); cbn; try lia; try (rewrite G; exact T) end.
        exists s'. split; [|exact T']. exact R.
    + destruct sc as [|b sc1]; cbn [next_beats].
      * destruct (IH (beat s 0) [] (w :: acc)) as (s' & R & T'); cbn in *; try lia; try assumption.
        exists s'. split; assumption.
      * destruct (IH (beat s b) sc1 (w :: acc)) as (s' & R & T'); cbn in *; try lia; try assumption.
        exists s'. split; assumption.
Qed.

(* a scanner without a timeout completes whatever other scanners' deadlines
   do to the shared clock, as long as fewer than DEFAULT_SCAN_TIMEOUT
   heartbeats (ten years) arrive during its scan *)
Theorem no_timeout_not_interrupted : forall items cnt ep sc,
  beats_total sc < DEFAULT_SCAN_TIMEOUT ->
  scan items cnt ep 0 sc = RComplete (complete_result items).
Proof.
  intros items cnt ep sc B. unfold scan.
  destruct (run_items_no_timeout items (after_reset cnt ep 0) sc []) as (s' & R & T);
    try (cbn; lia); try reflexivity.
  rewrite R. unfold finish_eval. rewrite T. reflexivity.
Qed.

(* more generally: a scan during which fewer heartbeats arrive than its timeout completes *)
Theorem completes_before_deadline : forall items cnt ep t sc,
  beats_total sc < clamp t ->
  scan items cnt ep t sc = RComplete (complete_result items).
Proof.
  intros items cnt ep t sc B. unfold scan.
  destruct (run_items_no_timeout items (after_reset cnt ep t) sc []) as (s' & R & T);
    try (cbn; lia); try reflexivity.
  rewrite R. unfold finish_eval. rewrite T. reflexivity.
Qed.

(* ---- deadline = counter + min(ceil t, DEFAULT_SCAN_TIMEOUT) fits u64 ---- *)
Definition u64_max : N := 18446744073709551615.
Theorem clamp_no_overflow : forall cnt ep t,
  cnt <= u64_max - DEFAULT_SCAN_TIMEOUT -> ep <= u64_max - DEFAULT_SCAN_TIMEOUT ->
  deadline (after_reset cnt ep t) <= u64_max /\ epoch_deadline (after_reset cnt ep t) <= u64_max.
Proof.
  intros cnt ep t H1 H2. pose proof (clamp_le t) as C. cbn. unfold u64_max, DEFAULT_SCAN_TIMEOUT in *. lia.
Qed.

(* the theorems are about something: a scan that times out in the search, one
   that traps in the emitted code, one that completes *)
Example timeout_examples :
  let items := [IEpochCheck; IHost 1; ISearch [10; 11; 12]; IHost 2; IEpochCheck; IHost 3] in
  complete_result items = [3; 2; 12; 11; 10; 1] /\
  scan items 100 7 2 [] = RComplete [3; 2; 12; 11; 10; 1] /\
  scan items 100 7 2 [0; 0; 0; 1] = RTimeout /\          (* expires before the 2nd atom hit *)
  scan items 100 7 2 [0; 0; 0; 0; 0; 0; 1] = RTimeout /\ (* expires before the last epoch check *)
  scan items 100 7 2 [0; 0; 0; 0; 0; 0; 0; 1] = RComplete [3; 2; 12; 11; 10; 1]. (* expires after the last consultation *)
Proof. vm_compute. repeat split. Qed.
