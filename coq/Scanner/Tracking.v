(* Model of how a scan tracks matching / non-matching rules:
   ScanContext::{track_rule_match, track_rule_no_match} (lib/src/scanner/context.rs),
   the per-rule epilogue emitted by WasmModuleBuilder::finish_rule
   (lib/src/wasm/builder.rs), the end-of-scan drain in eval_conditions, and the
   construction of the MatchingRules / NonMatchingRules iterators
   (lib/src/scanner/mod.rs).  The iterator constructors' length formulas and the
   "who calls rule_no_match" flag come from Gen/TrackingGen.v, regenerated from
   the Rust source on every run. *)
From Coq Require Import List NArith ZArith Bool Lia.
From YV Require Import Scanner.PrivIter.
Import ListNotations.
Local Open Scope Z_scope.

Record rule := mkRule { r_ns : N; r_priv : bool; r_glob : bool }.

Record ctx := mkCtx {
  per_ns   : list (N * list nat);  (* matching_rules_per_ns : IndexMap, insertion order *)
  matching : list nat;             (* matching_rules *)
  bitmap   : list bool;            (* rule bitmap in WASM main memory, one bit per rule *)
  n_mp     : Z }.                  (* num_matching_private_rules (usize; see purge_one) *)

Definition is_priv (rules : list rule) (id : nat) : bool :=
  match nth_error rules id with Some r => r_priv r | None => false end.

Fixpoint set_bit (bm : list bool) (i : nat) (b : bool) : list bool :=
  match bm, i with
  | [], _ => []
  | _ :: t, O => b :: t
  | h :: t, S i' => h :: set_bit t i' b
  end.

Definition get_bit (bm : list bool) (i : nat) : bool := nth i bm false.

(* IndexMap::entry(ns).or_default().push(id) *)
Fixpoint upsert (m : list (N * list nat)) (ns : N) (id : nat) : list (N * list nat) :=
  match m with
  | [] => [(ns, [id])]
  | (k, v) :: m' => if N.eqb k ns then (k, v ++ [id]) :: m' else (k, v) :: upsert m' ns id
  end.

(* get_mut(ns) then rules.drain(0..): returns the drained vector, leaves it empty *)
Fixpoint take_ns (m : list (N * list nat)) (ns : N) : option (list nat * list (N * list nat)) :=
  match m with
  | [] => None
  | (k, v) :: m' =>
      if N.eqb k ns then Some (v, (k, []) :: m')
      else match take_ns m' ns with
           | None => None
           | Some (d, m'') => Some (d, (k, v) :: m'')
           end
  end.

Definition flat (m : list (N * list nat)) : list nat := concat (map snd m).

Definition init_ctx (n : nat) : ctx := mkCtx [] [] (repeat false n) 0.

Definition track_rule_match (rules : list rule) (id : nat) (r : rule) (c : ctx) : ctx :=
  mkCtx (upsert (per_ns c) (r_ns r) id)
        (matching c)
        (set_bit (bitmap c) id true)
        (if r_priv r then n_mp c + 1 else n_mp c).

(* `num_matching_private_rules -= 1` on a usize: the model keeps the counter in
   Z; TrackingProofs.v shows it never becomes negative. *)
Definition purge_one (rules : list rule) (st : list bool * Z) (rid : nat) : list bool * Z :=
  let '(bm, mp) := st in
  if is_priv rules rid then (set_bit bm rid false, mp - 1)
  else (set_bit bm rid false, mp).

Definition track_rule_no_match (rules : list rule) (id : nat) (r : rule) (c : ctx) : ctx :=
  if r_glob r then
    match take_ns (per_ns c) (r_ns r) with
    | None => c
    | Some (drained, m') =>
        let '(bm, mp) := fold_left (purge_one rules) drained (bitmap c, n_mp c) in
        mkCtx m' (matching c) bm mp
    end
  else c.

(* The code emitted by finish_rule: a true condition calls rule_match; a false
   one calls rule_no_match only for global rules (or for every rule when
   [no_match_always], i.e. with the rules-profiling feature), and a failing
   global rule leaves the namespace block, skipping the namespace's remaining
   rules.  [verdict id bm] is the value of rule id's condition; it may read the
   rule bitmap (references to earlier rules). *)
Section Eval.
  Variable no_match_always : bool.
  Variable rules : list rule.
  Variable verdict : nat -> list bool -> bool.

  Fixpoint eval_from (id : nat) (rs : list rule) (skip : option N) (c : ctx) : ctx :=
    match rs with
    | [] => c
    | r :: rs' =>
        let skipped := match skip with Some ns => N.eqb ns (r_ns r) | None => false end in
        if skipped then eval_from (S id) rs' skip c
        else if verdict id (bitmap c) then
          eval_from (S id) rs' skip (track_rule_match rules id r c)
        else if r_glob r then
          eval_from (S id) rs' (Some (r_ns r)) (track_rule_no_match rules id r c)
        else if no_match_always then
          eval_from (S id) rs' skip (track_rule_no_match rules id r c)
        else eval_from (S id) rs' skip c
    end.

  (* eval_conditions: run main, then move per-namespace vectors to matching_rules *)
  Definition finish (c : ctx) : ctx :=
    mkCtx (map (fun kv => (fst kv, [])) (per_ns c))
          (matching c ++ flat (per_ns c)) (bitmap c) (n_mp c).

  Definition scan : ctx := finish (eval_from 0 rules None (init_ctx (length rules))).
End Eval.

(* positions of the zero bits of the first n bits, ascending: BitSlice::iter_zeros *)
Fixpoint zeros_from (i : nat) (bm : list bool) : list nat :=
  match bm with
  | [] => []
  | b :: t => if b then zeros_from (S i) t else i :: zeros_from (S i) t
  end.
Fixpoint ones_from (i : nat) (bm : list bool) : list nat :=
  match bm with
  | [] => []
  | b :: t => if b then i :: ones_from (S i) t else ones_from (S i) t
  end.

Definition num_private_rules (rules : list rule) : Z :=
  countp (fun r => r_priv r) rules.
