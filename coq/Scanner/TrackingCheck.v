(* Correspondence cases for C17: the harness writes, for a generated rule set,
   the traces observed on the implementation; [check_case] recomputes them
   with the model. *)
From Coq Require Import List NArith ZArith Bool.
From YV Require Import Scanner.PrivIter Scanner.Tracking Gen.TrackingGen Scanner.Results.
Import ListNotations.

Inductive cond := CConst (b : bool) | CRef (neg : bool) (id : nat).

Definition verdict_of (conds : list cond) (id : nat) (bm : list bool) : bool :=
  match nth_error conds id with
  | Some (CConst b) => b
  | Some (CRef neg j) => xorb neg (get_bit bm j)
  | None => false
  end.

Definition trace := option (list (Z * nat) * Z).

Fixpoint tr_eqb (a b : list (Z * nat)) : bool :=
  match a, b with
  | [], [] => true
  | (l1, i1) :: a', (l2, i2) :: b' => Z.eqb l1 l2 && Nat.eqb i1 i2 && tr_eqb a' b'
  | _, _ => false
  end.
Definition trace_eqb (a b : trace) : bool :=
  match a, b with
  | None, None => true
  | Some (t1, f1), Some (t2, f2) => tr_eqb t1 t2 && Z.eqb f1 f2
  | _, _ => false
  end.

Record case := mkCase {
  c_rules : list rule;
  c_conds : list cond;
  c_pats  : list (list bool);
  o_m0 : trace; o_m1 : trace; o_n0 : trace; o_n1 : trace;
  o_pats : list (nat * trace * trace);
  c_sched : list bool;             (* include_private setting before each next() *)
  o_m_sw : trace; o_n_sw : trace;
  (* tags / metadata / matches / module-output iterators: expected item count (when the rule set fixes it), trace *)
  o_others : list (option nat * trace);
  (* what each rule of the results says about itself: id, is_private, is_global, namespace number *)
  o_flags : list (nat * bool * bool * N);
  (* asking for the iterators a second time gives the same traces *)
  o_again_same : bool }.

Definition model_m (rules : list rule) (c : ctx) (inc : bool) : trace :=
  drain (is_priv rules) (include_private (matching_iter rules c) inc).
Definition model_n (rules : list rule) (c : ctx) (inc : bool) : trace :=
  drain (is_priv rules) (include_private (nonmatching_iter rules c) inc).
Definition model_p (pats : list bool) (inc : bool) : trace :=
  match drain snd (include_private (patterns_iter pats) inc) with
  | None => None
  | Some (tr, fin) => Some (map (fun x => (fst x, fst (snd x))) tr, fin)
  end.

Definition model_sw (rules : list rule) (it : iter nat) (sched : list bool) : trace :=
  drain_sched (is_priv rules) (S (length (rem it))) it sched.

Definition trace_items (t : trace) : nat := match t with None => 0 | Some (tr, _) => length tr end.

Definition check_case (k : case) : bool :=
  let c := scan_rules (c_rules k) (verdict_of (c_conds k)) in
  trace_eqb (model_sw (c_rules k) (matching_iter (c_rules k) c) (c_sched k)) (o_m_sw k) &&
  trace_eqb (model_sw (c_rules k) (nonmatching_iter (c_rules k) c) (c_sched k)) (o_n_sw k) &&
  trace_eqb (model_m (c_rules k) c false) (o_m0 k) &&
  trace_eqb (model_m (c_rules k) c true) (o_m1 k) &&
  trace_eqb (model_n (c_rules k) c false) (o_n0 k) &&
  trace_eqb (model_n (c_rules k) c true) (o_n1 k) &&
  (* one pattern-iterator observation per matching rule, in matching order *)
  Nat.eqb (length (o_pats k)) (length (matching c)) &&
  forallb (fun o => let '(id, t0, t1) := o in
             let pats := nth id (c_pats k) [] in
             trace_eqb (model_p pats false) t0 && trace_eqb (model_p pats true) t1)
          (o_pats k) &&
  forallb (fun o => match fst o with Some n => Nat.eqb (trace_items (snd o)) n | None => true end) (o_others k) &&
  Nat.eqb (length (o_flags k)) (length (c_rules k)) &&
  forallb (fun f => let '(id, p, g, ns) := f in
             match nth_error (c_rules k) id with
             | Some r => Bool.eqb p (r_priv r) && Bool.eqb g (r_glob r) && N.eqb ns (r_ns r)
             | None => false
             end) (o_flags k).

(* S evaluated on the implementation's own output: every iterator announces,
   before each next(), exactly the number of items it is still going to yield,
   and never panics; matching and non-matching rules (private included)
   partition the rule ids. *)
Fixpoint lens_exact (tr : list (Z * nat)) : bool :=
  match tr with
  | [] => true
  | (l, _) :: tr' => Z.eqb l (Z.of_nat (length tr)) && lens_exact tr'
  end.
Definition trace_exact (t : trace) : bool :=
  match t with None => false | Some (tr, fin) => lens_exact tr && Z.eqb fin 0 end.
Definition ids_of (t : trace) : list nat :=
  match t with None => [] | Some (tr, _) => map snd tr end.
Fixpoint insert_sorted (x : nat) (l : list nat) : list nat :=
  match l with [] => [x] | y :: t => if Nat.leb x y then x :: l else y :: insert_sorted x t end.
Definition sort_nat (l : list nat) : list nat := fold_right insert_sorted [] l.
Fixpoint list_nat_eqb (a b : list nat) : bool :=
  match a, b with
  | [], [] => true
  | x :: a', y :: b' => Nat.eqb x y && list_nat_eqb a' b'
  | _, _ => false
  end.
(* with include_private switched mid-iteration: no panic, final len 0, and the
   len announced before a call never under-counts what the rest of the trace
   yields under a constant setting from there on (exact when the schedule is
   over) *)
Fixpoint sw_ok (tr : list (Z * nat)) (sched_left : nat) : bool :=
  match tr with
  | [] => true
  | (l, _) :: tr' =>
      (if Nat.leb sched_left 1 then Z.eqb l (Z.of_nat (length tr)) else Z.leb 1 l) && sw_ok tr' (pred sched_left)
  end.
Definition trace_sw_ok (t : trace) (n : nat) : bool :=
  match t with None => false | Some (tr, fin) => sw_ok tr n && Z.eqb fin 0 end.

Definition spec_case (k : case) : bool :=
  trace_sw_ok (o_m_sw k) (length (c_sched k)) && trace_sw_ok (o_n_sw k) (length (c_sched k)) &&
  trace_exact (o_m0 k) && trace_exact (o_m1 k) && trace_exact (o_n0 k) && trace_exact (o_n1 k) &&
  forallb (fun o => let '(_, t0, t1) := o in trace_exact t0 && trace_exact t1) (o_pats k) &&
  forallb (fun o => trace_exact (snd o)) (o_others k) && o_again_same k &&
  (* partition, private rules included *)
  list_nat_eqb (sort_nat (ids_of (o_m1 k) ++ ids_of (o_n1 k))) (seq 0 (length (c_rules k))) &&
  (* without include_private only non-private rules are yielded *)
  forallb (fun id => negb (is_priv (c_rules k) id)) (ids_of (o_m0 k) ++ ids_of (o_n0 k)).
