(* Proofs about Scanner/Tracking.v: the invariant kept by rule tracking for
   every rule list and every verdict function, and what it gives for the
   MatchingRules / NonMatchingRules iterators built with the *generated*
   length formulas (Gen/TrackingGen.v). *)
From Coq Require Import List NArith ZArith Bool Lia Permutation.
From YV Require Import Scanner.PrivIter Scanner.PrivIterProofs Scanner.Tracking
  Gen.TrackingGen Scanner.Results.
Import ListNotations.
Local Open Scope Z_scope.

Lemma NoDup_app_r {A} (l1 l2 : list A) : NoDup (l1 ++ l2) -> NoDup l2.
Proof. induction l1 as [|x l1 IH]; cbn [app]; [auto|]. intros H; inversion H; auto. Qed.

(* ------------------------------------------------------------ countp *)
Lemma countp_perm {A} (P : A -> bool) (l l' : list A) :
  Permutation l l' -> countp P l = countp P l'.
Proof.
  induction 1 as [|x l l' _ IH|x y l|l l' l'' _ IH1 _ IH2]; cbn [countp]; lia.
Qed.

(* ------------------------------------------------------------ bits *)
Lemma set_bit_length bm i b : length (set_bit bm i b) = length bm.
Proof.
  revert i; induction bm as [|h t IH]; intros [|i]; cbn [set_bit length]; auto.
Qed.

Lemma get_set_bit bm i b j :
  get_bit (set_bit bm i b) j =
  if Nat.eqb i j && Nat.ltb i (length bm) then b else get_bit bm j.
Proof.
  unfold get_bit. revert i j; induction bm as [|h t IH]; intros i j.
  - cbn [set_bit length]. destruct (Nat.eqb i j); cbn; destruct j; reflexivity.
  - destruct i as [|i], j as [|j]; cbn [set_bit nth length]; try reflexivity.
    rewrite IH. reflexivity.
Qed.

Lemma get_bit_repeat n j : get_bit (repeat false n) j = false.
Proof.
  unfold get_bit. revert j; induction n as [|n IH]; intros [|j]; cbn; auto.
Qed.

Lemma get_bit_oob bm j : (length bm <= j)%nat -> get_bit bm j = false.
Proof. intros H; unfold get_bit; apply nth_overflow; exact H. Qed.

(* ------------------------------------------------------------ ones / zeros *)
Lemma ones_from_In bm : forall i j,
  In j (ones_from i bm) <-> (i <= j)%nat /\ get_bit bm (j - i) = true.
Proof.
  unfold get_bit. induction bm as [|b t IH]; intros i j; cbn [ones_from].
  - split; [intros []|]. intros [_ H]. destruct (j - i)%nat; discriminate.
  - destruct b; cbn [In]; rewrite ?IH.
    + split.
      * intros [->|[H1 H2]].
        -- split; [lia|]. replace (j - j)%nat with O by lia. reflexivity.
        -- split; [lia|]. replace (j - i)%nat with (S (j - S i)) by lia. exact H2.
      * intros [H1 H2]. destruct (Nat.eq_dec i j) as [->|Hn]; [left; reflexivity|right].
        split; [lia|]. replace (j - i)%nat with (S (j - S i)) in H2 by lia. exact H2.
    + split.
      * intros [H1 H2]. split; [lia|]. replace (j - i)%nat with (S (j - S i)) by lia. exact H2.
      * intros [H1 H2]. destruct (Nat.eq_dec i j) as [->|Hn].
        -- replace (j - j)%nat with O in H2 by lia. discriminate.
        -- split; [lia|]. replace (j - i)%nat with (S (j - S i)) in H2 by lia. exact H2.
Qed.

Lemma ones_from_lb bm : forall i j, In j (ones_from i bm) -> (i <= j)%nat.
Proof. intros i j H; apply ones_from_In in H; tauto. Qed.

Lemma ones_from_NoDup bm : forall i, NoDup (ones_from i bm).
Proof.
  induction bm as [|b t IH]; intros i; cbn [ones_from]; [constructor|].
  destruct b; [|apply IH]. constructor; [|apply IH].
  intros H; apply ones_from_lb in H; lia.
Qed.

Lemma ones_zeros_perm bm : forall i,
  Permutation (ones_from i bm ++ zeros_from i bm) (seq i (length bm)).
Proof.
  induction bm as [|b t IH]; intros i; cbn [ones_from zeros_from length seq app]; [constructor|].
  destruct b.
  - cbn [app]. constructor. apply IH.
  - eapply Permutation_trans; [apply Permutation_sym, Permutation_middle|].
    constructor. apply IH.
Qed.

Lemma ones_zeros_length bm i :
  (length (ones_from i bm) + length (zeros_from i bm) = length bm)%nat.
Proof.
  rewrite <- app_length, (Permutation_length (ones_zeros_perm bm i)). apply seq_length.
Qed.

(* ------------------------------------------------------------ the map *)
Lemma flat_upsert m ns id : Permutation (flat (upsert m ns id)) (id :: flat m).
Proof.
  unfold flat. induction m as [|[k v] m IH]; cbn [upsert map concat snd app].
  - reflexivity.
  - destruct (N.eqb k ns); cbn [map concat snd].
    + rewrite <- app_assoc. cbn [app]. apply Permutation_sym, Permutation_middle.
    + eapply Permutation_trans; [apply Permutation_app_head, IH|].
      apply Permutation_sym, Permutation_middle.
Qed.

Lemma take_ns_perm m ns : forall d m',
  take_ns m ns = Some (d, m') -> Permutation (flat m) (d ++ flat m').
Proof.
  unfold flat. induction m as [|[k v] m IH]; intros d m'; cbn [take_ns]; [discriminate|].
  destruct (N.eqb k ns).
  - intros H; inversion H; subst. cbn [map concat snd app]. reflexivity.
  - destruct (take_ns m ns) as [[d0 m0]|]; [|discriminate].
    intros H; inversion H; subst. cbn [map concat snd].
    eapply Permutation_trans; [apply Permutation_app_head, (IH _ _ eq_refl)|].
    rewrite !app_assoc. apply Permutation_app_tail, Permutation_app_comm.
Qed.

Section WithRules.
  Variable rules : list rule.
  Notation P := (is_priv rules).

  (* the purge loop of track_rule_no_match *)
  Fixpoint clear_all (d : list nat) (bm : list bool) : list bool :=
    match d with [] => bm | x :: d' => clear_all d' (set_bit bm x false) end.

  Lemma purge_fold d : forall bm mp,
    fold_left (purge_one rules) d (bm, mp) = (clear_all d bm, mp - countp P d).
  Proof.
    induction d as [|x d IH]; intros bm mp; cbn [fold_left clear_all countp].
    - f_equal; lia.
    - unfold purge_one at 2. destruct (P x); rewrite IH; f_equal; lia.
  Qed.

  (* usize: every decrement in the purge loop happens on a positive counter *)
  Lemma purge_no_underflow d1 d2 bm mp :
    countp P (d1 ++ d2) <= mp ->
    0 <= snd (fold_left (purge_one rules) d1 (bm, mp)) - countp P d2.
  Proof.
    rewrite purge_fold, countp_app. cbn [snd]. pose proof (countp_bounds _ P d2). lia.
  Qed.

  Lemma clear_all_length d : forall bm, length (clear_all d bm) = length bm.
  Proof. induction d as [|x d IH]; intros bm; cbn [clear_all]; [reflexivity|]. rewrite IH. apply set_bit_length. Qed.

  Lemma clear_all_get d : forall bm j,
    get_bit (clear_all d bm) j = true <-> get_bit bm j = true /\ ~ In j d.
  Proof.
    induction d as [|x d IH]; intros bm j; cbn [clear_all In]; [tauto|].
    rewrite IH, get_set_bit.
    destruct (Nat.eqb_spec x j) as [->|Hn]; cbn [andb].
    - destruct (Nat.ltb_spec j (length bm)) as [Hl|Hl].
      + split; [intros [H _]; discriminate|]. intros [_ H]. exfalso; apply H; left; reflexivity.
      + rewrite (get_bit_oob bm j Hl). split; [intros [H _]|intros [H _]]; discriminate.
    - split; [intros [H1 H2]|intros [H1 H2]]; (split; [exact H1|]); intros H; [destruct H as [H|H]; [congruence|tauto]|tauto].
  Qed.

  (* The invariant of rule tracking, after the rules with id < k *)
  Record J (c : ctx) (k : nat) : Prop := mkJ {
    J_mp   : n_mp c = countp P (flat (per_ns c));
    J_len  : length (bitmap c) = length rules;
    J_bits : forall i, get_bit (bitmap c) i = true <-> In i (flat (per_ns c));
    J_nd   : NoDup (flat (per_ns c));
    J_lt   : forall i, In i (flat (per_ns c)) -> (i < k)%nat;
    J_m    : matching c = [] }.

  Lemma J_init : J (init_ctx (length rules)) 0.
  Proof.
    constructor; cbn [init_ctx n_mp per_ns bitmap matching flat map concat countp].
    - reflexivity.
    - apply repeat_length.
    - intros i. rewrite get_bit_repeat. split; [discriminate|intros []].
    - constructor.
    - intros i [].
    - reflexivity.
  Qed.

  Lemma J_weaken c k k' : (k <= k')%nat -> J c k -> J c k'.
  Proof. intros Hk [H1 H2 H3 H4 H5 H6]; constructor; auto. intros i Hi; specialize (H5 i Hi); lia. Qed.

  Lemma J_match c id r :
    nth_error rules id = Some r -> J c id -> J (track_rule_match rules id r c) (S id).
  Proof.
    intros Hr [H1 H2 H3 H4 H5 H6].
    pose proof (flat_upsert (per_ns c) (r_ns r) id) as Hp.
    assert (Hlt : (id < length rules)%nat) by (apply nth_error_Some; congruence).
    assert (Hni : ~ In id (flat (per_ns c))) by (intros H; apply H5 in H; lia).
    constructor; cbn [track_rule_match n_mp per_ns bitmap matching].
    - rewrite (countp_perm P _ _ Hp). cbn [countp]. unfold is_priv at 1. rewrite Hr.
      destruct (r_priv r); lia.
    - rewrite set_bit_length; exact H2.
    - intros i. rewrite get_set_bit, H2.
      destruct (Nat.ltb_spec id (length rules)) as [_|Hx]; [|lia].
      rewrite andb_true_r.
      split.
      + destruct (Nat.eqb_spec id i) as [->|Hn]; intros H.
        * apply (Permutation_in _ (Permutation_sym Hp)). left; reflexivity.
        * apply (Permutation_in _ (Permutation_sym Hp)). right. apply H3; exact H.
      + intros H. apply (Permutation_in _ Hp) in H. destruct H as [->|H].
        * rewrite Nat.eqb_refl; reflexivity.
        * destruct (Nat.eqb_spec id i) as [->|Hn]; [reflexivity|]. apply H3; exact H.
    - apply (Permutation_NoDup (Permutation_sym Hp)). constructor; assumption.
    - intros i H. apply (Permutation_in _ Hp) in H. destruct H as [->|H]; [lia|]. apply H5 in H; lia.
    - exact H6.
  Qed.

  Lemma J_no_match c id r : J c id -> J (track_rule_no_match rules id r c) (S id).
  Proof.
    intros HJ. unfold track_rule_no_match.
    destruct (r_glob r); [|apply (J_weaken c id); [lia|exact HJ]].
    destruct (take_ns (per_ns c) (r_ns r)) as [[d m']|] eqn:Ht; [|apply (J_weaken c id); [lia|exact HJ]].
    destruct HJ as [H1 H2 H3 H4 H5 H6].
    pose proof (take_ns_perm _ _ _ _ Ht) as Hp.
    rewrite purge_fold.
    assert (Hnd : NoDup (d ++ flat m')) by (apply (Permutation_NoDup Hp); exact H4).
    constructor; cbn [n_mp per_ns bitmap matching].
    - rewrite H1, (countp_perm P _ _ Hp), countp_app. lia.
    - rewrite clear_all_length; exact H2.
    - intros i. rewrite clear_all_get, H3. split.
      + intros [Hi Hn]. apply (Permutation_in _ Hp), in_app_or in Hi. tauto.
      + intros Hi. split.
        * apply (Permutation_in _ (Permutation_sym Hp)), in_or_app; right; exact Hi.
        * intros Hd. revert Hnd Hd Hi. clear. intros Hnd Hd Hi.
          induction d as [|x d IH]; [contradiction|]. cbn [app] in Hnd. inversion Hnd; subst.
          destruct Hd as [->|Hd]; [apply H1, in_or_app; right; exact Hi|auto].
    - apply NoDup_app_r in Hnd; exact Hnd.
    - intros i Hi. assert (In i (flat (per_ns c))) by
        (apply (Permutation_in _ (Permutation_sym Hp)), in_or_app; right; exact Hi).
      apply H5 in H; lia.
    - exact H6.
  Qed.

  Section WithVerdict.
    Variable nma : bool.
    Variable verdict : nat -> list bool -> bool.

    Lemma eval_from_J rs : forall pre skip c,
      rules = pre ++ rs -> J c (length pre) ->
      J (eval_from nma rules verdict (length pre) rs skip c) (length rules).
    Proof.
      induction rs as [|r rs IH]; intros pre skip c Hr HJ; cbn [eval_from].
      - assert (E : length rules = length pre) by (rewrite Hr at 1; rewrite app_nil_r; reflexivity).
        rewrite E. exact HJ.
      - assert (Hr' : rules = (pre ++ [r]) ++ rs) by (rewrite <- app_assoc; exact Hr).
        assert (Hl : length (pre ++ [r]) = S (length pre)) by (rewrite app_length; cbn; lia).
        assert (Hn : nth_error rules (length pre) = Some r).
        { rewrite Hr, nth_error_app2 by lia. rewrite Nat.sub_diag. reflexivity. }
        assert (Hw : J c (S (length pre))) by (apply (J_weaken c (length pre)); [lia|exact HJ]).
        rewrite <- Hl in *.
        destruct (match skip with Some ns => N.eqb ns (r_ns r) | None => false end).
        { apply IH; assumption. }
        destruct (verdict (length pre) (bitmap c)).
        { apply IH; [assumption|]. rewrite Hl. apply J_match; assumption. }
        destruct (r_glob r).
        { apply IH; [assumption|]. rewrite Hl. apply J_no_match; assumption. }
        destruct nma.
        { apply IH; [assumption|]. rewrite Hl. apply J_no_match; assumption. }
        apply IH; assumption.
    Qed.

    Definition final : ctx := scan nma rules verdict.

    Lemma final_facts :
      let c := final in
      n_mp c = countp P (matching c) /\
      length (bitmap c) = length rules /\
      (forall i, get_bit (bitmap c) i = true <-> In i (matching c)) /\
      NoDup (matching c) /\
      (forall i, In i (matching c) -> (i < length rules)%nat).
    Proof.
      unfold final, scan.
      pose proof (eval_from_J rules [] None (init_ctx (length rules)) eq_refl J_init) as HJ.
      cbn [length] in HJ.
      set (c0 := eval_from nma rules verdict 0 rules None (init_ctx (length rules))) in *.
      destruct HJ as [H1 H2 H3 H4 H5 H6].
      cbn [finish n_mp bitmap matching]. rewrite H6. cbn [app]. repeat split; auto; apply H3.
    Qed.

    Lemma matching_ones_perm :
      Permutation (matching final) (ones_from 0 (bitmap final)).
    Proof.
      destruct final_facts as (H1 & H2 & H3 & H4 & H5).
      apply NoDup_Permutation; [exact H4|apply ones_from_NoDup|].
      intros i. rewrite ones_from_In, Nat.sub_0_r, H3. split; [intros H; split; [lia|exact H]|tauto].
    Qed.
  End WithVerdict.
End WithRules.
