From Coq Require Import List NArith Bool Arith Lia.
From YV Require Import Gen.PatConsts Pat.Syntax Pat.Sem Pat.Matcher Pat.MatcherProofs Pat.Modifiers
                       Pat.MatchList Pat.MatchListProofs Pat.Atoms Pat.Pipeline Pat.PipelineProofs
                       Pat.Chain Pat.ChainProofs Pat.ChainRun Pat.ChainRunProofs.
Import ListNotations.
(* ---- completeness: the statement, and where the faithful model misses ---------- *)
(* every start of an occurrence of the chain is reported (one match per start:
   run_chain_sorted) *)
Definition chain_complete_starts (nc : bool) (c : re * list (gap * re)) (d : bytes) (reported : match_list) : Prop :=
  forall s e, M nc d (join_chain c) s e -> exists y, In y reported /\ m_start y = N.of_nat s.

(* ... with, for a lazy pattern, the end of the nearest last piece that closes a
   chain from that start, and for a greedy one the farthest *)
Definition chain_end_choice (nc greedy : bool) (c : re * list (gap * re)) (d : bytes) (reported : match_list) : Prop :=
  forall y s, In y reported -> m_start y = N.of_nat s ->
    exists e, m_end y = N.of_nat e /\ M nc d (join_chain c) s e /\
              forall e', M nc d (join_chain c) s e' -> if greedy then e' <= e else e <= e'.

(* One end per (piece, start) and a BOUNDED gap measured from that end: an occurrence
   whose first piece has to take its longer end is missed.
   { 2E [1-2] 42 [0-201] 0A 7F } on ".aBB" + 201 x 'x' + 0A 7F: 2E, jump 2, 42 at
   offset 3, gap 201, 0A 7F is an occurrence, the shorter end (offset 3) of the first
   piece is 202 bytes away from the second.  Replayed on the implementation: reports
   nothing (known finding C01:scan:chain-piece-variable-length-bounded-gap). *)
Definition missed_items : list re :=
  [RCls (CByte 46); RRep (RCls CAny) 1 (Some 2) false; RCls (CByte 66); RRep (RCls CAny) 0 (Some 201) false;
   RCls (CByte 10); RCls (CByte 127)].
Definition missed_data : bytes := [46; 97; 66; 66]%N ++ repeat 120%N 201 ++ [10; 127]%N.

Theorem chain_complete_one_end_refuted :
  exists items d, ~ chain_complete_starts false (split_at_large_gaps items) d
                      (scan_chain_abs false false false (split_at_large_gaps items) d).
Proof.
  exists missed_items, missed_data. intro H.
  assert (E : scan_chain_abs false false false (split_at_large_gaps missed_items) missed_data = [])
    by (vm_compute; reflexivity).
  assert (Em : memb 207 (ends false missed_data (join_chain (split_at_large_gaps missed_items)) 0) = true)
    by (vm_compute; reflexivity).
  destruct (H 0 207) as [y [Hy _]].
  - apply ends_spec. exact (proj1 (memb_In _ _) Em).
  - rewrite E in Hy. exact Hy.
Qed.

(* with every end of every piece fed to the same bookkeeping the occurrence is found:
   the miss is the piece matcher's, not the bookkeeping's *)
Example missed_found_with_all_ends :
  map (fun y => (m_start y, m_end y)) (scan_chain_all_ends false false false (split_at_large_gaps missed_items) missed_data)
  = [(0, 207)]%N.
Proof. vm_compute. reflexivity. Qed.

(* The wide form: the pieces are widened, the gap stays a byte distance, so a match
   can contain bytes that are not wide characters.  /ab.*cd/s wide on
   a\0 b\0 x c\0 d\0: reported 0..9 (known finding C01:scan:wide-regexp-split-at-large-gap) *)
Definition wide_items : list re :=
  [RCls (CByte 97); RCls (CByte 98); RRep (RCls CAny) 0 None true; RCls (CByte 99); RCls (CByte 100)].
Definition wide_data : bytes := [97; 0; 98; 0; 120; 99; 0; 100; 0]%N.

Theorem chain_wide_gap_refuted :
  exists items d y, In y (scan_chain_abs false true true (split_at_large_gaps items) d) /\
    exists s te, m_start y = N.of_nat s /\ m_end y = N.of_nat te /\ ~ M false d (widen_re (rcat items)) s te.
Proof.
  assert (E : scan_chain_abs false true true (split_at_large_gaps wide_items) wide_data = [mkM 0 9 None])
    by (vm_compute; reflexivity).
  assert (Em : memb 9 (ends false wide_data (widen_re (rcat wide_items)) 0) = false)
    by (vm_compute; reflexivity).
  exists wide_items, wide_data, (mkM 0 9 None). split.
  - rewrite E. left. reflexivity.
  - exists 0, 9. split; [reflexivity|]. split; [reflexivity|].
    intro H. apply ends_spec in H. apply (proj2 (memb_In _ _)) in H. rewrite Em in H. discriminate.
Qed.

(* the hypotheses of chain_literal_sound are satisfiable: a two-piece chain *)
Example chain_literal_sound_example :
  let items := [RCls (CByte 97); RCls (CByte 98); RRep (RCls CAny) 0 None false; RCls (CByte 99); RCls (CByte 100)] in
  let pieces := [mkCP false [97; 98]%N no_flags false false None;
                 mkCP false [99; 100]%N no_flags true false (Some (0, GUnbounded 0))] in
  let atoms := [mkAtom 0 [97; 98]%N 0 true; mkAtom 1 [99; 100]%N 0 true] in
  let d := [97; 98; 120; 99; 100; 99; 100]%N in
  chain_shape pieces (split_at_large_gaps items) /\
  map (fun y => (m_start y, m_end y)) (scan_chain pieces atoms (all_hits atoms d) d) = [(0, 5)]%N.
Proof.
  cbv zeta. split.
  - split; [vm_compute; reflexivity|].
    intros id p H. destruct id as [|[|id]]; cbn [nth_error] in H; try (destruct id; discriminate);
      inversion H; subst p; (split; [vm_compute; reflexivity|]); cbn [cp_last]; try discriminate. intros _. vm_compute. reflexivity.
  - vm_compute. reflexivity.
Qed.
