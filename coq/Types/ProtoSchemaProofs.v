(* C12 - facts about the schemas GENERATED from lib/src/modules/protos/*.proto
   (Gen/ProtoSchema.v): well-formedness as decidable checks evaluated on the
   generated terms, and the general theorems instantiated at them. *)
From Coq Require Import List NArith ZArith Bool String.
From YV Require Import Types.StructModel Types.StructModelProofs Gen.ProtoSchema Types.StructCheck.
Import ListNotations.

(* field numbers distinct within every message (also ignored fields) *)
Fixpoint nums_distinct (t : ty) : bool :=
  match t with
  | TMsg _ fs _ =>
      nodup_n (map fd_number fs) &&
      (fix go (l : list fdesc) : bool :=
         match l with [] => true | FD _ _ _ t' :: r => nums_distinct t' && go r end) fs
  | TArr e => nums_distinct e
  | TMap _ v => nums_distinct v
  | _ => true
  end.

(* every visible field of every message sits, in the compile-time structure
   (with the generated enum fields appended), at its position in field-number
   order: the index the compiler uses is the position the scanner builds *)
Fixpoint positions_ok (t : ty) : bool :=
  match t with
  | TMsg _ fs extra =>
      forallb (fun p => match index_of (fd_name (snd p)) (ct_names fs extra) with
                        | Some i => Nat.eqb i (fst p)
                        | None => false
                        end)
              (combine (seq 0 (List.length (visible fs))) (visible fs)) &&
      (fix go (l : list fdesc) : bool :=
         match l with [] => true | FD _ _ _ t' :: r => positions_ok t' && go r end) fs
  | TArr e => positions_ok e
  | TMap _ v => positions_ok v
  | _ => true
  end.

Fixpoint nodup_s (l : list string) : bool :=
  match l with [] => true | x :: r => negb (existsb (String.eqb x) r) && nodup_s r end.

Definition schema_ok (e : string * (list string * ty)) : bool :=
  let '(_, (names, g)) := e in
  nodup_s names && wf_ty g && nums_distinct g && positions_ok g &&
  match g with TMsg _ _ _ => true | _ => false end.

Lemma generated_schemas_ok : forallb schema_ok proto_schemas = true.
Proof. vm_compute. reflexivity. Qed.

Lemma generated_modules : map fst proto_schemas <> [] /\ nodup_s (map fst proto_schemas) = true.
Proof. split; [discriminate|vm_compute; reflexivity]. Qed.

Lemma generated_schema_wf : forall m names g,
  In (m, (names, g)) proto_schemas ->
  wf_ty g = true /\ nums_distinct g = true /\ positions_ok g = true /\ nodup_s names = true.
Proof.
  intros m names g Hin. pose proof generated_schemas_ok as H. rewrite forallb_forall in H.
  specialize (H _ Hin). cbn [schema_ok] in H.
  repeat (apply andb_true_iff in H; destruct H as [H ?]). repeat split; assumption.
Qed.

(* the general theorem at the real schemas *)
Lemma lookup_correct_generated : forall m names g,
  In (m, (names, g)) proto_schemas ->
  forall msg enums p, compile_path g p [] <> None -> lookup g msg enums p = get_root g msg p.
Proof. intros. now apply lookup_correct_lemma. Qed.

(* for the root message of every module: each visible field is compiled to its
   position in field-number order, with the generated enum fields present or not *)
Lemma root_field_index_generated : forall m names syn fs extra,
  In (m, (names, TMsg syn fs extra)) proto_schemas ->
  forall i f, nth_error (visible fs) i = Some f ->
    index_of (fd_name f) (ct_names fs extra) = Some i /\ index_of (fd_name f) (ct_names fs []) = Some i.
Proof.
  intros m names syn fs extra Hin i f Hn.
  destruct (generated_schema_wf _ _ _ Hin) as [_ [_ [Hp _]]].
  cbn [positions_ok] in Hp. apply andb_true_iff in Hp. destruct Hp as [Hp _].
  rewrite forallb_forall in Hp.
  assert (Hc : In (i, f) (combine (seq 0 (List.length (visible fs))) (visible fs))).
  { clear Hp. revert i Hn. generalize (visible fs) as l. intros l.
    assert (G : forall s i, nth_error l i = Some f -> In ((s + i)%nat, f) (combine (seq s (List.length l)) l)).
    { induction l as [|x r IH]; intros s i H; [destruct i; discriminate|].
      destruct i as [|i]; cbn [nth_error] in H.
      - inversion H; subst. cbn. left. f_equal. symmetry. apply Nat.add_0_r.
      - cbn [length seq combine]. right. replace (s + S i)%nat with (S s + i)%nat by (cbn; apply plus_n_Sm). now apply IH. }
    intros i Hn. exact (G 0%nat i Hn). }
  specialize (Hp _ Hc). cbn [fst snd] in Hp.
  destruct (index_of (fd_name f) (ct_names fs extra)) as [j|] eqn:Ej; [|discriminate].
  apply Nat.eqb_eq in Hp. subst j. split; [reflexivity|].
  (* without the extras: the name is found among the protobuf fields *)
  unfold ct_names in *. rewrite app_nil_r.
  assert (Hin' : exists k, index_of (fd_name f) (map fd_name (visible fs)) = Some k).
  { clear Ej Hc. revert i Hn. generalize (visible fs) as l. induction l as [|x r IH]; intros i Hn; [destruct i; discriminate|].
    cbn [map index_of]. destruct (N.eqb (fd_name x) (fd_name f)) eqn:E; [eexists; reflexivity|].
    destruct i as [|i]; cbn [nth_error] in Hn.
    - inversion Hn; subst. rewrite N.eqb_refl in E. discriminate E.
    - destruct (IH i Hn) as [k Hk]. rewrite Hk. eexists; reflexivity. }
  destruct Hin' as [k Hk]. destruct (index_of_app_left _ _ extra [] _ Hk) as [H1 _].
  rewrite H1 in Ej. inversion Ej; subst. exact Hk.
Qed.

(* ---- field options other than `name` / `ignore` do not affect values ----
   The model's structure is a function of (name, number, ignored, type) only;
   [Gen.ProtoSchema.proto_annotated] lists every field that carries another
   yara option (lowercase, fmt, acl, deprecation_notice).  Each of them is an
   ordinary visible field of the generated schema with a scalar type (string
   for `lowercase`), so [lookup_correct] applies to it as to any other field:
   the value a condition reads is the value in the message. *)
Fixpoint unwrap (t : ty) : ty :=
  match t with TArr e => unwrap e | TMap _ v => unwrap v | _ => t end.
(* the type a path of field names leads to, stepping through arrays and maps *)
Fixpoint type_by_names (t : ty) (p : list N) : option ty :=
  match p with
  | [] => Some (unwrap t)
  | n :: r => match unwrap t with
              | TMsg _ fs _ => match find_field n fs with Some f => type_by_names (fd_ty f) r | None => None end
              | _ => None
              end
  end.

Definition annotated_row_ok (m : string) (g : ty) (row : list string * list string) : bool :=
  match type_by_names g (map (nm m) (fst row)) with
  | Some t => scalar_ty t &&
              (negb (existsb (String.eqb "lowercase") (snd row)) || match t with TStr => true | _ => false end)
  | None => false
  end.

Definition annotated_ok (e : string * list (list string * list string)) : bool :=
  match generated_schema (fst e) with
  | Some g => forallb (annotated_row_ok (fst e) g) (snd e)
  | None => false
  end.

Lemma annotated_fields_ordinary : forallb annotated_ok proto_annotated = true.
Proof. vm_compute. reflexivity. Qed.

(* at the root of a module: an annotated scalar field set in the message is read unchanged *)
Lemma annotated_root_field_value : forall m names syn fs extra n f msgbody x enums,
  In (m, (names, TMsg syn fs extra)) proto_schemas ->
  find_field n fs = Some f -> fd_ty f = TStr -> assoc_n (fd_number f) msgbody = Some (VStr x) ->
  lookup (TMsg syn fs extra) (Some (VMsg msgbody)) enums [SField n] = RS x.
Proof.
  intros m names syn fs extra n f msgbody x enums Hin Hf Ht Ha.
  destruct (index_stable_lemma fs n f extra [] Hf) as [i [Hi _]].
  rewrite lookup_correct_lemma.
  - unfold get_root. cbn [get]. rewrite Hf, Ha, Ht. reflexivity.
  - cbn [compile_path]. rewrite Hi, Hf. cbn [compile_path]. discriminate.
Qed.

(* ---- zero iterations ----
   A loop over a collection that has no items runs no iteration: its value is
   defined (false, for every quantifier, as the code has it), so `not (for ..)`
   and `defined (for ..)` hold.  With [array_len_present]: an array field that
   the output does not set, or sets to no items, is such a collection. *)
Lemma loop_over_empty_lemma : forall tbl F qt p sub l,
  (F p = RObjArr 0 -> eval3 tbl F (QFor qt p sub l) = Some false /\
                      eval tbl F (QNot (QFor qt p sub l)) = true /\
                      eval tbl F (QIsDefined (QFor qt p sub l)) = true) /\
  (F p = RObjMap 0 -> eval3 tbl F (QMapFor qt p [] sub l) = Some false /\
                      eval tbl F (QNot (QMapFor qt p [] sub l)) = true /\
                      eval tbl F (QIsDefined (QMapFor qt p [] sub l)) = true).
Proof.
  intros tbl F qt p sub l. split; intros H; unfold eval; cbn [eval3]; rewrite H; cbn; repeat split; reflexivity.
Qed.

Lemma empty_array_loop_generated : forall fs extra m enums n f e tbl qt sub l,
  find_field n fs = Some f -> fd_ty f = TArr e ->
  match assoc_n (fd_number f) m with Some (VArr (_ :: _)) => False | _ => True end ->
  eval3 tbl (lookup (TMsg Proto2 fs extra) (Some (VMsg m)) enums) (QFor qt [SField n] sub l) = Some false.
Proof.
  intros fs extra m enums n f e tbl qt sub l Hf Ht Hm.
  apply (proj1 (loop_over_empty_lemma tbl _ qt [SField n] sub l)).
  rewrite (array_len_present fs extra m enums n f e Hf Ht).
  destruct (assoc_n (fd_number f) m) as [[z|b|b|s|mm|[|x r]|mm]|]; try reflexivity. contradiction.
Qed.
