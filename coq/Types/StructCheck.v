(* Correspondence cases for C12.  One case = one module output message (the
   descriptor obtained by reflection, the message content read by reflection)
   and a list of queries, each a rule condition that the harness compiled and
   evaluated against that output (supplied through set_module_output, or computed
   by the module itself), with the verdict observed.

   K ([check_case]): the architecture model (index paths computed on the
   compile-time structure, walked through the structure built from the message)
   predicts every verdict.
   S ([spec_case]): the verdict is the one determined by the value found in the
   message by field NAME ([get_root]): S = R for this property. *)
From Coq Require Import List NArith ZArith Bool.
From YV Require Import Types.StructModel.
Import ListNotations.
Local Open Scope Z_scope.

Inductive lit := LI (z : Z) | LF (bits : Z) | LB (b : bool) | LS (s : N).

Inductive query :=
  | QDefined (p : list step)                          (* defined <p> *)
  | QEq (p : list step) (l : lit)                     (* <p> == l *)
  | QLen (p : list step) (n : Z)                      (* <p>.len() == n, p an array or a map *)
  | QAny (p sub : list step) (l : lit)                (* for any x in <p> : (x<sub> == l) *)
  | QAll (p sub : list step) (l : lit)                (* for all x in <p> : (x<sub> == l), p not empty *)
  | QMapAny (p : list step) (k : value) (sub : list step) (l : lit).
                                                      (* for any k, v in <p> : (k == K and v<sub> == l) *)

Definition res_eq (r : res) (l : lit) : bool :=
  match r, l with
  | RI a, LI b => Z.eqb a b
  | RF a, LF b => Z.eqb a b
  | RB a, LB b => Bool.eqb a b
  | RS a, LS b => N.eqb a b
  | _, _ => false
  end.

Definition eval (F : list step -> res) (q : query) : bool :=
  match q with
  | QDefined p => match F p with Undef | Stuck => false | _ => true end
  | QEq p l => res_eq (F p) l
  | QLen p n => match F p with
                | RObjArr k | RObjMap k => Z.eqb (Z.of_nat k) n
                | _ => false
                end
  | QAny p sub l => match F p with
                    | RObjArr k => existsb (fun i => res_eq (F (p ++ SIndex (Z.of_nat i) :: sub)) l) (seq 0 k)
                    | _ => false
                    end
  | QAll p sub l => match F p with
                    | RObjArr k => forallb (fun i => res_eq (F (p ++ SIndex (Z.of_nat i) :: sub)) l) (seq 0 k)
                    | _ => false
                    end
  | QMapAny p k sub l => res_eq (F (p ++ SKey k :: sub)) l
  end.

Record case := mkCase {
  k_root : ty;
  k_msg : value;
  k_queries : list (query * bool) }.

Definition check_case (k : case) : bool :=
  forallb (fun qo => Bool.eqb (eval (lookup (k_root k) (Some (k_msg k)) false) (fst qo)) (snd qo)) (k_queries k).

Definition spec_case (k : case) : bool :=
  forallb (fun qo => Bool.eqb (eval (get_root (k_root k) (Some (k_msg k))) (fst qo)) (snd qo)) (k_queries k).

(* index (within the case) of the queries on which model / specification and implementation disagree *)
Definition disagreeing (F : list step -> res) (k : case) : list nat :=
  map fst (filter (fun iq => negb (Bool.eqb (eval F (fst (snd iq))) (snd (snd iq))))
                  (combine (seq 0 (length (k_queries k))) (k_queries k))).
