(* Correspondence cases for C12.  One case = one module output message (the
   descriptor obtained by reflection, the message content read by reflection)
   and a list of queries, each a rule condition that the harness compiled and
   evaluated against that output (supplied through set_module_output, or computed
   by the module itself), with the verdict observed.

   K ([check_case]): the architecture model (index paths computed on the
   compile-time structure, walked through the structure built from the message)
   predicts every verdict.
   S ([spec_case]): the verdict is the one determined by the value found in the
   message by field NAME ([get_root]): S = R for this property. *)
From Coq Require Import List NArith ZArith Bool String.
From YV Require Import Types.StructModel Gen.ProtoSchema.
Import ListNotations.
Local Open Scope Z_scope.

Inductive lit := LI (z : Z) | LF (bits : Z) | LB (b : bool) | LS (s : N).

Inductive query :=
  | QDefined (p : list step)                          (* defined <p> *)
  | QEq (p : list step) (l : lit)                     (* <p> == l *)
  | QLen (p : list step) (n : Z)                      (* <p>.len() == n, p an array or a map *)
  | QAny (p sub : list step) (l : lit)                (* for any x in <p> : (x<sub> == l) *)
  | QAll (p sub : list step) (l : lit)                (* for all x in <p> : (x<sub> == l), p not empty *)
  | QMapAny (p : list step) (k : value) (sub : list step) (l : lit)
                                                      (* for any k, v in <p> : (k == K and v<sub> == l) *)
  (* conditions that read the exact bytes of a string value *)
  | QStrLen (p : list step) (n : Z)                   (* <p>.len() == n, p a string *)
  | QContains (p : list step) (needle : list N)       (* <p> contains "needle" *)
  | QStartsWith (p : list step) (needle : list N)     (* <p> startswith "needle" *)
  | QEndsWith (p : list step) (needle : list N).      (* <p> endswith "needle" *)

Fixpoint prefix_b (a b : list N) : bool :=
  match a, b with
  | [], _ => true
  | x :: a', y :: b' => N.eqb x y && prefix_b a' b'
  | _ :: _, [] => false
  end.
Fixpoint infix_b (a b : list N) : bool :=
  prefix_b a b || match b with [] => false | _ :: b' => infix_b a b' end.
Fixpoint assoc_bytes (s : N) (tbl : list (N * list N)) : option (list N) :=
  match tbl with
  | [] => None
  | (k, b) :: r => if N.eqb k s then Some b else assoc_bytes s r
  end.
(* a condition on the bytes of the string a path leads to ([tbl]: bytes of the interned strings) *)
Definition on_bytes (tbl : list (N * list N)) (r : res) (f : list N -> bool) : bool :=
  match r with
  | RS s => match assoc_bytes s tbl with Some b => f b | None => false end
  | _ => false
  end.

Definition res_eq (r : res) (l : lit) : bool :=
  match r, l with
  | RI a, LI b => Z.eqb a b
  | RF a, LF b => Z.eqb a b
  | RB a, LB b => Bool.eqb a b
  | RS a, LS b => N.eqb a b
  | _, _ => false
  end.

Definition eval (tbl : list (N * list N)) (F : list step -> res) (q : query) : bool :=
  match q with
  | QDefined p => match F p with Undef | Stuck => false | _ => true end
  | QEq p l => res_eq (F p) l
  | QLen p n => match F p with
                | RObjArr k | RObjMap k => Z.eqb (Z.of_nat k) n
                | _ => false
                end
  | QAny p sub l => match F p with
                    | RObjArr k => existsb (fun i => res_eq (F (p ++ SIndex (Z.of_nat i) :: sub)) l) (seq 0 k)
                    | _ => false
                    end
  | QAll p sub l => match F p with
                    (* `for all` over an empty array is false in yara-x (the loop body never runs and the
                       quantifier needs at least one iteration); the quantifiers themselves belong to C02 *)
                    | RObjArr k => negb (Nat.eqb k 0) && forallb (fun i => res_eq (F (p ++ SIndex (Z.of_nat i) :: sub)) l) (seq 0 k)
                    | _ => false
                    end
  | QMapAny p k sub l => res_eq (F (p ++ SKey k :: sub)) l
  | QStrLen p n => on_bytes tbl (F p) (fun b => Z.eqb (Z.of_nat (List.length b)) n)
  | QContains p x => on_bytes tbl (F p) (infix_b x)
  | QStartsWith p x => on_bytes tbl (F p) (prefix_b x)
  | QEndsWith p x => on_bytes tbl (F p) (fun b => prefix_b (rev x) (rev b))
  end.

(* ---- the schema generated from the .proto sources (Gen/ProtoSchema.v) ---- *)
Fixpoint str_index (s : string) (l : list string) (i : N) : option N :=
  match l with
  | [] => None
  | x :: r => if String.eqb x s then Some i else str_index s r (i + 1)%N
  end.
Fixpoint assoc_s {A} (k : string) (l : list (string * A)) : option A :=
  match l with
  | [] => None
  | (k', v) :: r => if String.eqb k' k then Some v else assoc_s k r
  end.
(* the number of a field name in the module's generated name table; a name the
   .proto sources do not have gets a number no generated field has *)
Definition nm (module s : string) : N :=
  match assoc_s module proto_schemas with
  | Some (names, _) => match str_index s names 0%N with Some i => i | None => 4000000%N end
  | None => 5000000%N
  end.
Definition generated_schema (module : string) : option ty := option_map snd (assoc_s module proto_schemas).

Definition ity_eqb (a b : ity) : bool :=
  match a, b with I32, I32 | I64, I64 | U32, U32 | U64, U64 | IEnum, IEnum => true | _, _ => false end.
Definition kty_eqb (a b : kty) : bool :=
  match a, b with KInt x, KInt y => ity_eqb x y | KStr, KStr => true | _, _ => false end.
Definition syn_eqb (a b : syntax) : bool :=
  match a, b with Proto2, Proto2 | Proto3, Proto3 => true | _, _ => false end.
(* same fields (name, number, ignored, type) in the same order; the generated extras are not compared *)
Fixpoint ty_eqb (a b : ty) : bool :=
  match a, b with
  | TInt i, TInt j => ity_eqb i j
  | TFloat, TFloat | TBool, TBool | TStr, TStr => true
  | TMsg s1 f1 _, TMsg s2 f2 _ =>
      syn_eqb s1 s2 &&
      (fix go (l1 l2 : list fdesc) : bool :=
         match l1, l2 with
         | [], [] => true
         | FD n1 k1 g1 t1 :: r1, FD n2 k2 g2 t2 :: r2 =>
             N.eqb n1 n2 && N.eqb k1 k2 && Bool.eqb g1 g2 && ty_eqb t1 t2 && go r1 r2
         | _, _ => false
         end) f1 f2
  | TArr x, TArr y => ty_eqb x y
  | TMap k1 v1, TMap k2 v2 => kty_eqb k1 k2 && ty_eqb v1 v2
  | _, _ => false
  end.

(* the type a path leads to *)
Fixpoint type_at (t : ty) (p : list step) : option ty :=
  match p with
  | [] => Some t
  | SField n :: r => match t with
                     | TMsg _ fs _ => match find_field n fs with Some f => type_at (fd_ty f) r | None => None end
                     | _ => None
                     end
  | SIndex _ :: r => match t with TArr e => type_at e r | _ => None end
  | SKey _ :: r => match t with TMap _ v => type_at v r | _ => None end
  end.

Definition lookup_indexes (ops : list op) : list nat :=
  flat_map (fun o => match o with OLookup l => l | _ => [] end) ops.

(* the field indexes (Symbol::Field { index }, module root excluded) that the
   compiled rule of a query must contain, in source order *)
Definition query_indexes (root : ty) (q : query) : option (list nat) :=
  let direct p := option_map lookup_indexes (compile_path root p []) in
  let looped p (elem : ty -> option ty) sub :=
    match compile_path root p [], type_at root p with
    | Some ops, Some t =>
        match elem t with
        | Some e => option_map (fun o2 => lookup_indexes ops ++ lookup_indexes o2) (compile_path e sub [])
        | None => None
        end
    | _, _ => None
    end in
  match q with
  | QDefined p | QEq p _ | QLen p _ | QStrLen p _ | QContains p _ | QStartsWith p _ | QEndsWith p _ => direct p
  | QAny p sub _ | QAll p sub _ => looped p (fun t => match t with TArr e => Some e | _ => None end) sub
  | QMapAny p _ sub _ => looped p (fun t => match t with TMap _ v => Some v | _ => None end) sub
  end.

Fixpoint list_nat_eqb (a b : list nat) : bool :=
  match a, b with
  | [], [] => true
  | x :: a', y :: b' => Nat.eqb x y && list_nat_eqb a' b'
  | _, _ => false
  end.

(* a query, the verdict observed, and the field indexes found in the IR of the compiled rule *)
Definition obs_query := (query * bool * option (list nat))%type.

Record case := mkCase {
  k_module : string;
  k_root : ty;                       (* the descriptor as protobuf reflection shows it *)
  k_msg : value;
  k_strs : list (N * list N);        (* bytes of the interned strings *)
  k_queries : list obs_query;
  (* conditions calling module functions that read the output message, evaluated with the
     output computed by the module and with the same output supplied by the user *)
  k_pairs : list (bool * bool);
  (* the public view: ScanResults::module_output / module_outputs re-serialised = the message *)
  k_views : list bool }.

(* the harness writes field names as strings; [mk] numbers them with the generated name table *)
Definition mk (module : string)
    (f : (string -> N) -> ty * value * list (N * list N) * list obs_query * list (bool * bool) * list bool) : case :=
  let '(r, v, t, q, pr, vw) := f (nm module) in mkCase module r v t q pr vw.

Definition check_case (k : case) : bool :=
  match generated_schema (k_module k) with
  | None => false
  | Some g =>
      (* the schema parsed from the .proto source is the descriptor the library uses *)
      ty_eqb (k_root k) g &&
      forallb (fun qo : obs_query =>
                 let '(q, verdict, idx) := qo in
                 Bool.eqb (eval (k_strs k) (lookup g (Some (k_msg k)) false) q) verdict &&
                 match idx with
                 | None => true
                 | Some l => match query_indexes g q with Some m => list_nat_eqb l m | None => false end
                 end) (k_queries k)
  end.

Definition spec_case (k : case) : bool :=
  forallb (fun qo : obs_query =>
             Bool.eqb (eval (k_strs k) (get_root (k_root k) (Some (k_msg k))) (fst (fst qo))) (snd (fst qo))) (k_queries k) &&
  (* supplied output is observed like computed output, also by the module's functions *)
  forallb (fun p => Bool.eqb (fst p) (snd p)) (k_pairs k) &&
  forallb (fun b => b) (k_views k).
