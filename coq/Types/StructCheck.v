(* Correspondence cases for C12.  One case = one module output message (the
   descriptor obtained by reflection, the message content read by reflection)
   and a list of queries, each a rule condition that the harness compiled and
   evaluated against that output (supplied through set_module_output, or computed
   by the module itself), with the verdict observed.

   K ([check_case]): the architecture model (index paths computed on the
   compile-time structure, walked through the structure built from the message)
   predicts every verdict.
   S ([spec_case]): the verdict is the one determined by the value found in the
   message by field NAME ([get_root]): S = R for this property. *)
From Coq Require Import List NArith ZArith Bool String.
From YV Require Import Types.StructModel Gen.ProtoSchema.
Import ListNotations.
Local Open Scope Z_scope.

Inductive lit := LI (z : Z) | LF (bits : Z) | LB (b : bool) | LS (s : N).

(* for any / all / none / <n> / <p>% *)
Inductive quant := QtAny | QtAll | QtNone | QtN (c : Z) | QtPct (pct : Z).

Inductive query :=
  | QDefined (p : list step)                          (* defined <p> *)
  | QEq (p : list step) (l : lit)                     (* <p> == l *)
  | QLen (p : list step) (n : Z)                      (* <p>.len() == n, p an array or a map *)
  | QAny (p sub : list step) (l : lit)                (* for any x in <p> : (x<sub> == l) *)
  | QAll (p sub : list step) (l : lit)                (* for all x in <p> : (x<sub> == l), p not empty *)
  | QMapAny (p : list step) (k : value) (sub : list step) (l : lit)
                                                      (* for any k, v in <p> : (k == K and v<sub> == l) *)
  (* conditions that read the exact bytes of a string value *)
  | QStrLen (p : list step) (n : Z)                   (* <p>.len() == n, p a string *)
  | QContains (p : list step) (needle : list N)       (* <p> contains "needle" *)
  | QStartsWith (p : list step) (needle : list N)     (* <p> startswith "needle" *)
  | QEndsWith (p : list step) (needle : list N)       (* <p> endswith "needle" *)
  (* every quantifier over arrays and maps *)
  | QFor (qt : quant) (p sub : list step) (l : lit)   (* for <qt> x in <p> : (x<sub> == l) *)
  | QMapFor (qt : quant) (p : list step) (keys : list value) (sub : list step) (l : lit)
                                                      (* for <qt> k, v in <p> : (v<sub> == l); keys: the map's keys *)
  (* contexts in which undefined, false and true differ *)
  | QNot (q : query)                                  (* not (q) *)
  | QIsDefined (q : query)                            (* defined (q) *)
  | QOrFalse (q : query)                              (* (q) or false *)
  | QAndTrue (q : query).                             (* (q) and true *)

Fixpoint prefix_b (a b : list N) : bool :=
  match a, b with
  | [], _ => true
  | x :: a', y :: b' => N.eqb x y && prefix_b a' b'
  | _ :: _, [] => false
  end.
Fixpoint infix_b (a b : list N) : bool :=
  prefix_b a b || match b with [] => false | _ :: b' => infix_b a b' end.
Fixpoint assoc_bytes (s : N) (tbl : list (N * list N)) : option (list N) :=
  match tbl with
  | [] => None
  | (k, b) :: r => if N.eqb k s then Some b else assoc_bytes s r
  end.
(* a condition on the bytes of the string a path leads to ([tbl]: bytes of the interned strings) *)
Definition on_bytes (tbl : list (N * list N)) (r : res) (f : list N -> bool) : bool :=
  match r with
  | RS s => match assoc_bytes s tbl with Some b => f b | None => false end
  | _ => false
  end.

Definition res_eq (r : res) (l : lit) : bool :=
  match r, l with
  | RI a, LI b => Z.eqb a b
  | RF a, LF b => Z.eqb a b
  | RB a, LB b => Bool.eqb a b
  | RS a, LS b => N.eqb a b
  | _, _ => false
  end.

Definition is_undef (r : res) : bool := match r with Undef | Stuck => true | _ => false end.

(* The result of a loop over n items of which [count] made the body true (a body
   that is undefined counts as false: emit_for wraps it in catch_undef).
   ZERO ITERATIONS: the code leaves a loop over an empty array or map with `false`
   before the first iteration, whatever the quantifier (emit_for_in_array /
   emit_for_in_map: "if n <= 0, exit from the loop"); conditions.md does not say
   what `for all` / `for none` over an empty collection mean, so the model follows
   the code (DESIGN 1.3).  What the property does pin down is that a loop over a
   collection with no items runs no iteration: its value is DEFINED. *)
Definition quant_result (qt : quant) (n count : nat) : bool :=
  if Nat.eqb n 0 then false
  else match qt with
       | QtAny => negb (Nat.eqb count 0)
       | QtAll => Nat.eqb count n
       | QtNone => Nat.eqb count 0
       | QtN c => if Z.eqb c 0 then Nat.eqb count 0 else Z.leb c (Z.of_nat count)
       | QtPct pc =>
           (* max_count = ceil (n * pct / 100) *)
           let m := (Z.of_nat n * pc + 99) / 100 in
           if Z.eqb m 0 then Nat.eqb count 0 else Z.leb m (Z.of_nat count)
       end.
Definition count_true (l : list bool) : nat := List.length (filter (fun b => b) l).

(* three-valued evaluation: None = undefined *)
Fixpoint eval3 (tbl : list (N * list N)) (F : list step -> res) (q : query) : option bool :=
  let str (p : list step) (f : list N -> bool) : option bool :=
    if is_undef (F p) then None else Some (on_bytes tbl (F p) f) in
  match q with
  | QDefined p => Some (negb (is_undef (F p)))
  | QEq p l => if is_undef (F p) then None else Some (res_eq (F p) l)
  | QLen p n => match F p with
                | RObjArr k | RObjMap k => Some (Z.eqb (Z.of_nat k) n)
                | _ => None
                end
  | QAny p sub l => match F p with
                    | RObjArr k => Some (quant_result QtAny k (count_true (map (fun i => res_eq (F (p ++ SIndex (Z.of_nat i) :: sub)) l) (seq 0 k))))
                    | _ => None
                    end
  | QAll p sub l => match F p with
                    | RObjArr k => Some (quant_result QtAll k (count_true (map (fun i => res_eq (F (p ++ SIndex (Z.of_nat i) :: sub)) l) (seq 0 k))))
                    | _ => None
                    end
  | QFor qt p sub l => match F p with
                       | RObjArr k => Some (quant_result qt k (count_true (map (fun i => res_eq (F (p ++ SIndex (Z.of_nat i) :: sub)) l) (seq 0 k))))
                       | _ => None
                       end
  | QMapAny p k sub l => match F p with
                         | RObjMap n => Some (negb (Nat.eqb n 0) && res_eq (F (p ++ SKey k :: sub)) l)
                         | _ => None
                         end
  | QMapFor qt p keys sub l =>
      match F p with
      | RObjMap n => if Nat.eqb n (List.length keys)
                     then Some (quant_result qt n (count_true (map (fun k => res_eq (F (p ++ SKey k :: sub)) l) keys)))
                     else None
      | _ => None
      end
  | QStrLen p n => str p (fun b => Z.eqb (Z.of_nat (List.length b)) n)
  | QContains p x => str p (infix_b x)
  | QStartsWith p x => str p (prefix_b x)
  | QEndsWith p x => str p (fun b => prefix_b (rev x) (rev b))
  | QNot q' => option_map negb (eval3 tbl F q')
  | QIsDefined q' => Some (match eval3 tbl F q' with Some _ => true | None => false end)
  (* `or` / `and` take an undefined operand as false *)
  | QOrFalse q' => Some (match eval3 tbl F q' with Some b => b | None => false end)
  | QAndTrue q' => Some (match eval3 tbl F q' with Some b => b | None => false end)
  end.

(* a rule matches iff its condition is defined and true *)
Definition eval (tbl : list (N * list N)) (F : list step -> res) (q : query) : bool :=
  match eval3 tbl F q with Some b => b | None => false end.

(* ---- the schema generated from the .proto sources (Gen/ProtoSchema.v) ---- *)
Fixpoint str_index (s : string) (l : list string) (i : N) : option N :=
  match l with
  | [] => None
  | x :: r => if String.eqb x s then Some i else str_index s r (i + 1)%N
  end.
Fixpoint assoc_s {A} (k : string) (l : list (string * A)) : option A :=
  match l with
  | [] => None
  | (k', v) :: r => if String.eqb k' k then Some v else assoc_s k r
  end.
(* the number of a field name in the module's generated name table; a name the
   .proto sources do not have gets a number no generated field has *)
Definition nm (module s : string) : N :=
  match assoc_s module proto_schemas with
  | Some (names, _) => match str_index s names 0%N with Some i => i | None => 4000000%N end
  | None => 5000000%N
  end.
Definition generated_schema (module : string) : option ty := option_map snd (assoc_s module proto_schemas).

Definition ity_eqb (a b : ity) : bool :=
  match a, b with I32, I32 | I64, I64 | U32, U32 | U64, U64 | IEnum, IEnum => true | _, _ => false end.
Definition kty_eqb (a b : kty) : bool :=
  match a, b with KInt x, KInt y => ity_eqb x y | KStr, KStr => true | _, _ => false end.
Definition syn_eqb (a b : syntax) : bool :=
  match a, b with Proto2, Proto2 | Proto3, Proto3 => true | _, _ => false end.
(* same fields (name, number, ignored, type) in the same order; the generated extras are not compared *)
Fixpoint ty_eqb (a b : ty) : bool :=
  match a, b with
  | TInt i, TInt j => ity_eqb i j
  | TFloat, TFloat | TBool, TBool | TStr, TStr => true
  | TMsg s1 f1 _, TMsg s2 f2 _ =>
      syn_eqb s1 s2 &&
      (fix go (l1 l2 : list fdesc) : bool :=
         match l1, l2 with
         | [], [] => true
         | FD n1 k1 g1 t1 :: r1, FD n2 k2 g2 t2 :: r2 =>
             N.eqb n1 n2 && N.eqb k1 k2 && Bool.eqb g1 g2 && ty_eqb t1 t2 && go r1 r2
         | _, _ => false
         end) f1 f2
  | TArr x, TArr y => ty_eqb x y
  | TMap k1 v1, TMap k2 v2 => kty_eqb k1 k2 && ty_eqb v1 v2
  | _, _ => false
  end.

(* the type a path leads to *)
Fixpoint type_at (t : ty) (p : list step) : option ty :=
  match p with
  | [] => Some t
  | SField n :: r => match t with
                     | TMsg _ fs _ => match find_field n fs with Some f => type_at (fd_ty f) r | None => None end
                     | _ => None
                     end
  | SIndex _ :: r => match t with TArr e => type_at e r | _ => None end
  | SKey _ :: r => match t with TMap _ v => type_at v r | _ => None end
  end.

Definition lookup_indexes (ops : list op) : list nat :=
  flat_map (fun o => match o with OLookup l => l | _ => [] end) ops.

(* the field indexes (Symbol::Field { index }, module root excluded) that the
   compiled rule of a query must contain, in source order *)
Fixpoint query_indexes (root : ty) (q : query) : option (list nat) :=
  let direct p := option_map lookup_indexes (compile_path root p []) in
  let looped p (elem : ty -> option ty) sub :=
    match compile_path root p [], type_at root p with
    | Some ops, Some t =>
        match elem t with
        | Some e => option_map (fun o2 => lookup_indexes ops ++ lookup_indexes o2) (compile_path e sub [])
        | None => None
        end
    | _, _ => None
    end in
  let arr t := match t with TArr e => Some e | _ => None end in
  let mp t := match t with TMap _ v => Some v | _ => None end in
  match q with
  | QDefined p | QEq p _ | QLen p _ | QStrLen p _ | QContains p _ | QStartsWith p _ | QEndsWith p _ => direct p
  | QAny p sub _ | QAll p sub _ | QFor _ p sub _ => looped p arr sub
  | QMapAny p _ sub _ | QMapFor _ p _ sub _ => looped p mp sub
  | QNot q' | QIsDefined q' | QOrFalse q' | QAndTrue q' => query_indexes root q'
  end.

Fixpoint list_nat_eqb (a b : list nat) : bool :=
  match a, b with
  | [], [] => true
  | x :: a', y :: b' => Nat.eqb x y && list_nat_eqb a' b'
  | _, _ => false
  end.

(* a query, the verdict observed, and the field indexes found in the IR of the compiled rule *)
Definition obs_query := (query * bool * option (list nat))%type.

Record case := mkCase {
  k_module : string;
  k_root : ty;                       (* the descriptor as protobuf reflection shows it *)
  k_msg : value;
  k_strs : list (N * list N);        (* bytes of the interned strings *)
  k_queries : list obs_query;
  (* conditions calling module functions that read the output message, evaluated with the
     output computed by the module and with the same output supplied by the user *)
  k_pairs : list (bool * bool);
  (* the public view: ScanResults::module_output / module_outputs re-serialised = the message *)
  k_views : list bool }.

(* the harness writes field names as strings; [mk] numbers them with the generated name table *)
Definition mk (module : string)
    (f : (string -> N) -> ty * value * list (N * list N) * list obs_query * list (bool * bool) * list bool) : case :=
  let '(r, v, t, q, pr, vw) := f (nm module) in mkCase module r v t q pr vw.

Definition check_case (k : case) : bool :=
  match generated_schema (k_module k) with
  | None => false
  | Some g =>
      (* the schema parsed from the .proto source is the descriptor the library uses *)
      ty_eqb (k_root k) g &&
      forallb (fun qo : obs_query =>
                 let '(q, verdict, idx) := qo in
                 Bool.eqb (eval (k_strs k) (lookup g (Some (k_msg k)) false) q) verdict &&
                 match idx with
                 | None => true
                 | Some l => match query_indexes g q with Some m => list_nat_eqb l m | None => false end
                 end) (k_queries k)
  end.

Definition spec_case (k : case) : bool :=
  forallb (fun qo : obs_query =>
             Bool.eqb (eval (k_strs k) (get_root (k_root k) (Some (k_msg k))) (fst (fst qo))) (snd (fst qo))) (k_queries k) &&
  (* supplied output is observed like computed output, also by the module's functions *)
  forallb (fun p => Bool.eqb (fst p) (snd p)) (k_pairs k) &&
  forallb (fun b => b) (k_views k).
