(* C12 - module data seen by rule conditions: model of
     lib/src/types/structure.rs  Struct::from_proto_descriptor_and_msg, new_value,
                                 new_array, new_map*, value_as_i64, field ordering
     lib/src/compiler/emit.rs    emit_field_access / emit_lookup_common (index paths)
     lib/src/wasm/mod.rs         lookup_field, array_indexing_*, map_lookup_*, len

   A module's protobuf descriptor is a [ty] (a tree of named, numbered fields), the
   module's output is a [value] (a partial assignment), [struct_of] builds the
   run-time structure exactly as structure.rs does (fields that are not ignored,
   sorted by field number, then the fields generated for enums / functions /
   methods, which exist at compile time always and at scan time only without
   constant folding), [compile_path] turns a field path of a condition into index
   lists computed on the COMPILE-TIME structure (built from the descriptor alone)
   and [run] walks them through the SCAN-TIME structure (built from a message).
   [get] is the specification: the value found in the message by field NAME.

   Definitions only; proofs in StructModelProofs.v. *)
From Coq Require Import List NArith ZArith Bool.
Import ListNotations.
Local Open Scope Z_scope.

Inductive syntax := Proto2 | Proto3.
(* integer-like protobuf types (value_as_i64) *)
Inductive ity := I32 | I64 | U32 | U64 | IEnum.
Inductive kty := KInt (i : ity) | KStr.

(* descriptor.  [extra]: names of the fields appended after the protobuf fields
   when enum fields / functions / methods are generated for this message *)
Inductive ty :=
  | TInt (i : ity)
  | TFloat
  | TBool
  | TStr
  | TMsg (syn : syntax) (fs : list fdesc) (extra : list N)
  | TArr (e : ty)
  | TMap (k : kty) (v : ty)
with fdesc := FD (name number : N) (ignored : bool) (t : ty).

Definition fd_name (f : fdesc) := let 'FD n _ _ _ := f in n.
Definition fd_number (f : fdesc) := let 'FD _ n _ _ := f in n.
Definition fd_ignored (f : fdesc) := let 'FD _ _ i _ := f in i.
Definition fd_ty (f : fdesc) := let 'FD _ _ _ t := f in t.

(* message values; strings are interned to numbers, floats are f64 bit patterns *)
Inductive value :=
  | VInt (z : Z)
  | VFloat (bits : Z)
  | VBool (b : bool)
  | VStr (s : N)
  | VMsg (fields : list (N * value))          (* present fields, by number *)
  | VArr (l : list value)
  | VMap (l : list (value * value)).          (* entries in reflection order *)

(* run-time TypeValue *)
Inductive tv :=
  | RInt (o : option Z)
  | RFloat (o : option Z)
  | RBool (o : option bool)
  | RStr (o : option N)
  | RStruct (fs : list (N * tv))               (* IndexMap: insertion order *)
  | RArr (l : list tv)
  | RMap (deputy : bool) (l : list (value * tv)).

(* value_as_i64: `v as i64` *)
Definition as_i64 (i : ity) (z : Z) : Z :=
  match i with
  | U64 => if Z.leb (2 ^ 63) z then z - 2 ^ 64 else z
  | _ => z
  end.

Definition is_proto3 (s : syntax) : bool := match s with Proto3 => true | Proto2 => false end.

(* ---- ordering: fields.sort_by_key(|a| a.1.number) (stable) ---- *)
Fixpoint insert_by {A} (key : A -> N) (x : A) (l : list A) : list A :=
  match l with
  | [] => [x]
  | y :: r => if N.ltb (key x) (key y) then x :: l else y :: insert_by key x r
  end.
Definition sort_by {A} (key : A -> N) (l : list A) : list A := fold_right (insert_by key) [] l.

Definition visible (fs : list fdesc) : list fdesc :=
  sort_by fd_number (filter (fun f => negb (fd_ignored f)) fs).

Fixpoint assoc_n {A} (n : N) (l : list (N * A)) : option A :=
  match l with
  | [] => None
  | (k, v) :: r => if N.eqb k n then Some v else assoc_n n r
  end.

Definition value_eqb_key (a b : value) : bool :=
  match a, b with
  | VInt x, VInt y => Z.eqb x y
  | VStr x, VStr y => N.eqb x y
  | _, _ => false
  end.
Fixpoint assoc_k {A} (k : value) (l : list (value * A)) : option A :=
  match l with
  | [] => None
  | (k', v) :: r => if value_eqb_key k' k then Some v else assoc_k k r
  end.

Definition conv_key (k : kty) (v : value) : value :=
  match k, v with
  | KInt i, VInt z => VInt (as_i64 i z)
  | _, _ => v
  end.

(* IndexMap::insert: an existing key keeps its position and gets the new value *)
Fixpoint imap_insert {A} (k : value) (x : A) (l : list (value * A)) : list (value * A) :=
  match l with
  | [] => [(k, x)]
  | (k', y) :: r => if value_eqb_key k' k then (k', x) :: r else (k', y) :: imap_insert k x r
  end.

(* ---- Struct::from_proto_descriptor_and_msg / new_value / new_array / new_map ----
   [present]: the enclosing message exists (msg = Some); [v]: the field's value in it.
   [enums]: generate the extra fields (generate_fields_for_enums).
   [ct]: generate_compile_time_fields (true only when the compiler builds the module's structure). *)
Fixpoint new_value (ct enums : bool) (syn : syntax) (t : ty) (present : bool) (v : option value) {struct t} : tv :=
  match t with
  | TInt i => match v with
              | Some (VInt z) => RInt (Some (as_i64 i z))
              | _ => RInt (if is_proto3 syn then Some 0 else None)
              end
  | TFloat => match v with
              | Some (VFloat b) => RFloat (Some b)
              | _ => RFloat (if is_proto3 syn then Some 0 else None)
              end
  | TBool => match v with
             | Some (VBool b) => RBool (Some b)
             | _ => RBool (if is_proto3 syn then Some false else None)
             end
  | TStr => match v with
            | Some (VStr s) => RStr (Some s)
            | _ => RStr (if is_proto3 syn then Some 0%N else None)   (* 0 = the empty string *)
            end
  | TMsg syn' fs extra =>
      let m := match v with Some (VMsg m) => Some m | _ => None end in
      let pres := match m with Some _ => true | None => false end in
      let built :=
        (fix go (l : list fdesc) : list (fdesc * tv) :=
           match l with
           | [] => []
           | FD n num ign t' :: r =>
               (FD n num ign t',
                new_value ct enums syn' t' pres (match m with Some m => assoc_n num m | None => None end)) :: go r
           end) fs in
      let vis := sort_by (fun p => fd_number (fst p)) (filter (fun p => negb (fd_ignored (fst p))) built) in
      RStruct (map (fun p => (fd_name (fst p), snd p)) vis
               ++ (if enums then map (fun n => (n, RInt (Some 0))) extra else []))
  | TArr e =>
      match v with
      | Some (VArr l) => RArr (map (fun x => new_value ct enums syn e true (Some x)) l)
      | _ => if present then RArr []
             else match e with
                  | TMsg _ _ _ =>
                      (* one template item describing the element type, at compile time only
                         (generate_compile_time_fields); at scan time the array is empty *)
                      if ct then RArr [new_value ct enums syn e false None] else RArr []
                  | _ => RArr []
                  end
      end
  | TMap k vt =>
      match v with
      | Some (VMap l) =>
          RMap false (fold_left (fun acc kv => imap_insert (conv_key k (fst kv)) (new_value ct enums syn vt true (Some (snd kv))) acc) l [])
      | _ => if present then RMap false [] else RMap true []
      end
  end.

(* the structure of a module: scan time (message given) and compile time (descriptor only) *)
Definition struct_of (root : ty) (msg : option value) (enums : bool) : tv :=
  new_value false enums Proto2 root (match msg with Some _ => true | None => false end) msg.
Definition compile_struct (root : ty) : tv := new_value true true Proto2 root false None.

(* ---- paths ---- *)
Inductive step := SField (name : N) | SIndex (i : Z) | SKey (k : value).
Inductive op := OLookup (idx : list nat) | OIndex (i : Z) | OKey (k : value).

Fixpoint index_of (n : N) (l : list N) : option nat :=
  match l with
  | [] => None
  | x :: r => if N.eqb x n then Some 0%nat else option_map S (index_of n r)
  end.

(* names of the compile-time structure of a message, in IndexMap order *)
Definition ct_names (fs : list fdesc) (extra : list N) : list N := map fd_name (visible fs) ++ extra.

Definition find_field (n : N) (fs : list fdesc) : option fdesc :=
  find (fun f => N.eqb (fd_name f) n) (visible fs).

Definition flush (acc : list nat) : list op := match acc with [] => [] | _ => [OLookup acc] end.

(* Symbol::Field { index } comes from the compile-time structure (field_and_index_by_name);
   consecutive field accesses are collected into one lookup (emit_field_access) *)
Fixpoint compile_path (t : ty) (p : list step) (acc : list nat) : option (list op) :=
  match p with
  | [] => Some (flush acc)
  | SField n :: r =>
      match t with
      | TMsg _ fs extra =>
          match index_of n (ct_names fs extra), find_field n fs with
          | Some i, Some f => compile_path (fd_ty f) r (acc ++ [i])
          | _, _ => None
          end
      | _ => None
      end
  | SIndex i :: r =>
      match t with
      | TArr e => option_map (fun ops => flush acc ++ OIndex i :: ops) (compile_path e r [])
      | _ => None
      end
  | SKey k :: r =>
      match t with
      | TMap _ vt => option_map (fun ops => flush acc ++ OKey k :: ops) (compile_path vt r [])
      | _ => None
      end
  end.

(* what a condition observes *)
Inductive res := Undef | RI (z : Z) | RF (bits : Z) | RB (b : bool) | RS (s : N)
               | RObjStruct | RObjArr (len : nat) | RObjMap (len : nat) | Stuck.

Definition res_of (x : tv) : res :=
  match x with
  | RInt (Some z) => RI z | RInt None => Undef
  | RFloat (Some b) => RF b | RFloat None => Undef
  | RBool (Some b) => RB b | RBool None => Undef
  | RStr (Some s) => RS s | RStr None => Undef
  | RStruct _ => RObjStruct
  | RArr l => RObjArr (length l)
  | RMap _ l => RObjMap (length l)
  end.

(* lookup_field: walk the index list; a field that is a structure becomes the
   current structure; the last field visited is the result *)
Fixpoint walk (cur : list (N * tv)) (last : option tv) (idx : list nat) : option tv :=
  match idx with
  | [] => last
  | i :: r =>
      match nth_error cur i with
      | None => None                                   (* panic: expecting field with index *)
      | Some (_, f) => walk (match f with RStruct s => s | _ => cur end) (Some f) r
      end
  end.

Fixpoint run (ops : list op) (cur : tv) : res :=
  match ops with
  | [] => res_of cur
  | OLookup idx :: r =>
      match cur with
      | RStruct s => match walk s None idx with Some x => run r x | None => Stuck end
      | _ => Stuck
      end
  | OIndex i :: r =>
      match cur with
      | RArr l => if Z.ltb i 0 then Undef
                  else match nth_error l (Z.to_nat i) with Some x => run r x | None => Undef end
      | _ => Stuck
      end
  | OKey k :: r =>
      match cur with
      | RMap _ l => match assoc_k k l with Some x => run r x | None => Undef end
      | _ => Stuck
      end
  end.

Definition lookup (root : ty) (msg : option value) (enums : bool) (p : list step) : res :=
  match compile_path root p [] with
  | Some ops => run ops (struct_of root msg enums)
  | None => Stuck
  end.

(* ---- specification: the value in the message, by field name ----
   (what C12 demands: a value that is in the output is seen as it is; whatever is
   not in the output is undefined; an array that is not in the output is empty) *)
Definition scalar_res (syn : syntax) (t : ty) (present : bool) (v : option value) : res :=
  match t, v with
  | TInt i, Some (VInt z) => RI (as_i64 i z)
  | TFloat, Some (VFloat b) => RF b
  | TBool, Some (VBool b) => RB b
  | TStr, Some (VStr s) => RS s
  | TInt _, _ => if is_proto3 syn then RI 0 else Undef
  | TFloat, _ => if is_proto3 syn then RF 0 else Undef
  | TBool, _ => if is_proto3 syn then RB false else Undef
  | TStr, _ => if is_proto3 syn then RS 0%N else Undef
  | TMsg _ _ _, _ => RObjStruct
  | TArr e, Some (VArr l) => RObjArr (length l)
  | TArr e, _ => RObjArr 0      (* no values in the output *)
  | TMap k _, Some (VMap l) => RObjMap (length (fold_left (fun acc kv => imap_insert (conv_key k (fst kv)) tt acc) l []))
  | TMap _ _, _ => RObjMap 0
  end.

Fixpoint get (syn : syntax) (t : ty) (present : bool) (v : option value) (p : list step) : res :=
  match p with
  | [] => scalar_res syn t present v
  | SField n :: r =>
      match t with
      | TMsg syn' fs _ =>
          match find_field n fs with
          | Some f =>
              match v with
              | Some (VMsg m) => get syn' (fd_ty f) true (assoc_n (fd_number f) m) r
              | _ => get syn' (fd_ty f) false None r
              end
          | None => Stuck
          end
      | _ => Stuck
      end
  | SIndex i :: r =>
      match t with
      | TArr e =>
          match v with
          | Some (VArr l) => if Z.ltb i 0 then Undef
                             else match nth_error l (Z.to_nat i) with
                                  | Some x => get syn e true (Some x) r
                                  | None => Undef
                                  end
          | _ => Undef                  (* the output has no such element *)
          end
      | _ => Stuck
      end
  | SKey k :: r =>
      match t with
      | TMap kt vt =>
          match v with
          | Some (VMap l) =>
              (* the last entry with that (converted) key wins *)
              match assoc_k k (fold_left (fun acc kv => imap_insert (conv_key kt (fst kv)) (snd kv) acc) l []) with
              | Some x => get syn vt true (Some x) r
              | None => Undef
              end
          | _ => Undef
          end
      | _ => Stuck
      end
  end.

Definition get_root (root : ty) (msg : option value) (p : list step) : res :=
  get Proto2 root (match msg with Some _ => true | None => false end) msg p.

(* ---- well-formedness of a descriptor ---- *)
Fixpoint nodup_n (l : list N) : bool :=
  match l with
  | [] => true
  | x :: r => negb (existsb (N.eqb x) r) && nodup_n r
  end.

(* visible field names distinct and distinct from the generated extra names *)
Fixpoint wf_ty (t : ty) : bool :=
  match t with
  | TMsg _ fs extra =>
      nodup_n (ct_names fs extra) &&
      (fix go (l : list fdesc) : bool :=
         match l with
         | [] => true
         | FD _ _ _ t' :: r => wf_ty t' && go r
         end) fs
  | TArr e => wf_ty e
  | TMap _ v => wf_ty v
  | _ => true
  end.
