(* Proofs about Types/StructModel.v (C12). *)
From Coq Require Import List NArith ZArith Bool Lia.
From YV Require Import Types.StructModel.
Import ListNotations.
Local Open Scope Z_scope.

(* ---------- sorting / filtering pairs by their first component ---------- *)
Section Pairs.
Context {A B : Type} (g : A -> B) (key : A -> N).
Let pair := fun x : A => (x, g x).

Lemma insert_by_pair : forall x l,
  insert_by (fun p : A * B => key (fst p)) (pair x) (map pair l) = map pair (insert_by key x l).
Proof.
  intros x l. induction l as [|y r IH]; [reflexivity|].
  cbn [map insert_by]. unfold pair at 1 2. cbn [fst].
  destruct (N.ltb (key x) (key y)); [reflexivity|]. cbn [map]. f_equal. exact IH.
Qed.

Lemma sort_by_pair : forall l,
  sort_by (fun p : A * B => key (fst p)) (map pair l) = map pair (sort_by key l).
Proof.
  induction l as [|x r IH]; [reflexivity|].
  unfold sort_by in *. cbn [map fold_right]. rewrite IH. apply insert_by_pair.
Qed.

Lemma filter_pair : forall (f : A -> bool) l,
  filter (fun p : A * B => f (fst p)) (map pair l) = map pair (filter f l).
Proof.
  intros f l. induction l as [|x r IH]; [reflexivity|].
  cbn [map filter]. unfold pair at 1. cbn [fst]. destruct (f x); [cbn [map]; f_equal|]; exact IH.
Qed.
End Pairs.

Lemma fd_eta : forall f, FD (fd_name f) (fd_number f) (fd_ignored f) (fd_ty f) = f.
Proof. destruct f; reflexivity. Qed.

(* value of field f in an optional message body *)
Definition fieldval (m : option (list (N * value))) (f : fdesc) : option value :=
  match m with Some m => assoc_n (fd_number f) m | None => None end.
Definition body_of (v : option value) : option (list (N * value)) :=
  match v with Some (VMsg m) => Some m | _ => None end.
Definition is_some {A} (o : option A) : bool := match o with Some _ => true | None => false end.
Definition extras (enums : bool) (extra : list N) : list (N * tv) :=
  if enums then map (fun n => (n, RInt (Some 0))) extra else [].

(* unfolding of new_value on a message: the protobuf fields that are not ignored,
   in field-number order, each with its own new_value; then the extras *)
Lemma new_value_msg : forall ct enums syn syn' fs extra present v,
  new_value ct enums syn (TMsg syn' fs extra) present v =
  RStruct (map (fun f => (fd_name f, new_value ct enums syn' (fd_ty f) (is_some (body_of v)) (fieldval (body_of v) f)))
               (visible fs) ++ extras enums extra).
Proof.
  intros. cbn [new_value]. fold (body_of v).
  set (m := body_of v).
  set (g := fun f => new_value ct enums syn' (fd_ty f) (is_some m) (fieldval m f)).
  assert (Hgo : forall l,
    (fix go (l : list fdesc) : list (fdesc * tv) :=
       match l with
       | [] => []
       | FD n num ign t' :: r =>
           (FD n num ign t',
            new_value ct enums syn' t' (match m with Some _ => true | None => false end)
              (match m with Some m0 => assoc_n num m0 | None => None end)) :: go r
       end) l = map (fun f => (f, g f)) l).
  { induction l as [|[n num ign t'] r IH]; [reflexivity|]. cbn [map]. rewrite IH. reflexivity. }
  rewrite Hgo.
  rewrite (filter_pair g (fun f => negb (fd_ignored f))).
  rewrite (sort_by_pair g fd_number).
  rewrite map_map. cbn [fst snd]. unfold visible, extras. reflexivity.
Qed.

(* ---------- index computed at compile time = position at scan time ---------- *)
Lemma index_find_nth : forall {B} (h : fdesc -> B) (n : N) (L : list fdesc) (E : list N) (E' : list B) i f,
  index_of n (map fd_name L ++ E) = Some i ->
  find (fun f => N.eqb (fd_name f) n) L = Some f ->
  nth_error (map h L ++ E') i = Some (h f) /\ nth_error L i = Some f /\ (i < length L)%nat.
Proof.
  intros B h n L E E'. induction L as [|x r IH]; intros i f Hi Hf; [discriminate|].
  cbn [map app index_of find] in *.
  destruct (N.eqb (fd_name x) n) eqn:En.
  - inversion Hi; inversion Hf; subst. cbn. repeat split; try reflexivity. lia.
  - destruct (index_of n (map fd_name r ++ E)) as [j|] eqn:Ej; [|discriminate].
    cbn [option_map] in Hi. inversion Hi; subst i.
    destruct (IH j f eq_refl Hf) as [H1 [H2 H3]]. cbn [nth_error length]. repeat split; try assumption. lia.
Qed.

Lemma index_of_app_left : forall n l E1 E2 i,
  index_of n l = Some i -> index_of n (l ++ E1) = Some i /\ index_of n (l ++ E2) = Some i.
Proof.
  intros n l. induction l as [|x r IH]; intros E1 E2 i H; [discriminate|].
  cbn [app index_of] in *. destruct (N.eqb x n); [split; exact H|].
  destruct (index_of n r) as [j|] eqn:Ej; [|discriminate].
  destruct (IH E1 E2 j eq_refl) as [H1 H2]. rewrite H1, H2. split; exact H.
Qed.

Lemma find_index_some : forall n (L : list fdesc) f,
  find (fun f => N.eqb (fd_name f) n) L = Some f -> exists i, index_of n (map fd_name L) = Some i.
Proof.
  intros n L. induction L as [|x r IH]; intros f H; [discriminate|].
  cbn [find map index_of] in *. destruct (N.eqb (fd_name x) n); [eexists; reflexivity|].
  destruct (IH f H) as [i Hi]. rewrite Hi. eexists; reflexivity.
Qed.

(* the generated (enum / function / method) fields never move a protobuf field *)
Lemma index_stable_lemma : forall fs n f extra1 extra2,
  find_field n fs = Some f ->
  exists i, index_of n (ct_names fs extra1) = Some i /\ index_of n (ct_names fs extra2) = Some i /\
            nth_error (visible fs) i = Some f /\ (i < length (visible fs))%nat.
Proof.
  intros fs n f e1 e2 H. unfold find_field in H. unfold ct_names.
  destruct (find_index_some _ _ _ H) as [i Hi]. exists i.
  destruct (index_of_app_left _ _ e1 e2 _ Hi) as [H1 H2]. repeat split; try assumption.
  - destruct (index_find_nth (fun f => f) n (visible fs) e1 [] i f H1 H) as [_ [Hn _]]. exact Hn.
  - destruct (index_find_nth (fun f => f) n (visible fs) e1 [] i f H1 H) as [_ [_ Hl]]. exact Hl.
Qed.

Definition fields_of_tv (x : tv) : list (N * tv) := match x with RStruct s => s | _ => [] end.

(* the field found at the compile-time index in the scan-time structure is the
   named field's value, whether or not the extras exist at scan time *)
Lemma field_at : forall ct enums syn syn' fs extra present v n i f,
  index_of n (ct_names fs extra) = Some i ->
  find_field n fs = Some f ->
  nth_error (fields_of_tv (new_value ct enums syn (TMsg syn' fs extra) present v)) i =
  Some (n, new_value ct enums syn' (fd_ty f) (is_some (body_of v)) (fieldval (body_of v) f)).
Proof.
  intros. rewrite new_value_msg. cbn [fields_of_tv]. unfold ct_names, find_field in *.
  destruct (index_find_nth
              (fun f => (fd_name f, new_value ct enums syn' (fd_ty f) (is_some (body_of v)) (fieldval (body_of v) f)))
              n (visible fs) extra (extras enums extra) i f H H0) as [Hn _].
  rewrite Hn. f_equal. f_equal.
  apply find_some in H0. destruct H0 as [_ He]. now apply N.eqb_eq in He.
Qed.

(* ---------- lookup_field: walking an index list ---------- *)
Definition next_cur (cur : list (N * tv)) (f : tv) : list (N * tv) :=
  match f with RStruct s => s | _ => cur end.

Lemma walk_snoc : forall idx cur last i s n x,
  idx <> [] ->
  walk cur last idx = Some (RStruct s) ->
  nth_error s i = Some (n, x) ->
  walk cur last (idx ++ [i]) = Some x.
Proof.
  induction idx as [|j r IH]; intros cur last i s n x Hne Hw Hn; [congruence|].
  cbn [app walk] in *. destruct (nth_error cur j) as [[nm f]|] eqn:Ej; [|discriminate].
  destruct r as [|j' r'].
  - cbn [walk] in Hw. inversion Hw; subst f. cbn [app walk]. rewrite Hn. reflexivity.
  - apply (IH _ _ i s n x); [discriminate|exact Hw|exact Hn].
Qed.

(* where the accumulated index list leads, starting from [base] *)
Definition reach (base : tv) (acc : list nat) : option tv :=
  match acc with
  | [] => Some base
  | _ => match base with RStruct s => walk s None acc | _ => None end
  end.

Lemma reach_snoc : forall base acc i s n x,
  reach base acc = Some (RStruct s) -> nth_error s i = Some (n, x) -> reach base (acc ++ [i]) = Some x.
Proof.
  intros base acc i s n x Hr Hn. destruct acc as [|j r].
  - cbn [reach] in Hr. inversion Hr; subst base. cbn [app reach walk]. rewrite Hn. reflexivity.
  - cbn [reach] in Hr. destruct base as [| | | |s0| |]; try discriminate.
    change ((j :: r) ++ [i]) with (j :: (r ++ [i])). cbn [reach].
    change (j :: (r ++ [i])) with ((j :: r) ++ [i]).
    apply (walk_snoc (j :: r) s0 None i s n x); [discriminate|exact Hr|exact Hn].
Qed.

Lemma run_flush : forall acc ops base x,
  reach base acc = Some x -> run (flush acc ++ ops) base = run ops x.
Proof.
  intros acc ops base x H. destruct acc as [|j r].
  - cbn [reach] in H. inversion H; subst. reflexivity.
  - cbn [reach] in H. destruct base as [| | | |s0| |]; try discriminate.
    cbn [flush app run]. rewrite H. reflexivity.
Qed.

(* ---------- maps: IndexMap::insert folded over the entries ---------- *)
Definition map_snd {A B} (F : A -> B) (l : list (value * A)) : list (value * B) :=
  map (fun p => (fst p, F (snd p))) l.

Lemma imap_insert_map : forall {A B} (F : A -> B) k x l,
  imap_insert k (F x) (map_snd F l) = map_snd F (imap_insert k x l).
Proof.
  intros A B F k x l. induction l as [|[k' y] r IH]; [reflexivity|].
  cbn [map_snd map imap_insert fst snd]. destruct (value_eqb_key k' k); [reflexivity|].
  cbn [map fst snd]. f_equal. exact IH.
Qed.

Lemma fold_insert_map : forall {A B} (F : A -> B) (ck : value -> value) l acc,
  fold_left (fun a kv => imap_insert (ck (fst kv)) (F (snd kv)) a) l (map_snd F acc) =
  map_snd F (fold_left (fun a (kv : value * A) => imap_insert (ck (fst kv)) (snd kv) a) l acc).
Proof.
  intros A B F ck l. induction l as [|kv r IH]; intros acc; [reflexivity|].
  cbn [fold_left]. rewrite imap_insert_map. apply IH.
Qed.

Lemma assoc_k_map : forall {A B} (F : A -> B) k l,
  assoc_k k (map_snd F l) = option_map F (assoc_k k l).
Proof.
  intros A B F k l. induction l as [|[k' y] r IH]; [reflexivity|].
  cbn [map_snd map assoc_k fst snd]. destruct (value_eqb_key k' k); [reflexivity|exact IH].
Qed.

Lemma map_snd_length : forall {A B} (F : A -> B) l, length (map_snd F l) = length l.
Proof. intros. unfold map_snd. apply map_length. Qed.

(* the entries built by new_map are the message's entries (converted keys, first
   position kept, last value wins) with new_value applied to the values *)
Lemma new_map_entries : forall ct enums syn k vt l,
  fold_left (fun acc kv => imap_insert (conv_key k (fst kv)) (new_value ct enums syn vt true (Some (snd kv))) acc) l [] =
  map_snd (fun x => new_value ct enums syn vt true (Some x))
          (fold_left (fun acc (kv : value * value) => imap_insert (conv_key k (fst kv)) (snd kv) acc) l []).
Proof.
  intros. exact (fold_insert_map (fun x => new_value ct enums syn vt true (Some x)) (conv_key k) l []).
Qed.

Lemma unit_entries_length : forall k (l : list (value * value)),
  length (fold_left (fun acc kv => imap_insert (conv_key k (fst kv)) tt acc) l []) =
  length (fold_left (fun acc (kv : value * value) => imap_insert (conv_key k (fst kv)) (snd kv) acc) l []).
Proof.
  intros k l.
  pose proof (fold_insert_map (fun _ : value => tt) (conv_key k) l []) as H.
  cbn [map_snd map] in H. rewrite H. apply map_snd_length.
Qed.

(* ---------- what a condition observes at the end of a path ---------- *)
(* at scan time (ct = false) no template item exists *)
Lemma res_of_new_value : forall enums syn t present v,
  res_of (new_value false enums syn t present v) = scalar_res syn t present v.
Proof.
  intros enums syn t present v. destruct t as [i| | | |syn' fs extra|e|k vt].
  - cbn. destruct v as [[]|]; destruct (is_proto3 syn); reflexivity.
  - cbn. destruct v as [[]|]; destruct (is_proto3 syn); reflexivity.
  - cbn. destruct v as [[]|]; destruct (is_proto3 syn); reflexivity.
  - cbn. destruct v as [[]|]; destruct (is_proto3 syn); reflexivity.
  - rewrite new_value_msg. cbn. destruct v as [[]|]; reflexivity.
  - cbn [new_value scalar_res].
    destruct v as [[z|b|b|s|m|l|l]|]; try (destruct present; [reflexivity|destruct e; reflexivity]).
    cbn [res_of]. now rewrite map_length.
  - cbn [new_value scalar_res].
    destruct v as [[z|b|b|s|m|l|l]|]; try (destruct present; reflexivity).
    cbn [res_of]. rewrite new_map_entries, map_snd_length. now rewrite unit_entries_length.
Qed.

(* ---------- the main statement ---------- *)
Lemma run_correct : forall enums p t syn present v base acc ops,
  reach base acc = Some (new_value false enums syn t present v) ->
  compile_path t p acc = Some ops ->
  run ops base = get syn t present v p.
Proof.
  intros enums p. induction p as [|st r IH]; intros t syn present v base acc ops Hr Hc.
  - cbn [compile_path get] in *. inversion Hc; subst ops.
    rewrite <- (app_nil_r (flush acc)). rewrite (run_flush _ _ _ _ Hr). cbn [run].
    apply res_of_new_value.
  - destruct st as [n|i|k].
    + (* field access *)
      cbn [compile_path get] in *.
      destruct t as [| | | |syn' fs extra| |]; try discriminate.
      destruct (index_of n (ct_names fs extra)) as [i|] eqn:Ei; [|discriminate].
      destruct (find_field n fs) as [f|] eqn:Ef; [|discriminate].
      pose proof (field_at false enums syn syn' fs extra present v n i f Ei Ef) as Hf.
      rewrite new_value_msg in Hr.
      rewrite new_value_msg in Hf. cbn [fields_of_tv] in Hf.
      pose proof (reach_snoc _ _ _ _ _ _ Hr Hf) as Hr'.
      destruct v as [[z|b|b|s|m|l|l]|]; cbn [body_of is_some fieldval] in Hr';
        exact (IH _ _ _ _ _ _ _ Hr' Hc).
    + (* array indexing *)
      cbn [compile_path get] in *.
      destruct t as [| | | | |e|]; try discriminate.
      destruct (compile_path e r []) as [ops'|] eqn:Ec; [|discriminate].
      cbn [option_map] in Hc. inversion Hc; subst ops.
      rewrite (run_flush _ _ _ _ Hr). cbn [new_value run].
      assert (Hempty : run (OIndex i :: ops') (RArr []) = Undef).
      { cbn [run]. destruct (Z.ltb i 0); [reflexivity|]. now destruct (Z.to_nat i). }
      assert (Habsent : run (OIndex i :: ops')
                (if present then RArr [] else match e with TMsg _ _ _ => RArr [] | _ => RArr [] end) = Undef).
      { destruct present; [exact Hempty|]. destruct e; exact Hempty. }
      destruct v as [[z|b|b|s|m|l|l]|]; try exact Habsent.
      cbn [run]. destruct (Z.ltb i 0); [reflexivity|].
      rewrite nth_error_map. destruct (nth_error l (Z.to_nat i)) as [x|]; [|reflexivity].
      cbn [option_map]. apply (IH _ _ _ _ _ [] _ eq_refl Ec).
    + (* map lookup *)
      cbn [compile_path get] in *.
      destruct t as [| | | | | |kt vt]; try discriminate.
      destruct (compile_path vt r []) as [ops'|] eqn:Ec; [|discriminate].
      cbn [option_map] in Hc. inversion Hc; subst ops.
      rewrite (run_flush _ _ _ _ Hr). cbn [new_value].
      destruct v as [[z|b|b|s|m|l|l]|]; try (destruct present; reflexivity).
      cbn [run]. rewrite new_map_entries, assoc_k_map.
      destruct (assoc_k k _) as [x|]; [|reflexivity].
      cbn [option_map]. apply (IH _ _ _ _ _ [] _ eq_refl Ec).
Qed.

Lemma lookup_correct_lemma : forall root msg enums p,
  compile_path root p [] <> None ->
  lookup root msg enums p = get_root root msg p.
Proof.
  intros root msg enums p Hc. unfold lookup, get_root, struct_of.
  destruct (compile_path root p []) as [ops|] eqn:E; [|congruence].
  apply (run_correct enums p root Proto2 _ msg _ [] ops eq_refl E).
Qed.

(* ---------- consequences ---------- *)
(* the index a condition was compiled with (from the descriptor, with the
   generated enum/function/method fields) selects the same field in the structure
   built from a message, with and without those generated fields *)
Lemma index_stable_struct : forall syn syn' fs extra present v n f,
  find_field n fs = Some f ->
  exists i, index_of n (ct_names fs extra) = Some i /\
    forall ct enums,
      nth_error (fields_of_tv (new_value ct enums syn (TMsg syn' fs extra) present v)) i =
      Some (n, new_value ct enums syn' (fd_ty f) (is_some (body_of v)) (fieldval (body_of v) f)).
Proof.
  intros syn syn' fs extra present v n f Hf.
  destruct (index_stable_lemma fs n f extra [] Hf) as [i [H1 _]].
  exists i. split; [exact H1|]. intros ct enums. now apply field_at.
Qed.

Definition scalar_ty (t : ty) : bool :=
  match t with TInt _ | TFloat | TBool | TStr => true | _ => false end.

(* proto2: a scalar field that the message does not set is undefined *)
Lemma absent_is_undefined_lemma : forall fs extra m enums n f,
  find_field n fs = Some f -> scalar_ty (fd_ty f) = true -> assoc_n (fd_number f) m = None ->
  lookup (TMsg Proto2 fs extra) (Some (VMsg m)) enums [SField n] = Undef.
Proof.
  intros fs extra m enums n f Hf Hs Ha.
  destruct (index_stable_lemma fs n f extra [] Hf) as [i [Hi _]].
  rewrite lookup_correct_lemma.
  - unfold get_root. cbn [get]. rewrite Hf, Ha. cbn [get].
    destruct (fd_ty f); try discriminate; reflexivity.
  - cbn [compile_path]. rewrite Hi, Hf. cbn [compile_path]. discriminate.
Qed.

(* ... and so is every scalar field of a nested message that is absent *)
Lemma absent_message_fields_undefined : forall fs extra m enums n f fs' extra' n' f',
  find_field n fs = Some f -> fd_ty f = TMsg Proto2 fs' extra' -> assoc_n (fd_number f) m = None ->
  find_field n' fs' = Some f' -> scalar_ty (fd_ty f') = true ->
  lookup (TMsg Proto2 fs extra) (Some (VMsg m)) enums [SField n; SField n'] = Undef.
Proof.
  intros fs extra m enums n f fs' extra' n' f' Hf Ht Ha Hf' Hs.
  destruct (index_stable_lemma fs n f extra [] Hf) as [i [Hi _]].
  destruct (index_stable_lemma fs' n' f' extra' [] Hf') as [i' [Hi' _]].
  rewrite lookup_correct_lemma.
  - unfold get_root. cbn [get]. rewrite Hf, Ha, Ht. cbn [get]. rewrite Hf'. cbn [get].
    destruct (fd_ty f'); try discriminate; reflexivity.
  - cbn [compile_path]. rewrite Hi, Hf, Ht. cbn [compile_path]. rewrite Hi', Hf'. cbn [compile_path]. discriminate.
Qed.

(* proto3 (documented in test_proto2.proto): absent scalars read as the default *)
Lemma absent_is_default_proto3 : forall fs extra m enums n f,
  find_field n fs = Some f -> scalar_ty (fd_ty f) = true -> assoc_n (fd_number f) m = None ->
  lookup (TMsg Proto3 fs extra) (Some (VMsg m)) enums [SField n] =
  match fd_ty f with TInt _ => RI 0 | TFloat => RF 0 | TBool => RB false | _ => RS 0%N end.
Proof.
  intros fs extra m enums n f Hf Hs Ha.
  destruct (index_stable_lemma fs n f extra [] Hf) as [i [Hi _]].
  rewrite lookup_correct_lemma.
  - unfold get_root. cbn [get]. rewrite Hf, Ha. cbn [get].
    destruct (fd_ty f); try discriminate; reflexivity.
  - cbn [compile_path]. rewrite Hi, Hf. cbn [compile_path]. discriminate.
Qed.

(* arrays: as many elements as repeated values, in the same order *)
Lemma array_len_and_order : forall ct enums syn e present l,
  new_value ct enums syn (TArr e) present (Some (VArr l)) =
  RArr (map (fun x => new_value ct enums syn e true (Some x)) l) /\
  res_of (new_value ct enums syn (TArr e) present (Some (VArr l))) = RObjArr (length l) /\
  forall i x, nth_error l i = Some x ->
    run [OIndex (Z.of_nat i)] (new_value ct enums syn (TArr e) present (Some (VArr l))) =
    res_of (new_value ct enums syn e true (Some x)).
Proof.
  intros. split; [reflexivity|]. split; [cbn; now rewrite map_length|].
  intros i x H. cbn [new_value run].
  destruct (Z.ltb_spec (Z.of_nat i) 0); [lia|]. rewrite Nat2Z.id, nth_error_map, H. reflexivity.
Qed.

(* maps: with distinct keys the entries are the message's entries in the order
   in which reflection yields them (IndexMap insertion order) *)
Fixpoint keys_distinct (l : list value) : bool :=
  match l with
  | [] => true
  | k :: r => negb (existsb (value_eqb_key k) r) && keys_distinct r
  end.

Lemma value_eqb_key_sym : forall a b, value_eqb_key a b = value_eqb_key b a.
Proof. intros x y. destruct x, y; cbn [value_eqb_key]; try reflexivity.
  - apply Z.eqb_sym.
  - apply N.eqb_sym.
Qed.

Lemma imap_insert_fresh : forall {A} k (x : A) l,
  existsb (value_eqb_key k) (map fst l) = false -> imap_insert k x l = l ++ [(k, x)].
Proof.
  intros A k x l. induction l as [|[k' y] r IH]; intros H; [reflexivity|].
  cbn [map fst existsb] in H. apply orb_false_iff in H. destruct H as [H1 H2].
  cbn [imap_insert app]. rewrite value_eqb_key_sym, H1. f_equal. now apply IH.
Qed.

Lemma fold_insert_distinct : forall {A} (ck : value -> value) (l : list (value * A)) acc,
  keys_distinct (map fst acc ++ map (fun kv => ck (fst kv)) l) = true ->
  fold_left (fun a kv => imap_insert (ck (fst kv)) (snd kv) a) l acc =
  acc ++ map (fun kv => (ck (fst kv), snd kv)) l.
Proof.
  intros A ck l. induction l as [|kv r IH]; intros acc H; [now rewrite app_nil_r|].
  cbn [fold_left map]. rewrite imap_insert_fresh.
  - rewrite IH.
    + now rewrite <- app_assoc.
    + rewrite map_app. cbn [map fst]. rewrite <- app_assoc. exact H.
  - clear IH. induction acc as [|[k' y] acc' IHa].
    + reflexivity.
    + cbn [map fst app keys_distinct] in H. apply andb_true_iff in H. destruct H as [H1 H2].
      cbn [map fst existsb]. rewrite (IHa H2), orb_false_r.
      apply negb_true_iff in H1. rewrite existsb_app in H1. apply orb_false_iff in H1.
      destruct H1 as [_ H1]. cbn [map existsb] in H1. apply orb_false_iff in H1.
      rewrite value_eqb_key_sym. exact (proj1 H1).
Qed.

Lemma map_len_and_order : forall ct enums syn k vt present l,
  keys_distinct (map (fun kv => conv_key k (fst kv)) l) = true ->
  new_value ct enums syn (TMap k vt) present (Some (VMap l)) =
  RMap false (map (fun kv => (conv_key k (fst kv), new_value ct enums syn vt true (Some (snd kv)))) l) /\
  res_of (new_value ct enums syn (TMap k vt) present (Some (VMap l))) = RObjMap (length l).
Proof.
  intros ct enums syn k vt present l H.
  assert (E : new_value ct enums syn (TMap k vt) present (Some (VMap l)) =
              RMap false (map (fun kv => (conv_key k (fst kv), new_value ct enums syn vt true (Some (snd kv)))) l)).
  { cbn [new_value]. rewrite new_map_entries. rewrite (fold_insert_distinct (conv_key k) l []) by exact H.
    cbn [app]. unfold map_snd. rewrite map_map. reflexivity. }
  split; [exact E|]. rewrite E. cbn [res_of]. now rewrite map_length.
Qed.

(* A repeated message field of an ABSENT message: the compile-time structure
   holds one template item (the compiler needs the element type), the scan-time
   structure is empty, so a condition sees length 0 and no element.  (Before the
   repair of finding "template array" the scan-time array had the template item
   too and `pe.rich_signature.tools.len() == 1` held for a file that is not a PE;
   the harness keeps that input in its corpus.) *)
Lemma absent_message_array_is_empty :
  let root := TMsg Proto2 [FD 1 1 false (TMsg Proto2 [FD 2 1 false (TArr (TMsg Proto2 [FD 3 1 false (TInt I64)] []))] [])] [] in
  lookup root (Some (VMsg [])) false [SField 1%N; SField 2%N] = RObjArr 0 /\
  lookup root (Some (VMsg [])) false [SField 1%N; SField 2%N; SIndex 0; SField 3%N] = Undef /\
  (* while the structure the compiler works with has the template item *)
  run [OLookup [0%nat; 0%nat]] (compile_struct root) = RObjArr 1.
Proof. vm_compute. repeat split. Qed.

(* arrays of a message that IS in the output have the length of the output's array *)
Lemma array_len_present : forall fs extra m enums n f e,
  find_field n fs = Some f -> fd_ty f = TArr e ->
  lookup (TMsg Proto2 fs extra) (Some (VMsg m)) enums [SField n] =
  RObjArr (match assoc_n (fd_number f) m with Some (VArr l) => length l | _ => 0%nat end).
Proof.
  intros fs extra m enums n f e Hf Ht.
  destruct (index_stable_lemma fs n f extra [] Hf) as [i [Hi _]].
  rewrite lookup_correct_lemma.
  - unfold get_root. cbn [get]. rewrite Hf, Ht. cbn [get scalar_res].
    destruct (assoc_n (fd_number f) m) as [[]|]; reflexivity.
  - cbn [compile_path]. rewrite Hi, Hf. cbn [compile_path]. discriminate.
Qed.

(* non-vacuity: a path through arrays, maps and a wrapped u64 *)
Lemma lookup_example :
  let root := TMsg Proto2 [FD 1 7 false (TArr (TMsg Proto2 [FD 3 1 false (TInt U64)] []));
                           FD 2 3 false (TMap KStr TStr)] [9%N] in
  let msg := VMsg [(7%N, VArr [VMsg [(1%N, VInt (2 ^ 64 - 1))]]); (3%N, VMap [(VStr 5, VStr 6)])] in
  lookup root (Some msg) true [SField 1%N; SIndex 0; SField 3%N] = RI (-1) /\
  lookup root (Some msg) false [SField 2%N; SKey (VStr 5)] = RS 6%N /\
  compile_path root [SField 1%N; SIndex 0; SField 3%N] [] = Some [OLookup [1%nat]; OIndex 0; OLookup [0%nat]].
Proof. vm_compute. repeat split. Qed.
