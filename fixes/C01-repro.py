#!/usr/bin/env python3
# reproductions of the C01 findings: (id, pattern, data bytes, expected reported list or 'nopanic')
import subprocess, sys, re
import os
P=os.environ.get("C01_BIN", "/verif/.cache/target/debug/c01")  # harness binary: built by `python3 check.py run C01`
CASES=[
 ("1a", '"foo" base64wide', bytes.fromhex("5a006d00390076"), []),
 ("1b", '"foo" base64wide', bytes.fromhex("5a006d0039007600"), [(0,8)]),
 ("1c", '"foob" base64wide', b"Z\0m\09\0v\0Y\0g", [(0,10)]),
 ("2a", '/ab.de/s fullword', b" abcde", [(1,5)]),
 ("2b", '/ab.de/s fullword', b"abcdez", []),
 ("2c", '/ab.de/s fullword', b"      abcde", [(6,5)]),
 ("2d", '/ab.de/s fullword', b"zabcde abcde,", [(7,5)]),
 ("3a1", '/abc.*/', b"abc", [(0,3)]),
 ("3a2", '/abc.+/', b"abc1", [(0,4)]),
 ("3a3", '/abc.{2,4}/s', b"xabc12", [(1,5)]),
 ("3a4", '/abc.{2,4}/s', b"abc12345", [(0,7)]),
 ("3a5", '/abc.*/', b"abc12\n3", [(0,5)]),
 ("3a6", '/abc.+/', b"abc\n", []),
 ("3a7", '/abc.{1,3}/', b"abc1", [(0,4)]),
 ("3a8", '/abc.*/s wide', b"a\0b\0c\0", [(0,6)]),
 ("3a9", '/abc.+/s wide', b"a\0b\0c\0d\0", [(0,8)]),
 ("3a10", '/.{2,4}abc/s', b"12abc", [(0,5)]),
 ("3a11", '/.*abc/', b"abc", [(0,3)]),
 ("3a12", '/.*abc/', b"xabc", [(0,4),(1,3)]),
 ("3a13", '/.+abc/', b"xabc", [(0,4)]),
 ("3a14", '/.{1,2}abc/', b"\nxabc", [(1,4)]),
 ("3a15", '/abc.{2,4}/s wide', b"a\0b\0c\0001\0002\000", [(0,10)]),
 ("3a16", '/abc.{1,3}x?/s', b"abc12", [(0,5)]),
 ("3a17", r'/abc.*[\x0a\x0b]/', b"abc12\n", [(0,6)]),
 ("3a18", r'/abc.*[\x0a\x0b]x/', b"abc12\nx", [(0,7)]),
 ("3a19", r'/[\x0a\x0b].{1,3}abc/', b"\n12abc", [(0,6)]),
 ("3a20", '/abc.{2,4}/s', b"abc1", []),
 ("3a21", '/abc.{2,}/', b"abc1\n2", []),
 ("3b1", '/abc.{5,300}/s', b"abc12", []),
 ("3b2", '/abc.{5,300}/s', b"abc123456", [(0,9)]),
 ("3b3", '/abc.{5,}/s', b"abc12", []),
 ("3b4", '{ 41 42 43 [0-300] 44 45 46 }', b"ABC...DEF", [(0,9)]),
 ("4a", r'/c[\x5f-\x62\x00-\x02\x40]{2}b\x85/', b"c@_b\x85", [(0,5)]),
 ("4b", r'/c[\x5f-\x62\x00-\x02\x40]{2}b\x85/', b"c \"b\x85", []),
 ("4c", r'/c[\x30-\x3f]b/', b"c5b", [(0,3)]),
 ("5a", '/(.b){2,3}/s', b"abababababab", [(0,6),(2,6),(4,6),(6,6),(8,4)]),
 ("5b", '/(.b){1,2}c/s', b"ababababc", [(4,5),(6,3)]),
 ("5c", '/(ab){2,3}/', b"abababababab", [(0,6),(2,6),(4,6),(6,6),(8,4)]),
 ("5d", '/(.b){2,3}c/s', b"abababababc", [(4,7),(6,5)]),
 ("5e", '/x(.b){2,3}/s', b"xabababab", [(0,7)]),
 ("5f", '/(.b){2,12}/s', b"ab"*20, None),
 ("5g", '/(a\\S|\\d){2,3}/', b"abababababab", [(0,6),(2,6),(4,6),(6,6),(8,4)]),
 ("5h", '/((.b){1,2}c){1,2}/s', b"ababcabcababc", None),
 ("5i", '/(.b){3}/s', b"abababab", [(0,6),(2,6)]),
 ("5j", '/(.b){2,3}?/s', b"abababab", [(0,4),(2,4),(4,4)]),
 ("6a", '{ 50 [12] 7? [0-50] 5F }', b"P"+b"x"*12+b"zyy_", [(0,17)]),
 ("6b", r'/P.{12}[^a].{0,50}_/s', b"P"+b"x"*12+b"zyy_", [(0,17)]),
 ("6d", '{ 50 [198-200] ( 71 62 ~84 | ~6? ) [0-250] 5F }', b"P"+b"x"*199+b"zyy_", [(0,204)]),
 ("6e", r'/P.{12}[^a].{0,50}_/s', b"P"+b"x"*12+b"zyy_ P"+b"y"*12+b"z_", None),
 ("6f", r'/a[0-9]{11,12}b/', b"a123456789012b a12345678901b a1234567890b", [(0,14),(15,13)]),
 ("6g", r'/[ab][0-9a]{11}b/', b"aa12345678901b", [(1,13)]),
 ("6c", '{ 50 [12] 7A [0-50] 5F }', b"P"+b"x"*12+b"zyy_", [(0,17)]),
]
only=sys.argv[1:] 
bad=0
for cid,pat,data,exp in CASES:
    if only and not any(cid.startswith(o) for o in only): continue
    open("/tmp/c01_repro.yar","w").write("rule r { strings: $a = %s condition: #a >= 0 }\n" % pat)
    out=subprocess.run([P,"--probe","/tmp/c01_repro.yar","--data-hex",data.hex()],capture_output=True,text=True).stdout.strip()
    rep=[(int(a),int(b)) for a,b in re.findall(r"\((\d+), (\d+), (?:None|Some\(\d+\))\)", out.split("panic=")[0])]
    panic = "panic=None" not in out or "bytes=None" not in out
    ok = (exp is None or rep==exp) and not panic
    if exp is None: print('   info', rep)
    bad += (not ok)
    print(("ok  " if ok else "BAD "), cid, pat, data[:24], "->", out if not ok else rep, "" if ok else f"expected {exp}")
print("bad:", bad)
