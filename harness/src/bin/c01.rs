//! C01: reported pattern matches are exactly the genuine occurrences.
//!
//! stream (a): random operation sequences on the real MatchList / PatternMatches
//!             (hook lib/src/verif_c01.rs) -> the Coq model Pat/MatchList.v must
//!             reproduce every result and the final state exactly;
//! stream (b): patterns generated from the AST of coq/Pat/Syntax.v, printed to
//!             YARA source, and adversarial buffers assembled from the patterns'
//!             own instances; the real Scanner's matches (offset, length, xor key)
//!             are checked in Coq by the boolean specification of Pat/C01Check.v.
use std::fmt::Write as _;
use std::panic::AssertUnwindSafe;
use std::path::Path;
use verif_harness::util::*;
use yara_x::verif_c01 as hook;

// ------------------------------------------------------------------ AST
#[derive(Clone, Debug, PartialEq)]
pub enum Cls {
    Byte(u8),
    Mask(u8, u8),    // value, mask
    NotMask(u8, u8), // value, mask
    Any,
    Ranges(bool, Vec<(u8, u8)>),
}
#[derive(Clone, Copy, Debug, PartialEq)]
pub enum Asrt { Start, End, WordB, NotWordB, WordStart, WordEnd }
#[derive(Clone, Debug, PartialEq)]
pub enum Re {
    Lit(Vec<u8>),
    Cls(Cls),
    Cat(Vec<Re>),
    Alt(Vec<Re>),
    Rep(Box<Re>, usize, Option<usize>, bool),
    Assert(Asrt),
}

#[derive(Clone, Debug, Default)]
pub struct TMods {
    pub nocase: bool, pub ascii: bool, pub wide: bool, pub fullword: bool,
    pub xor: Option<(u8, u8)>, pub xor_explicit: bool,
    pub b64: Option<Option<Vec<u8>>>, pub b64wide: Option<Option<Vec<u8>>>,
}
#[derive(Clone, Debug, Default)]
pub struct RMods { pub nocase: bool, pub slash_i: bool, pub dotall: bool, pub ascii: bool, pub wide: bool, pub fullword: bool }

#[derive(Clone, Debug)]
pub enum Pat { Text(Vec<u8>, TMods), Hex(Re), Regexp(Re, RMods) }

const STD_ALPHABET: &[u8] = b"ABCDEFGHIJKLMNOPQRSTUVWXYZabcdefghijklmnopqrstuvwxyz0123456789+/";

// ------------------------------------------------------------------ printers: Coq
fn coq_cls(c: &Cls) -> String {
    match c {
        Cls::Byte(b) => format!("CByte {}", b),
        Cls::Mask(v, m) => format!("CMask {} {}", v, m),
        Cls::NotMask(v, m) => format!("CNotMask {} {}", v, m),
        Cls::Any => "CAny".into(),
        Cls::Ranges(neg, rs) => format!("CRanges {} {}", coq_bool(*neg), coq_list(rs, |(a, b)| format!("({},{})", a, b))),
    }
}
fn coq_re(r: &Re) -> String {
    match r {
        Re::Lit(s) => format!("(rlit {})", coq_list(s, |b| b.to_string())),
        Re::Cls(c) => format!("(RCls ({}))", coq_cls(c)),
        Re::Cat(v) => format!("(rcat {})", coq_list(v, coq_re)),
        Re::Alt(v) => format!("(ralt {})", coq_list(v, coq_re)),
        Re::Rep(x, mn, mx, g) => format!("(RRep {} {} {} {})", coq_re(x), coq_nat(*mn),
            match mx { Some(m) => format!("(Some {})", coq_nat(*m)), None => "None".into() }, coq_bool(*g)),
        Re::Assert(a) => format!("(RAssert {})", match a { Asrt::Start => "AStart", Asrt::End => "AEnd", Asrt::WordB => "AWordB", Asrt::NotWordB => "ANotWordB",
                                                                 Asrt::WordStart => "AWordStart", Asrt::WordEnd => "AWordEnd" }),
    }
}
fn coq_alpha(a: &Option<Option<Vec<u8>>>) -> String {
    match a {
        None => "None".into(),
        Some(None) => "(Some std_alphabet)".into(),
        Some(Some(v)) => format!("(Some {})", coq_list(v, |b| b.to_string())),
    }
}
fn coq_pat(p: &Pat) -> String {
    match p {
        Pat::Text(t, m) => format!("(PText {} (mkTM {} {} {} {} {} {} {}))", coq_list(t, |b| b.to_string()),
            coq_bool(m.nocase), coq_bool(m.ascii), coq_bool(m.wide), coq_bool(m.fullword),
            match m.xor { Some((lo, hi)) => format!("(Some ({},{}))", lo, hi), None => "None".into() },
            coq_alpha(&m.b64), coq_alpha(&m.b64wide)),
        Pat::Hex(r) => format!("(PHex {})", coq_re(r)),
        Pat::Regexp(r, m) => format!("(PRegexp {} (mkRM {} {} {} {}))", coq_re(r),
            coq_bool(m.nocase || m.slash_i), coq_bool(m.ascii), coq_bool(m.wide), coq_bool(m.fullword)),
    }
}

// ------------------------------------------------------------------ printers: YARA
fn yara_text_lit(t: &[u8]) -> String {
    let mut s = String::from("\"");
    for &b in t {
        if b.is_ascii_alphanumeric() || b == b' ' || b == b'_' || b == b'-' || b == b'.' { s.push(b as char); }
        else { let _ = write!(s, "\\x{:02x}", b); }
    }
    s.push('"');
    s
}
fn yara_alpha(a: &Option<Vec<u8>>) -> String {
    // alphabets are printable and contain neither `"` nor `\`: printed raw (escapes are not accepted there)
    match a { None => String::new(), Some(v) => format!("(\"{}\")", String::from_utf8_lossy(v)) }
}
fn hex_cls(c: &Cls) -> String {
    let nib = |v: u8, m: u8| -> String {
        let hi = if m & 0xF0 != 0 { format!("{:X}", v >> 4) } else { "?".into() };
        let lo = if m & 0x0F != 0 { format!("{:X}", v & 15) } else { "?".into() };
        format!("{}{}", hi, lo)
    };
    match c {
        Cls::Byte(b) => format!("{:02X}", b),
        Cls::Mask(v, m) => nib(*v, *m),
        Cls::NotMask(v, m) => format!("~{}", nib(*v, *m)),
        Cls::Any => "??".into(),
        Cls::Ranges(..) => unreachable!("no bracket classes in hex patterns"),
    }
}
fn yara_hex(r: &Re) -> String {
    match r {
        Re::Lit(s) => s.iter().map(|b| format!("{:02X}", b)).collect::<Vec<_>>().join(" "),
        Re::Cls(c) => hex_cls(c),
        Re::Cat(v) => v.iter().map(yara_hex).collect::<Vec<_>>().join(" "),
        Re::Alt(v) => format!("( {} )", v.iter().map(yara_hex).collect::<Vec<_>>().join(" | ")),
        Re::Rep(_, mn, mx, _) => match mx {
            Some(m) if m == mn => format!("[{}]", mn),
            Some(m) => format!("[{}-{}]", mn, m),
            None if *mn == 0 => "[-]".into(),
            None => format!("[{}-]", mn),
        },
        Re::Assert(_) => unreachable!(),
    }
}
fn re_byte(b: u8) -> String {
    if b.is_ascii_alphanumeric() { (b as char).to_string() } else { format!("\\x{:02x}", b) }
}
fn re_cls(c: &Cls, dotall: bool) -> String {
    match c {
        Cls::Byte(b) => re_byte(*b),
        Cls::Any => if dotall { ".".into() } else { "[\\x00-\\xff]".into() },
        Cls::Ranges(true, rs) if !dotall && rs.len() == 1 && rs[0] == (10, 10) => ".".into(),
        Cls::Ranges(false, rs) if rs.len() == 1 && rs[0] == (b'0', b'9') => "\\d".into(),
        Cls::Ranges(true, rs) if rs.len() == 1 && rs[0] == (b'0', b'9') => "\\D".into(),
        Cls::Ranges(neg, rs) if *rs == word_ranges() => if *neg { "\\W".into() } else { "\\w".into() },
        Cls::Ranges(neg, rs) if *rs == space_ranges() => if *neg { "\\S".into() } else { "\\s".into() },
        Cls::Ranges(neg, rs) => {
            let mut s = String::from(if *neg { "[^" } else { "[" });
            for (a, b) in rs {
                if a == b { let _ = write!(s, "\\x{:02x}", a); } else { let _ = write!(s, "\\x{:02x}-\\x{:02x}", a, b); }
            }
            s.push(']');
            s
        }
        Cls::Mask(..) | Cls::NotMask(..) => unreachable!("no masks in regexps"),
    }
}
fn word_ranges() -> Vec<(u8, u8)> { vec![(b'0', b'9'), (b'A', b'Z'), (b'_', b'_'), (b'a', b'z')] }
fn space_ranges() -> Vec<(u8, u8)> { vec![(9, 13), (32, 32)] }
fn yara_re(r: &Re, dotall: bool) -> String {
    match r {
        Re::Lit(s) => s.iter().map(|b| re_byte(*b)).collect(),
        Re::Cls(c) => re_cls(c, dotall),
        Re::Cat(v) => v.iter().map(|x| yara_re(x, dotall)).collect(),
        Re::Alt(v) => format!("({})", v.iter().map(|x| yara_re(x, dotall)).collect::<Vec<_>>().join("|")),
        Re::Rep(x, mn, mx, g) => {
            let atom = match &**x {
                Re::Cls(_) => yara_re(x, dotall),
                Re::Lit(s) if s.len() == 1 => yara_re(x, dotall),
                Re::Alt(_) => yara_re(x, dotall),
                _ => format!("({})", yara_re(x, dotall)),
            };
            let q = match (mn, mx) {
                (0, None) => "*".to_string(),
                (1, None) => "+".to_string(),
                (0, Some(1)) => "?".to_string(),
                (n, None) => format!("{{{},}}", n),
                (0, Some(m)) => format!("{{,{}}}", m),
                (n, Some(m)) if n == m => format!("{{{}}}", n),
                (n, Some(m)) => format!("{{{},{}}}", n, m),
            };
            format!("{}{}{}", atom, q, if *g { "" } else { "?" })
        }
        Re::Assert(a) => match a { Asrt::Start => "^".into(), Asrt::End => "$".into(), Asrt::WordB => "\\b".into(), Asrt::NotWordB => "\\B".into(),
                                    Asrt::WordStart => "\\b{start}".into(), Asrt::WordEnd => "\\b{end}".into() },
    }
}
fn yara_pat(p: &Pat) -> String {
    match p {
        Pat::Text(t, m) => {
            let mut s = yara_text_lit(t);
            if m.nocase { s.push_str(" nocase"); }
            if m.wide { s.push_str(" wide"); }
            if m.ascii { s.push_str(" ascii"); }
            if m.fullword { s.push_str(" fullword"); }
            if let Some((lo, hi)) = m.xor {
                if m.xor_explicit { let _ = write!(s, " xor(0x{:02x}-0x{:02x})", lo, hi); } else { s.push_str(" xor"); }
            }
            if let Some(a) = &m.b64 { let _ = write!(s, " base64{}", yara_alpha(a)); }
            if let Some(a) = &m.b64wide { let _ = write!(s, " base64wide{}", yara_alpha(a)); }
            s
        }
        Pat::Hex(r) => format!("{{ {} }}", yara_hex(r)),
        Pat::Regexp(r, m) => {
            let mut s = format!("/{}/", yara_re(r, m.dotall));
            if m.slash_i { s.push('i'); }
            if m.dotall { s.push('s'); }
            if m.nocase { s.push_str(" nocase"); }
            if m.wide { s.push_str(" wide"); }
            if m.ascii { s.push_str(" ascii"); }
            if m.fullword { s.push_str(" fullword"); }
            s
        }
    }
}
fn shape(p: &Pat) -> String {
    fn feats(r: &Re, f: &mut std::collections::BTreeSet<&'static str>) {
        match r {
            Re::Lit(_) => {}
            Re::Cls(Cls::Byte(_)) => {}
            Re::Cls(Cls::Mask(..)) => { f.insert("mask"); }
            Re::Cls(Cls::NotMask(..)) => { f.insert("not"); }
            Re::Cls(Cls::Any) => { f.insert("any"); }
            Re::Cls(Cls::Ranges(..)) => { f.insert("class"); }
            Re::Cat(v) => v.iter().for_each(|x| feats(x, f)),
            Re::Alt(v) => { f.insert("alt"); v.iter().for_each(|x| feats(x, f)) }
            Re::Rep(x, mn, mx, g) => {
                let span = mx.map(|m| m - mn);
                if matches!(**x, Re::Cls(Cls::Any)) && span.map_or(true, |s| s > 200) { f.insert("biggap"); }
                else if mx.is_none() { f.insert("unbounded"); } else { f.insert("rep"); }
                if !*g { f.insert("lazy"); }
                feats(x, f)
            }
            Re::Assert(Asrt::Start) | Re::Assert(Asrt::End) => { f.insert("anchor"); }
            Re::Assert(_) => { f.insert("wordb"); }
        }
    }
    let mut f = std::collections::BTreeSet::new();
    match p {
        Pat::Text(_, m) => {
            let mut v = vec![];
            if m.nocase { v.push("nocase"); } if m.ascii { v.push("ascii"); } if m.wide { v.push("wide"); }
            if m.fullword { v.push("fullword"); } if m.xor.is_some() { v.push("xor"); }
            if m.b64.is_some() { v.push("base64"); } if m.b64wide.is_some() { v.push("base64wide"); }
            format!("text:{}", v.join("+"))
        }
        Pat::Hex(r) => { feats(r, &mut f); format!("hex:{}", f.into_iter().collect::<Vec<_>>().join("+")) }
        Pat::Regexp(r, m) => {
            feats(r, &mut f);
            if m.nocase || m.slash_i { f.insert("nocase"); } if m.dotall { f.insert("dotall"); }
            if m.wide { f.insert("wide"); } if m.ascii { f.insert("ascii"); } if m.fullword { f.insert("fullword"); }
            format!("regexp:{}", f.into_iter().collect::<Vec<_>>().join("+"))
        }
    }
}

/// true when the compiler turns this regexp into a LiteralWithMask sub-pattern: a sequence of
/// literal bytes and any-byte positions (`.` with /s), no nocase, no wide (c_regexp_pattern)
fn is_masked_literal(p: &Pat) -> bool {
    fn flat(r: &Re, dotall: bool, has_any: &mut bool) -> bool {
        match r {
            Re::Lit(_) | Re::Cls(Cls::Byte(_)) => true,
            Re::Cls(Cls::Any) => { *has_any = true; dotall }
            Re::Rep(x, mn, Some(mx), _) if mn == mx => matches!(**x, Re::Cls(Cls::Any)) && { *has_any = true; dotall },
            Re::Cat(v) => v.iter().all(|x| flat(x, dotall, has_any)),
            _ => false,
        }
    }
    match p {
        Pat::Regexp(r, m) => { let mut a = false; !m.nocase && !m.slash_i && !m.wide && flat(r, m.dotall, &mut a) && a }
        _ => false,
    }
}

/// the byte set of a class as the compiler sees it (case folded, then negated)
fn cls_set(c: &Cls, nc: bool) -> Vec<u8> { (0..=255u8).filter(|b| cls_has(c, nc, *b)).collect() }

/// re/hir.rs class_to_masked_byte on this byte set: Some((value, mask)) when it claims the class
/// is a masked byte; the bool tells whether that masked byte really denotes the same set
fn class_to_masked_byte(set: &[u8]) -> Option<(u8, u8, bool)> {
    if set.is_empty() { return None; }
    let (smallest, largest) = (set[0], *set.last().unwrap());
    let neg_mask = largest ^ smallest;
    if set.iter().any(|b| b & smallest != smallest) { return None; }
    if 1u32 << neg_mask.count_ones() != set.len() as u32 { return None; }
    let mask = !neg_mask;
    let denoted: Vec<u8> = (0..=255u8).filter(|b| b & mask == smallest).collect();
    Some((smallest, mask, denoted == set))
}

/// root-cause hints for the classification of findings (checks/C01.py)
fn tags(p: &Pat) -> Vec<&'static str> {
    let mut t = vec![];
    let (r, nc, dotall) = match p {
        Pat::Text(_, m) => { if m.b64wide.is_some() { t.push("base64wide"); } return t; }
        Pat::Hex(r) => (r, false, true),
        Pat::Regexp(r, m) => (r, m.nocase || m.slash_i, m.dotall),
    };
    if is_masked_literal(p) && matches!(p, Pat::Regexp(_, m) if m.fullword) { t.push("fullword-on-masked-literal"); }
    fn is_dot(r: &Re) -> bool { matches!(r, Re::Cls(Cls::Any)) || matches!(r, Re::Cls(Cls::Ranges(true, rs)) if rs.len() == 1 && rs[0] == (10, 10)) }
    fn seq(r: &Re) -> Vec<&Re> { match r { Re::Cat(v) => v.iter().flat_map(|x| seq(x)).collect(), x => vec![x] } }
    let items = seq(r);
    if matches!(p, Pat::Regexp(..)) && matches!(items.last(), Some(Re::Rep(x, ..)) if is_dot(x)) { t.push("trailing-dot-repetition"); }
    // a pattern split into a chain at a BOUNDED large gap, with a variable-length piece before the gap:
    // only one end per start is kept for a chain piece, and the gap is measured from that end (known finding)
    fn fixed_len(r: &Re) -> Option<usize> {
        match r {
            Re::Lit(s) => Some(s.len()), Re::Cls(_) => Some(1), Re::Assert(_) => Some(0),
            Re::Cat(v) => v.iter().map(fixed_len).sum(),
            Re::Alt(v) => { let l: Vec<_> = v.iter().map(fixed_len).collect(); if l.iter().all(|x| x.is_some() && *x == l[0]) { l[0] } else { None } }
            Re::Rep(x, mn, Some(mx), _) if mn == mx => fixed_len(x).map(|l| l * mn),
            Re::Rep(..) => None,
        }
    }
    // (the piece before a bounded gap: the items since the previous split point)
    let splits = |x: &Re| matches!(x, Re::Rep(y, mn, mx, _) if matches!(**y, Re::Cls(Cls::Any)) && mx.map_or(true, |m| m - mn > 200));
    let mut piece_start = 0usize;
    let mut tagged = false;
    for (i, x) in items.iter().enumerate() {
        if i >= 1 && i + 1 < items.len() && splits(x) {
            if matches!(x, Re::Rep(_, _, Some(_), _)) && items[piece_start..i].iter().any(|x| fixed_len(x).is_none()) { tagged = true; }
            piece_start = i + 1;
        }
    }
    if tagged { t.push("chain-piece-variable-length-bounded-gap"); }
    // the same root cause for a GREEDY regexp: the longest end of a chain piece is kept, so a piece of
    // variable length in front of ANY split point can hide the occurrence that needs a shorter end
    let greedy_re = matches!(p, Pat::Regexp(..)) && items.iter().any(|x| matches!(x, Re::Rep(_, _, _, true)));
    if greedy_re {
        let mut piece_start = 0usize;
        let mut tagged = false;
        for (i, x) in items.iter().enumerate() {
            if i >= 1 && i + 1 < items.len() && splits(x) {
                if items[piece_start..i].iter().any(|x| fixed_len(x).is_none()) { tagged = true; }
                piece_start = i + 1;
            }
        }
        if tagged { t.push("chain-piece-variable-length-greedy"); }
    }
    // a `wide` regexp with a jump over the chaining threshold between two pieces: it is split into a
    // chain, and for a chain the gap is only a distance (known finding: the gap is not required to
    // consist of wide characters)
    if matches!(p, Pat::Regexp(_, m) if m.wide) && items.len() >= 3
        && items[1..items.len() - 1].iter().any(|x| matches!(x, Re::Rep(y, mn, mx, _) if matches!(**y, Re::Cls(Cls::Any)) && mx.map_or(true, |m| m - mn > 200))) {
        t.push("wide-regexp-split-at-large-gap");
    }
    // known findings of round 5 (candidate repairs in /verif/fixes):
    // (a) FastVM, backward JumpExactNoNewline looks at the wrong bytes: a regexp without /s that has .{n}
    fn has_exact_dot(r: &Re) -> bool { match r {
        Re::Rep(x, mn, Some(mx), _) if mn == mx && *mn >= 1 && is_dot(x) && !matches!(**x, Re::Cls(Cls::Any)) => true,
        Re::Rep(x, ..) => has_exact_dot(x), Re::Cat(v) | Re::Alt(v) => v.iter().any(has_exact_dot), _ => false } }
    if matches!(p, Pat::Regexp(..)) && !dotall && has_exact_dot(r) { t.push("exact-dot-repetition-without-s"); }
    // (b) PikeVM, \b{end} evaluated backwards at the start of the data
    fn has_word_end(r: &Re) -> bool { match r {
        Re::Assert(Asrt::WordEnd) => true, Re::Rep(x, ..) => has_word_end(x), Re::Cat(v) | Re::Alt(v) => v.iter().any(has_word_end), _ => false } }
    if has_word_end(r) { t.push("word-end-assertion"); }
    // (c) jump bounds above 65535 truncated to 16 bits by the FastVM compiler
    fn has_huge_jump(r: &Re) -> bool { match r {
        Re::Rep(x, mn, mx, _) => (is_dot(x) && (*mn > 65535 || mx.map_or(false, |m| m > 65535))) || has_huge_jump(x),
        Re::Cat(v) | Re::Alt(v) => v.iter().any(has_huge_jump), _ => false } }
    if has_huge_jump(r) { t.push("jump-bound-over-65535"); }
    // (e) FastVM, an alternation with an EMPTY alternative is skipped when no input is left on that side
    fn has_empty_alt(r: &Re) -> bool { match r {
        Re::Alt(v) => v.iter().any(|x| matches!(x, Re::Lit(l) if l.is_empty())) || v.iter().any(has_empty_alt),
        Re::Rep(x, ..) => has_empty_alt(x), Re::Cat(v) => v.iter().any(has_empty_alt), _ => false } }
    if has_empty_alt(r) { t.push("empty-alternative"); }
    fn any_unsound_class(r: &Re, nc: bool) -> bool {
        match r {
            Re::Cls(c @ Cls::Ranges(..)) => matches!(class_to_masked_byte(&cls_set(c, nc)), Some((_, _, false))),
            Re::Cls(_) | Re::Lit(_) | Re::Assert(_) => false,
            Re::Cat(v) | Re::Alt(v) => v.iter().any(|x| any_unsound_class(x, nc)),
            Re::Rep(x, ..) => any_unsound_class(x, nc),
        }
    }
    if any_unsound_class(r, nc) { t.push("class-to-masked-byte-unsound"); }
    fn nonliteral(r: &Re) -> bool {
        match r { Re::Cls(Cls::Byte(_)) | Re::Lit(_) | Re::Assert(_) => false, Re::Cls(_) => true,
                  Re::Alt(v) | Re::Cat(v) => v.iter().any(nonliteral), Re::Rep(x, ..) => nonliteral(x) }
    }
    // a counted repetition {n,m} of a group (not a single byte/class) that contains a non-literal
    fn counted_group(r: &Re) -> bool {
        match r {
            Re::Rep(x, _, Some(_), _) if matches!(**x, Re::Cat(_) | Re::Alt(_)) && nonliteral(x) => true,
            Re::Rep(x, ..) => counted_group(x),
            Re::Cat(v) | Re::Alt(v) => v.iter().any(counted_group),
            _ => false,
        }
    }
    if counted_group(r) { t.push("counted-repetition-of-group-with-wildcard"); }
    for w in items.windows(3) {
        if matches!(w[0], Re::Rep(x, ..) if is_dot(x)) && !matches!(w[1], Re::Rep(..)) && nonliteral(w[1])
            && matches!(w[2], Re::Rep(x, mn, mx, _) if is_dot(x) && *mx != Some(*mn)) { t.push("jump-nonliteral-variable-jump"); break; }
    }
    t
}

// ------------------------------------------------------------------ generators: patterns
// letters, digits, punctuation and control bytes; in particular pairs that differ only in bit 5
// without being case variants ([ {  ] }  @ `  \ |  ^ ~  0x10 0x30  0x1f ?) and in bit 7
const TEXT_BYTES: &[u8] = b"abABxyz019 _-.\x00\xff\x7f\nq[{]}@`\\|^~\x10\x1f?!\x01=\xe1\xc1";
fn gen_byte(rng: &mut Rng) -> u8 {
    if rng.chance(1, 12) { rng.below(256) as u8 } else { *rng.pick(TEXT_BYTES) }
}
fn gen_alnum_heavy(rng: &mut Rng) -> u8 { if rng.chance(1, 6) { *rng.pick(b"[{]}@`^~_\x10") } else { *rng.pick(b"abAB01xyzq") } }

fn gen_alphabet(rng: &mut Rng) -> Vec<u8> {
    // a permutation of the standard alphabet, sometimes with other punctuation
    let mut a = STD_ALPHABET.to_vec();
    if rng.chance(1, 2) { a[62] = b'-'; a[63] = b'_'; }
    for i in (1..a.len()).rev() { let j = rng.below(i as u64 + 1) as usize; a.swap(i, j); }
    a
}

pub fn gen_text(rng: &mut Rng) -> Pat {
    let mut m = TMods::default();
    // pick the modifier family first, so that every accepted combination is reached
    let family = rng.below(10);
    match family {
        0..=3 => { m.nocase = rng.chance(1, 2); m.fullword = rng.chance(1, 2); }
        4..=6 => {
            let (lo, hi) = match rng.below(4) { 0 => (0, 255), 1 => { let a = rng.below(256) as u8; (a, a) }
                2 => (1, 255), _ => { let a = rng.below(200) as u8; (a, a + rng.below(56) as u8) } };
            m.xor = Some((lo, hi)); m.xor_explicit = !(lo == 0 && hi == 255) || rng.chance(1, 2);
            m.fullword = rng.chance(1, 2);
        }
        _ => {
            let alpha = |rng: &mut Rng| if rng.chance(1, 3) { Some(gen_alphabet(rng)) } else { None };
            match rng.below(3) { 0 => m.b64 = Some(alpha(rng)), 1 => m.b64wide = Some(alpha(rng)),
                _ => { m.b64 = Some(alpha(rng)); m.b64wide = Some(alpha(rng)); } }
        }
    }
    match rng.below(4) { 0 => {} 1 => m.ascii = true, 2 => m.wide = true, _ => { m.ascii = true; m.wide = true; } }
    let min = if m.b64.is_some() || m.b64wide.is_some() { 3 } else { 1 };
    // short literals (the atom covers them: exact-atom path) and literals longer than the 4-byte atom
    let span = if rng.chance(1, 2) { 10 } else { 4 };
    let len = min + rng.below(span) as usize;
    let alnum = m.fullword || rng.chance(1, 2);
    let text: Vec<u8> = (0..len).map(|_| if alnum { gen_alnum_heavy(rng) } else { gen_byte(rng) }).collect();
    Pat::Text(text, m)
}

fn gen_hex_cls(rng: &mut Rng) -> Cls {
    match rng.below(10) {
        0..=4 => Cls::Byte(gen_byte(rng)),
        5 => { let v = gen_byte(rng); Cls::Mask(v & 0xF0, 0xF0) }
        6 => { let v = gen_byte(rng); Cls::Mask(v & 0x0F, 0x0F) }
        7 => Cls::Any,
        8 => Cls::NotMask(gen_byte(rng), 0xFF),
        _ => { let v = gen_byte(rng); if rng.chance(1, 2) { Cls::NotMask(v & 0xF0, 0xF0) } else { Cls::NotMask(v & 0x0F, 0x0F) } }
    }
}
fn gen_jump(rng: &mut Rng, allow_big: bool) -> Re {
    let (mn, mx) = if allow_big && rng.chance(1, 3) {
        // around the chaining threshold (200): max - min in {199,200,201,..}, and unbounded
        match rng.below(6) {
            0 => (0, Some(200)), 1 => (0, Some(201)), 2 => { let a = rng.below(4) as usize; (a, Some(a + 199 + rng.below(4) as usize)) }
            3 => (rng.below(3) as usize, None), 4 => (0, Some(250)), _ => { let a = 195 + rng.below(10) as usize; (a, Some(a + rng.below(3) as usize)) }
        }
    } else {
        match rng.below(4) { 0 => { let a = 1 + rng.below(4) as usize; (a, Some(a)) } 1 => (0, Some(1 + rng.below(5) as usize)),
            2 => { let a = rng.below(3) as usize; (a, Some(a + 1 + rng.below(4) as usize)) } _ => (rng.below(3) as usize, Some(8)) }
    };
    Re::Rep(Box::new(Re::Cls(Cls::Any)), mn, mx, false)
}
fn gen_hex_seq(rng: &mut Rng, depth: usize, n: usize, top: bool) -> Re {
    let mut v: Vec<Re> = vec![];
    for i in 0..n {
        let last = i + 1 == n;
        let can_jump = i > 0 && !last && !matches!(v.last(), Some(Re::Rep(..)));
        let k = rng.below(12);
        if can_jump && k < 2 { v.push(gen_jump(rng, top)); }
        else if depth > 0 && k == 2 {
            let na = 2 + rng.below(2) as usize;
            v.push(Re::Alt((0..na).map(|_| { let l = 1 + rng.below(3) as usize; gen_hex_seq(rng, depth - 1, l, false) }).collect()));
        } else {
            let c = gen_hex_cls(rng);
            // the first and last token of a hex pattern must not be ?? in some grammars: keep them concrete mostly
            if (i == 0 || last) && top && matches!(c, Cls::Any) { v.push(Re::Cls(Cls::Byte(gen_byte(rng)))); } else { v.push(Re::Cls(c)); }
        }
    }
    if v.len() == 1 { v.pop().unwrap() } else { Re::Cat(v) }
}
pub fn gen_hex(rng: &mut Rng) -> Pat {
    let n = 2 + rng.below(6) as usize;
    let mut r = gen_hex_seq(rng, 2, n, true);
    // with a jump over the chaining threshold the first token is kept selective (a byte or a
    // nibble mask): otherwise nearly every offset of a 300-byte buffer starts a candidate and
    // the reference matcher's cost explodes
    if shape(&Pat::Hex(r.clone())).contains("biggap") {
        if let Re::Cat(v) = &mut r {
            if !matches!(v[0], Re::Cls(Cls::Byte(_)) | Re::Cls(Cls::Mask(_, 0xF0))) { v[0] = Re::Cls(Cls::Byte(gen_byte(rng))); }
        }
    }
    Pat::Hex(r)
}

fn gen_re_cls(rng: &mut Rng, dotall: bool) -> Cls {
    match rng.below(12) {
        0..=4 => Cls::Byte(gen_byte(rng)),
        5 => if dotall { Cls::Any } else { Cls::Ranges(true, vec![(10, 10)]) },
        6 => Cls::Ranges(rng.chance(1, 4), vec![(b'0', b'9')]),
        7 => Cls::Ranges(rng.chance(1, 4), word_ranges()),
        8 => Cls::Ranges(rng.chance(1, 4), space_ranges()),
        _ => {
            let n = 1 + rng.below(3) as usize;
            let rs = (0..n).map(|_| { let a = gen_byte(rng); let b = a.saturating_add(rng.below(4) as u8); (a, b) }).collect();
            Cls::Ranges(rng.chance(1, 3), rs)
        }
    }
}
fn gen_re_atom(rng: &mut Rng, depth: usize, dotall: bool, greedy: bool, in_rep: bool) -> Re {
    if depth > 0 && rng.chance(1, 5) {
        let na = 2 + rng.below(2) as usize;
        return Re::Alt((0..na).map(|_| { let l = 1 + rng.below(3) as usize; gen_re_seq(rng, depth - 1, l, dotall, greedy, false, false, in_rep) }).collect());
    }
    if rng.chance(1, 3) { let l = 1 + rng.below(3) as usize; return Re::Lit((0..l).map(|_| gen_byte(rng)).collect()); }
    Re::Cls(gen_re_cls(rng, dotall))
}
/// `in_rep`: we are inside the body of a repetition; no unbounded repetition there (the reference
/// matcher's cost is the product of the nested iteration counts; see the report: known weakness)
fn gen_re_seq(rng: &mut Rng, depth: usize, n: usize, dotall: bool, greedy: bool, top: bool, asserts: bool, in_rep: bool) -> Re {
    let mut v = vec![];
    if top && asserts && rng.chance(1, 6) { v.push(Re::Assert(match rng.below(5) { 0 | 1 => Asrt::Start, 2 | 3 => Asrt::WordB, _ => Asrt::WordStart })); }
    for i in 0..n {
        let quantified = (i > 0 || !top) && rng.chance(1, 3);
        let a = gen_re_atom(rng, depth, dotall, greedy, in_rep || quantified);
        // the first item of the regexp is kept mandatory and not an arbitrary-data repetition
        if quantified {
            let (mn, mx) = match rng.below(8) { 0 => (0, None), 1 => (1, None), 2 => (0, Some(1)), 3 => (rng.below(3) as usize, Some(3 + rng.below(3) as usize)),
                4 => (2, None), 5 => (0, Some(2)), 6 => { let k = 1 + rng.below(3) as usize; (k, Some(k)) } _ => (1, Some(2)) };
            let mx = if in_rep && mx.is_none() { Some(mn + 2) } else { mx };
            v.push(Re::Rep(Box::new(a), mn, mx, greedy));
        } else { v.push(a); }
        if asserts && i + 1 < n && rng.chance(1, 10) { v.push(Re::Assert(match rng.below(6) { 0 | 1 => Asrt::WordB, 2 | 3 => Asrt::NotWordB, 4 => Asrt::WordStart, _ => Asrt::WordEnd })); }
    }
    if top && asserts && rng.chance(1, 6) { v.push(Re::Assert(match rng.below(4) { 0 => Asrt::End, 1 => Asrt::WordB, 2 => Asrt::NotWordB, _ => Asrt::WordEnd })); }
    if v.len() == 1 { v.pop().unwrap() } else { Re::Cat(v) }
}
pub fn gen_regexp(rng: &mut Rng) -> Pat {
    let mut m = RMods::default();
    m.dotall = rng.chance(1, 3);
    match rng.below(6) { 0 => m.nocase = true, 1 => m.slash_i = true, _ => {} }
    match rng.below(6) { 0 => m.wide = true, 1 => { m.wide = true; m.ascii = true; } 2 => m.ascii = true, _ => {} }
    m.fullword = rng.chance(1, 5);
    let greedy = rng.chance(1, 2);
    // assertions also in `wide` regexps: the neighbours are the characters (Sem.v nb_prev / nb_next)
    let asserts = true;
    let n = 1 + rng.below(4) as usize;
    let mut r = gen_re_seq(rng, 2, n, m.dotall, greedy, true, asserts, false);
    // a mandatory literal somewhere so that the regexp cannot match the empty string
    if rng.chance(1, 2) || min_len(&r) == 0 {
        let l = 1 + rng.below(3) as usize;
        let lit = Re::Lit((0..l).map(|_| gen_alnum_heavy(rng)).collect());
        r = match r { Re::Cat(mut v) => { let pos = rng.below(v.len() as u64 + 1) as usize;
                                          let pos = if matches!(v.first(), Some(Re::Assert(_))) && pos == 0 { 1 } else { pos };
                                          let pos = if matches!(v.last(), Some(Re::Assert(_))) && pos == v.len() { v.len() - 1 } else { pos };
                                          v.insert(pos.min(v.len()), lit); Re::Cat(v) }
                      x => if rng.chance(1, 2) { Re::Cat(vec![lit, x]) } else { Re::Cat(vec![x, lit]) } };
    }
    // sometimes the regexp ends with a repetition of `.` (the buffer generator puts instances at the very end)
    if !m.fullword && rng.chance(1, 8) {
        let dot = if m.dotall { Cls::Any } else { Cls::Ranges(true, vec![(10, 10)]) };
        let (mn, mx) = match rng.below(5) { 0 => (0, None), 1 => (1, None), 2 => (1, Some(3)), 3 => (2, Some(4)), _ => (0, Some(2)) };
        let tail = Re::Rep(Box::new(Re::Cls(dot)), mn, mx, greedy);
        r = match r { Re::Cat(mut v) => { if matches!(v.last(), Some(Re::Assert(_))) { v.pop(); } v.push(tail); Re::Cat(v) } x => Re::Cat(vec![x, tail]) };
    }
    Pat::Regexp(r, m)
}
fn min_len(r: &Re) -> usize {
    match r {
        Re::Lit(s) => s.len(), Re::Cls(_) => 1, Re::Assert(_) => 0,
        Re::Cat(v) => v.iter().map(min_len).sum(),
        Re::Alt(v) => v.iter().map(min_len).min().unwrap_or(0),
        Re::Rep(x, mn, _, _) => mn * min_len(x),
    }
}

// ------------------------------------------------------------------ instances
fn flip_case(b: u8) -> u8 { if b.is_ascii_uppercase() { b + 32 } else if b.is_ascii_lowercase() { b - 32 } else { b } }
fn cls_has(c: &Cls, nc: bool, b: u8) -> bool {
    let raw = |b: u8| match c {
        Cls::Byte(x) => b == *x, Cls::Mask(v, m) => b & m == *v, Cls::NotMask(v, m) => b & m != *v, Cls::Any => true,
        Cls::Ranges(_, rs) => rs.iter().any(|(lo, hi)| *lo <= b && b <= *hi),
    };
    match c {
        Cls::Ranges(neg, _) => *neg != (raw(b) || (nc && raw(flip_case(b)))),
        Cls::Byte(_) => raw(b) || (nc && raw(flip_case(b))),
        _ => raw(b),
    }
}
fn cls_pick(c: &Cls, nc: bool, rng: &mut Rng) -> Option<u8> {
    for _ in 0..40 {
        let b = match c { Cls::Byte(x) => if nc && rng.chance(1, 2) { flip_case(*x) } else { *x },
                          Cls::Ranges(false, rs) => { let (lo, hi) = *rng.pick(rs); lo + rng.below((hi - lo) as u64 + 1) as u8 }
                          _ => gen_byte(rng) };
        if cls_has(c, nc, b) { return Some(b); }
    }
    (0..=255u8).find(|b| cls_has(c, nc, *b))
}
/// a random string matched by r (assertions ignored); `big`: take large counts for large jumps
fn instance(r: &Re, nc: bool, rng: &mut Rng, out: &mut Vec<u8>) {
    match r {
        Re::Lit(s) => for &b in s { out.push(if nc && rng.chance(1, 2) { flip_case(b) } else { b }); },
        Re::Cls(c) => if let Some(b) = cls_pick(c, nc, rng) { out.push(b) },
        Re::Cat(v) => for x in v { instance(x, nc, rng, out) },
        Re::Alt(v) => instance(rng.pick(v), nc, rng, out),
        Re::Rep(x, mn, mx, _) => {
            let hi = mx.unwrap_or(mn + 4);
            let k = if hi - mn > 8 {
                // a large jump: both ends of the range and a few bytes in
                match rng.below(4) { 0 => *mn, 1 => hi.min(mn + 260), 2 => mn + rng.below(6) as usize, _ => hi.min(mn + 200 + rng.below(3) as usize) }
            } else { mn + rng.below((hi - mn) as u64 + 1) as usize };
            for _ in 0..k { instance(x, nc, rng, out) }
        }
        Re::Assert(_) => {}
    }
}
fn widen(s: &[u8]) -> Vec<u8> { s.iter().flat_map(|b| [*b, 0]).collect() }
fn b64_encode(alpha: &[u8], s: &[u8], pad: bool) -> Vec<u8> {
    let mut out = vec![];
    for ch in s.chunks(3) {
        let b = [ch[0], *ch.get(1).unwrap_or(&0), *ch.get(2).unwrap_or(&0)];
        let idx = [b[0] >> 2, ((b[0] & 3) << 4) | (b[1] >> 4), ((b[1] & 15) << 2) | (b[2] >> 6), b[2] & 63];
        let n = ch.len() + 1;
        for i in 0..n { out.push(alpha[idx[i] as usize]); }
        if pad { for _ in n..4 { out.push(b'='); } }
    }
    out
}
/// one instance of a pattern as it may appear in data
fn pat_instance(p: &Pat, rng: &mut Rng) -> Vec<u8> {
    match p {
        Pat::Text(t, m) => {
            let wide = if m.wide && m.ascii { rng.chance(1, 2) } else { m.wide };
            let mut v: Vec<u8> = t.iter().map(|b| if m.nocase && rng.chance(1, 2) { flip_case(*b) } else { *b }).collect();
            if wide { v = widen(&v); }
            if m.b64.is_some() || m.b64wide.is_some() {
                let use_wide_enc = match (&m.b64, &m.b64wide) { (Some(_), Some(_)) => rng.chance(1, 2), (None, Some(_)) => true, _ => false };
                let alpha = if use_wide_enc { m.b64wide.clone().unwrap() } else { m.b64.clone().unwrap() }.unwrap_or(STD_ALPHABET.to_vec());
                let p = rng.below(3) as usize;
                let ylen = rng.below(4) as usize;
                let mut s: Vec<u8> = (0..p).map(|_| gen_byte(rng)).collect();
                s.extend_from_slice(&v);
                for _ in 0..ylen { s.push(gen_byte(rng)); }
                // sometimes a whole extra quantum in front
                if rng.chance(1, 4) { let mut q: Vec<u8> = (0..3).map(|_| gen_byte(rng)).collect(); q.extend_from_slice(&s); s = q; }
                let e = b64_encode(&alpha, &s, rng.chance(1, 2));
                return if use_wide_enc { widen(&e) } else { e };
            }
            if let Some((lo, hi)) = m.xor { let k = lo + rng.below((hi - lo) as u64 + 1) as u8; for b in v.iter_mut() { *b ^= k; } }
            v
        }
        Pat::Hex(r) => { let mut o = vec![]; instance(r, false, rng, &mut o); o }
        Pat::Regexp(r, m) => {
            let mut o = vec![]; instance(r, m.nocase || m.slash_i, rng, &mut o);
            let wide = if m.wide && m.ascii { rng.chance(1, 2) } else { m.wide };
            if wide { widen(&o) } else { o }
        }
    }
}
fn near_miss(inst: &[u8], p: &Pat, rng: &mut Rng) -> Vec<u8> {
    let mut v = inst.to_vec();
    if v.is_empty() { return v; }
    match rng.below(7) {
        0 => { let i = rng.below(v.len() as u64) as usize; let r = rng.below(8); v[i] ^= 1 << *rng.pick(&[5u64, 5, 7, r]); }   // one bit off (the case bit and the top bit more often)
        1 => { let i = rng.below(v.len() as u64) as usize; v[i] = flip_case(v[i]); }             // case flipped
        2 => { v.pop(); }                                                                         // truncated
        3 => { let k = 1 + rng.below(255) as u8; for b in v.iter_mut() { *b ^= k; } }              // xor'ed
        4 => { // wide/ascii mixed: widen a part or drop one interleaved zero
            if let Some(i) = v.iter().position(|b| *b == 0) { v.remove(i); } else { let i = rng.below(v.len() as u64) as usize; v.insert(i + 1, 0); } }
        5 => { let i = rng.below(v.len() as u64) as usize; v[i] = v[i].wrapping_add(1); }
        _ => { let i = rng.below(v.len() as u64) as usize; v.remove(i); }
    }
    let _ = p;
    v
}
const SEPS: &[u8] = b" a0_\x00\n-Z\xff.";
pub fn gen_buffer(p: &Pat, rng: &mut Rng, limit: usize) -> Vec<u8> {
    let mut buf: Vec<u8> = vec![];
    let xor_key = |rng: &mut Rng| match p { Pat::Text(_, m) => m.xor.map(|(lo, hi)| lo + rng.below((hi - lo) as u64 + 1) as u8), _ => None };
    let sep = |rng: &mut Rng, buf: &mut Vec<u8>| {
        let n = rng.below(3);
        let k = xor_key(rng).unwrap_or(0);
        for _ in 0..n {
            if rng.chance(1, 5) { buf.push(*rng.pick(b"ab01") ^ k); buf.push(k); }   // a wide alphanumeric neighbour
            else { buf.push(*rng.pick(SEPS) ^ if rng.chance(1, 2) { k } else { 0 }); }
        }
    };
    if !rng.chance(1, 3) { sep(rng, &mut buf); }
    let pieces = 1 + rng.below(5);
    for _ in 0..pieces {
        if buf.len() >= limit { break; }
        let inst = pat_instance(p, rng);
        match rng.below(10) {
            0..=4 => buf.extend_from_slice(&inst),
            5..=6 => buf.extend_from_slice(&near_miss(&inst, p, rng)),
            7 => { // overlap: the instance followed by its own tail
                buf.extend_from_slice(&inst);
                if inst.len() > 1 { let k = 1 + rng.below(inst.len() as u64 - 1) as usize; buf.extend_from_slice(&inst[k..]); }
            }
            8 => { buf.extend_from_slice(&inst); buf.extend_from_slice(&inst); }
            _ => { let n = rng.below(6); for _ in 0..n { buf.push(gen_byte(rng)); } }
        }
        sep(rng, &mut buf);
    }
    // an occurrence ending exactly at the last byte / cut one byte short
    match rng.below(4) {
        0 => { let inst = pat_instance(p, rng); buf.extend_from_slice(&inst); }
        1 => { let mut inst = pat_instance(p, rng); inst.pop(); buf.extend_from_slice(&inst); }
        _ => {}
    }
    if buf.len() > limit.max(8) {
        // keep the tail too: cut from the middle
        let cut = buf.len() - limit; let at = rng.below((buf.len() - cut) as u64 + 1) as usize;
        buf.drain(at..at + cut);
    }
    buf
}

// ------------------------------------------------------------------ scanning
pub type Dump = (Vec<yara_x::verif_c01dump::SubPatternDump>, Vec<yara_x::verif_c01dump::AtomDump>, Vec<usize>);
#[derive(Clone, Debug)]
pub struct ScanOut { pub matches: Vec<(usize, usize, Option<u8>)>, pub panic: Option<String>, pub dump: Option<Dump>,
                     /// kernel, atom hits and verified sub-pattern matches in the order the scan loop produced them
                     pub trace: Option<yara_x::verif_c01dump::ScanTrace>,
                     /// Match::data() returned exactly buffer[range] for every match (None: fine; Some(msg): what went wrong)
                     pub bytes_wrong: Option<String> }

// conditions whose value depends on the pattern's occurrences (so the search cannot be skipped) and
// that hold for every buffer (so that the rule's patterns are reported with the matching rule)
const CONDS: &[&str] = &["#a >= 0", "for all i in (1..#a) : (@a[i] >= 0)", "#a >= 0 and for all i in (1..#a) : (!a[i] >= 0)", "#a == 0 or $a"];

/// `noise`: number of extra distinct 6-byte literals in a second rule.  The number of atoms in the
/// rule set selects the search kernel: Teddy slim (<= 32 atoms), Teddy fat (33..64), Aho-Corasick (> 64).
pub fn rule_source(p: &Pat, cond: usize, noise: usize) -> String {
    let mut s = format!("rule r {{\n  strings:\n    $a = {}\n  condition:\n    {}\n}}\n", yara_pat(p), CONDS[cond % CONDS.len()]);
    if noise > 0 {
        s.push_str("rule noise {\n  strings:\n");
        for i in 0..noise { let _ = write!(s, "    $n{} = \"N{:02}Zq{}\"\n", i, i, (b'a' + (i % 26) as u8) as char); }
        s.push_str("  condition:\n    any of them\n}\n");
    }
    s
}

/// compile `src`, then scan every buffer of `datas` in turn with ONE scanner; for every buffer the
/// matches of the patterns `idents` of rule r
pub fn scan_multi(src: &str, datas: &[&[u8]], idents: &[&str], max_matches: Option<usize>) -> Result<Vec<Vec<ScanOut>>, String> {
    let rules = { let mut c = yara_x::Compiler::new(); c.add_source(src).map_err(|e| e.to_string())?; c.build() };
    let dump = Some(rules.verif_c01_dump());
    let mut sc = yara_x::Scanner::new(&rules);
    if let Some(n) = max_matches { sc.max_matches_per_pattern(n); }
    let mut all = vec![];
    for data in datas {
        yara_x::verif_c01dump::verif_c01_trace_start();
        let r = catch(AssertUnwindSafe(|| {
            let res = sc.scan(data).map_err(|e| e.to_string())?;
            let rule = match res.matching_rules().chain(res.non_matching_rules()).find(|r| r.identifier() == "r") {
                Some(r) => r, None => return Err("rule r not found in the results".to_string()) };
            let mut per = vec![];
            for ident in idents {
                let mut out = vec![];
                let mut bytes_wrong: Option<String> = None;
                for pat in rule.patterns() {
                    if pat.identifier() == *ident {
                        for m in pat.matches() {
                            let r = m.range(); out.push((r.start, r.end - r.start, m.xor_key()));
                            match catch(AssertUnwindSafe(|| m.data().to_vec())) {
                                Ok(b) => if data.get(r.clone()) != Some(&b[..]) && bytes_wrong.is_none() { bytes_wrong = Some(format!("Match::data() for {:?} is not the buffer slice", r)); },
                                Err(e) => if bytes_wrong.is_none() { bytes_wrong = Some(format!("Match::data() for {:?} panicked: {}", r, e)); },
                            }
                        }
                    }
                }
                per.push((out, bytes_wrong));
            }
            Ok(per)
        }));
        let trace = Some(yara_x::verif_c01dump::verif_c01_trace_take());
        match r {
            Ok(Ok(per)) => all.push(per.into_iter().map(|(m, bw)| ScanOut { matches: m, panic: None, bytes_wrong: bw, dump: dump.clone(), trace: trace.clone() }).collect()),
            Ok(Err(e)) => return Err(e),
            Err(p) => {
                all.push(idents.iter().map(|_| ScanOut { matches: vec![], panic: Some(p.clone()), bytes_wrong: None, dump: dump.clone(), trace: trace.clone() }).collect());
                // the scanner may be unusable after a panic
                sc = yara_x::Scanner::new(&rules);
                if let Some(n) = max_matches { sc.max_matches_per_pattern(n); }
            }
        }
    }
    Ok(all)
}

pub fn scan(src: &str, data: &[u8], max_matches: Option<usize>) -> Result<ScanOut, String> {
    Ok(scan_multi(src, &[data], &["$a"], max_matches)?.remove(0).remove(0))
}

// ------------------------------------------------------------------ stream (a): MatchList ops
fn coq_key(k: &Option<u8>) -> String { match k { Some(k) => format!("(Some {})", k), None => "None".into() } }

fn list_case(cap: usize, adds: &[(usize, usize, Option<u8>, bool)]) -> (String, String, usize) {
    let (rets, fin) = match catch(AssertUnwindSafe(|| hook::run_match_list(cap, adds))) {
        Ok(r) => r,
        Err(msg) => {
            // the shortest prefix of the sequence that still panics
            let k = (1..=adds.len()).find(|k| catch(AssertUnwindSafe(|| hook::run_match_list(cap, &adds[..*k]))).is_err()).unwrap_or(adds.len());
            let replay = format!("{{\"stream\":\"matchlist\",\"shape\":\"list:panic\",\"capacity\":{},\"adds\":{},\"panic\":{}}}",
                cap, json_str(&format!("{:?}", &adds[..k])), json_str(&msg));
            return (format!("MLPanicCase {}", coq_nat(k)), replay, 0);
        }
    };
    let case = format!("ListCase {} {} {}",
        coq_list(adds, |(s, e, k, r)| format!("({},{},{},{})", s, e, coq_key(k), coq_bool(*r))),
        coq_list(&rets, |b| coq_bool(*b).to_string()),
        coq_list(&fin, |(s, e, k)| format!("({},{},{})", s, e, coq_key(k))));
    let replay = format!("{{\"stream\":\"matchlist\",\"shape\":\"list\",\"capacity\":{},\"adds\":{},\"returned\":{},\"final\":{}}}",
        cap, json_str(&format!("{:?}", adds)), json_str(&format!("{:?}", rets)), json_str(&format!("{:?}", fin)));
    (case, replay, fin.len())
}

fn gen_ml_case(rng: &mut Rng, stats: &mut Stats) -> (String, String, String) {
    if rng.chance(1, 3) {
        // standalone MatchList
        let n = rng.below(14) as usize;
        let profile = rng.below(3);
        let mut cur = 0usize;
        let adds: Vec<(usize, usize, Option<u8>, bool)> = (0..n).map(|_| {
            let start = match profile { 0 => { cur += rng.below(3) as usize; cur } 1 => rng.below(6) as usize, _ => if rng.chance(1, 4) { rng.below(10) as usize } else { cur += rng.below(2) as usize; cur } };
            (start, start + rng.below(6) as usize, if rng.chance(1, 4) { Some(rng.below(256) as u8) } else { None }, rng.chance(1, 2))
        }).collect();
        let cap = rng.below(6) as usize;
        stats.inc("ml_list_cases");
        let (case, replay, fin_len) = list_case(cap, &adds);
        if fin_len < adds.len() { stats.inc("ml_list_with_same_start"); }
        return (case, replay, format!("list:{:?}", adds));
    }
    let n = 1 + rng.below(24) as usize;
    let big = rng.chance(1, 40);
    let npids = if big { 5 } else { 1 + rng.below(3) as usize };
    let mut pre = vec![];
    if rng.chance(1, 2) { pre.push(hook::Op::SetMax(if big { 1500 + rng.below(3) as usize } else { rng.below(5) as usize })); }
    let mut cur = vec![0usize; npids];
    for _ in 0..n {
        let pid = rng.below(npids as u64) as usize;
        match rng.below(12) {
            0 => pre.push(hook::Op::InRange { pid, lo: rng.range(-3, 12) as isize, hi: rng.range(-3, 14) as isize }),
            1 => pre.push(hook::Op::Search { pid, offset: rng.below(12) as usize }),
            2 if rng.chance(1, 3) => pre.push(hook::Op::Clear),
            3 if rng.chance(1, 4) && !big => pre.push(hook::Op::SetMax(rng.below(6) as usize)),
            _ => {
                let start = if rng.chance(1, 3) { rng.below(10) as usize } else { cur[pid] += rng.below(3) as usize; cur[pid] };
                pre.push(hook::Op::Add { pid, start, end: start + rng.below(6) as usize,
                    key: if rng.chance(1, 5) { Some(rng.below(256) as u8) } else { None }, replace: rng.chance(1, 2) });
            }
        }
    }
    // big: cross (or just not cross) the capacity threshold of clear() with k lists of run_len
    // ascending matches (Vec capacities 1024/2048 each), then clear, then look again
    let (k, run_len) = if big { (4 + rng.below(2) as usize, 1020 + rng.below(8) as usize) } else { (0, 0) };
    let mut ops = pre.clone();
    for pid in 0..k { for i in 0..run_len { ops.push(hook::Op::Add { pid, start: 100 + i, end: 101 + i, key: None, replace: false }); } }
    let post = if big { vec![hook::Op::InRange { pid: 1, lo: 90, hi: 110 }, hook::Op::Clear, hook::Op::Search { pid: 0, offset: 3 },
                             hook::Op::Add { pid: 0, start: 5, end: 6, key: None, replace: false }, hook::Op::InRange { pid: 0, lo: 0, hi: 9 }] } else { vec![] };
    ops.extend(post.iter().cloned());
    if big { stats.inc("ml_pm_big_capacity"); }
    let (res, dump) = match catch(AssertUnwindSafe(|| hook::run_pattern_matches(&ops, npids))) {
        Ok(r) => r,
        Err(msg) => {
            // the shortest prefix of the sequence that still panics; its last operation is the culprit
            let kp = if ops.len() > 200 { ops.len() } else {
                (1..=ops.len()).find(|kp| catch(AssertUnwindSafe(|| hook::run_pattern_matches(&ops[..*kp], npids))).is_err()).unwrap_or(ops.len()) };
            stats.inc("ml_pm_panicked");
            let shown: Vec<_> = if kp <= 200 { ops[..kp].iter().collect() } else { pre.iter().collect() };
            let replay = format!("{{\"stream\":\"matchlist\",\"shape\":\"pattern_matches:panic\",\"ops\":{},\"big_run\":[{},{}],\"panicked_at_op\":{},\"panic\":{}}}",
                json_str(&format!("{:?}", shown)), k, run_len,
                json_str(&format!("{:?}", ops.get(kp.saturating_sub(1)))), json_str(&msg));
            return (format!("MLPanicCase {}", coq_nat(kp)), replay, format!("pm-panic:{:?}", shown));
        }
    };
    stats.inc("ml_pm_cases");
    if res.iter().any(|r| matches!(r, hook::OpResult::MaxMatchesReached)) { stats.inc("ml_pm_limit_reached"); }
    if res.iter().any(|r| matches!(r, hook::OpResult::Updated)) { stats.inc("ml_pm_same_start"); }
    if big && dump.is_empty() { stats.inc("ml_pm_clear_dropped_map"); }
    let coq_op = |o: &hook::Op| match o {
        hook::Op::Add { pid, start, end, key, replace } => format!("OAdd {} {} {} {} {}", pid, start, end, coq_key(key), coq_bool(*replace)),
        hook::Op::Clear => "OClear".into(),
        hook::Op::SetMax(n) => format!("OSetMax {}", n),
        hook::Op::InRange { pid, lo, hi } => format!("OInRange {} {} {}", pid, coq_z(*lo as i128), coq_z(*hi as i128)),
        hook::Op::Search { pid, offset } => format!("OSearch {} {}", pid, offset),
    };
    let coq_res = |r: &hook::OpResult| match r {
        hook::OpResult::Inserted(n) => format!("RInserted {}", n), hook::OpResult::Updated => "RUpdated".into(),
        hook::OpResult::MaxMatchesReached => "RMax".into(), hook::OpResult::Done => "RDone".into(), hook::OpResult::Absent => "RAbsent".into(),
        hook::OpResult::InRange(n) => format!("RInRange {}", coq_z(*n as i128)), hook::OpResult::Search(b, i) => format!("RSearch {} {}", coq_bool(*b), coq_nat(*i)),
    };
    let coq_dump = coq_list(&dump, |(pid, l, cap)| format!("({},{},{})", pid, coq_list(l, |(s, e, k)| format!("({},{},{})", s, e, coq_key(k))), cap));
    let case = if big {
        format!("PMBigCase {} {} {} {} {} {} {} {}", coq_nat(npids),
            coq_list(&pre, coq_op), coq_list(&res[..pre.len()], coq_res), coq_nat(k), coq_nat(run_len),
            coq_list(&post, coq_op), coq_list(&res[res.len() - post.len()..], coq_res), coq_dump)
    } else {
        format!("PMCase {} {} {} {}", coq_nat(npids), coq_list(&ops, coq_op), coq_list(&res, coq_res), coq_dump)
    };
    let shown: Vec<_> = pre.iter().take(40).collect();
    let replay = format!("{{\"stream\":\"matchlist\",\"shape\":\"pattern_matches{}\",\"ops\":{},\"big_run\":[{},{}],\"results\":{},\"final\":{}}}",
        if big { ":big" } else { "" }, json_str(&format!("{:?}", shown)), k, run_len,
        json_str(&format!("{:?}", res.iter().take(pre.len().min(40)).collect::<Vec<_>>())), json_str(&format!("{:?}", dump.iter().map(|(p, l, c)| (p, l.len(), c)).collect::<Vec<_>>())));
    (case, replay, format!("pm:{:?}", shown))
}

/// (kind, Wide flag) of every sub-pattern the compiler made of pattern number `pattern` of the rule set
fn coq_subs(out: &ScanOut, pattern: usize) -> String {
    let bits: std::collections::HashMap<&str, u16> = yara_x::verif_c01dump::verif_c01_flag_bits().into_iter().collect();
    match &out.dump {
        None => "[]".into(),
        Some((sps, _, _)) => {
            let v: Vec<String> = sps.iter().filter(|sp| sp.pattern_id == pattern).map(|sp| {
                let k = match sp.kind { "Literal" => 0, "LiteralWithMask" => 1, "LiteralChainHead" => 2, "LiteralChainTail" => 3, "Regexp" => 4,
                    "RegexpChainHead" => 5, "RegexpChainTail" => 6, "Xor" => 7, "Base64" | "Base64Wide" | "CustomBase64" | "CustomBase64Wide" => 8, _ => 9 };
                format!("({},{})", coq_nat(k), coq_bool(sp.flags & bits["Wide"] != 0)) }).collect();
            format!("[{}]", v.join("; "))
        }
    }
}

// ------------------------------------------------------------------ stream (b)
fn scan_case(p: &Pat, data: &[u8], cond: usize, noise: usize, max_matches: Option<usize>, idx: usize) -> Result<(String, String, ScanOut), String> {
    let src = rule_source(p, cond, noise);
    let out = scan(&src, data, max_matches)?;
    let case = format!("ScanCase {} {} {} {} {} {}", coq_pat(p), coq_subs(&out, 0), coq_list(data, |b| b.to_string()),
        match max_matches { Some(n) => format!("(Some {})", n), None => "None".into() },
        coq_bool(out.panic.is_some() || out.bytes_wrong.is_some()),
        coq_list(&out.matches, |(s, l, k)| format!("({},{},{})", s, l, coq_key(k))));
    let replay = format!("{{\"stream\":\"scan\",\"index\":{},\"shape\":{},\"tags\":{},\"data_len\":{},\"source\":{},\"data_hex\":\"{}\",\"max_matches_per_pattern\":{},\"reported\":{},\"panic\":{}}}",
        idx, json_str(&shape(p)), serde_json::to_string(&tags(p)).unwrap(), data.len(), json_str(&src), hex(data),
        match max_matches { Some(n) => n.to_string(), None => "null".into() },
        json_str(&format!("{:?}", out.matches)), match (&out.panic, &out.bytes_wrong) { (Some(m), _) => json_str(m), (None, Some(m)) => json_str(m), _ => "null".into() });
    Ok((case, replay, out))
}

fn corpus() -> Vec<(Pat, Vec<u8>, Option<usize>)> {
    let lit = |s: &[u8]| Re::Lit(s.to_vec());
    let any = || Re::Cls(Cls::Any);
    let rm = |f: &dyn Fn(&mut RMods)| { let mut m = RMods::default(); f(&mut m); m };
    let tm = |f: &dyn Fn(&mut TMods)| { let mut m = TMods::default(); f(&mut m); m };
    vec![
        // regression cases of repaired defects (known_findings.jsonl, kind=fixed).
        // masked literal extracted from a regexp, with fullword (verify_full_word was given the
        // pattern-length slice and absolute offsets): missed, wrongly reported, panic
        (Pat::Regexp(Re::Cat(vec![lit(b"ab"), any(), lit(b"de")]), rm(&|m| { m.dotall = true; m.fullword = true; })), b" abcde".to_vec(), None),
        (Pat::Regexp(Re::Cat(vec![lit(b"ab"), any(), lit(b"de")]), rm(&|m| { m.dotall = true; m.fullword = true; })), b"abcdez".to_vec(), None),
        (Pat::Regexp(Re::Cat(vec![lit(b"ab"), any(), lit(b"de")]), rm(&|m| { m.dotall = true; m.fullword = true; })), b"      abcde".to_vec(), None),
        (Pat::Regexp(Re::Cat(vec![lit(b"ab"), any(), lit(b"d")]), rm(&|m| { m.dotall = true; m.fullword = true; })), b"xx abcd abzd1 ab-d".to_vec(), None),
        // base64wide window cut one byte short at the end of the data
        (Pat::Text(b"foo".to_vec(), tm(&|m| m.b64wide = Some(None))), b"Z\0m\09\0v".to_vec(), None),
        (Pat::Text(b"foob".to_vec(), tm(&|m| m.b64 = Some(None))), b"\"Zm9vYg\", Zm9vYg== Zm9vYgAA".to_vec(), None),
        // the limit
        (Pat::Text(b"ab".to_vec(), TMods::default()), b"ab ab ab ab".to_vec(), Some(2)),
        (Pat::Text(b"ab".to_vec(), TMods::default()), b"ab ab ab ab".to_vec(), Some(0)),
        // greedy / lazy with several ends at one start
        (Pat::Regexp(Re::Cat(vec![lit(b"a"), Re::Rep(Box::new(Re::Cls(Cls::Byte(b'b'))), 1, None, true)]), RMods::default()), b"abbb abb".to_vec(), None),
        (Pat::Regexp(Re::Cat(vec![lit(b"a"), Re::Rep(Box::new(Re::Cls(Cls::Byte(b'b'))), 1, None, false)]), RMods::default()), b"abbb abb".to_vec(), None),
        // chain around the threshold
        (Pat::Hex(Re::Cat(vec![lit(&[0x41, 0x42]), Re::Rep(Box::new(any()), 0, Some(201), false), lit(&[0x43, 0x44])])), { let mut d = b"AB".to_vec(); d.extend(vec![b'.'; 201]); d.extend(b"CD AB CD"); d }, None),
        // a regexp that ends with a repetition of `.`: occurrences that end at the last byte of the buffer
        (Pat::Regexp(Re::Cat(vec![lit(b"abc"), Re::Rep(Box::new(Re::Cls(Cls::Ranges(true, vec![(10, 10)]))), 1, None, true)]), RMods::default()), b"abc1".to_vec(), None),
        (Pat::Regexp(Re::Cat(vec![lit(b"abc"), Re::Rep(Box::new(Re::Cls(Cls::Ranges(true, vec![(10, 10)]))), 0, None, true)]), RMods::default()), b"abc".to_vec(), None),
        (Pat::Regexp(Re::Cat(vec![lit(b"abc"), Re::Rep(Box::new(any()), 2, Some(4), true)]), rm(&|m| m.dotall = true)), b"xabc12".to_vec(), None),
        // ... and one over the chaining threshold: split_at_large_gaps drops the trailing gap
        (Pat::Regexp(Re::Cat(vec![lit(b"abc"), Re::Rep(Box::new(any()), 5, Some(300), true)]), rm(&|m| m.dotall = true)), b"abc12".to_vec(), None),
        // a class that class_to_masked_byte (re/hir.rs) mistakes for a masked byte: {00,01,02,40,5f,60,61,62}
        (Pat::Regexp(Re::Cat(vec![lit(b"c"), Re::Rep(Box::new(Re::Cls(Cls::Ranges(false, vec![(0x5f, 0x62), (0, 2), (0x40, 0x40)]))), 2, Some(2), true), lit(b"b\x85")]), RMods::default()),
         b"c@_b\x85 c`bb\x85 c \"b\x85".to_vec(), None),
        // a counted repetition of a group with a wildcard accepts one iteration too many
        (Pat::Regexp(Re::Rep(Box::new(Re::Cat(vec![any(), lit(b"b")])), 2, Some(3), true), rm(&|m| m.dotall = true)), b"abababababab".to_vec(), None),
        // one literal byte, a jump of 12, a masked byte, a variable jump: the occurrence is missed
        (Pat::Hex(Re::Cat(vec![lit(&[0x50]), Re::Rep(Box::new(any()), 12, Some(12), false), Re::Cls(Cls::Mask(0x70, 0xF0)), Re::Rep(Box::new(any()), 0, Some(50), false), lit(&[0x5F])])),
         b"Pxxxxxxxxxxxxzyy_".to_vec(), None),
        // remaining known finding: the piece before a bounded large gap has several possible ends, only
        // the shortest is kept and the gap is measured from it
        (Pat::Hex(Re::Cat(vec![lit(&[0x2E]), Re::Rep(Box::new(any()), 1, Some(2), false), lit(&[0x42]), Re::Rep(Box::new(any()), 0, Some(201), false), lit(&[0x0A, 0x7F])])),
         { let mut d = b".aBB".to_vec(); d.extend(vec![b'x'; 201]); d.extend(b"\n\x7f"); d }, None),
        // remaining known finding: a wide regexp split at a large gap accepts a gap that is not wide
        (Pat::Regexp(Re::Cat(vec![lit(b"ab"), Re::Rep(Box::new(any()), 0, None, true), lit(b"cd")]), rm(&|m| { m.dotall = true; m.wide = true; })), b"a\0b\0xc\0d\0".to_vec(), None),
        // ... nor a gap of the right number of wide characters: /_X.{5,209}_X/s wide with 3 wide characters between
        (Pat::Regexp(Re::Cat(vec![lit(b"_X"), Re::Rep(Box::new(any()), 5, Some(209), true), lit(b"_X")]), rm(&|m| { m.dotall = true; m.wide = true; })),
         b"_\0X\0.\0.\0.\0_\0X\0".to_vec(), None),
        // known finding: for a greedy regexp the LONGEST end of a chain piece is kept: /aba?a.*abX/s misses abaabX
        (Pat::Regexp(Re::Cat(vec![lit(b"ab"), Re::Rep(Box::new(lit(b"a")), 0, Some(1), true), lit(b"a"), Re::Rep(Box::new(any()), 0, None, true), lit(b"abX")]),
                     rm(&|m| { m.dotall = true; })), b"abaabX".to_vec(), None),
        // regression (repaired by b2a39c9f): base64wide dropped a '=' at an even offset anywhere in the window, not only
        // trailing padding; and the legitimate trailing padding next to it
        (Pat::Text(b"foob".to_vec(), tm(&|m| { m.b64wide = Some(None); })), widen(b"..Zm9v=YgA.."), None),
        (Pat::Text(b"foob".to_vec(), tm(&|m| { m.b64wide = Some(None); })), widen(b"..Zm9=vYgA..Zm9vYg=="), None),
        // known findings of round 5
        // (a) /foo.{3}bar/ : FastVM backward JumpExactNoNewline takes the bytes from the wrong end of its window
        (Pat::Regexp(Re::Cat(vec![lit(b"foo"), Re::Rep(Box::new(Re::Cls(Cls::Ranges(true, vec![(10, 10)]))), 3, Some(3), true), lit(b"bar")]), rm(&|_| {})), b"foo\n\n\nbar".to_vec(), None),
        (Pat::Regexp(Re::Cat(vec![lit(b"foo"), Re::Rep(Box::new(Re::Cls(Cls::Ranges(true, vec![(10, 10)]))), 3, Some(3), true), lit(b"bar")]), rm(&|_| {})), b"\n\n\nfooxyzbar".to_vec(), None),
        // (b) /\b{end}abcd/ : PikeVM WordEnd going backwards at the start of the data
        (Pat::Regexp(Re::Cat(vec![Re::Assert(Asrt::WordEnd), lit(b"abcd")]), rm(&|_| {})), b"abcd".to_vec(), None),
        // (c) jump bounds above 65535 are truncated to 16 bits by the FastVM compiler
        (Pat::Hex(Re::Cat(vec![lit(&[1]), Re::Rep(Box::new(any()), 0, Some(65537), false), lit(&[2, 3, 4, 5])])), b"\x01xxxxxxxxx\x02\x03\x04\x05".to_vec(), None),
        // ({ 01 [65537-65540] 02 03 04 05 } matching a gap of 1 is the same defect; its lower bound is too costly for the reference matcher)
        (Pat::Regexp(Re::Cat(vec![lit(b"a"), Re::Rep(Box::new(any()), 0, Some(65537), true), lit(b"bcde")]), rm(&|m| { m.dotall = true; })), b"a123bcde".to_vec(), None),
        // (e) an empty alternative at the edge of the data
        (Pat::Regexp(Re::Cat(vec![Re::Alt(vec![lit(b""), lit(b"3818")]), lit(b"aeb")]), rm(&|_| {})), b"aeb".to_vec(), None),
        (Pat::Regexp(Re::Cat(vec![lit(b"aeb"), Re::Alt(vec![lit(b""), lit(b"3818")])]), rm(&|_| {})), b"..aeb".to_vec(), None),
        // xor + fullword (differences.md)
        (Pat::Text(b"mississippi".to_vec(), tm(&|m| { m.xor = Some((1, 1)); m.xor_explicit = true; m.fullword = true; })), b"{lhrrhrrhqqh} !lhrrhrrhqqh!".to_vec(), None),
    ]
}

// ------------------------------------------------------------------ stream (c): directed shapes
/// (c1) `<4+ plain bytes> [n-m] <nibble-masked byte> <plain bytes>` and its mirror image: the atom is
/// the long literal, the jump runs forward (backward) into a piece that starts (ends) with a masked
/// byte; the buffer holds one instance for each of the 16 values of the free nibble.
fn directed_jump_mask(rng: &mut Rng, forward: bool) -> (Pat, Vec<u8>) {
    let plain = |rng: &mut Rng, n: usize| -> Vec<u8> { (0..n).map(|_| *rng.pick(b"ABCDEFGHKLMNPRSTUVWXYZ")).collect() };
    let nlong = 4 + rng.below(3) as usize;
    let long = plain(rng, nlong);
    let short: Vec<u8> = (0..1 + rng.below(3) as usize).map(|_| *rng.pick(b"abcdefgh")).collect();
    let (mn, mx) = *rng.pick(&[(1usize, 4usize), (0, 3), (2, 6), (1, 2), (0, 8)]);
    let high_free = rng.chance(1, 2);                       // ?5 (high nibble free) or 5? (low nibble free)
    let fixed = 1 + rng.below(14) as u8;
    let (val, mask) = if high_free { (fixed, 0x0Fu8) } else { (fixed << 4, 0xF0u8) };
    let jump = Re::Rep(Box::new(Re::Cls(Cls::Any)), mn, Some(mx), false);
    let masked = Re::Cls(Cls::Mask(val, mask));
    let re = if forward { Re::Cat(vec![Re::Lit(long.clone()), jump, masked, Re::Lit(short.clone())]) }
             else { Re::Cat(vec![Re::Lit(short.clone()), masked, jump, Re::Lit(long.clone())]) };
    let mut buf = vec![];
    let mut order: Vec<u8> = (0..16).collect();
    for i in (1..16).rev() { let j = rng.below(i as u64 + 1) as usize; order.swap(i, j); }
    for x in order {
        let b = if high_free { (x << 4) | val } else { val | x };
        let gap: Vec<u8> = (0..mn + rng.below((mx - mn) as u64 + 1) as usize).map(|_| *rng.pick(b"0123456789.-")).collect();
        if forward { buf.extend(&long); buf.extend(&gap); buf.push(b); buf.extend(&short); }
        else { buf.extend(&short); buf.push(b); buf.extend(&gap); buf.extend(&long); }
        if rng.chance(1, 2) { buf.push(b' '); }
    }
    (Pat::Hex(re), buf)
}

/// (c2) a literal of at least 4 bytes in a rule set of a chosen size, in a buffer of a chosen length
/// with the occurrence (hence its atom) at a chosen offset: every offset mod 16 around the block
/// boundaries of the SIMD kernels and in the last 19 bytes.
fn directed_teddy(rng: &mut Rng) -> (Pat, Vec<u8>, usize) {
    let len = 4 + rng.below(5) as usize;
    let text: Vec<u8> = (0..len).map(|_| *rng.pick(b"abcdefghijkmnpqrstuvwxyz0123456789")).collect();
    let noise = *rng.pick(&[0usize, 1, 3, 7, 19, 31, 32, 32, 39, 39, 47, 47, 62, 62, 63, 63, 64, 70, 90]);
    let l = 16 + rng.below(65) as usize;                    // 16..80
    let max_off = l.saturating_sub(len);
    let block = |l: usize| 16 * ((l.saturating_sub(3)) / 16);
    let mut offs = vec![];
    let first = match rng.below(8) {
        0 | 1 => block(l),                                  // first position the main loop may not cover
        2 => block(l).saturating_sub(16),
        3 | 4 => { let n = 16 * (1 + rng.below((l / 16).max(1) as u64) as usize); (n as i64 + rng.range(-3, 3)).max(0) as usize }
        5 => l.saturating_sub(19) + rng.below(19.min(l) as u64) as usize,   // the last 19 bytes
        6 => max_off,                                       // ends at the last byte
        _ => rng.below(max_off as u64 + 1) as usize,
    }.min(max_off);
    offs.push(first);
    if rng.chance(1, 3) { let o2 = rng.below(max_off as u64 + 1) as usize; if o2 + len <= first || first + len <= o2 { offs.push(o2); } }
    let mut buf: Vec<u8> = (0..l).map(|_| *rng.pick(b".,;:-= ")).collect();
    for o in offs { buf[o..o + len].copy_from_slice(&text); }
    let mut m = TMods::default();
    if rng.chance(1, 6) { m.fullword = true; }
    (Pat::Text(text, m), buf, noise)
}

const MASKED_LITERAL_LENGTHS: &[usize] = &[15, 16, 17, 18, 19, 20, 31, 32, 33, 34, 35, 47, 48, 49, 50, 63, 64, 65, 66];

/// (c3) a masked literal (a hex pattern of plain bytes and a few nibble masks, no jumps) of a length
/// around the SIMD chunk sizes; buffers hold a genuine instance and near-misses that differ from it
/// in exactly one byte, at the first and last positions and around every multiple of 16
/// (every position for the short ones).
fn directed_masked_literal(rng: &mut Rng, len: usize) -> (Pat, Vec<Vec<u8>>) {
    let mut items = vec![]; let mut inst = vec![]; let mut sig = vec![];   // sig: the bits that matter
    let nmask = 1 + rng.below(3) as usize;
    let mask_pos: Vec<usize> = (0..nmask).map(|_| 1 + rng.below(len as u64 - 2) as usize).collect();
    for i in 0..len {
        let b = *rng.pick(b"ABCDEFGHKLMNPRSTUVWXYZabcdefghkmnpqrstuvwxyz0123456789");
        if mask_pos.contains(&i) {
            let hi = rng.chance(1, 2);
            let (v, m) = if hi { (b & 0xF0, 0xF0u8) } else { (b & 0x0F, 0x0Fu8) };
            items.push(Re::Cls(Cls::Mask(v, m))); sig.push(m);
            inst.push(v | (if hi { rng.below(16) as u8 } else { (rng.below(16) as u8) << 4 }));
        } else { items.push(Re::Cls(Cls::Byte(b))); sig.push(0xFF); inst.push(b); }
    }
    let mut positions: Vec<usize> = if len <= 20 { (0..len).collect() } else {
        let mut v = vec![0, 1, len - 2, len - 1];
        for k in (16..len + 2).step_by(16) { for d in [-1i64, 0, 1] { let q = k as i64 + d; if q >= 0 && (q as usize) < len { v.push(q as usize); } } }
        v.push(rng.below(len as u64) as usize);
        v.sort(); v.dedup(); v };
    positions.insert(0, usize::MAX);                        // the genuine instance first
    let per_buf = (260 / (len + 1)).max(1);
    let mut bufs = vec![];
    for chunk in positions.chunks(per_buf) {
        let mut buf = vec![];
        for &q in chunk {
            let mut v = inst.clone();
            if q != usize::MAX { let bit = { let m = sig[q]; let mut k = rng.below(8); while m & (1 << k) == 0 { k = (k + 1) % 8; } 1u8 << k }; v[q] ^= bit; }
            buf.extend(&v); buf.push(b' ');
        }
        buf.pop();                                          // the last instance ends at the last byte
        bufs.push(buf);
    }
    (Pat::Hex(Re::Cat(items)), bufs)
}

// ------------------------------------------------------------------ stream (d): the pipeline on the real atoms
/// the sub-patterns and atoms of pattern 0 (`$a` of rule r) as Coq terms; None when a sub-pattern is
/// outside the literal family (regexps, chain pieces)
fn coq_dump(dump: &Dump) -> Option<(String, String, usize, usize)> {
    let (sps, atoms, _) = dump;
    let bits: std::collections::HashMap<&str, u16> = yara_x::verif_c01dump::verif_c01_flag_bits().into_iter().collect();
    let mine: Vec<(usize, &yara_x::verif_c01dump::SubPatternDump)> = sps.iter().enumerate().filter(|(_, sp)| sp.pattern_id == 0).collect();
    if mine.iter().enumerate().any(|(k, (i, _))| k != *i) { return None; }      // rule r comes first: ids 0..k-1
    let mut out = vec![];
    for (_, sp) in &mine {
        let f = |n: &str| coq_bool(sp.flags & bits[n] != 0);
        let flags = format!("(mkF {} {} {} {})", f("Wide"), f("Nocase"), f("FullwordLeft"), f("FullwordRight"));
        let lit = coq_list(sp.literal.as_deref().unwrap_or(&[]), |b| b.to_string());
        let alpha = match &sp.alphabet { Some(a) => coq_list(a, |b| b.to_string()), None => "std_alphabet".into() };
        let kind = match sp.kind {
            "Literal" => format!("(KLiteral {} {})", lit, match sp.anchored_at { Some(o) => format!("(Some {})", coq_nat(o)), None => "None".into() }),
            "LiteralWithMask" => format!("(KMasked {} {})", lit, coq_list(sp.mask.as_deref().unwrap_or(&[]), |b| b.to_string())),
            "Xor" => format!("(KXor {})", lit),
            "Base64" | "CustomBase64" => format!("(KBase64 {} {} {} false)", lit, coq_nat(sp.padding.unwrap_or(9) as usize), alpha),
            "Base64Wide" | "CustomBase64Wide" => format!("(KBase64 {} {} {} true)", lit, coq_nat(sp.padding.unwrap_or(9) as usize), alpha),
            _ => return None,
        };
        out.push(format!("mkSP {} {}", kind, flags));
    }
    let my_atoms: Vec<String> = atoms.iter().filter(|a| a.sub_pattern_id < mine.len())
        .map(|a| format!("mkAtom {} {} {} {}", coq_nat(a.sub_pattern_id), coq_list(&a.bytes, |b| b.to_string()), coq_nat(a.backtrack), coq_bool(a.exact))).collect();
    let n_atoms = my_atoms.len();
    Some((format!("[{}]", out.join("; ")), format!("[{}]", my_atoms.join("; ")), mine.len(), n_atoms))
}

/// a short hex pattern without jumps or alternatives: one Literal or one LiteralWithMask sub-pattern
fn gen_hex_flat(rng: &mut Rng) -> Pat {
    let n = 3 + rng.below(7) as usize;
    let masked = rng.chance(2, 3);
    let items: Vec<Re> = (0..n).map(|i| {
        let b = gen_byte(rng);
        if masked && i > 0 && i + 1 < n && rng.chance(1, 4) {
            match rng.below(5) { 0 => Re::Cls(Cls::Any), 1 | 2 => Re::Cls(Cls::Mask(b & 0xF0, 0xF0)), _ => Re::Cls(Cls::Mask(b & 0x0F, 0x0F)) }
        } else { Re::Cls(Cls::Byte(b)) }
    }).collect();
    Pat::Hex(Re::Cat(items))
}

fn pipe_case(rng: &mut Rng, idx: usize, stats: &mut Stats) -> Option<(String, String, String)> {
    let p = match rng.below(10) { 0..=6 => gen_text(rng), _ => gen_hex_flat(rng) };
    let data = gen_buffer(&p, rng, 48);
    // `$a at N`: the literal is anchored and verified at that offset only
    let anchored = matches!(&p, Pat::Text(_, m) if m.xor.is_none() && m.b64.is_none() && m.b64wide.is_none() && !m.nocase) && rng.chance(1, 2);
    let noise = if rng.chance(1, 4) { *rng.pick(&[7usize, 40, 70]) } else { 0 };
    let src = if anchored {
        let at = if rng.chance(1, 2) { 0 } else { rng.below(data.len() as u64 + 1) as usize };
        format!("rule r {{\n  strings:\n    $a = {}\n  condition:\n    $a at {}\n}}\n", yara_pat(&p), at)
    } else { rule_source(&p, rng.below(CONDS.len() as u64) as usize, noise) };
    let out = match scan(&src, &data, None) { Ok(o) => o, Err(e) => { eprintln!("c01: stream d pattern rejected: {e}\n{src}"); return None; } };
    let (sps, atoms, nsp, natoms) = coq_dump(out.dump.as_ref()?)?;
    let (kernel, hits, _, nhits, _) = coq_trace(&out, nsp)?;
    stats.inc("pipeline_cases"); stats.add("pipeline_hits", nhits as u64);
    stats.inc(&format!("pipeline_kernel_{}", out.trace.as_ref().map_or("none", |t| t.kernel))); stats.add("pipeline_sub_patterns", nsp as u64); stats.add("pipeline_atoms", natoms as u64);
    if anchored { stats.inc("pipeline_anchored"); }
    stats.inc(&format!("pipeline_{}", shape(&p).split(':').next().unwrap()));
    if out.panic.is_some() || out.bytes_wrong.is_some() {
        // a panic is reported through the plain scan case
        let (case, replay, _) = scan_case(&p, &data, 0, noise, None, idx).ok()?;
        return Some((case, replay, String::new()));
    }
    let case = format!("PipeCase {} {} {} {} {} {} {} {}", coq_pat(&p), sps, atoms, coq_bool(anchored), kernel, hits, coq_list(&data, |b| b.to_string()),
        coq_list(&out.matches, |(s, l, k)| format!("({},{},{})", s, l, coq_key(k))));
    let replay = format!("{{\"stream\":\"pipeline\",\"index\":{},\"shape\":{},\"tags\":{},\"data_len\":{},\"source\":{},\"data_hex\":\"{}\",\"max_matches_per_pattern\":null,\"reported\":{},\"panic\":null,\"sub_patterns\":{},\"atoms\":{}}}",
        idx, json_str(&shape(&p)), serde_json::to_string(&tags(&p)).unwrap(), data.len(), json_str(&src), hex(&data),
        json_str(&format!("{:?}", out.matches)), json_str(&sps), json_str(&atoms));
    let key = if out.matches.is_empty() { String::new() } else { format!("d|{}|{}", yara_pat(&p), hex(&data)) };
    Some((case, replay, key))
}


// ------------------------------------------------------------------ stream (c4): single-byte perturbations
/// a text pattern of a chosen modifier family (or a flat hex pattern) over letters, digits,
/// punctuation and control bytes, longer than the 4-byte atom, and buffers made of the pattern's
/// genuine instance with ONE bit of ONE byte flipped -- every byte position in turn (inside and
/// outside the atom window), bit 5 (the ASCII case bit), bit 7 and a random bit
fn directed_perturb(rng: &mut Rng, round: usize) -> (Pat, Vec<Vec<u8>>, &'static str) {
    let mut m = TMods::default();
    let fam = round % 8;
    let name = match fam {
        0 => { "plain" }
        1 => { m.nocase = true; "nocase" }
        2 => { m.nocase = true; m.wide = true; m.ascii = rng.chance(1, 2); "nocase_wide" }
        3 => { m.fullword = true; m.nocase = rng.chance(1, 2); "fullword" }
        4 => { let a = rng.below(256) as u8; m.xor = Some((a, a.saturating_add(rng.below(3) as u8))); m.xor_explicit = true; "xor" }
        5 => { if rng.chance(1, 2) { m.b64 = Some(if rng.chance(1, 2) { Some(gen_alphabet(rng)) } else { None }) } else { m.b64wide = Some(None) }; "base64" }
        6 => { m.wide = true; "wide" }
        _ => "hex",
    };
    let len = 5 + rng.below(8) as usize;
    let p = if fam == 7 {
        let mut h = gen_hex_flat(rng);
        if let Pat::Hex(Re::Cat(ref mut items)) = h { while items.len() < 6 { items.insert(0, Re::Cls(Cls::Byte(gen_byte(rng)))); } }
        h
    } else {
        // at least one byte whose bit-5 partner is not its case variant, outside the first four bytes
        let mut text: Vec<u8> = (0..len).map(|_| if rng.chance(1, 2) { *rng.pick(b"[{]}@`\\|^~_\x7f0123456789\x10\x1f!? -.") } else { *rng.pick(b"abABxyzqZ") }).collect();
        if m.fullword { text[0] = *rng.pick(b"abAB01"); let l = text.len(); text[l - 1] = *rng.pick(b"abAB01"); }
        Pat::Text(text, m)
    };
    let inst = pat_instance(&p, rng);
    let mut variants: Vec<Vec<u8>> = vec![];
    for i in 0..inst.len() {
        for bit in [5u8, 7, rng.below(8) as u8] {
            let mut v = inst.clone(); v[i] ^= 1 << bit; variants.push(v);
        }
    }
    // shuffle, then pack into at most two buffers of <= 260 bytes, one genuine instance in each
    for i in (1..variants.len()).rev() { let j = rng.below(i as u64 + 1) as usize; variants.swap(i, j); }
    let mut bufs = vec![];
    let mut it = variants.into_iter();
    for _ in 0..2 {
        let mut buf: Vec<u8> = vec![];
        let genuine_at = rng.below(4);
        let mut k = 0;
        while buf.len() + inst.len() + 1 <= 260 {
            if k == genuine_at { buf.extend_from_slice(&pat_instance(&p, rng)); }
            else { match it.next() { Some(v) => buf.extend_from_slice(&v), None => break } }
            // neighbours on both sides of the fullword boundary: delimiters, the underscore (a delimiter for
            // fullword, a word character for \b), letters and digits
            buf.push(*rng.pick(b" .\n\x00__a0Z"));
            k += 1;
        }
        if !buf.is_empty() { bufs.push(buf); }
    }
    (p, bufs, name)
}


// ------------------------------------------------------------------ stream (c5): assertions next to the atom
/// a regexp with a look-around assertion (^ $ \b \B \b{start} \b{end}) directly before, directly
/// after or inside the literal run that becomes the atom, an element that keeps it out of the
/// FastVM, x {ascii, wide, ascii wide, nocase, fullword, nocase wide}; buffers with the instance at
/// offset 0, at the very end, and with word / non-word / underscore neighbours on both sides
fn directed_assert(rng: &mut Rng, round: usize) -> (Pat, Vec<Vec<u8>>, &'static str) {
    let greedy = rng.chance(1, 2);
    let lit4 = |rng: &mut Rng| -> Vec<u8> { let mut v: Vec<u8> = vec![]; while v.len() < 4 { let b = *rng.pick(b"abcdefgh12345678"); if !v.contains(&b) { v.push(b); } } v };
    let front = |rng: &mut Rng| match rng.below(7) { 0 => None, 1 => Some(Asrt::Start), 2 | 3 => Some(Asrt::WordB), 4 => Some(Asrt::NotWordB), 5 => Some(Asrt::WordStart), _ => Some(Asrt::WordEnd) };
    let back = |rng: &mut Rng| match rng.below(7) { 0 => None, 1 => Some(Asrt::End), 2 | 3 => Some(Asrt::WordB), 4 => Some(Asrt::NotWordB), 5 => Some(Asrt::WordEnd), _ => Some(Asrt::WordStart) };
    let mid = |rng: &mut Rng| match rng.below(5) { 0 | 1 => Some(Asrt::WordB), 2 => Some(Asrt::NotWordB), 3 => Some(Asrt::WordStart), _ => Some(Asrt::WordEnd) };
    let soft = |rng: &mut Rng| match rng.below(4) {
        0 => Re::Rep(Box::new(Re::Cls(Cls::Ranges(false, vec![(b'a', b'z')]))), 1, None, greedy),
        1 => Re::Rep(Box::new(Re::Cls(Cls::Ranges(false, word_ranges()))), 1, Some(3), greedy),
        2 => Re::Rep(Box::new(Re::Cls(Cls::Ranges(false, vec![(b'0', b'9')]))), 0, None, greedy),
        _ => Re::Rep(Box::new(Re::Cls(Cls::Ranges(true, word_ranges()))), 0, Some(2), greedy),
    };
    let mut v: Vec<Re> = vec![];
    let push_a = |v: &mut Vec<Re>, a: Option<Asrt>| if let Some(a) = a { v.push(Re::Assert(a)); };
    let layout = round % 4;
    match layout {
        0 => { push_a(&mut v, front(rng)); v.push(Re::Lit(lit4(rng))); if rng.chance(1, 2) { push_a(&mut v, mid(rng)); } v.push(soft(rng)); if rng.chance(1, 2) { push_a(&mut v, back(rng)); } }
        1 => { if rng.chance(1, 2) { push_a(&mut v, front(rng)); } v.push(soft(rng)); push_a(&mut v, mid(rng)); v.push(Re::Lit(lit4(rng))); push_a(&mut v, back(rng)); }
        2 => { push_a(&mut v, front(rng)); let l = lit4(rng); v.push(Re::Lit(l[..2].to_vec())); push_a(&mut v, mid(rng)); v.push(Re::Lit(l[2..].to_vec())); v.push(soft(rng)); push_a(&mut v, back(rng)); }
        _ => { push_a(&mut v, front(rng)); v.push(Re::Lit(lit4(rng))); v.push(soft(rng)); push_a(&mut v, mid(rng)); v.push(Re::Lit(lit4(rng)[..2].to_vec())); push_a(&mut v, back(rng)); }
    }
    let mut m = RMods::default();
    let name = match (round / 4) % 6 {
        0 => "ascii", 1 => { m.wide = true; "wide" } 2 => { m.wide = true; m.ascii = true; "ascii_wide" }
        3 => { m.nocase = true; "nocase" } 4 => { m.fullword = true; "fullword" } _ => { m.nocase = true; m.wide = true; "nocase_wide" }
    };
    let re = Re::Cat(v);
    let p = Pat::Regexp(re.clone(), m.clone());
    let nb: &[&[u8]] = &[b"", b"-", b"a", b"_", b"0", b".", b"Z"];
    let mut bufs = vec![];
    for b in 0..2 {
        let wide_buf = if m.wide && m.ascii { b == 0 } else { m.wide };
        let mut buf: Vec<u8> = vec![];
        let k = 4 + rng.below(3) as usize;
        for i in 0..k {
            let mut inst = vec![]; instance(&re, m.nocase, rng, &mut inst);
            let l: &[u8] = if i == 0 { b"" } else { *rng.pick(nb) };
            let r: &[u8] = if i + 1 == k { b"" } else { *rng.pick(nb) };
            let mut piece: Vec<u8> = l.to_vec(); piece.extend_from_slice(&inst); piece.extend_from_slice(r);
            if i + 1 < k { piece.push(*rng.pick(b" \n.")); }
            if wide_buf { piece = widen(&piece); if rng.chance(1, 8) { piece.insert(0, *rng.pick(b"a-")); } }
            buf.extend_from_slice(&piece);
        }
        // the data may end right after the last character of a wide string
        if wide_buf && rng.chance(1, 3) { buf.pop(); }
        bufs.push(buf);
    }
    (p, bufs, name)
}


// ------------------------------------------------------------------ stream (c7): regexps of the masked-literal shape
/// a REGEXP made only of literals, `.` and classes that are nibble masks (the shape the compiler
/// turns into a LiteralWithMask sub-pattern when neither `nocase` nor `wide` is present, and into one
/// Regexp sub-pattern per form otherwise) x {ascii, wide, ascii wide, nocase, fullword, nocase ascii wide}
fn directed_masked_regexp(rng: &mut Rng, round: usize) -> (Pat, Vec<Vec<u8>>, &'static str) {
    let mut m = RMods::default();
    m.dotall = rng.chance(2, 3);
    let name = match round % 6 {
        0 => "ascii", 1 => { m.wide = true; "wide" } 2 => { m.wide = true; m.ascii = true; "ascii_wide" }
        3 => { m.nocase = true; "nocase" } 4 => { m.fullword = true; "fullword" }
        _ => { m.nocase = true; m.wide = true; m.ascii = true; "nocase_ascii_wide" }
    };
    let n = 4 + rng.below(5) as usize;
    let mut v: Vec<Re> = vec![];
    for i in 0..n {
        let b = *rng.pick(b"abcdeXY0123");
        if i > 0 && i + 1 < n && rng.chance(1, 3) {
            v.push(match rng.below(3) {
                0 => if m.dotall { Re::Cls(Cls::Any) } else { Re::Cls(Cls::Ranges(true, vec![(10, 10)])) },
                1 => { let h = *rng.pick(&[0x30u8, 0x40, 0x60, 0x70]); Re::Cls(Cls::Ranges(false, vec![(h, h | 0x0f)])) }
                _ => Re::Cls(Cls::Ranges(false, vec![(0x30, 0x3f)])),
            });
        } else { v.push(Re::Lit(vec![b])); }
    }
    let p = Pat::Regexp(Re::Cat(v), m);
    let bufs = (0..2).map(|_| gen_buffer(&p, rng, 60)).collect();
    (p, bufs, name)
}

// ------------------------------------------------------------------ stream (c6): consecutive jumps
/// a hex pattern with 2-3 CONSECUTIVE jumps of every kind ([n], [a-b], [a-], [-]) between two
/// literals, and buffers with gaps just below / at / above every bound of the coalesced jump
/// (lower bound = the sum of the lower bounds; upper bound = the sum of the upper bounds if ALL the
/// jumps have one, none otherwise)
fn directed_consecutive_jumps(rng: &mut Rng) -> (Pat, Vec<Vec<u8>>, &'static str) {
    let l1: Vec<u8> = (0..2 + rng.below(2)).map(|_| *rng.pick(b"\x01\x02\x03AB")).collect();
    let l2: Vec<u8> = (0..2 + rng.below(2)).map(|_| *rng.pick(b"\x04\x05\x06CD")).collect();
    let nj = 2 + rng.below(2) as usize;
    let mut jumps: Vec<(usize, Option<usize>)> = vec![];
    for _ in 0..nj {
        jumps.push(match rng.below(5) {
            0 => { let n = rng.below(4) as usize; (n, Some(n)) }
            1 | 2 => { let a = rng.below(3) as usize; (a, Some(a + rng.below(4) as usize)) }
            3 => (rng.below(4) as usize, None),
            _ => (0, None),
        });
    }
    // the compiler rejects a (coalesced) jump of length zero
    if jumps.iter().all(|j| j.1 == Some(0)) { let l = jumps.len(); jumps[l - 1].1 = Some(1 + rng.below(3) as usize); }
    let all_bounded = jumps.iter().all(|j| j.1.is_some());
    let any_bounded = jumps.iter().any(|j| j.1.is_some());
    let name = if all_bounded { "all_bounded" } else if any_bounded { "mixed" } else { "all_unbounded" };
    let lo: usize = jumps.iter().map(|j| j.0).sum();
    let finite: usize = jumps.iter().map(|j| j.1.unwrap_or(j.0)).sum();
    let mut items: Vec<Re> = l1.iter().map(|b| Re::Cls(Cls::Byte(*b))).collect();
    for (a, b) in &jumps { items.push(Re::Rep(Box::new(Re::Cls(Cls::Any)), *a, *b, false)); }
    items.extend(l2.iter().map(|b| Re::Cls(Cls::Byte(*b))));
    let p = Pat::Hex(Re::Cat(items));
    let mut gaps: Vec<usize> = vec![lo, lo + 1, finite, finite + 1, finite + 2, finite + 6, finite + 11];
    if lo > 0 { gaps.push(lo - 1); }
    if finite > 0 { gaps.push(finite - 1); }
    for j in &jumps { if let Some(h) = j.1 { gaps.push(h); gaps.push(h + 1); gaps.push(lo - j.0 + h + 1); } }
    gaps.sort(); gaps.dedup();
    for i in (1..gaps.len()).rev() { let j = rng.below(i as u64 + 1) as usize; gaps.swap(i, j); }
    let mut bufs = vec![];
    for chunk in gaps.chunks(6) {
        let mut buf = vec![];
        for g in chunk {
            buf.extend_from_slice(&l1); for _ in 0..*g { buf.push(*rng.pick(b"xy")); } buf.extend_from_slice(&l2);
            for _ in 0..rng.below(3) { buf.push(b'.'); }
        }
        bufs.push(buf);
        if bufs.len() == 2 { break; }
    }
    (p, bufs, name)
}

// ------------------------------------------------------------------ stream (g): the atoms of regexp sub-patterns
/// regexps whose best literal sits in an alternation next to an alternative that can match the
/// empty string (or is very short), optional groups, x* / x? prefixes -- the shapes where an atom
/// set can fail to cover an alternative
fn gen_nullable_alt(rng: &mut Rng) -> Pat {
    let greedy = rng.chance(1, 2);
    let strong = |rng: &mut Rng, n: usize| -> Re { Re::Lit((0..n).map(|_| *rng.pick(b"12345678abcd")).collect()) };
    let weak = |rng: &mut Rng| -> Re { match rng.below(6) {
        0 => Re::Rep(Box::new(Re::Lit(vec![*rng.pick(b"xyz")])), 0, None, greedy),
        1 => Re::Rep(Box::new(Re::Lit(vec![*rng.pick(b"xyz")])), 0, Some(1), greedy),
        2 => Re::Rep(Box::new(Re::Lit(vec![b'x', b'y'])), 0, Some(1), greedy),
        3 => Re::Lit(vec![*rng.pick(b"xyz")]),
        4 => Re::Rep(Box::new(Re::Cls(Cls::Ranges(false, vec![(b'0', b'9')]))), 0, Some(2), greedy),
        _ => Re::Lit(vec![]),
    } };
    let outside = |rng: &mut Rng| -> Re { let n = 1 + rng.below(3) as usize; Re::Lit((0..n).map(|_| *rng.pick(b"abef")).collect()) };
    let mut v: Vec<Re> = vec![];
    match rng.below(5) {
        0 | 1 => { // (strong|weak) outside   /  outside (weak|strong)
            let sl = 3 + rng.below(2) as usize;
            let mut alts = vec![strong(rng, sl), weak(rng)];
            if rng.chance(1, 3) { alts.push(strong(rng, 2)); }
            if rng.chance(1, 2) { alts.swap(0, 1); }
            if rng.chance(1, 2) { v.push(Re::Alt(alts)); v.push(outside(rng)); } else { v.push(outside(rng)); v.push(Re::Alt(alts)); v.push(outside(rng)); }
        }
        2 => { // (strong)? outside
            v.push(Re::Rep(Box::new(strong(rng, 4)), 0, Some(1), greedy)); v.push(outside(rng));
            if rng.chance(1, 2) { v.push(Re::Rep(Box::new(strong(rng, 3)), 0, Some(1), greedy)); }
        }
        3 => { // x* strong? outside
            v.push(weak(rng)); v.push(outside(rng)); v.push(Re::Alt(vec![strong(rng, 4), weak(rng)]));
        }
        _ => { // nested: ((strong|weak) x | y) outside
            let inner = Re::Alt(vec![strong(rng, 4), weak(rng)]);
            v.push(Re::Alt(vec![Re::Cat(vec![inner, Re::Lit(vec![b'x'])]), Re::Lit(vec![b'y'])])); v.push(outside(rng));
        }
    }
    // empty literals are not printable: drop them from concatenations, keep them as empty alternatives
    fn clean(r: Re) -> Re { match r {
        Re::Cat(v) => Re::Cat(v.into_iter().map(clean).filter(|x| !matches!(x, Re::Lit(l) if l.is_empty())).collect()),
        Re::Alt(v) => Re::Alt(v.into_iter().map(clean).collect()),
        Re::Rep(x, a, b, g) => Re::Rep(Box::new(clean(*x)), a, b, g),
        x => x } }
    let mut m = RMods::default();
    match rng.below(8) { 0 => m.nocase = true, 1 => m.wide = true, 2 => { m.wide = true; m.ascii = true; } _ => {} }
    Pat::Regexp(clean(Re::Cat(v)), m)
}

fn atoms_case(p: &Pat, data: &[u8], idx: usize, stats: &mut Stats) -> Option<(String, String, String)> {
    let cond = idx % CONDS.len();
    let src = rule_source(p, cond, 0);
    let out = match scan(&src, data, None) { Ok(o) => o, Err(e) => { stats.inc("atoms_rejected_by_compiler");
        if std::env::var("C01_SHOW_REJECTED").is_ok() { eprintln!("c01: stream g pattern rejected: {e}\n{src}"); } return None; } };
    let (sps, atoms, _) = out.dump.as_ref()?;
    let mine: Vec<usize> = sps.iter().enumerate().filter(|(_, sp)| sp.pattern_id == 0).map(|(i, _)| i).collect();
    let all_regexp = !mine.is_empty() && mine.iter().all(|i| sps[*i].kind == "Regexp");
    let n_mine = atoms.iter().filter(|a| mine.contains(&a.sub_pattern_id)).count();
    if !all_regexp || out.panic.is_some() || out.bytes_wrong.is_some() || n_mine > 400 {
        stats.inc(if n_mine > 400 { "atoms_too_many_atoms" } else { "atoms_not_a_plain_regexp" });
        let (case, replay, _) = scan_case(p, data, cond, 0, None, idx).ok()?;
        return Some((case, replay, String::new()));
    }
    let my_atoms: Vec<String> = atoms.iter().filter(|a| mine.contains(&a.sub_pattern_id))
        .map(|a| format!("mkAtom {} {} {} {}", coq_nat(a.sub_pattern_id), coq_list(&a.bytes, |b| b.to_string()), coq_nat(a.backtrack), coq_bool(a.exact))).collect();
    stats.inc("atoms_cases"); stats.add("atoms_atoms", my_atoms.len() as u64);
    stats.inc(match out.matches.len() { 0 => "atoms_matches_0", 1 => "atoms_matches_1", _ => "atoms_matches_2+" });
    let atoms_s = format!("[{}]", my_atoms.join("; "));
    let case = format!("AtomsCase {} {} {} {}", coq_pat(p), atoms_s, coq_list(data, |b| b.to_string()),
        coq_list(&out.matches, |(s, l, k)| format!("({},{},{})", s, l, coq_key(k))));
    let replay = format!("{{\"stream\":\"scan\",\"sub_stream\":\"atoms\",\"index\":{},\"shape\":{},\"tags\":{},\"data_len\":{},\"source\":{},\"data_hex\":\"{}\",\"max_matches_per_pattern\":null,\"reported\":{},\"panic\":null,\"atoms\":{}}}",
        idx, json_str(&shape(p)), serde_json::to_string(&tags(p)).unwrap(), data.len(), json_str(&src), hex(data),
        json_str(&format!("{:?}", out.matches)), json_str(&atoms_s));
    let key = if out.matches.is_empty() { String::new() } else { format!("g|{}|{}", yara_pat(p), hex(data)) };
    Some((case, replay, key))
}

// ------------------------------------------------------------------ stream (e): chains
/// a pattern that the compiler splits into a chain of 2..5 pieces: hex with jumps over the chaining
/// threshold / unbounded jumps, or /piece.*piece.{n,}piece/s, uniformly greedy or lazy.  The pieces are
/// plain literals (Literal* sub-patterns) or small expressions (Regexp* sub-patterns: classes, nibble
/// masks, short jumps, x+, y?, alternatives); regexps also nocase, wide, ascii wide, fullword.
/// Returns the pattern, the pieces, nocase, and whether instances are to be written wide.
fn gen_chain(rng: &mut Rng) -> (Pat, Vec<Re>, bool, Option<bool>) {
    let npieces = 2 + rng.below(4) as usize;
    let alpha: &[u8] = if rng.chance(1, 2) { b"abc" } else { b"abcdeXY_" };
    let regexp = rng.chance(1, 2);
    let greedy = rng.chance(1, 2);
    let literal_only = rng.chance(2, 5);
    let lit = |rng: &mut Rng, l: usize| -> Vec<u8> { (0..l).map(|_| *rng.pick(alpha)).collect() };
    let mut pieces: Vec<Re> = vec![];
    for i in 0..npieces {
        if i > 0 && rng.chance(1, 6) { let k = rng.below(i as u64) as usize; pieces.push(pieces[k].clone()); continue; }   // the same piece again
        if literal_only || rng.chance(1, 2) {
            let l = if rng.chance(1, 6) { 5 + rng.below(3) as usize } else { 2 + rng.below(3) as usize };
            pieces.push(Re::Lit(lit(rng, l)));
            continue;
        }
        let l0 = 1 + rng.below(2) as usize;
        let mut v: Vec<Re> = vec![Re::Lit(lit(rng, l0))];
        let extra = 1 + rng.below(2);
        for _ in 0..extra {
            let x = if regexp {
                match rng.below(5) {
                    0 => Re::Cls(Cls::Ranges(false, vec![(b'b', b'c')])),
                    1 => Re::Rep(Box::new(Re::Lit(vec![*rng.pick(alpha)])), 1, None, greedy),
                    2 => Re::Rep(Box::new(Re::Lit(vec![*rng.pick(alpha)])), 0, Some(1), greedy),
                    3 => Re::Alt(vec![Re::Lit(lit(rng, 1)), Re::Lit(lit(rng, 2))]),
                    _ => Re::Rep(Box::new(Re::Cls(Cls::Any)), 1, Some(2), greedy),
                }
            } else {
                match rng.below(5) {
                    0 => { let b = *rng.pick(alpha); Re::Cls(Cls::Mask(b & 0xF0, 0xF0)) }
                    1 => Re::Cls(Cls::Any),
                    2 | 3 => Re::Rep(Box::new(Re::Cls(Cls::Any)), 1, Some(2), false),
                    _ => Re::Alt(vec![Re::Cls(Cls::Byte(*rng.pick(alpha))), Re::Cat(vec![Re::Cls(Cls::Byte(*rng.pick(alpha))), Re::Cls(Cls::Byte(*rng.pick(alpha)))])]),
                }
            };
            v.push(x);
            let l1 = 1 + rng.below(2) as usize;
            v.push(Re::Lit(lit(rng, l1)));
        }
        pieces.push(Re::Cat(v));
    }
    let mut items: Vec<Re> = vec![];
    for (i, pc) in pieces.iter().enumerate() {
        if i > 0 {
            let (mn, mx) = match rng.below(6) {
                0 | 1 => (0, None), 2 => (1 + rng.below(4) as usize, None),
                3 => (0, Some(201 + rng.below(30) as usize)),
                4 => { let a = 1 + rng.below(5) as usize; (a, Some(a + 201 + rng.below(10) as usize)) }
                _ => (rng.below(3) as usize, Some(250)),
            };
            items.push(Re::Rep(Box::new(Re::Cls(Cls::Any)), mn, mx, if regexp { greedy } else { false }));
        }
        fn flat(r: &Re, hex: bool, out: &mut Vec<Re>) {
            match r {
                Re::Cat(v) => for x in v { flat(x, hex, out) },
                Re::Lit(l) if hex => for b in l { out.push(Re::Cls(Cls::Byte(*b))) },
                x => out.push(x.clone()),
            }
        }
        flat(pc, !regexp, &mut items);
    }
    if !regexp { return (Pat::Hex(Re::Cat(items)), pieces, false, None); }
    let mut m = RMods { dotall: true, ..Default::default() };
    let mut wide_inst = None;
    match rng.below(24) {
        0..=3 => { m.nocase = true; }
        4 | 5 => { m.wide = true; wide_inst = Some(true); }
        6 | 7 => { m.wide = true; m.ascii = true; wide_inst = Some(rng.chance(1, 2)); }
        8 | 9 => { m.fullword = true; }
        10 => { m.nocase = true; m.wide = true; wide_inst = Some(true); }
        _ => {}
    }
    let nc = m.nocase;
    (Pat::Regexp(Re::Cat(items), m), pieces, nc, wide_inst)
}

/// buffers for a chain: instances of the pieces in order, out of order, repeated heads / middles /
/// tails, small separators, now and then more than 200 bytes of filler
fn gen_chain_buffer(pieces: &[Re], nc: bool, wide: Option<bool>, rng: &mut Rng) -> Vec<u8> {
    let mut buf = vec![];
    let n = pieces.len();
    let tokens = n + rng.below(2 * n as u64 + 2) as usize;
    let mut next = 0usize;
    let mut long_fillers = 0;
    let w = wide == Some(true);
    if rng.chance(1, 3) { buf.push(b'.'); if w { buf.push(0); } }
    for _ in 0..tokens {
        let k = match rng.below(10) {
            0..=4 => { let k = next % n; next += 1; k }                 // in order
            5 => n - 1,                                                  // another tail
            6 => 0,                                                      // another head
            7 if n > 2 => 1 + rng.below(n as u64 - 2) as usize,          // another middle
            _ => rng.below(n as u64) as usize,
        };
        let mut inst = vec![]; instance(&pieces[k], nc, rng, &mut inst);
        if rng.chance(1, 8) && !inst.is_empty() { let l = inst.len(); inst[l - 1] ^= 0x20; }   // a near miss
        if w { inst = widen(&inst); }
        buf.extend_from_slice(&inst);
        let fill = if long_fillers < 1 && !(nc && w) && rng.chance(1, 40) { long_fillers += 1; 196 + rng.below(20) as usize } else { rng.below(4) as usize };
        // for the wide form mostly wide filler (the gap of a wide chain is not required to be wide: known finding)
        // filler bytes that no piece can match (a piece like /_+/ on a buffer of underscores has quadratically many matches)
        if w && !rng.chance(1, 12) { for _ in 0..fill / 2 + fill % 2 { buf.push(*rng.pick(b"..-=")); buf.push(0); } }
        else { for _ in 0..fill { buf.push(*rng.pick(b"..-=")); } }
        if buf.len() > (if nc || w { 120 } else { 300 }) { break; }
    }
    buf
}

/// kernel (0 vectorised, 1 automaton, 2 none), the hits on the atoms of pattern 0 (atom indices
/// relative to the pattern's own atoms) and the verified sub-pattern matches of pattern 0
fn coq_trace(out: &ScanOut, n_sub_patterns: usize) -> Option<(String, String, String, usize, usize)> {
    let tr = out.trace.as_ref()?;
    let (_, atoms, _) = out.dump.as_ref()?;
    let mut local = std::collections::HashMap::new();
    for (i, a) in atoms.iter().enumerate() { if a.sub_pattern_id < n_sub_patterns { let k = local.len(); local.insert(i, k); } }
    let kernel = match tr.kernel { "teddy" => 0usize, "daachorse" => 1, _ => 2 };
    let hits: Vec<String> = tr.hits.iter().filter_map(|(a, o)| local.get(a).map(|k| format!("({},{})", coq_nat(*k), coq_nat(*o)))).collect();
    let evs: Vec<String> = tr.sub_pattern_matches.iter().filter(|(id, _, _)| *id < n_sub_patterns)
        .map(|(id, s, e)| format!("({},{},{})", coq_nat(*id), coq_nat(*s), coq_nat(*e))).collect();
    Some((coq_nat(kernel), format!("[{}]", hits.join("; ")), format!("[{}]", evs.join("; ")), hits.len(), evs.len()))
}

fn coq_chain_dump(dump: &Dump) -> Option<(String, String, usize, usize, usize, String)> {
    let (sps, atoms, _) = dump;
    let bits: std::collections::HashMap<&str, u16> = yara_x::verif_c01dump::verif_c01_flag_bits().into_iter().collect();
    let mine: Vec<(usize, &yara_x::verif_c01dump::SubPatternDump)> = sps.iter().enumerate().filter(|(_, sp)| sp.pattern_id == 0).collect();
    if mine.len() < 2 || mine.iter().enumerate().any(|(k, (i, _))| k != *i) { return None; }
    let mut out = vec![];
    let mut n_regexp = 0;
    for (_, sp) in mine.iter() {
        let f = |n: &str| coq_bool(sp.flags & bits[n] != 0);
        let flags = format!("(mkF {} {} {} {})", f("Wide"), f("Nocase"), f("FullwordLeft"), f("FullwordRight"));
        let (regexp, head) = match sp.kind {
            "LiteralChainHead" => (false, true), "LiteralChainTail" => (false, false),
            "RegexpChainHead" => (true, true), "RegexpChainTail" => (true, false),
            _ => return None,
        };
        if regexp { n_regexp += 1; }
        let lit = if regexp { "[]".to_string() } else { coq_list(sp.literal.as_deref()?, |b| b.to_string()) };
        let link = if head { "None".to_string() } else {
            let (mn, mx) = sp.gap?;
            let g = match mx { Some(mx) => format!("GBounded {} {}", coq_nat(mn as usize), coq_nat(mx as usize)), None => format!("GUnbounded {}", coq_nat(mn as usize)) };
            format!("(Some ({}, {}))", coq_nat(sp.chained_to?), g)
        };
        out.push(format!("mkCP {} {} {} {} {} {}", coq_bool(regexp), lit, flags, f("LastInChain"), f("GreedyRegexp"), link));
    }
    let my_atoms: Vec<String> = atoms.iter().filter(|a| a.sub_pattern_id < mine.len())
        .map(|a| format!("mkAtom {} {} {} {}", coq_nat(a.sub_pattern_id), coq_list(&a.bytes, |b| b.to_string()), coq_nat(a.backtrack), coq_bool(a.exact))).collect();
    let n_atoms = my_atoms.len();
    // regexp pieces run by the FastVM (every match length is enumerated: the first is kept for a lazy
    // pattern, the last for a greedy one) all of whose atoms have no backward code: the atom is where
    // the piece starts
    let fwd_only: Vec<String> = mine.iter().filter(|(i, sp)| sp.kind.starts_with("Regexp") && sp.flags & bits["FastRegexp"] != 0
        && atoms.iter().filter(|a| a.sub_pattern_id == *i).all(|a| !a.has_bck_code && a.backtrack == 0)).map(|(i, _)| coq_nat(*i)).collect();
    Some((format!("[{}]", out.join("; ")), format!("[{}]", my_atoms.join("; ")), mine.len(), n_atoms, n_regexp, format!("[{}]", fwd_only.join("; "))))
}

fn chain_case(p: &Pat, data: &[u8], noise: usize, idx: usize, stats: &mut Stats) -> Option<(String, String, String)> {
    let src = rule_source(p, idx % CONDS.len(), noise);
    let out = match scan(&src, data, None) { Ok(o) => o, Err(e) => { stats.inc("chain_rejected_by_compiler");
        if std::env::var("C01_SHOW_REJECTED").is_ok() { eprintln!("c01: stream e pattern rejected: {e}\n{src}"); } return None; } };
    let dumped = coq_chain_dump(out.dump.as_ref()?);
    let traced = dumped.as_ref().and_then(|d| coq_trace(&out, d.2));
    // (a piece with ?? bytes next to its literal expands into hundreds of atoms: the model would spend seconds
    // enumerating their occurrences; such a case is checked against the specification only)
    let too_many_atoms = dumped.as_ref().map_or(false, |d| d.3 > 96);
    if too_many_atoms { stats.inc("chain_too_many_atoms_for_the_model"); }
    if out.panic.is_some() || out.bytes_wrong.is_some() || dumped.is_none() || traced.is_none() || too_many_atoms {
        // not a chain (or a panic): the plain differential case
        stats.inc("chain_not_a_chain");
        let (case, replay, _) = scan_case(p, data, idx % CONDS.len(), noise, None, idx).ok()?;
        return Some((case, replay, String::new()));
    }
    let (pieces, atoms, np, natoms, nre, fwd_only) = dumped?;
    let (kernel, hits, evs, nhits, nevs) = traced?;
    stats.inc("chain_cases"); stats.inc(&format!("chain_pieces_{}", np)); stats.add("chain_atoms", natoms as u64);
    stats.add("chain_hits", nhits as u64); stats.add("chain_piece_matches", nevs as u64);
    if fwd_only != "[]" { stats.inc("chain_with_fast_forward_only_regexp_piece"); }
    stats.inc(match nre { 0 => "chain_all_literal_pieces", n if n == np => "chain_all_regexp_pieces", _ => "chain_mixed_pieces" });
    stats.inc(&format!("chain_kernel_{}", out.trace.as_ref().map_or("none", |t| t.kernel)));
    match p {
        Pat::Regexp(Re::Cat(v), m) => {
            stats.inc(if v.iter().any(|x| matches!(x, Re::Rep(_, _, _, true))) { "chain_regexp_greedy" } else { "chain_regexp_lazy" });
            if m.nocase { stats.inc("chain_nocase"); } if m.wide { stats.inc("chain_wide"); } if m.fullword { stats.inc("chain_fullword"); }
        }
        _ => stats.inc("chain_hex"),
    }
    stats.inc(match out.matches.len() { 0 => "chain_matches_0", 1 => "chain_matches_1", _ => "chain_matches_2+" });
    if data.len() > 200 { stats.inc("chain_data_over_200"); }
    let case = format!("ChainCase {} {} {} {} {} {} {} {} {}", coq_pat(p), pieces, atoms, kernel, hits, evs, fwd_only, coq_list(data, |b| b.to_string()),
        coq_list(&out.matches, |(s, l, k)| format!("({},{},{})", s, l, coq_key(k))));
    let replay = format!("{{\"stream\":\"scan\",\"sub_stream\":\"chain\",\"index\":{},\"shape\":{},\"tags\":{},\"data_len\":{},\"source\":{},\"data_hex\":\"{}\",\"max_matches_per_pattern\":null,\"reported\":{},\"panic\":null,\"pieces\":{},\"atoms\":{},\"kernel\":{},\"hits\":{},\"piece_matches\":{}}}",
        idx, json_str(&shape(p)), serde_json::to_string(&tags(p)).unwrap(), data.len(), json_str(&src), hex(data),
        json_str(&format!("{:?}", out.matches)), json_str(&pieces), json_str(&atoms), json_str(out.trace.as_ref().map_or("none", |t| t.kernel)), json_str(&hits), json_str(&evs));
    let key = if out.matches.is_empty() { String::new() } else { format!("e|{}|{}", yara_pat(p), hex(data)) };
    Some((case, replay, key))
}

// ------------------------------------------------------------------ stream (f): several related patterns, one scanner
/// 2..4 patterns that share text, share a custom alphabet, differ only in the alphabet or in a
/// modifier, or are plain duplicates
fn gen_related(rng: &mut Rng) -> Vec<Pat> {
    let base = loop { let p = gen_text(rng); if let Pat::Text(t, _) = &p { if t.len() >= 3 { break p; } } };
    let (text, mods) = match &base { Pat::Text(t, m) => (t.clone(), m.clone()), _ => unreachable!() };
    let n = 2 + rng.below(3) as usize;
    let mut out = vec![base.clone()];
    let other_text = |rng: &mut Rng, t: &Vec<u8>| -> Vec<u8> { let mut v = t.clone(); let i = rng.below(v.len() as u64) as usize; v[i] = gen_alnum_heavy(rng); if rng.chance(1, 2) { v.push(gen_alnum_heavy(rng)); } v };
    let is_b64 = mods.b64.is_some() || mods.b64wide.is_some();
    for _ in 1..n {
        let mut m = mods.clone();
        let mut t = text.clone();
        match rng.below(6) {
            0 => {}                                                           // a duplicate
            1 => { t = other_text(rng, &t); }                                 // same modifiers (and alphabet), other text
            2 | 3 if is_b64 => {                                              // same text, another alphabet
                if m.b64.is_some() { m.b64 = Some(Some(gen_alphabet(rng))); }
                if m.b64wide.is_some() { m.b64wide = Some(Some(gen_alphabet(rng))); }
            }
            2 => { m.nocase = !m.nocase && m.xor.is_none(); }
            3 => { if m.xor.is_none() { m.fullword = !m.fullword; } else { m.xor = Some((1, 3)); m.xor_explicit = true; } }
            4 => { // same text, another family
                m = TMods::default();
                match rng.below(3) { 0 => { m.b64 = Some(Some(gen_alphabet(rng))); } 1 => { m.xor = Some((0, 255)); m.xor_explicit = true; } _ => { m.wide = true; m.ascii = true; m.nocase = true; } }
            }
            _ => { m.wide = !m.wide; if !m.wide { m.ascii = false; } }
        }
        out.push(Pat::Text(t, m));
    }
    // base64 family: force the interesting constellation now and then -- the same text with two
    // different custom alphabets, and two texts with the same custom alphabet
    if rng.chance(1, 3) {
        let a1 = gen_alphabet(rng); let a2 = gen_alphabet(rng);
        let wide = rng.chance(1, 3);
        let mk = |t: &Vec<u8>, a: &Vec<u8>| { let mut m = TMods::default(); if wide { m.b64wide = Some(Some(a.clone())); } else { m.b64 = Some(Some(a.clone())); } Pat::Text(t.clone(), m) };
        let t2 = other_text(rng, &text);
        out = vec![mk(&text, &a1), mk(&text, &a2), mk(&t2, &a1)];
        if rng.chance(1, 2) { out.swap(0, 1); }
        if rng.chance(1, 2) { out.swap(1, 2); }
    }
    out
}

fn multi_source(pats: &[Pat]) -> (String, Vec<String>) {
    let idents: Vec<String> = (0..pats.len()).map(|i| format!("${}", (b'a' + i as u8) as char)).collect();
    let mut s = String::from("rule r {\n  strings:\n");
    for (id, p) in idents.iter().zip(pats) { let _ = write!(s, "    {} = {}\n", id, yara_pat(p)); }
    let cond: Vec<String> = idents.iter().map(|id| format!("#{} >= 0", &id[1..])).collect();
    let _ = write!(s, "  condition:\n    {}\n}}\n", cond.join(" and "));
    (s, idents)
}

/// one ScanCase per (buffer, pattern): the buffers are scanned one after the other by one scanner
fn multi_cases(rng: &mut Rng, idx: usize, stats: &mut Stats) -> Vec<(String, String, String)> {
    let pats = gen_related(rng);
    let (src, idents) = multi_source(&pats);
    let nbuf = 1 + rng.below(2) as usize;
    let mut datas: Vec<Vec<u8>> = vec![];
    for _ in 0..nbuf {
        let mut d = vec![];
        let mut order: Vec<usize> = (0..pats.len()).collect();
        for i in (1..order.len()).rev() { let j = rng.below(i as u64 + 1) as usize; order.swap(i, j); }
        for k in order { if rng.chance(4, 5) { d.extend_from_slice(&gen_buffer(&pats[k], rng, 30)); d.push(*rng.pick(b" .\n")); } }
        datas.push(d);
    }
    let drefs: Vec<&[u8]> = datas.iter().map(|d| &d[..]).collect();
    let irefs: Vec<&str> = idents.iter().map(|s| s.as_str()).collect();
    let outs = match scan_multi(&src, &drefs, &irefs, None) { Ok(o) => o, Err(e) => { stats.inc("multi_rejected_by_compiler");
        if std::env::var("C01_SHOW_REJECTED").is_ok() { eprintln!("rejected: {}\n  {}", src, e.lines().take(12).collect::<Vec<_>>().join("\n  ")); }
        return vec![]; } };
    stats.inc("multi_rule_sets"); stats.inc(&format!("multi_patterns_{}", pats.len()));
    let mut cases = vec![];
    for (bi, per) in outs.iter().enumerate() {
        for (pi, out) in per.iter().enumerate() {
            let p = &pats[pi]; let data = &datas[bi];
            stats.inc("multi_cases"); if bi > 0 { stats.inc("multi_second_scan_same_scanner"); }
            stats.inc(match out.matches.len() { 0 => "multi_matches_0", 1 => "multi_matches_1", _ => "multi_matches_2+" });
            let case = format!("ScanCase {} [(10%nat, false)] {} None {} {}", coq_pat(p), coq_list(data, |b| b.to_string()),
                coq_bool(out.panic.is_some() || out.bytes_wrong.is_some()),
                coq_list(&out.matches, |(s, l, k)| format!("({},{},{})", s, l, coq_key(k))));
            let replay = format!("{{\"stream\":\"scan\",\"sub_stream\":\"multi\",\"index\":{},\"shape\":{},\"tags\":{},\"data_len\":{},\"source\":{},\"ident\":{},\"prior_data_hex\":{},\"data_hex\":\"{}\",\"max_matches_per_pattern\":null,\"reported\":{},\"panic\":{}}}",
                idx, json_str(&format!("multi:{}", shape(p))), serde_json::to_string(&tags(p)).unwrap(), data.len(), json_str(&src), json_str(&idents[pi]),
                serde_json::to_string(&datas[..bi].iter().map(|d| hex(d)).collect::<Vec<_>>()).unwrap(), hex(data),
                json_str(&format!("{:?}", out.matches)), match (&out.panic, &out.bytes_wrong) { (Some(m), _) => json_str(m), (None, Some(m)) => json_str(m), _ => "null".into() });
            let key = if out.matches.is_empty() { String::new() } else { format!("f|{}|{}", yara_pat(p), hex(data)) };
            cases.push((case, replay, key));
        }
    }
    cases
}

fn main() { let args: Vec<String> = std::env::args().skip(1).collect(); std::process::exit(run(&args)); }

pub fn run(args: &[String]) -> i32 {
    quiet_panics();
    if let Some(path) = arg_val(args, "--dump") {
        // print the sub-patterns and atoms of the compiled rules
        let src = std::fs::read_to_string(&path).expect("source file");
        let mut c = yara_x::Compiler::new();
        if let Err(e) = c.add_source(src.as_str()) { println!("error: {e}"); return 1; }
        let rules = c.build();
        let (sps, atoms, anchored) = rules.verif_c01_dump();
        for (i, sp) in sps.iter().enumerate() { println!("sp {} {:?}", i, sp); }
        for (i, a) in atoms.iter().enumerate() { println!("atom {} {:?}", i, a); }
        println!("anchored {:?}", anchored);
        return 0;
    }
    if let Some(path) = arg_val(args, "--probe") {
        // replay: compile the given source, scan the given data, print what is reported for $a of rule r
        let src = std::fs::read_to_string(&path).expect("source file");
        let data = unhex(&arg_val(args, "--data-hex").unwrap_or_default());
        let mm = arg_val(args, "--max").and_then(|v| v.parse().ok());
        let ident = arg_val(args, "--ident").unwrap_or("$a".into());
        // buffers scanned before with the same scanner (comma separated hex)
        let prior: Vec<Vec<u8>> = arg_val(args, "--prior-hex").map(|v| v.split(',').filter(|x| !x.is_empty()).map(unhex).collect()).unwrap_or_default();
        let mut datas: Vec<&[u8]> = prior.iter().map(|d| &d[..]).collect(); datas.push(&data);
        match scan_multi(&src, &datas, &[ident.as_str()], mm) {
            Ok(mut o) => { let o = o.pop().unwrap().remove(0);
                if args.iter().any(|a| a == "--trace") { println!("trace={:?}", o.trace); }
                println!("reported={:?} panic={:?} bytes={:?}", o.matches, o.panic, o.bytes_wrong); return 0; }
            Err(e) => { println!("error: {e}"); return 1; }
        }
    }
    let seed = arg_u64(args, "--seed", 1);
    let n = arg_u64(args, "--n", 600) as usize;
    let out = arg_val(args, "--out").expect("--out");
    let only = arg_val(args, "--stream");
    let prelude = "From Coq Require Import List NArith ZArith Bool.\nFrom YV Require Import Pat.Syntax Pat.MatchList Pat.C01Check.\nImport ListNotations.\nLocal Open Scope N_scope.\n";
    let mut shards = Shards::new(Path::new(&out), prelude, 60);
    let mut rng = Rng::new(seed);
    let mut stats = Stats::default();
    let mut distinct = std::collections::HashSet::new();
    let mut samples = vec![];
    let mut rejected = 0usize;
    let mut idx = 0usize;
    if only.as_deref() != Some("b") {
        // the unit test of matches.rs, and the witness of add_keeps_longest_refuted (the tail arm
        // overwrites the end without comparing; the binary-search arm keeps the maximum)
        for adds in [vec![(2, 10, None, false), (1, 10, None, false), (1, 15, None, true), (4, 10, None, false), (3, 10, None, false), (5, 10, None, false)],
                     vec![(1, 15, None, true), (1, 10, None, true)],
                     vec![(1, 15, None, true), (2, 3, None, true), (1, 10, None, true)]] {
            let (case, replay, _) = list_case(5, &adds);
            stats.inc("corpus"); shards.push(case, replay);
        }
    }
    if only.as_deref() != Some("a") {
        for (p, data, mm) in corpus() {
            idx += 1;
            match scan_case(&p, &data, 0, 0, mm, idx) {
                Ok((case, replay, _)) => { stats.inc("corpus"); shards.push(case, replay); }
                Err(e) => { eprintln!("c01: corpus case rejected: {e}\n{}", rule_source(&p, 0, 0)); return 2; }
            }
        }
    }
    if only.is_none() || only.as_deref() == Some("c") {
        // stream (c): about 30% of the cases, in rotation: 2 x c2 (kernels), 1 x c1 (jump + mask), 1 x c3 (masked literals), 2 x c4 (one-bit perturbations)
        let budget = if only.is_some() { n } else { shards.total + n * 3 / 10 };
        let mut round = 0usize;
        while shards.total < budget.min(n) {
            round += 1; idx += 1;
            let cond = rng.below(CONDS.len() as u64) as usize;
            let push = |p: &Pat, data: &[u8], noise: usize, tag: &str, stats: &mut Stats, shards: &mut Shards, distinct: &mut std::collections::HashSet<String>| -> bool {
                match scan_case(p, data, cond, noise, None, idx) {
                    Ok((case, replay, o)) => {
                        stats.inc(tag); stats.add(&format!("{}_matches", tag), o.matches.len() as u64);
                        if !o.matches.is_empty() { distinct.insert(format!("{}|{}", yara_pat(p), hex(data))); }
                        shards.push(case, replay); true }
                    Err(e) => { eprintln!("c01: directed pattern rejected: {e}\n{}", rule_source(p, cond, noise)); false }
                }
            };
            match round % 8 {
                0 => { let (p, d) = directed_jump_mask(&mut rng, (round / 8) % 2 == 0);
                       if !push(&p, &d, 0, if (round / 8) % 2 == 0 { "directed_jump_mask_fwd" } else { "directed_jump_mask_bck" }, &mut stats, &mut shards, &mut distinct) { return 2; } }
                2 | 4 => { let (p, bufs, fam) = directed_perturb(&mut rng, round / 4);
                       for d in bufs { if !push(&p, &d, 0, "directed_one_bit_perturbations", &mut stats, &mut shards, &mut distinct) { return 2; } }
                       stats.inc(&format!("perturb_{}", fam)); }
                1 => { let len = MASKED_LITERAL_LENGTHS[(round / 8) % MASKED_LITERAL_LENGTHS.len()];
                       let (p, bufs) = directed_masked_literal(&mut rng, len);
                       for d in bufs { if !push(&p, &d, 0, "directed_masked_literal", &mut stats, &mut shards, &mut distinct) { return 2; } } }
                6 => { let (p, bufs, fam) = directed_assert(&mut rng, round / 8);
                       for d in bufs { if !push(&p, &d, 0, "directed_assertion_next_to_atom", &mut stats, &mut shards, &mut distinct) { return 2; } }
                       stats.inc(&format!("assert_{}", fam)); }
                5 => { let (p, bufs, fam) = directed_masked_regexp(&mut rng, round / 8);
                       for d in bufs { if !push(&p, &d, 0, "directed_masked_literal_regexp", &mut stats, &mut shards, &mut distinct) { return 2; } }
                       stats.inc(&format!("masked_regexp_{}", fam)); }
                7 => { let (p, bufs, fam) = directed_consecutive_jumps(&mut rng);
                       for d in bufs { if !push(&p, &d, 0, "directed_consecutive_jumps", &mut stats, &mut shards, &mut distinct) { return 2; } }
                       stats.inc(&format!("consecutive_jumps_{}", fam)); }
                _ => { let (p, d, noise) = directed_teddy(&mut rng);
                       let tag = match noise + 1 { 1..=32 => "directed_kernel_le_32_atoms", 33..=64 => "directed_kernel_33_64_atoms", _ => "directed_kernel_over_64_atoms" };
                       if !push(&p, &d, noise, tag, &mut stats, &mut shards, &mut distinct) { return 2; } }
            }
        }
    }
    if only.is_none() || only.as_deref() == Some("d") {
        // stream (d): about 15% of the cases
        let budget = if only.is_some() { n } else { shards.total + n * 15 / 100 };
        let mut tries = 0;
        while shards.total < budget.min(n) && tries < 20 * n {
            tries += 1; idx += 1;
            if let Some((case, replay, key)) = pipe_case(&mut rng, idx, &mut stats) {
                if !key.is_empty() { distinct.insert(key); }
                shards.push(case, replay);
            }
        }
    }
    if only.is_none() || only.as_deref() == Some("e") {
        // stream (e): about 12% of the cases
        let budget = if only.is_some() { n } else { shards.total + n * 12 / 100 };
        let mut tries = 0;
        while shards.total < budget.min(n) && tries < 20 * n {
            tries += 1; idx += 1;
            let (p, pieces, nc, wide) = gen_chain(&mut rng);
            let noise = if rng.chance(1, 4) { *rng.pick(&[20usize, 40, 70]) } else { 0 };
            for _ in 0..(1 + rng.below(3)) {
                let data = gen_chain_buffer(&pieces, nc, wide, &mut rng);
                if let Some((case, replay, key)) = chain_case(&p, &data, noise, idx, &mut stats) {
                    if !key.is_empty() { distinct.insert(key); }
                    shards.push(case, replay);
                }
            }
        }
    }
    if only.is_none() || only.as_deref() == Some("f") {
        // stream (f): about 12% of the cases
        let budget = if only.is_some() { n } else { shards.total + n * 12 / 100 };
        let mut tries = 0;
        while shards.total < budget.min(n) && tries < 20 * n {
            tries += 1; idx += 1;
            for (case, replay, key) in multi_cases(&mut rng, idx, &mut stats) {
                if !key.is_empty() { distinct.insert(key); }
                shards.push(case, replay);
            }
        }
    }
    if only.is_none() || only.as_deref() == Some("g") {
        // stream (g): about 8% of the cases
        let budget = if only.is_some() { n } else { shards.total + n * 8 / 100 };
        let mut tries = 0;
        while shards.total < budget.min(n) && tries < 20 * n {
            tries += 1; idx += 1;
            let p = match rng.below(10) { 0..=5 => gen_nullable_alt(&mut rng), 6 | 7 => gen_regexp(&mut rng), _ => gen_hex(&mut rng) };
            for _ in 0..(1 + rng.below(2)) {
                let data = gen_buffer(&p, &mut rng, 48);
                if let Some((case, replay, key)) = atoms_case(&p, &data, idx, &mut stats) {
                    if !key.is_empty() { distinct.insert(key); }
                    shards.push(case, replay);
                }
            }
        }
    }
    while shards.total < n {
        idx += 1;
        let stream_a = match only.as_deref() { Some("a") => true, Some("b") => false, _ => rng.chance(1, 5) };
        if stream_a {
            let (case, replay, key) = gen_ml_case(&mut rng, &mut stats);
            distinct.insert(key);
            shards.push(case, replay);
            continue;
        }
        let p = match rng.below(10) { 0..=3 => gen_text(&mut rng), 4..=6 => gen_hex(&mut rng), _ => gen_regexp(&mut rng) };
        let has_big = shape(&p).contains("biggap");
        let limit = match &p { Pat::Hex(_) if has_big => 280, Pat::Regexp(..) => 48, _ => if rng.chance(1, 10) { 120 } else { 48 } };
        let cond = rng.below(CONDS.len() as u64) as usize;
        // rule-set sizes on both sides of the kernel thresholds (32 / 64 atoms)
        let noise = if rng.chance(1, 3) { *rng.pick(&[3usize, 7, 20, 31, 32, 39, 47, 62, 63, 64, 70]) } else { 0 };
        // several buffers per pattern
        let nbuf = 1 + rng.below(3) as usize;
        for _ in 0..nbuf {
            let data = gen_buffer(&p, &mut rng, limit);
            let mm = if rng.chance(1, 10) { Some(1 + rng.below(3) as usize) } else { None };
            match scan_case(&p, &data, cond, noise, mm, idx) {
                Ok((case, replay, o)) => {
                    let sh = shape(&p);
                    stats.inc(&format!("kind_{}", sh.split(':').next().unwrap()));
                    for f in sh.split(':').nth(1).unwrap_or("").split('+').filter(|f| !f.is_empty()) { stats.inc(&format!("feat_{}", f)); }
                    stats.inc(match o.matches.len() { 0 => "matches_0", 1 => "matches_1", 2..=4 => "matches_2-4", _ => "matches_5+" });
                    if o.matches.first().map_or(false, |m| m.0 == 0) { stats.inc("match_at_offset_0"); }
                    if o.matches.iter().any(|m| m.0 + m.1 == data.len()) { stats.inc("match_ends_at_last_byte"); }
                    if o.matches.windows(2).any(|w| w[0].0 + w[0].1 > w[1].0) { stats.inc("overlapping_matches"); }
                    if noise > 0 { stats.inc(match noise { 1..=31 => "ruleset_le_32_atoms", 32..=63 => "ruleset_33_64_atoms", _ => "ruleset_over_64_atoms" }); }
                    if mm.is_some() { stats.inc("with_max_matches"); }
                    if o.panic.is_some() { stats.inc("scan_panicked"); }
                    if data.len() > 200 { stats.inc("data_over_200"); }
                    if !o.matches.is_empty() { distinct.insert(format!("{}|{}", yara_pat(&p), hex(&data))); }
                    if samples.len() < 3 && o.matches.len() >= 2 && noise == 0 { samples.push(replay.clone()); }
                    shards.push(case, replay);
                }
                Err(e) => {
                    rejected += 1; stats.inc("rejected_by_compiler");
                    if std::env::var("C01_SHOW_REJECTED").is_ok() { eprintln!("rejected: {}\n  {}", yara_pat(&p), e.lines().take(12).collect::<Vec<_>>().join("\n  ")); }
                    break;
                }
            }
            if shards.total >= n { break; }
        }
        if rejected > 20 + n { eprintln!("c01: too many generated patterns are rejected by the compiler"); return 2; }
    }
    shards.flush();
    println!("{{\"evaluations\":{},\"distinct_nontrivial\":{},\"shards\":{},\"distribution\":{},\"samples\":[{}]}}",
        shards.total, distinct.len(), shards.shard_count, stats.json(), samples.join(","));
    0
}
