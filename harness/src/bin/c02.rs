//! C02 probe (temporary skeleton): compile a source, scan hex data, print matching rules.
use verif_harness::util::*;
use std::panic::AssertUnwindSafe;

fn main() {
    let args: Vec<String> = std::env::args().skip(1).collect();
    quiet_panics();
    let src = std::fs::read_to_string(arg_val(&args, "--src").unwrap()).unwrap();
    let data = unhex(&arg_val(&args, "--hex").unwrap_or_default());
    let r = catch(AssertUnwindSafe(|| {
        let mut c = yara_x::Compiler::new();
        c.define_global("gi", 7i64).unwrap();
        c.define_global("gb", true).unwrap();
        c.define_global("gs", "Hello").unwrap();
        for part in src.split("//NS") {
            if let Some(rest) = part.strip_prefix(' ') {
                let (ns, body) = rest.split_once('\n').unwrap();
                c.new_namespace(ns.trim());
                if let Err(e) = c.add_source(body) { return format!("ERR {}", e); }
            } else if let Err(e) = c.add_source(part) { return format!("ERR {}", e); }
        }
        let rules = c.build();
        let mut s = yara_x::Scanner::new(&rules);
        let res = s.scan(&data).unwrap();
        let v: Vec<String> = res.matching_rules().include_private(true).map(|r| format!("{}:{}", r.namespace(), r.identifier())).collect();
        format!("MATCH {:?}", v)
    }));
    println!("{:?}", r);
}
