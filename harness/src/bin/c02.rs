//! C02: verdicts of generated rule sets on generated buffers, written as Coq
//! cases for coq/Cond/Check.v (the documented meaning of conditions).
//!
//! c02 --seed S --n N --out DIR [--depth D]     generate cases
//! c02 --replay FILE.json                       re-run one recorded case on the implementation
#[path = "../cond_gen.rs"]
mod cond_gen;
#[path = "../wasm_read.rs"]
mod wasm_read;
use cond_gen::*;
use verif_harness::util::*;
use std::path::Path;

fn bx(e: E) -> Box<E> { Box::new(e) }

struct Case { rules: Vec<RuleSpec>, data: Vec<u8>, globals: Vec<GV>, compile_globals: Vec<GV>, per_rule: bool, stream: Stream }

fn unique_texts(rng: &mut Rng, n: usize) -> Vec<Vec<u8>> {
    let mut v: Vec<Vec<u8>> = vec![];
    while v.len() < n { let t = gen_pattern_text(rng); if !v.contains(&t) { v.push(t); } }
    v
}

/// regression for finding 10 (repaired): a constant + - * chain beyond the range in which f64 is exact
fn fold_trigger(g: &mut Gen) -> E {
    let big: [i64; 10] = [(1 << 53) + 1, (1 << 53) + 3, (1 << 54) + 2, i64::MAX - 7, i64::MAX - 1, -i64::MAX + 9, (1 << 62) + 1, 3037000499, (1 << 53) - 1, 1518500249];
    for _ in 0..50 {
        let o = *g.rng.pick(&[Op::Add, Op::Sub, Op::Mul]);
        let a = *g.rng.pick(&big);
        let b = if g.rng.chance(1, 2) { *g.rng.pick(&big) } else { g.rng.range(1, 5) };
        let mut e = E::Arith(o, bx(E::Int(a)), bx(E::Int(b)));
        if g.rng.chance(1, 3) { let o2 = *g.rng.pick(&[Op::Add, Op::Sub]); e = E::Arith(o2, bx(e), bx(E::Int(g.rng.range(1, 3)))); }
        let fl = fold_flags_of(&e, &vec![]);
        if !fl.beyond_f64 || fl.out_of_range { continue; }
        // the value exact 64-bit arithmetic gives
        fn exact(e: &E) -> i64 { match e { E::Int(z) => *z, E::Arith(o, a, b) => arith_i64(*o, exact(a), exact(b)).unwrap(), _ => unreachable!() } }
        let x = exact(&e);
        let rhs = if x == i64::MIN || g.rng.chance(1, 4) { E::Int(0) } else { E::Int(x) };
        let c = *g.rng.pick(&[Cmp::Eq, Cmp::Ne, Cmp::Lt, Cmp::Ge]);
        return E::Cmp(c, bx(e), bx(rhs));
    }
    E::Cmp(Cmp::Eq, bx(E::Arith(Op::Add, bx(E::Int((1 << 53) + 1)), bx(E::Int(1)))), bx(E::Int((1 << 53) + 2)))
}

/// regression for findings 6/11 (repaired by 2b4649c7, bf5119e4): `N of <set>` whose N is 0 (constant or at run time)
fn of_zero_trigger(g: &mut Gen) -> E {
    let n = g.npats;
    let (s, syn) = if g.rng.chance(1, 2) { ((0..n).collect::<Vec<_>>(), SetSyn::Them) } else {
        let mut s: Vec<usize> = (0..n).filter(|_| g.rng.chance(2, 3)).collect();
        if s.is_empty() { s.push(0); }
        (s, SetSyn::List(g.rng.next()))
    };
    let q = match g.rng.below(3) {
        0 => E::Int(0),
        1 => E::Arith(Op::Sub, bx(E::Filesize), bx(E::Int(g.fsize))),
        _ => { let p = P::Id(g.rng.below(n as u64) as usize); E::Arith(Op::Sub, bx(E::Count(p, None)), bx(E::Count(p, None))) }
    };
    E::Of(Q::Expr(bx(q)), s, syn, A::None)
}

/// regression (repaired by e5009a16): the call to search_for_patterns used to be emitted once per
/// and/or operand list, at the first pattern operation; here that site is skipped at run time (an undefined
/// value or an empty range comes first) and a later pattern operation reads no matches
fn lazy_trigger(g: &mut Gen) -> E {
    let n = g.npats as u64;
    let p = P::Id(g.rng.below(n) as usize);
    let p2 = P::Id(g.rng.below(n) as usize);
    let undef = E::Read(IntKind { bytes: 1, signed: false, be: false }, bx(E::Arith(Op::Add, bx(E::Filesize), bx(E::Int(g.rng.range(0, 4))))));
    let site = if g.rng.chance(1, 2) { E::Count(p, None) } else { E::Offset(p, None) };
    let first = match g.rng.below(3) {
        0 => E::Cmp(*g.rng.pick(&[Cmp::Gt, Cmp::Eq, Cmp::Le]), bx(undef), bx(site)),
        1 => E::ForRange(Q::Expr(bx(E::Arith(Op::Add, bx(site), bx(E::Int(1))))), 0, bx(E::Int(3)), bx(E::Arith(Op::Sub, bx(E::Filesize), bx(E::Int(g.fsize)))), bx(E::Bool(true))),
        _ => E::OfB(Q::None, vec![E::Bool(true), E::Cmp(Cmp::Ge, bx(site), bx(E::Int(0)))]),
    };
    let second = match g.rng.below(3) { 0 => E::Pat(p2, A::None), 1 => E::Cmp(Cmp::Gt, bx(E::Count(p2, None)), bx(E::Int(0))), _ => E::Of(Q::Any, (0..g.npats).collect(), SetSyn::Them, A::None) };
    E::Or(bx(first), bx(second))
}

/// more than 64 variable slots, some of them holding undefined values
fn deep_trigger(g: &mut Gen, target: usize) -> E {
    if g.slots >= target { return g.gen_bool(2); }
    match g.rng.below(6) {
        0 | 1 | 2 => {
            // a `with` with many declarations
            let n = 1 + g.rng.below(24) as usize;
            let mut decls = vec![]; let mut infos = vec![];
            for _ in 0..n {
                let x = g.next_var; g.next_var += 1;
                let e = if g.rng.chance(1, 4) { E::Read(IntKind { bytes: 1, signed: false, be: false }, bx(E::Arith(Op::Add, bx(E::Filesize), bx(E::Int(g.rng.range(0, 5)))))) }
                        else { E::Arith(Op::Add, bx(E::Filesize), bx(E::Int(g.rng.range(0, 50)))) };
                infos.push(VarInfo { name: x, ty: T::Int, cval: None, small: true });
                decls.push((x, e));
            }
            g.scope.extend(infos); g.slots += n;
            let b = deep_trigger(g, target);
            g.slots -= n; let l = g.scope.len() - n; g.scope.truncate(l);
            E::With(decls, bx(b))
        }
        3 => {
            let x = g.next_var; g.next_var += 1;
            let lo = g.rng.range(0, 3);
            g.scope.push(VarInfo { name: x, ty: T::Int, cval: None, small: true }); g.slots += 7;
            let b = deep_trigger(g, target);
            g.slots -= 7; g.scope.pop();
            let q = *g.rng.pick(&[0, 1, 2]);
            E::ForRange(match q { 0 => Q::Any, 1 => Q::All, _ => Q::Expr(bx(E::Int(1))) }, x, bx(E::Int(lo)), bx(E::Int(lo + g.rng.range(0, 2))), bx(b))
        }
        4 => {
            let x = g.next_var; g.next_var += 1;
            let items = vec![E::Int(g.rng.range(0, 5)), E::Read(IntKind { bytes: 1, signed: false, be: false }, bx(E::Arith(Op::Add, bx(E::Filesize), bx(E::Int(1))))), E::Filesize];
            g.scope.push(VarInfo { name: x, ty: T::Int, cval: None, small: true }); g.slots += 7;
            let b = deep_trigger(g, target);
            g.slots -= 7; g.scope.pop();
            E::ForTuple(if g.rng.chance(1, 2) { Q::Any } else { Q::Expr(bx(E::Int(2))) }, x, items, bx(b))
        }
        _ => {
            g.slots += 5;
            let b = deep_trigger(g, target);
            g.slots -= 5;
            E::OfB(Q::Any, vec![E::Bool(false), b])
        }
    }
}

fn gen_case(rng: &mut Rng, stream: Stream, depth: u32) -> Case {
    let big = rng.chance(1, 12);
    let n_rules = if big { 9 + rng.below(16) as usize } else { 1 + rng.below(5) as usize };
    let n_ns = 1 + rng.below(3) as usize;
    let pool_size = if stream == Stream::OfZero { 6 * n_rules.max(2) } else { 3 + rng.below(6) as usize };
    let pool = unique_texts(rng, pool_size);
    let mut pool_next = 0usize;
    let data = gen_data(rng, &pool);
    let globals = gen_globals(rng);
    let compile_globals = if rng.chance(1, 2) { globals.clone() } else { gen_globals(rng) };
    let special_rule = if stream == Stream::Lazy { 0 } else { rng.below(n_rules as u64) as usize };
    let mut rules: Vec<RuleSpec> = vec![];
    let mut ns = 0usize;
    for i in 0..n_rules {
        if i > 0 && ns + 1 < n_ns && rng.chance(1, 3) { ns += 1; }
        let global = rng.chance(1, 8);
        let private = rng.chance(1, 5);
        let special = stream != Stream::Main && i == special_rule;
        let npats = if special && stream == Stream::OfZero { 2 + rng.below(4) as usize } else if special && stream == Stream::Lazy { 1 + rng.below(3) as usize } else if rng.chance(1, 6) { 0 } else { 1 + rng.below(4) as usize };
        let pats: Vec<Vec<u8>> = (0..npats).map(|_| if stream == Stream::OfZero { pool_next += 1; pool[pool_next - 1].clone() } else { rng.pick(&pool).clone() }).collect();
        let refs: Vec<usize> = (0..i).filter(|j| rules[*j].ns == ns && (!global || rules[*j].global)).collect();
        let mut g = Gen { rng, npats, fsize: data.len() as i64, scope: vec![], for_of: 0, refs, next_var: 0, slots: 0,
                          max_slots: 58, budget: 30 + 10 * depth as i32, stream: if special { stream } else { Stream::Main }, zero_of: true, iters: 1 };
        let d = if big { depth.min(2) } else { depth };
        let cond = if !special { g.gen_bool(d) } else {
            let t = match stream {
                Stream::Fold => fold_trigger(&mut g),
                Stream::OfZero => of_zero_trigger(&mut g),
                Stream::Lazy => lazy_trigger(&mut g),
                Stream::Deep => { g.max_slots = 100; let target = 65 + g.rng.below(14) as usize; deep_trigger(&mut g, target) }
                Stream::Main => unreachable!(),
            };
            if stream == Stream::Deep || stream == Stream::Lazy { t } else {
                match g.rng.below(5) {
                    0 => E::Not(bx(t)),
                    1 => { let o = g.gen_bool(1); E::And(bx(t), bx(o)) }
                    2 => { let o = g.gen_bool(1); E::Or(bx(o), bx(t)) }
                    _ => t,
                }
            }
        };
        rules.push(RuleSpec { ns, global, private, pats, cond });
    }
    Case { rules, data, globals, compile_globals, per_rule: rng.chance(1, 2), stream }
}


// ------------------------------------------------------------ the emitted code
/// Coq constructor (Cond/Wasm.v wfn) of a function of the emitted module
fn wasm_fn_name(m: &wasm_read::Module, idx: usize) -> String {
    if idx < m.imported_funcs.len() {
        let full = &m.imported_funcs[idx];
        let name = full.rsplit('.').next().unwrap_or("").split('@').next().unwrap_or("");
        let read = |n: &str| -> Option<String> {
            let (signed, r) = match n.strip_prefix("uint") { Some(r) => (false, r), None => (true, n.strip_prefix("int")?) };
            let (be, bits) = match r.strip_suffix("be") { Some(b) => (true, b), None => (false, r) };
            let bytes = match bits { "8" => 1, "16" => 2, "32" => 4, _ => return None };
            Some(format!("(WfReadInt {}%nat {} {})", bytes, coq_bool(signed), coq_bool(be)))
        };
        match name {
            "search_for_patterns" => "WfSearch".into(), "rule_match" => "WfRuleMatch".into(), "rule_no_match" => "WfRuleNoMatch".into(),
            "lookup_integer" => "WfLookupInt".into(), "lookup_bool" => "WfLookupBool".into(), "lookup_string" => "WfLookupString".into(),
            "is_pat_match_at" => "WfMatchAt".into(), "is_pat_match_in" => "WfMatchIn".into(), "pat_matches" => "WfMatches".into(),
            "pat_matches_in" => "WfMatchesIn".into(), "pat_offset" => "WfOffset".into(), "pat_length" => "WfLength".into(),
            "pat_range_match" => "WfRangeMatch".into(),
            n => read(n).unwrap_or_else(|| format!("(WfOther {}%nat)", idx)),
        }
    } else {
        // the module's own check_for_pattern_match(pattern_id): the only defined function with a
        // parameter; it reads the bitmap whose base is the first imported global
        let f = &m.funcs[idx - m.imported_funcs.len()];
        let reads_bitmap = f.body.iter().any(|w| matches!(w, wasm_read::W::Op(0x23, v) if m.imported_globals.get(v[0] as usize).map(|g| g.ends_with("matching_patterns_bitmap_base")).unwrap_or(false)));
        if f.n_params == 1 && reads_bitmap { "WfCheckMatch".into() } else { format!("(WfOther {}%nat)", idx) }
    }
}
fn wasm_arity(bt: i64) -> usize { if bt == -1 { 0 } else if (0x7c..=0x7f).contains(&bt) { 1 } else { 9 } }
fn wasm_coq(m: &wasm_read::Module, ws: &[wasm_read::W]) -> String {
    use wasm_read::W;
    coq_list(ws, |w| match w {
        W::Block(bt, b) => format!("(WBlock {}%nat {})", wasm_arity(*bt), wasm_coq(m, b)),
        W::Loop(bt, b) => format!("(WLoop {}%nat {})", wasm_arity(*bt), wasm_coq(m, b)),
        W::If(bt, t, e) => format!("(WIf {}%nat {} {})", wasm_arity(*bt), wasm_coq(m, t), wasm_coq(m, e)),
        W::Op(op @ 0x20..=0x22, v) => format!("(WLocal {} {}%nat)", op, v[0]),
        W::Op(0x23, v) => match m.imported_globals.get(v[0] as usize).map(|s| s.as_str()) {
            Some("yara_x.filesize") => "(WGlobalGet WgFilesize)".into(), Some("yara_x.pattern_search_done") => "(WGlobalGet WgSearchDone)".into(),
            _ => format!("(WGlobalGet (WgOther {}%nat))", v[0]) },
        W::Op(0x10, v) => format!("(WCall {})", wasm_fn_name(m, v[0] as usize)),
        W::Op(op @ 0x28..=0x3e, v) => format!("(WOp {} [{}])", op, v[1]),
        W::Op(op, v) => format!("(WOp {} {})", op, coq_list(v, |z| if *z < 0 { format!("({})", z) } else { format!("{}", z) })),
    })
}
fn wasm_count(ws: &[wasm_read::W]) -> u64 {
    use wasm_read::W;
    ws.iter().map(|w| match w { W::Block(_, b) | W::Loop(_, b) => 1 + wasm_count(b), W::If(_, t, e) => 1 + wasm_count(t) + wasm_count(e), _ => 1 }).sum()
}
/// the `block` emit_rule_condition opened for every rule: rule id -> that block.  In the
/// functions that hold the rules every rule is `block (result i32) .. end; i32.eqz; if .. else ..
/// rule_match(<rule id>) .. end` at the top level.
fn rule_blocks(m: &wasm_read::Module) -> Result<std::collections::BTreeMap<usize, wasm_read::W>, String> {
    use wasm_read::W;
    let rule_match = m.imported_funcs.iter().position(|f| f.contains(".rule_match@"));
    let mut out = std::collections::BTreeMap::new();
    let Some(rm) = rule_match else { return Ok(out) };
    fn matched_rule(ws: &[W], rm: usize) -> Option<usize> {
        for k in 1..ws.len() { if let (W::Op(0x41, c), W::Op(0x10, f)) = (&ws[k - 1], &ws[k]) { if f[0] as usize == rm { return Some(c[0] as usize); } } }
        None
    }
    for f in &m.funcs {
        for k in 2..f.body.len() {
            if let (W::Block(0x7f, _), W::Op(0x45, _), W::If(_, t, e)) = (&f.body[k - 2], &f.body[k - 1], &f.body[k]) {
                if let Some(r) = matched_rule(e, rm).or_else(|| matched_rule(t, rm)) {
                    if out.insert(r, f.body[k - 2].clone()).is_some() { return Err(format!("two blocks for rule {}", r)); }
                }
            }
        }
    }
    Ok(out)
}

// ------------------------------------------------- probes outside the Coq protocol
/// compiles one source, scans, returns the names of the matching rules
fn scan_names(src: &str, data: &[u8]) -> Result<Vec<String>, String> {
    catch(std::panic::AssertUnwindSafe(|| {
        let mut c = yara_x::Compiler::new();
        c.add_source(src).map_err(|e| e.to_string())?;
        let rules = c.build();
        let mut s = yara_x::Scanner::new(&rules);
        let res = s.scan(data).map_err(|e| e.to_string())?;
        let mut v: Vec<String> = res.matching_rules().map(|r| r.identifier().to_string()).collect();
        v.sort();
        Ok(v)
    })).unwrap_or_else(|p| Err(format!("panic: {}", p)))
}
/// Floats are outside the model; one pair is pinned here: addition is commutative, so a
/// parenthesised integer sum must contribute the same value on either side of a float.  Returns
/// a finding (JSON) when the two verdicts differ.
fn float_probe() -> Option<String> {
    let src = "rule sum_on_the_left { condition: (filesize + 9223372036854775807) + 0.5 > 0 }\nrule sum_on_the_right { condition: 0.5 + (filesize + 9223372036854775807) > 0 }\n";
    let data = b"a";
    match scan_names(src, data) {
        Ok(v) if v.contains(&"sum_on_the_left".to_string()) != v.contains(&"sum_on_the_right".to_string()) =>
            Some(format!("{{\"fingerprint\":\"C02:mixed-int-float-chain-ignores-grouping\",\"source\":{},\"data_hex\":\"{}\",\"matching\":{:?},\"expected\":\"both rules or neither: the two conditions add the same two values\"}}",
                         json_str(src), hex(data), v)),
        Ok(_) => None,
        Err(e) => Some(format!("{{\"fingerprint\":\"C02:float-probe-failed\",\"error\":{}}}", json_str(&e))),
    }
}
/// Regular expressions are outside the model; one pair is pinned here: `/k/i` and `/(k)/i` are the
/// same regular expression, so `x matches` either must agree for every x (the first is a literal
/// and gets rewritten by the compiler, the second is matched as a regexp).
fn regexp_probe() -> Option<String> {
    let src = "rule literal { condition: gs0 matches /k/i }\nrule group { condition: gs0 matches /(k)/i }\nrule literal2 { condition: gs1 matches /caf\\xc3\\xa9/i }\nrule group2 { condition: gs1 matches /(caf\\xc3\\xa9)/i }\n";
    let r = catch(std::panic::AssertUnwindSafe(|| {
        let mut c = yara_x::Compiler::new();
        c.define_global("gs0", "").map_err(|e| e.to_string())?;
        c.define_global("gs1", "").map_err(|e| e.to_string())?;
        c.add_source(src).map_err(|e| e.to_string())?;
        let rules = c.build();
        let mut s = yara_x::Scanner::new(&rules);
        s.set_global("gs0", &b"\xe2\x84\xaa"[..]).map_err(|e| e.to_string())?;
        s.set_global("gs1", &b"CAF\xc3\x89"[..]).map_err(|e| e.to_string())?;
        let res = s.scan(b"a").map_err(|e| e.to_string())?;
        let mut v: Vec<String> = res.matching_rules().map(|r| r.identifier().to_string()).collect();
        v.sort();
        Ok::<_, String>(v)
    })).unwrap_or_else(|p| Err(format!("panic: {}", p)));
    match r {
        Ok(v) if v.contains(&"literal".to_string()) != v.contains(&"group".to_string()) || v.contains(&"literal2".to_string()) != v.contains(&"group2".to_string()) =>
            Some(format!("{{\"fingerprint\":\"C02:case-insensitive-literal-regexp-rewritten-to-icontains\",\"source\":{},\"gs0_hex\":\"e284aa\",\"gs1_hex\":\"434146c389\",\"matching\":{:?},\"expected\":\"literal iff group, literal2 iff group2: the same regular expressions\"}}", json_str(src), v)),
        Ok(_) => None,
        Err(e) => Some(format!("{{\"fingerprint\":\"C02:regexp-probe-failed\",\"error\":{}}}", json_str(&e))),
    }
}
/// conditions outside the modelled language whose verdict is known by construction (the
/// test_proto2 module fills its maps with fixed values whatever the data): a `for k, v in <map>`
/// loop must not depend on what an earlier `with` left in the slots its variables reuse
fn expectation_probe() -> Vec<String> {
    let src = "import \"test_proto2\"\nrule map_after_with { condition: (with a = 1, b = 2, c = 3, d = 4, e = 5, f = uint8(filesize + 9), g = uint8(filesize + 9) : (f == 1 or g == 1)) or for any k, v in test_proto2.map_string_int64 : (k == \"one\" and v == 1) }\nrule with_first { condition: with a = 1, b = 2, c = 3, d = 4, e = 5, f = uint8(filesize + 9), g = uint8(filesize + 9) : (not defined f and not defined g) }\nrule map_after_rule { condition: for all k, v in test_proto2.map_string_bool : (v) and for any k, v in test_proto2.map_int64_string : (k == 100) }\nrule map_alone_false { condition: for any k, v in test_proto2.map_string_int64 : (v == 7) }\n";
    let expected = vec!["map_after_rule".to_string(), "map_after_with".to_string(), "with_first".to_string()];
    match scan_names(src, b"abc") {
        Ok(v) if v == expected => vec![],
        Ok(v) => vec![format!("map loops after a `with` with undefined identifiers: expected {:?} to match, the implementation says {:?}; source:\n{}", expected, v, src)],
        Err(e) => vec![format!("map-loop probe failed: {}", e)],
    }
}

fn corpus() -> Vec<Case> {
    let g0 = vec![GV::I(7), GV::I(-1), GV::B(true), GV::B(false), GV::S(b"Hello".to_vec()), GV::S(b"".to_vec())];
    let mk = |rules: Vec<RuleSpec>, data: &[u8], stream| Case { rules, data: data.to_vec(), globals: g0.clone(), compile_globals: g0.clone(), per_rule: true, stream };
    let r = |ns, global, private, pats: Vec<&[u8]>, cond| RuleSpec { ns, global, private, pats: pats.into_iter().map(|p| p.to_vec()).collect(), cond };
    let undef = || E::Read(IntKind { bytes: 1, signed: false, be: false }, bx(E::Arith(Op::Add, bx(E::Filesize), bx(E::Int(5)))));
    // run-time shift counts around the `< 64` guard of emit_shift_op!, for both shifts and
    // the extreme left operands: each rule states the value 64-bit arithmetic gives
    let mut shift_rules = vec![];
    {
        let data_len = 3i64;
        let rt = |c: i64| -> E {
            let base = E::Arith(Op::Sub, bx(E::Filesize), bx(E::Int(data_len)));
            if c == 0 { base } else if c == i64::MIN { E::Arith(Op::Sub, bx(E::Arith(Op::Sub, bx(base), bx(E::Int(i64::MAX)))), bx(E::Int(1))) }
            else if c > 0 { E::Arith(Op::Add, bx(base), bx(E::Int(c))) } else { E::Arith(Op::Sub, bx(base), bx(E::Int(-c))) }
        };
        for op in [Op::Shl, Op::Shr] {
            for lhs in [1i64, -1, i64::MIN, i64::MAX] {
                for c in SHIFT_COUNTS {
                    let expected = arith_i64(op, lhs, c).unwrap();
                    let l = if lhs == i64::MIN { rt(lhs) } else { E::Int(lhs) };
                    shift_rules.push(r(0, false, false, vec![], E::Cmp(Cmp::Eq, bx(E::Arith(op, bx(l), bx(rt(c)))), bx(rt(expected)))));
                }
            }
        }
    }
    // percentage quantifiers where n * P is an exact multiple of 100 (ceil (n * P / 100) items are
    // needed: exactly that many true iterations satisfy it, one less does not), constant and
    // run-time percentages, over ranges and over a pattern set
    let mut pct_rules = vec![];
    {
        let rt = |c: i64| -> E { E::Arith(Op::Add, bx(E::Arith(Op::Sub, bx(E::Filesize), bx(E::Int(3)))), bx(E::Int(c))) };
        for (n, p) in [(25i64, 28i64), (25, 56), (100, 7), (50, 14), (20, 35), (10, 10), (11, 50), (7, 100), (3, 0)] {
            let need = (n * p + 99) / 100;
            for k in [need, need - 1] {
                if k < 0 { continue; }
                for q in [E::Int(p), rt(p)] {
                    pct_rules.push(r(0, false, false, vec![], E::ForRange(Q::Pct(bx(q)), 0, bx(E::Int(1)), bx(E::Int(n)), bx(E::Cmp(Cmp::Le, bx(E::Var(0)), bx(E::Int(k)))))));
                }
            }
        }
        // 25 patterns, 7 of them present: 28% of them is satisfied, 32% is not
        let pats: Vec<Vec<u8>> = (0..25).map(|i| format!("Q{:02}q", i).into_bytes()).collect();
        for p in [28i64, 32] {
            let mut rr = r(0, false, false, vec![], E::Of(Q::Pct(bx(E::Int(p))), (0..25).collect(), SetSyn::Them, A::None));
            rr.pats = pats.clone();
            pct_rules.push(rr);
        }
    }
    let pct_data: Vec<u8> = (0..7).flat_map(|i| format!("Q{:02}q", i * 3).into_bytes()).collect();
    // `N of (<boolean>, ..)` with an undefined item in every position (regression for commit 99b031b0:
    // the verdict must not depend on the order of the items), `with` with several declarations of
    // which one is undefined
    let tuple_rules = vec![
        r(0, false, false, vec![], E::OfB(Q::Expr(bx(E::Int(1))), vec![E::Bool(true), E::Cmp(Cmp::Eq, bx(undef()), bx(E::Int(1)))])),
        r(0, false, false, vec![], E::OfB(Q::Expr(bx(E::Int(1))), vec![E::Cmp(Cmp::Eq, bx(undef()), bx(E::Int(1))), E::Bool(true)])),
        r(0, false, false, vec![], E::OfB(Q::None, vec![E::Cmp(Cmp::Eq, bx(undef()), bx(E::Int(1))), E::Bool(false)])),
        r(0, false, false, vec![], E::With(vec![(0, undef()), (1, E::Arith(Op::Add, bx(E::Filesize), bx(E::Int(2))))], bx(E::Or(bx(E::Cmp(Cmp::Eq, bx(E::Var(1)), bx(E::Int(5)))), bx(E::Cmp(Cmp::Eq, bx(E::Var(0)), bx(E::Int(1)))))))),
        r(0, false, false, vec![], E::With(vec![(0, E::Arith(Op::Add, bx(E::Filesize), bx(E::Int(2)))), (1, undef())], bx(E::Or(bx(E::Cmp(Cmp::Eq, bx(E::Var(0)), bx(E::Int(5)))), bx(E::Cmp(Cmp::Eq, bx(E::Var(1)), bx(E::Int(1)))))))),
    ];
    // every folding builder of ir/mod.rs with operands at the sign / width boundaries, both
    // operands constant (folded by the compiler) and the left one manufactured at run time (the
    // emitted code): each rule states the value 64-bit arithmetic gives (arith_i64 above)
    let mut fold_cases: Vec<Vec<RuleSpec>> = vec![];
    {
        let data_len = 3i64;
        let rt = |c: i64| -> E {
            let base = E::Arith(Op::Sub, bx(E::Filesize), bx(E::Int(data_len)));
            if c == 0 { base } else if c == i64::MIN { E::Arith(Op::Sub, bx(E::Arith(Op::Sub, bx(base), bx(E::Int(i64::MAX)))), bx(E::Int(1))) }
            else if c > 0 { E::Arith(Op::Add, bx(base), bx(E::Int(c))) } else { E::Arith(Op::Sub, bx(base), bx(E::Int(-c))) }
        };
        // a constant the compiler folds to c (i64::MIN has no literal)
        let k = |c: i64| -> E { if c == i64::MIN { E::Arith(Op::Sub, bx(E::Int(-i64::MAX)), bx(E::Int(1))) } else { E::Int(c) } };
        let lefts = [0i64, 1, -1, -8, 255, i64::MAX, i64::MIN];
        let mut rules = vec![];
        for op in [Op::Add, Op::Sub, Op::Mul, Op::Shl, Op::Shr, Op::BAnd, Op::BOr, Op::BXor] {
            let rights: Vec<i64> = if matches!(op, Op::Shl | Op::Shr) { vec![0, 1, 31, 63, 64, 65, 128] } else { vec![0, 1, -1, 2, i64::MAX, i64::MIN] };
            for a in lefts {
                for &b in &rights {
                    let expected = arith_i64(op, a, b).unwrap();
                    let overflows = match op { Op::Add => a.checked_add(b).is_none(), Op::Sub => a.checked_sub(b).is_none(), Op::Mul => a.checked_mul(b).is_none(), _ => false };
                    // constant operands (a constant chain that overflows is a compile error)
                    if !overflows { rules.push(r(0, false, false, vec![], E::Cmp(Cmp::Eq, bx(E::Arith(op, bx(k(a)), bx(k(b)))), bx(rt(expected))))); }
                    // the same computed by the emitted code
                    if overflows || a.wrapping_add(b).rem_euclid(3) == 0 { rules.push(r(0, false, false, vec![], E::Cmp(Cmp::Eq, bx(E::Arith(op, bx(rt(a)), bx(k(b)))), bx(rt(expected))))); }
                }
            }
        }
        for a in lefts {
            if a != i64::MIN { rules.push(r(0, false, false, vec![], E::Cmp(Cmp::Eq, bx(E::Neg(bx(k(a)))), bx(rt(a.wrapping_neg()))))); }
            rules.push(r(0, false, false, vec![], E::Cmp(Cmp::Eq, bx(E::BitNot(bx(k(a)))), bx(rt(!a)))));
            rules.push(r(0, false, false, vec![], E::Cmp(Cmp::Eq, bx(E::Neg(bx(rt(a)))), bx(rt(a.wrapping_neg())))));
        }
        for chunk in rules.chunks(40) { fold_cases.push(chunk.to_vec()); }
    }
    // every string operator on operands that are not ASCII, known only at scan time (external
    // variables defined with other values at compile time): case pairs as prefix / suffix / infix /
    // equal / near miss, the sigmas, U+0130, invalid UTF-8
    let mut string_cases: Vec<Case> = vec![];
    {
        let ops = [SOp::Contains, SOp::IContains, SOp::StartsWith, SOp::IStartsWith, SOp::EndsWith, SOp::IEndsWith, SOp::IEquals];
        let pairs: [(&[u8], &[u8]); 8] = [
            (b"CAF\xc3\x89", b"f\xc3\xa9"), (b"\xc3\xa9a", b"\xc3\x89"), (b"xCaf\xc3\x89x", b"AF\xc3\xa9"), (b"\xce\xa3\xce\x91\xce\xa3", b"\xcf\x83\xce\xb1\xcf\x82"),
            (b"\xc4\xb0x", b"i\xcc\x87X"), (b"\xc3A\xc3\x89", b"a\xc3\xa9"), (b"caf\xc3\xa9", b"CAF\xc3\x89"), (b"Hello \xc3\x89", b"hello"),
        ];
        for (a, b) in pairs {
            let mut rules = vec![];
            for op in ops {
                rules.push(r(0, false, false, vec![], E::StrOp(op, bx(E::Global(4)), bx(E::Global(5)))));
                rules.push(r(0, false, false, vec![], E::StrOp(op, bx(E::Global(5)), bx(E::Global(4)))));
                rules.push(r(0, false, false, vec![], E::StrOp(op, bx(E::Global(4)), bx(E::Str(b.to_vec())))));
                rules.push(r(0, false, false, vec![], E::StrOp(op, bx(E::Str(a.to_vec())), bx(E::Global(5)))));
            }
            for c in [Cmp::Eq, Cmp::Ne, Cmp::Lt, Cmp::Ge] { rules.push(r(0, false, false, vec![], E::Cmp(c, bx(E::Global(4)), bx(E::Global(5))))); }
            let scan = vec![GV::I(7), GV::I(-1), GV::B(true), GV::B(false), GV::S(a.to_vec()), GV::S(b.to_vec())];
            string_cases.push(Case { rules, data: b"abc".to_vec(), globals: scan, compile_globals: g0.clone(), per_rule: true, stream: Stream::Main });
        }
    }
    let mut out: Vec<Case> = fold_cases.into_iter().map(|c| mk(c, b"abc", Stream::Fold)).collect();
    out.extend(string_cases);
    out.extend(vec![
        mk(pct_rules, &pct_data, Stream::Main),
        mk(tuple_rules, b"abc", Stream::Main),
        mk(shift_rules, b"abc", Stream::Main),
        // finding 10 (repaired by 8b83ae6a): regression cases
        mk(vec![r(0, false, false, vec![], E::Cmp(Cmp::Eq, bx(E::Arith(Op::Add, bx(E::Int(9007199254740993)), bx(E::Int(1)))), bx(E::Int(9007199254740994))))], b"abc", Stream::Fold),
        mk(vec![r(0, false, false, vec![], E::Cmp(Cmp::Eq, bx(E::Arith(Op::Mul, bx(E::Int(9007199254740993)), bx(E::Int(3)))), bx(E::Int(27021597764222979))))], b"abc", Stream::Fold),
        mk(vec![r(0, false, false, vec![], E::Cmp(Cmp::Lt, bx(E::Arith(Op::Add, bx(E::Arith(Op::Sub, bx(E::Filesize), bx(E::Int(3)))), bx(E::Arith(Op::Add, bx(E::Int(i64::MAX - 1)), bx(E::Int(1)))))), bx(E::Int(0))))], b"abcd", Stream::Fold),
        // finding 11
        mk(vec![r(0, false, false, vec![b"abc", b"zzz"], E::Of(Q::Expr(bx(E::Int(0))), vec![0, 1], SetSyn::List(1), A::None))], b"abc", Stream::OfZero),
        // undefined-flag aliasing (repaired by 93e33409): 65 declarations, v8 undefined, v64 defined
        mk(vec![r(0, false, false, vec![], E::With((0..65).map(|i| (i, if i == 8 { undef() } else { E::Arith(Op::Add, bx(E::Filesize), bx(E::Int(i as i64))) })).collect(), bx(E::Defined(bx(E::Var(8))))))], b"abc", Stream::Deep),
        // lazy pattern search skipped by an undefined value
        mk(vec![r(0, false, false, vec![b"BAaa"], E::Or(bx(E::Cmp(Cmp::Gt, bx(undef()), bx(E::Count(P::Id(0), None)))), bx(E::Pat(P::Id(0), A::None))))], b"xxBAaa", Stream::Lazy),
        // global suppression / private / references across a 10-rule chunk boundary
        mk((0..12).map(|i| r(0, i == 11, i % 3 == 0, vec![], if i == 0 { E::Bool(true) } else if i == 11 { E::Cmp(Cmp::Gt, bx(E::Filesize), bx(E::Int(100))) } else { E::Rule(i - 1) })).collect(), b"abc", Stream::Main),
        // undefined handling
        mk(vec![r(0, false, false, vec![b"abc"], E::Or(bx(E::Cmp(Cmp::Eq, bx(undef()), bx(E::Int(1)))), bx(E::Pat(P::Id(0), A::None)))),
                r(0, false, false, vec![], E::Not(bx(E::Cmp(Cmp::Eq, bx(undef()), bx(E::Int(1)))))),
                r(0, false, false, vec![], E::Not(bx(E::Defined(bx(undef())))))], b"xxabc", Stream::Main),
    ]);
    out
}

fn main() { let args: Vec<String> = std::env::args().skip(1).collect(); std::process::exit(run(&args)); }

fn replay(path: &str) -> i32 {
    let d: serde_json::Value = serde_json::from_str(&std::fs::read_to_string(path).unwrap()).unwrap();
    let c = if d.get("case").is_some() { &d["case"] } else { &d };
    let src = c["source"].as_str().unwrap();
    let data = unhex(c["data_hex"].as_str().unwrap());
    let gl = |k: &str| -> Vec<GV> { GLOBALS.iter().map(|(n, t)| { let v = &c[k][*n]; match t { T::Int => GV::I(v.as_i64().unwrap()), T::Bool => GV::B(v.as_bool().unwrap()), T::Str => GV::S(gv_str(v)) } }).collect() };
    let mut sources: Vec<(String, String)> = vec![];
    for part in src.split("//NS ").skip(1) { let (ns, body) = part.split_once('\n').unwrap(); sources.push((ns.trim().to_string(), body.to_string())); }
    let out = run_impl(&sources, &gl("compile_globals"), &gl("globals"), &data);
    println!("implementation now: {:?}", out);
    println!("recorded: all={} public={}", c["observed_all"], c["observed_pub"]);
    println!("expected by the documented meaning: see `explain` / the model verdicts in the replay file");
    0
}

pub fn run(args: &[String]) -> i32 {
    quiet_panics();
    if let Some(p) = arg_val(args, "--replay") { return replay(&p); }
    if let Some(p) = arg_val(args, "--ir") {
        let src = std::fs::read_to_string(&p).unwrap();
        let g = gen_globals(&mut Rng::new(1));
        match compile_with_ir(&[("ns0".to_string(), src)], &g) { Ok((_, ir)) => println!("{}", ir), Err(e) => println!("ERR {}", e) }
        return 0;
    }
    if let Some(p) = arg_val(args, "--wasm") {
        let src = std::fs::read_to_string(&p).unwrap();
        let g = gen_globals(&mut Rng::new(1));
        let bytes = emitted_wasm(&[("ns0".to_string(), src)], &g).unwrap();
        let m = wasm_read::read(&bytes).unwrap();
        for (i, f) in m.imported_funcs.iter().enumerate() { println!("import {} {}", i, f); }
        for (i, f) in m.imported_globals.iter().enumerate() { println!("global {} {}", i, f); }
        for (i, f) in m.funcs.iter().enumerate() { let mut o = String::new(); wasm_read::show(&f.body, 1, &mut o); println!("func {} params={}\n{}", i + m.imported_funcs.len(), f.n_params, o); }
        return 0;
    }
    let seed = arg_u64(args, "--seed", 1);
    let n = arg_u64(args, "--n", 600) as usize;
    let depth = arg_u64(args, "--depth", 4) as u32;
    let out = arg_val(args, "--out").expect("--out");
    let prelude = "From Coq Require Import List NArith ZArith Bool.\nFrom YV Require Import Cond.Syntax Cond.Sem Cond.RuleSet Cond.IrTree Cond.Wasm Cond.Check.\nImport ListNotations.\nOpen Scope Z_scope.\n";
    let mut shards = Shards::new(Path::new(&out), prelude, 100);
    let mut rng = Rng::new(seed);
    let mut stats = Stats::default();
    let mut distinct = std::collections::HashSet::new();
    let mut samples = vec![];
    let mut corpus = corpus();
    let (mut n_const, mut n_conds) = (0u64, 0u64);
    let mut rejected: Vec<String> = vec![];
    let mut panics: Vec<String> = vec![];
    let mut attempts = 0usize;
    while shards.total < n {
        attempts += 1;
        if attempts > 3 * n + 100 { eprintln!("c02: too many rejected/panicking cases"); break; }
        let from_corpus = !corpus.is_empty();
        let case = if from_corpus { corpus.remove(0) } else {
            let stream = match rng.below(100) { 0..=81 => Stream::Main, 82..=85 => Stream::Fold, 86..=90 => Stream::OfZero, 91..=94 => Stream::Lazy, _ => Stream::Deep };
            let d = if rng.chance(1, 10) { depth + 2 } else { 1 + rng.below(depth as u64) as u32 };
            gen_case(&mut rng, stream, d)
        };
        // Cedar's lesson: cap the share of constant conditions
        let consts = case.rules.iter().filter(|r| is_constant(&r.cond)).count() as u64;
        if !from_corpus && case.stream == Stream::Main && consts > 0 && (n_const + consts) * 100 > 15 * (n_conds + case.rules.len() as u64 + 20) { stats.inc("regenerated_constant_condition"); continue; }
        let sources = sources_of(&case.rules, case.per_rule);
        let (outcome, cinfo) = run_impl_ir(&sources, &case.compile_globals, &case.globals, &case.data);
        let src = full_source(&case.rules);
        let (all, public) = match outcome {
            Outcome::Rejected(e) => { stats.inc("rejected_by_compiler"); if rejected.len() < 5 { rejected.push(format!("{}\n{}", e, src)); } continue; }
            Outcome::Panic(p) => { stats.inc("impl_panic_excluded(C05)"); if panics.len() < 5 { panics.push(format!("{} :: {}", p, src.replace('\n', " "))); } continue; }
            Outcome::Ok { all, public } => (all, public),
        };
        // second observation, used only to classify disagreements: the same rule set behind a
        // rule that forces the pattern search
        let (warm_all, warm_pub) = match run_impl(&with_warmup(&sources), &case.compile_globals, &case.globals, &case.data) {
            Outcome::Ok { all, public } => (all, public),
            other => { stats.inc("warmup_run_failed"); eprintln!("c02: warm-up run failed: {:?}", other); (all.clone(), public.clone()) }
        };
        if warm_all != all { stats.inc("verdicts_change_when_search_is_forced"); }
        // the IR the compiler built for every rule (Compiler::set_ir_writer), in rule order
        let ir_text = cinfo.ir.clone();
        if cinfo.pattern_ids.len() != case.rules.len() || cinfo.pattern_ids.iter().zip(&case.rules).any(|(p, r)| p.len() != r.pats.len()) { eprintln!("c02: pattern ids do not fit the rules: {:?}\n{}", cinfo.pattern_ids, src); return 2; }
        let irs: Vec<IrNode> = match parse_ir(&ir_text) {
            Ok(v) => {
                let mut by_rule: Vec<Option<IrNode>> = vec![None; case.rules.len()];
                for (name, n) in v { if let Some(i) = rule_index(&name) { if i < by_rule.len() { by_rule[i] = Some(n); } } }
                if by_rule.iter().any(|x| x.is_none()) { eprintln!("c02: IR dump lacks a rule:\n{}", ir_text); return 2; }
                by_rule.into_iter().map(|x| x.unwrap()).collect()
            }
            Err(e) => { eprintln!("c02: cannot read the IR dump ({}):\n{}\n{}", e, src, ir_text); return 2; }
        };
        stats.add("ir_nodes_compared", irs.iter().map(|n| n.size() as u64).sum());
        // the code the compiler emits for every rule (Compiler::emit_wasm_file), in rule order
        let wasm: Vec<String> = {
            let bytes = match emitted_wasm(&sources, &case.compile_globals) { Ok(b) => b, Err(e) => { eprintln!("c02: emit_wasm_file failed: {}\n{}", e, src); return 2; } };
            let m = match wasm_read::read(&bytes) { Ok(m) => m, Err(e) => { eprintln!("c02: cannot read the emitted module: {}\n{}", e, src); return 2; } };
            let blocks = match rule_blocks(&m) { Ok(b) => b, Err(e) => { eprintln!("c02: emitted module: {}\n{}", e, src); return 2; } };
            if blocks.len() != case.rules.len() || !(0..case.rules.len()).all(|i| blocks.contains_key(&i)) { eprintln!("c02: emitted module: found the code of {} of {} rules\n{}", blocks.len(), case.rules.len(), src); return 2; }
            (0..case.rules.len()).map(|i| { let b = std::slice::from_ref(&blocks[&i]); stats.add("wasm_instructions_read", wasm_count(b)); wasm_coq(&m, b) }).collect()
        };
        n_const += consts; n_conds += case.rules.len() as u64;
        stats.inc("rule_sets"); stats.add("rules", case.rules.len() as u64); stats.add("constant_conditions", consts);
        stats.inc(&format!("stream_{}", case.stream.name()));
        stats.add("matching_rules", all.len() as u64);
        if case.rules.iter().any(|r| r.global) { stats.inc("has_global_rule"); }
        if case.rules.iter().any(|r| r.private) { stats.inc("has_private_rule"); }
        if case.rules.len() > 10 { stats.inc("more_than_10_rules"); }
        if case.data.is_empty() { stats.inc("empty_buffer"); }
        let mut feat = std::collections::BTreeSet::new();
        for r in &case.rules {
            walk(&r.cond, &mut |e| { feat.insert(match e {
                E::Of(..) => "of", E::OfB(..) => "of_bool_tuple", E::ForOf(..) => "for_of", E::ForRange(..) => "for_in_range", E::ForTuple(..) => "for_in_tuple",
                E::With(..) => "with", E::Rule(_) => "rule_reference", E::Read(..) => "uintN", E::Defined(_) => "defined", E::StrOp(..) => "string_op",
                E::Pat(_, A::At(_)) => "at", E::Pat(_, A::In(..)) => "in", E::Count(_, Some(_)) => "count_in", E::Offset(..) => "offset", E::Length(..) => "length",
                E::Arith(Op::Div | Op::Mod, ..) => "div_mod", E::Arith(Op::Shl | Op::Shr, ..) => "shift", E::Global(_) => "global_var", _ => "" }); });
            if var_depth(&r.cond) >= 65 { feat.insert("more_than_64_variables"); }
            if size(&r.cond) >= 5 { distinct.insert(rule_source(0, r)); }
        }
        for f in feat { if !f.is_empty() { stats.inc(&format!("uses_{}", f)); } }
        let nl = |v: &Vec<usize>| coq_list(v, |i| format!("{}%nat", i));
        let coq = format!("mkCase {} {} {} {} {} {} {} {} {} {}", coq_list(&case.data, |b| format!("{}", b)), coq_list(&case.globals, gv_coq),
            coq_list(&case.rules, rule_coq), nl(&all), nl(&public), nl(&warm_all), nl(&warm_pub), coq_list(&irs, |n| n.to_coq()), coq_list(&cinfo.pattern_ids, |p| coq_list(p, |i| format!("{}%nat", i))), coq_list(&wasm, |w| w.clone()));
        let replay = format!("{{\"index\":{},\"stream\":{},\"source\":{},\"data_hex\":\"{}\",\"globals\":{},\"compile_globals\":{},\"observed_all\":{:?},\"observed_pub\":{:?},\"observed_with_forced_search\":{:?},\"ir_dump\":{},\"coq\":{}}}",
            shards.total, json_str(case.stream.name()), json_str(&src), hex(&case.data), gv_json(&case.globals), gv_json(&case.compile_globals), all, public, warm_all, json_str(&ir_text), json_str(&coq));
        if samples.len() < 3 && case.rules.len() >= 2 && case.stream == Stream::Main { samples.push(format!("{{\"source\":{},\"data_hex\":\"{}\",\"matching\":{:?}}}", json_str(&src), hex(&case.data), all)); }
        shards.push(coq, replay);
    }
    shards.flush();
    for r in &rejected { eprintln!("c02: REJECTED by the compiler: {}", r); }
    for p in &panics { eprintln!("c02: implementation panicked (excluded, property C05): {}", p); }
    let rej = stats.0.get("rejected_by_compiler").copied().unwrap_or(0);
    if rej * 20 > shards.total as u64 + 20 { eprintln!("c02: generator produces too many rejected sources ({rej})"); return 2; }
    if shards.total < n { return 2; }
    let unexpected = expectation_probe();
    if !unexpected.is_empty() { for u in &unexpected { eprintln!("c02: {}", u); } return 2; }
    // probes outside the model that found something (the `of`-tuple order pair is now a corpus case)
    let findings: Vec<String> = float_probe().into_iter().chain(regexp_probe()).collect();
    println!("{{\"findings\":[{}],\"evaluations\":{},\"distinct_nontrivial\":{},\"shards\":{},\"distribution\":{},\"samples\":[{}],\"panic_samples\":{}}}",
        findings.join(","), shards.total, distinct.len(), shards.shard_count, stats.json(), samples.join(","), serde_json::to_string(&panics).unwrap());
    0
}
