//! C03: optimisations and engine selection never change results.
//!
//! Four kinds of cases, all from one PRNG:
//!  * KFold   - a condition with constant sub-expressions (A, folded by the
//!              compiler) next to the same condition with every constant hidden
//!              behind `filesize - filesize + c` (B, computed at run time);
//!  * KR53/KF64 - `v as f64` and f64 `+ - *` against the model's round53;
//!  * KBounds - conditions from which file size bounds / header constraints are
//!              derived, next to the twin `not not (cond)` (nothing is derived
//!              through `not`), with the tables the compiler attached to the
//!              patterns (hook `verif_c03_pattern_table`);
//!  * KScan   - rule sets x buffers under Compiler::condition_optimization
//!              on/off, Scanner::fast_scan on/off, Teddy on/off (hook
//!              `verif_c03_disable_teddy`).
//! `--dump FILE` additionally writes the configuration-independent observations
//! (verdicts, matches) one per line: the thorough tier builds this binary with
//! other cargo feature sets of yara-x and compares the files.
use std::collections::{BTreeMap, HashSet};
use std::fmt::Write as _;
use std::panic::AssertUnwindSafe;
use std::path::Path;
use verif_harness::util::*;

// ---------------------------------------------------------------- expressions
#[derive(Clone, Debug)]
enum IExp { Const(i64), Var(usize), Arith(u8, Vec<IExp>), Neg(Box<IExp>), BNot(Box<IExp>), Bin(u8, Box<IExp>, Box<IExp>) }
#[derive(Clone, Debug)]
enum BExp { Const(bool), Var(usize), OfInt(IExp), Cmp(u8, IExp, IExp), Not(Box<BExp>), And(Vec<BExp>), Or(Vec<BExp>) }

const AOPS: [&str; 3] = ["+", "-", "*"];
const AOPS_COQ: [&str; 3] = ["OAdd", "OSub", "OMul"];
const BOPS: [&str; 5] = ["&", "|", "^", "<<", ">>"];
const BOPS_COQ: [&str; 5] = ["BAnd2", "BOr2", "BXor2", "BShl", "BShr"];
const CMPS: [&str; 6] = ["==", "!=", "<", "<=", ">", ">="];
const CMPS_COQ: [&str; 6] = ["CEq", "CNe", "CLt", "CLe", "CGt", "CGe"];
const IVARS: [&str; 4] = ["filesize", "uint8(0)", "uint16(1)", "uint8(100000)"];

const P53: i64 = 1 << 53;
fn boundary_consts() -> Vec<i64> {
    vec![0, 1, 2, 3, 5, 7, 10, 63, 64, 65, 255, 256, 1000, 1024, 65535, 65536, 0x7fffffff, 0x80000000, 0xffffffff, 0x100000000,
         3037000499, 3037000500, 94906265, 94906266, 94906267,
         P53 - 2, P53 - 1, P53, P53 + 1, P53 + 2, P53 + 3, P53 + 4, 2 * P53 + 1, 2 * P53 + 2, 2 * P53 + 3, 4 * P53 + 2, 4 * P53 + 6,
         1 << 62, (1 << 62) + 1, i64::MAX, i64::MAX - 1, i64::MAX - 511, i64::MAX - 512, i64::MAX - 513, i64::MAX - 1023, i64::MAX - 1024, i64::MAX - 1025]
}

fn gen_const(rng: &mut Rng, big: bool) -> i64 {
    let b = boundary_consts();
    match rng.below(10) {
        0..=3 => rng.below(20) as i64,
        4..=6 if big => *rng.pick(&b),
        4..=6 => b[rng.below(16) as usize],
        7 if big => (rng.next() >> 1) as i64,
        7 => (rng.next() % 100000) as i64,
        8 if big => (rng.next() >> rng.below(20)) as i64 & i64::MAX,
        _ => rng.below(300) as i64,
    }
}

/// constants-only integer expression; `big`: operands around 2^53 / i64 limits
fn gen_cexpr(rng: &mut Rng, depth: u32, big: bool) -> IExp {
    if depth == 0 || rng.chance(2, 5) {
        let c = gen_const(rng, big);
        return if rng.chance(1, 8) && c > 0 { IExp::Const(-c) } else { IExp::Const(c) };
    }
    match rng.below(12) {
        0..=6 => {
            let o = rng.below(3) as u8;
            let wide = if rng.chance(1, 4) { 4 } else { 2 };
            let n = 2 + rng.below(wide) as usize;
            norm_arith(o, (0..n).map(|_| gen_cexpr(rng, depth - 1, big)).collect())
        }
        7 => IExp::Neg(Box::new(gen_cexpr(rng, depth - 1, big))),
        8 => IExp::BNot(Box::new(gen_cexpr(rng, depth - 1, big))),
        9 => IExp::Bin(rng.below(3) as u8, Box::new(gen_cexpr(rng, depth - 1, big)), Box::new(gen_cexpr(rng, depth - 1, big))),
        _ => {
            // shifts: the count is mostly small and non-negative
            let cnt = if rng.chance(1, 10) { gen_cexpr(rng, depth - 1, false) } else { IExp::Const(*rng.pick(&[0i64, 1, 3, 31, 32, 62, 63, 64, 65, 100])) };
            IExp::Bin(3 + rng.below(2) as u8, Box::new(gen_cexpr(rng, depth - 1, big)), Box::new(cnt))
        }
    }
}

/// the parser drops parentheses and appends to an n-ary node of the same
/// operator on its left: `(a + b) + c` is Add[a, b, c]
fn norm_arith(o: u8, mut es: Vec<IExp>) -> IExp {
    loop {
        match es.first() {
            Some(IExp::Arith(o2, inner)) if *o2 == o => { let mut v = inner.clone(); v.extend(es.drain(1..)); es = v; }
            _ => break,
        }
    }
    IExp::Arith(o, es)
}

fn gen_iexp(rng: &mut Rng, depth: u32, big: bool) -> IExp {
    // mostly constant sub-trees (that is what folding is about), some run-time leaves
    if rng.chance(1, 6) { return IExp::Var(rng.below(IVARS.len() as u64) as usize); }
    if depth == 0 || rng.chance(1, 2) { return gen_cexpr(rng, depth.min(2), big); }
    match rng.below(4) {
        0..=1 => { let o = rng.below(3) as u8; let n = 2 + rng.below(2) as usize;
                   norm_arith(o, (0..n).map(|_| gen_iexp(rng, depth - 1, big)).collect()) }
        2 => IExp::Neg(Box::new(gen_iexp(rng, depth - 1, big))),
        _ => IExp::Bin(rng.below(3) as u8, Box::new(gen_iexp(rng, depth - 1, big)), Box::new(gen_iexp(rng, depth - 1, big))),
    }
}

fn wrap_eval(e: &IExp, env: &[Option<i64>]) -> Option<i64> {
    Some(match e {
        IExp::Const(c) => *c,
        IExp::Var(n) => env[*n]?,
        IExp::Arith(o, es) => {
            let mut it = es.iter();
            let mut acc = wrap_eval(it.next().unwrap(), env)?;
            for x in it { let v = wrap_eval(x, env)?; acc = match o { 0 => acc.wrapping_add(v), 1 => acc.wrapping_sub(v), _ => acc.wrapping_mul(v) }; }
            acc
        }
        IExp::Neg(a) => 0i64.wrapping_sub(wrap_eval(a, env)?),
        IExp::BNot(a) => !wrap_eval(a, env)?,
        IExp::Bin(o, a, b) => {
            let (x, y) = (wrap_eval(a, env)?, wrap_eval(b, env)?);
            match o { 0 => x & y, 1 => x | y, 2 => x ^ y,
                      3 => if y < 64 { x.wrapping_shl((y & 63) as u32) } else { 0 },
                      _ => if y < 64 { x.wrapping_shr((y & 63) as u32) } else { 0 } }
        }
    })
}

/// the harness' own replica of folding through f64, ONLY used to pick
/// interesting probe constants (the check itself is done by the Coq model)
fn f64_fold(e: &IExp) -> Option<i64> {
    Some(match e {
        IExp::Const(c) => *c,
        IExp::Var(_) => return None,
        IExp::Arith(o, es) => {
            let mut it = es.iter();
            let mut acc = f64_fold(it.next().unwrap())? as f64;
            for x in it { let v = f64_fold(x)? as f64; acc = match o { 0 => acc + v, 1 => acc - v, _ => acc * v }; }
            if acc >= i64::MIN as f64 && acc <= i64::MAX as f64 { acc as i64 } else { return None }
        }
        IExp::Neg(a) => f64_fold(a)?.checked_neg()?,
        IExp::BNot(a) => !f64_fold(a)?,
        IExp::Bin(o, a, b) => {
            let (x, y) = (f64_fold(a)?, f64_fold(b)?);
            match o { 0 => x & y, 1 => x | y, 2 => x ^ y, _ if y < 0 => return None,
                      3 => if y < 64 { x.wrapping_shl(y as u32) } else { 0 },
                      _ => if y < 64 { x.wrapping_shr(y as u32) } else { 0 } }
        }
    })
}

fn const_src(c: i64) -> String { format!("{}", c) }

/// source text; `hide`: every constant is written so that the compiler cannot fold it
fn isrc(e: &IExp, hide: bool) -> String {
    match e {
        IExp::Const(c) if hide => if *c >= 0 { format!("(filesize - filesize + {})", c) } else { format!("(filesize - filesize - {})", (*c as i128).unsigned_abs()) },
        IExp::Const(c) => if *c >= 0 { const_src(*c) } else { format!("({})", c) },
        IExp::Var(n) => IVARS[*n].to_string(),
        IExp::Arith(o, es) => format!("({})", es.iter().map(|x| isrc(x, hide)).collect::<Vec<_>>().join(&format!(" {} ", AOPS[*o as usize]))),
        IExp::Neg(a) => format!("(-({}))", isrc(a, hide)),
        IExp::BNot(a) => format!("(~({}))", isrc(a, hide)),
        IExp::Bin(o, a, b) => format!("({} {} {})", isrc(a, hide), BOPS[*o as usize], isrc(b, hide)),
    }
}
fn bsrc(e: &BExp, hide: bool) -> String {
    match e {
        BExp::Const(b) if hide => if *b { "(filesize >= 0)".into() } else { "(filesize < 0)".into() },
        BExp::Const(b) => format!("{}", b),
        BExp::Var(n) => format!("$v{}", n),
        BExp::OfInt(e) => isrc(e, hide),
        BExp::Cmp(c, a, b) => format!("({} {} {})", isrc(a, hide), CMPS[*c as usize], isrc(b, hide)),
        BExp::Not(a) => format!("(not {})", bsrc(a, hide)),
        BExp::And(es) => format!("({})", es.iter().map(|x| bsrc(x, hide)).collect::<Vec<_>>().join(" and ")),
        BExp::Or(es) => format!("({})", es.iter().map(|x| bsrc(x, hide)).collect::<Vec<_>>().join(" or ")),
    }
}
fn icoq(e: &IExp) -> String {
    match e {
        IExp::Const(c) => format!("IConst {}", coq_z(*c as i128)),
        IExp::Var(n) => format!("IVar {}", coq_nat(*n)),
        IExp::Arith(o, es) => format!("IArith {} {}", AOPS_COQ[*o as usize], coq_list(es, |x| icoq(x))),
        IExp::Neg(a) => format!("INeg ({})", icoq(a)),
        IExp::BNot(a) => format!("IBNot ({})", icoq(a)),
        IExp::Bin(o, a, b) => format!("IBin {} ({}) ({})", BOPS_COQ[*o as usize], icoq(a), icoq(b)),
    }
}
fn bcoq(e: &BExp) -> String {
    match e {
        BExp::Const(b) => format!("BConst {}", coq_bool(*b)),
        BExp::Var(n) => format!("BVar {}", coq_nat(*n)),
        BExp::OfInt(e) => format!("BOfInt ({})", icoq(e)),
        BExp::Cmp(c, a, b) => format!("BCmp {} ({}) ({})", CMPS_COQ[*c as usize], icoq(a), icoq(b)),
        BExp::Not(a) => format!("BNot ({})", bcoq(a)),
        BExp::And(es) => format!("BAnd {}", coq_list(es, |x| bcoq(x))),
        BExp::Or(es) => format!("BOr {}", coq_list(es, |x| bcoq(x))),
    }
}
fn bvars(e: &BExp, out: &mut Vec<usize>) {
    match e { BExp::Var(n) => if !out.contains(n) { out.push(*n) }, BExp::Not(a) => bvars(a, out),
              BExp::And(es) | BExp::Or(es) => for x in es { bvars(x, out) }, _ => {} }
}
/// class of the arithmetic, for the fingerprint of a disagreement
fn arith_class(e: &IExp, worst: &mut u8) -> Option<i128> {
    // returns the exact value of constant-only sub-trees; worst: 0 small, 1 beyond 2^53, 2 i64 overflow
    match e {
        IExp::Const(c) => { if (*c as i128).abs() > P53 as i128 { *worst = (*worst).max(1); } Some(*c as i128) }
        IExp::Var(_) => None,
        IExp::Arith(o, es) => {
            let vs: Vec<Option<i128>> = es.iter().map(|x| arith_class(x, worst)).collect();
            if vs.iter().any(|v| v.is_none()) { return None; }
            let mut acc = vs[0].unwrap();
            for v in &vs[1..] {
                let v = v.unwrap();
                acc = match o { 0 => acc.checked_add(v), 1 => acc.checked_sub(v), _ => acc.checked_mul(v) }.unwrap_or(i128::MAX);
                if acc > i64::MAX as i128 || acc < i64::MIN as i128 { *worst = 2; acc = acc.clamp(-(1i128 << 100), 1i128 << 100); }
                else if acc.abs() > P53 as i128 { *worst = (*worst).max(1); }
            }
            Some((acc as i64) as i128)
        }
        IExp::Neg(a) => arith_class(a, worst).map(|v| (v as i64).wrapping_neg() as i128),
        IExp::BNot(a) => arith_class(a, worst).map(|v| !(v as i64) as i128),
        IExp::Bin(_, a, b) => { let x = arith_class(a, worst); let y = arith_class(b, worst); if x.is_some() && y.is_some() { wrap_eval(e, &[]).map(|v| v as i128).or(Some(0)) } else { None } }
    }
}
fn bexp_class(e: &BExp, worst: &mut u8) {
    match e {
        BExp::OfInt(a) => { arith_class(a, worst); }
        BExp::Cmp(_, a, b) => { arith_class(a, worst); arith_class(b, worst); }
        BExp::Not(a) => bexp_class(a, worst),
        BExp::And(es) | BExp::Or(es) => for x in es { bexp_class(x, worst) },
        _ => {}
    }
}

fn gen_bexp(rng: &mut Rng, depth: u32, big: bool) -> BExp {
    if depth == 0 || rng.chance(1, 3) {
        return match rng.below(10) {
            0 => BExp::Const(rng.chance(1, 2)),
            1 => BExp::Var(rng.below(2) as usize),
            2 => BExp::OfInt(gen_iexp(rng, 2, big)),
            _ => {
                // a probe: E cmp K with K close to what E evaluates to
                let e = gen_iexp(rng, 3, big);
                let env = [Some(0i64), Some(0), Some(0), None];
                let mut ks = vec![];
                if let Some(v) = wrap_eval(&e, &env) { ks.push(v); ks.push(v.wrapping_add(1)); }
                if let Some(v) = f64_fold(&e) { ks.push(v); ks.push(v); }
                ks.push(gen_const(rng, big));
                let mut k = *rng.pick(&ks);
                if k == i64::MIN { k += 1; }
                let c = if rng.chance(3, 5) { 0 } else { rng.below(6) as u8 };
                if rng.chance(1, 6) { BExp::Cmp(c, IExp::Const(k), e) } else { BExp::Cmp(c, e, IExp::Const(k)) }
            }
        };
    }
    match rng.below(5) {
        0 => BExp::Not(Box::new(gen_bexp(rng, depth - 1, big))),
        1 | 2 => BExp::And((0..2 + rng.below(2)).map(|_| gen_bexp(rng, depth - 1, big)).collect()),
        _ => BExp::Or((0..2 + rng.below(2)).map(|_| gen_bexp(rng, depth - 1, big)).collect()),
    }
}

fn corpus_fold() -> Vec<BExp> {
    let c = |v: i64| IExp::Const(v);
    let add = |a: i64, b: i64| IExp::Arith(0, vec![c(a), c(b)]);
    vec![
        // finding #10 (repaired by 8b83ae6a), both classes: regression cases
        BExp::Cmp(0, add(9007199254740993, 1), c(9007199254740994)),
        BExp::Cmp(2, add(i64::MAX, 1), c(0)),
        BExp::Cmp(0, IExp::Arith(1, vec![c(i64::MAX), c(1)]), c(i64::MAX - 1)),
        BExp::Cmp(0, IExp::Arith(2, vec![c(94906267), c(94906267)]), c(9007199515875289)),
        // in range only in the middle of an n-ary chain
        BExp::Cmp(0, IExp::Arith(0, vec![c(i64::MAX), c(i64::MAX), c(-i64::MAX), c(-i64::MAX)]), c(0)),
        // out of range: compile error when folded, wraps at run time
        BExp::Cmp(0, add(i64::MAX, i64::MAX), c(-2)),
        // shifts
        BExp::Cmp(0, IExp::Bin(3, Box::new(c(1)), Box::new(c(64))), c(0)),
        BExp::Cmp(0, IExp::Bin(4, Box::new(c(-8)), Box::new(c(1))), c(-4)),
        BExp::Cmp(0, IExp::Bin(3, Box::new(c(1)), Box::new(IExp::Neg(Box::new(c(1))))), c(0)),
        // -(i64::MIN)
        BExp::Cmp(0, IExp::Neg(Box::new(IExp::Arith(1, vec![c(-i64::MAX), c(1)]))), c(0)),
        // boolean folding
        BExp::And(vec![BExp::Const(true), BExp::Var(0), BExp::OfInt(c(1))]),
        BExp::Or(vec![BExp::Const(false), BExp::Not(Box::new(BExp::Const(true))), BExp::Cmp(0, IExp::Var(3), c(1))]),
        BExp::And(vec![BExp::Var(1), BExp::OfInt(IExp::Arith(1, vec![c(5), c(5)]))]),
    ]
}

#[derive(Clone, Copy, PartialEq, Eq, Debug)]
enum CStat { Ok, Err, Panic }
fn cstat_coq(s: CStat) -> &'static str { match s { CStat::Ok => "SOk", CStat::Err => "SErr", CStat::Panic => "SPanic" } }

fn add_rule(c: &mut yara_x::Compiler, src: &str) -> CStat {
    match catch(AssertUnwindSafe(|| c.add_source(src).is_ok())) { Ok(true) => CStat::Ok, Ok(false) => CStat::Err, Err(_) => CStat::Panic }
}

fn verdict_set(rules: &yara_x::Rules, data: &[u8], fast: bool) -> Result<HashSet<String>, String> {
    catch(AssertUnwindSafe(|| {
        let mut s = yara_x::Scanner::new(rules);
        s.fast_scan(fast);
        s.set_timeout(std::time::Duration::from_secs(SCAN_TIMEOUT_S));
        let r = s.scan(data).map_err(|e| e.to_string()).unwrap();
        r.matching_rules().map(|r| r.identifier().to_string()).collect::<HashSet<_>>()
    }))
}

/// a scan of a few bytes that takes longer than this is reported as a failure of the case
const SCAN_TIMEOUT_S: u64 = 8;
/// a case that makes no progress for this long (compiler or scanner not returning) ends the run with a named case
const WATCHDOG_S: u64 = 100;
static CURRENT: std::sync::Mutex<Option<(std::time::Instant, String)>> = std::sync::Mutex::new(None);
fn now_at(what: String) { *CURRENT.lock().unwrap() = Some((std::time::Instant::now(), what)); }
fn start_watchdog() {
    std::thread::spawn(|| loop {
        std::thread::sleep(std::time::Duration::from_secs(2));
        if let Some((t, what)) = CURRENT.lock().unwrap().clone() {
            if t.elapsed().as_secs() > WATCHDOG_S {
                println!("WATCHDOG: no result after {} s (compiler or scanner does not return) for: {}", WATCHDOG_S, what);
                std::process::exit(4);
            }
        }
    });
}

struct Out { shards: Shards, stats: Stats, distinct: HashSet<String>, samples: Vec<String>, dump: Option<String>, coq: bool }
impl Out {
    fn push(&mut self, case: String, replay: String, nontrivial_key: Option<String>) {
        if let Some(k) = nontrivial_key { self.distinct.insert(k); }
        if self.samples.len() < 4 && self.shards.total % 97 == 5 { self.samples.push(replay.clone()); }
        if self.coq { self.shards.push(case, replay); } else { self.shards.total += 1; }
    }
    fn dump_line(&mut self, l: String) { if let Some(d) = self.dump.as_mut() { d.push_str(&l); d.push('\n'); } }
}

// ---------------------------------------------------------------- KFold
fn fold_data(rng: &mut Rng) -> Vec<u8> {
    let n = *rng.pick(&[0usize, 1, 2, 3, 4, 7, 12, 40]);
    let mut d: Vec<u8> = (0..n).map(|_| *rng.pick(&[0u8, 1, 2, 65, 66, 255, 128])).collect();
    if n >= 8 && rng.chance(1, 2) { d[4..8].copy_from_slice(b"AAAA"); }
    if n >= 12 && rng.chance(1, 2) { d[8..12].copy_from_slice(b"BBBB"); }
    d
}
fn find(d: &[u8], p: &[u8]) -> bool { d.windows(p.len()).any(|w| w == p) }

fn run_fold_batch(batch: &[BExp], datas: &[Vec<u8>], out: &mut Out, base_idx: usize) {
    // compile; a panic inside add_source leaves the compiler in an unknown state: start again without that rule
    let mut panicking: HashSet<String> = HashSet::new();
    let (rules, stat) = loop {
        let mut c = yara_x::Compiler::new();
        let mut stat: BTreeMap<String, CStat> = BTreeMap::new();
        let mut again = false;
        for (i, e) in batch.iter().enumerate() {
            let mut vs = vec![]; bvars(e, &mut vs);
            let strings = if vs.is_empty() { String::new() } else {
                format!("strings: {} ", vs.iter().map(|v| format!("$v{} = \"{}\"", v, if *v == 0 { "AAAA" } else { "BBBB" })).collect::<Vec<_>>().join(" ")) };
            for (tag, hide) in [("a", false), ("b", true)] {
                let name = format!("f{}{}", i, tag);
                if panicking.contains(&name) { stat.insert(name, CStat::Panic); continue; }
                let src = format!("rule {} {{ {}condition: {} }}", name, strings, bsrc(e, hide));
                let st = add_rule(&mut c, &src);
                if st == CStat::Panic { panicking.insert(name.clone()); again = true; }
                stat.insert(name, st);
                if again { break; }
            }
            if again { break; }
        }
        if again { continue; }
        break (c.build(), stat);
    };
    let scans: Vec<HashSet<String>> = datas.iter().map(|d| verdict_set(&rules, d, false).unwrap_or_default()).collect();
    for (i, e) in batch.iter().enumerate() {
        let (na, nb) = (format!("f{}a", i), format!("f{}b", i));
        let (sa, sb) = (stat[&na], stat[&nb]);
        let mut runs = vec![]; let mut rj = vec![]; let mut dl = vec![];
        for (d, sc) in datas.iter().zip(scans.iter()) {
            let rho: Vec<Option<i128>> = vec![Some(d.len() as i128), d.first().map(|b| *b as i128),
                if d.len() >= 3 { Some(d[1] as i128 + 256 * d[2] as i128) } else { None }, None];
            let beta = [Some(find(d, b"AAAA")), Some(find(d, b"BBBB"))];
            let (va, vb) = (sc.contains(&na), sc.contains(&nb));
            runs.push(format!("mkFRun {} {} {} {}", coq_list(&rho, |x| coq_option(x, |v| coq_z(*v))),
                coq_list(&beta, |x| coq_option(x, |v| coq_bool(*v).to_string())), coq_bool(va), coq_bool(vb)));
            rj.push(format!("{{\"data_hex\":\"{}\",\"folded_verdict\":{},\"runtime_verdict\":{}}}", hex(d), va, vb));
            dl.push(format!("{}", va as u8));
        }
        let mut worst = 0u8; bexp_class(e, &mut worst);
        let class = ["within-2^53", "beyond-2^53", "i64-overflow"][worst as usize];
        let disagree = sa == CStat::Ok && sb == CStat::Ok && rj.iter().any(|r| r.contains("\"folded_verdict\":true,\"runtime_verdict\":false") || r.contains("\"folded_verdict\":false,\"runtime_verdict\":true"));
        out.stats.inc(&format!("fold:class:{}", class));
        out.stats.inc(&format!("fold:compileA:{:?}", sa));
        if disagree { out.stats.inc("fold:folded_and_runtime_verdicts_differ"); }
        let case = format!("KFold ({}) {} {} {}", bcoq(e), cstat_coq(sa), cstat_coq(sb), format!("[{}]", runs.join("; ")));
        let replay = format!("{{\"kind\":\"fold\",\"index\":{},\"class\":\"{}\",\"folded_source\":{},\"runtime_source\":{},\"compile_folded\":\"{:?}\",\"compile_runtime\":\"{:?}\",\"runs\":[{}]}}",
            base_idx + i, class, json_str(&bsrc(e, false)), json_str(&bsrc(e, true)), sa, sb, rj.join(","));
        out.dump_line(format!("fold {} {} {:?} {} :: {}", base_idx + i, class, sa, dl.join(""), bsrc(e, false)));
        out.push(case, replay, Some(format!("fold:{}", bsrc(e, false))));
    }
}

// ---------------------------------------------------------------- KR53 / KF64
fn f64_to_int(x: f64) -> Option<i128> {
    if !x.is_finite() { return None; }
    // exact integer value of an integer-valued double below 2^126
    if x.abs() < 1.7e38 { Some(x as i128) } else { None }
}
fn gen_r53(rng: &mut Rng, out: &mut Out, n: usize) {
    for i in 0..n {
        let v: i64 = match rng.below(4) { 0 => *rng.pick(&boundary_consts()), 1 => -*rng.pick(&boundary_consts()), 2 => rng.next() as i64, _ => (rng.next() >> rng.below(12)) as i64 };
        if i % 2 == 0 {
            let r = (v as f64) as i128;
            out.push(format!("KR53 {} {}", coq_z(v as i128), coq_z(r)), format!("{{\"kind\":\"r53\",\"v\":\"{}\",\"as_f64\":\"{}\"}}", v, r), Some(format!("r53:{}", v)));
            out.stats.inc("r53");
        } else {
            let w: i64 = match rng.below(3) { 0 => *rng.pick(&boundary_consts()), 1 => rng.next() as i64, _ => rng.below(5000) as i64 - 2500 };
            let o = rng.below(3) as u8;
            let (a, b) = (v as f64, w as f64);
            let x = match o { 0 => a + b, 1 => a - b, _ => a * b };
            let r = f64_to_int(x);
            out.push(format!("KF64 {} {} {} {}", AOPS_COQ[o as usize], coq_z(v as i128), coq_z(w as i128), coq_option(&r, |z| coq_z(*z))),
                format!("{{\"kind\":\"f64\",\"op\":\"{}\",\"a\":\"{}\",\"b\":\"{}\",\"result\":\"{:?}\"}}", AOPS[o as usize], v, w, r), Some(format!("f64:{}:{}:{}", o, v, w)));
            out.stats.inc("f64op");
        }
    }
}

// ---------------------------------------------------------------- KBounds
#[derive(Clone, Debug)]
enum KConst { Int(i64), Flt(i64, i32) } // m * 2^e, e in -3..=0 or large
#[derive(Clone, Debug)]
enum CExp { And(Vec<CExp>), Fs(u8, bool, KConst), Read(&'static str, i64, i64, bool), PatAt0(usize, Option<Vec<u8>>, String /*definition*/), Other(usize, String /*source*/) }
const FCMP: [&str; 4] = [">", ">=", "<", "<="];
const FCMP_COQ: [&str; 4] = ["FGt", "FGe", "FLt", "FLe"];
const READERS: [(&str, usize, bool, bool); 12] = [("uint8", 1, false, false), ("int8", 1, false, true), ("uint8be", 1, true, false), ("int8be", 1, true, true),
    ("uint16", 2, false, false), ("int16", 2, false, true), ("uint16be", 2, true, false), ("int16be", 2, true, true),
    ("uint32", 4, false, false), ("int32", 4, false, true), ("uint32be", 4, true, false), ("int32be", 4, true, true)];

fn kconst_src(k: &KConst) -> String {
    match k {
        KConst::Int(v) => if *v < 0 { format!("({})", v) } else { format!("{}", v) },
        KConst::Flt(m, e) => {
            // exact decimal expansion of m * 2^e
            if *e >= 0 { let v = (*m as i128) << *e; if v < 0 { format!("(-{}.0)", -v) } else { format!("{}.0", v) } }
            else { let sc = 10i128.pow((-*e) as u32); let num = (*m as i128) * sc / (1i128 << (-*e)); // m * 5^k * ... exact since 2^k | 10^k
                   let (ip, fp) = (num.abs() / sc, num.abs() % sc);
                   let s = format!("{}.{:0width$}", ip, fp, width = (-*e) as usize);
                   if num < 0 { format!("(-{})", s) } else { s } }
        }
    }
}
fn kconst_coq(k: &KConst) -> String {
    match k { KConst::Int(v) => format!("KInt {}", coq_z(*v as i128)), KConst::Flt(m, e) => format!("KFlt {} {}", coq_z(*m as i128), coq_z(*e as i128)) }
}
fn csrc(c: &CExp) -> String {
    match c {
        CExp::And(es) => format!("({})", es.iter().map(csrc).collect::<Vec<_>>().join(" and ")),
        CExp::Fs(op, left, k) => if *left { format!("{} {} filesize", kconst_src(k), FCMP[*op as usize]) } else { format!("filesize {} {}", FCMP[*op as usize], kconst_src(k)) },
        CExp::Read(name, off, val, left) => { let v = if *val < 0 { format!("({})", val) } else { format!("{}", val) };
            if *left { format!("{} == {}({})", v, name, off) } else { format!("{}({}) == {}", name, off, v) } }
        CExp::PatAt0(p, _, _) => format!("$p{} at 0", p),
        CExp::Other(_, s) => s.clone(),
    }
}
fn ccoq(c: &CExp) -> String {
    match c {
        CExp::And(es) => format!("CAnd {}", coq_list(es, |x| ccoq(x))),
        CExp::Fs(op, left, k) => format!("CFs {} {} ({})", FCMP_COQ[*op as usize], coq_bool(*left), kconst_coq(k)),
        CExp::Read(name, off, val, _) => format!("CRead \"{}\" {} {}", name, coq_z(*off as i128), coq_z(*val as i128)),
        CExp::PatAt0(p, lit, _) => format!("CPatAt0 {} {}", coq_nat(*p), coq_option(lit, |b| coq_bytes_z(b))),
        CExp::Other(n, _) => format!("COther {}", coq_nat(*n)),
    }
}
fn cpatdefs(c: &CExp, out: &mut Vec<String>) {
    match c { CExp::And(es) => for x in es { cpatdefs(x, out) }, CExp::PatAt0(_, _, d) => out.push(d.clone()), _ => {} }
}

fn gen_citem(rng: &mut Rng, depth: u32, pat_ctr: &mut usize, size_hint: i64, head: &[u8], truthy: bool) -> CExp {
    match rng.below(if depth > 0 { 10 } else { 9 }) {
        0..=2 if truthy => {
            // a comparison that holds for a file of size_hint bytes
            let op = rng.below(4) as u8; let left = rng.chance(1, 3);
            // filesize OP k  (or k OP' filesize with OP' the mirrored operator)
            let d = rng.range(0, 4);
            let (k_int, strict) = match op { 0 => (size_hint - 1 - d, true), 1 => (size_hint - d, false), 2 => (size_hint + 1 + d, true), _ => (size_hint + d, false) };
            let _ = strict;
            let k = match rng.below(4) { 0 => KConst::Flt(2 * k_int + if op < 2 { -1 } else { 1 }, -1), 1 => KConst::Flt(k_int, 0), _ => KConst::Int(k_int) };
            // mirrored operator when the constant is on the left: k < filesize <=> filesize > k
            let op2 = if left { [2u8, 3, 0, 1][op as usize] } else { op };
            CExp::Fs(op2, left, k)
        }
        0..=2 => {
            let k = match rng.below(8) {
                0 => KConst::Int(size_hint), 1 => KConst::Int(size_hint + rng.range(-2, 2)), 2 => KConst::Int(rng.range(0, 5000)),
                3 => KConst::Int(-rng.range(0, 3)), 4 => KConst::Int(*rng.pick(&[i64::MAX, i64::MAX - 1, 1 << 40])),
                5 => KConst::Flt(2 * size_hint + rng.range(-3, 3), -1), 6 => KConst::Flt(rng.range(-20, 40000), -(rng.range(0, 3) as i32)),
                _ => KConst::Flt(*rng.pick(&[1i64, 3, -1, 5]), *rng.pick(&[62i32, 63, 64, 70])),
            };
            CExp::Fs(rng.below(4) as u8, rng.chance(1, 3), k)
        }
        3..=5 => {
            let (name, n, be, signed) = *rng.pick(&READERS);
            let off = *rng.pick(&[0i64, 0, 0, 1, 2, 4, 7]);
            // the value the function would read from `head` (so that the equation can hold), or a variant of it
            let mut v: i64 = 0;
            for j in 0..n { let b = *head.get(off as usize + j).unwrap_or(&0) as i64; if be { v = v * 256 + b } else { v += b << (8 * j) } }
            if signed && v >= 1 << (8 * n - 1) { v -= 1 << (8 * n); }
            let val = if truthy && rng.chance(9, 10) { v } else { match rng.below(6) { 0 => v + (1 << (8 * n)), 1 => v - (1 << (8 * n)), 2 => rng.range(-300, 70000), 3 => v ^ 1, _ => v } };
            CExp::Read(name, off, val, rng.chance(1, 4))
        }
        6 => {
            let p = *pat_ctr; *pat_ctr += 1;
            let len = 1 + rng.below(4) as usize;
            let mut bytes: Vec<u8> = head.iter().take(len).cloned().collect();
            while bytes.len() < len { bytes.push(b'x'); }
            if !truthy && rng.chance(1, 3) { let i = rng.below(len as u64) as usize; bytes[i] ^= 0x20; }
            let printable = bytes.iter().all(|b| b.is_ascii_alphanumeric());
            match rng.below(4) {
                0 if printable => { let t = String::from_utf8(bytes.clone()).unwrap(); CExp::PatAt0(p, None, format!("$p{} = \"{}\" nocase", p, t)) }
                1 if printable => { let t = String::from_utf8(bytes.clone()).unwrap(); CExp::PatAt0(p, Some(bytes), format!("$p{} = \"{}\"", p, t)) }
                _ => { let h = bytes.iter().map(|b| format!("{:02X}", b)).collect::<Vec<_>>().join(" "); CExp::PatAt0(p, Some(bytes), format!("$p{} = {{ {} }}", p, h)) }
            }
        }
        7 | 8 => {
            let n = rng.below(1000) as usize;
            let s = match if truthy { 2 + rng.below(3) } else { rng.below(5) } {
                0 => "$q".to_string(), 1 => "not $r".to_string(), 2 => format!("($q or filesize < {})", if truthy { 100000 } else { rng.range(0, 50) }),
                3 => format!("(uint8(0) == {} or $r or not $q)", if truthy { head[0] as i64 } else { rng.range(0, 255) }), _ => format!("filesize != {}", if truthy { 100001 } else { rng.range(0, 60) }) };
            CExp::Other(n, s)
        }
        _ => CExp::And((0..1 + rng.below(3)).map(|_| gen_citem(rng, depth - 1, pat_ctr, size_hint, head, truthy)).collect()),
    }
}

fn parse_bound(s: &str) -> String {
    let s = s.trim();
    if s == "Unbounded" { "Unb".into() }
    else if let Some(v) = s.strip_prefix("Included(") { format!("(Incl {})", coq_z(v.trim_end_matches(')').parse::<i128>().unwrap())) }
    else if let Some(v) = s.strip_prefix("Excluded(") { format!("(Excl {})", coq_z(v.trim_end_matches(')').parse::<i128>().unwrap())) }
    else { panic!("cannot parse bound {s}") }
}
/// "FilesizeBounds { start: Excluded(10), end: Unbounded }"
fn parse_fsb(s: &Option<String>) -> String {
    match s {
        None => "(mkFsb Unb Unb)".into(),
        Some(s) => { let a = s.find("start:").unwrap() + 6; let b = s.find(", end:").unwrap(); let c = s.rfind('}').unwrap();
                     format!("(mkFsb {} {})", parse_bound(&s[a..b]), parse_bound(&s[b + 6..c])) }
    }
}
fn parse_hc(s: &Option<String>) -> String {
    match s.as_deref() {
        None | Some("Unconstrained") => "HUnconstrained".into(),
        Some("Unsatisfiable") => "HUnsatisfiable".into(),
        Some(s) => { let a = s.find('[').unwrap(); let b = s.rfind(']').unwrap();
                     let v: Vec<String> = s[a + 1..b].split(',').map(|x| x.trim().to_string()).filter(|x| !x.is_empty()).collect();
                     format!("(HConstrained [{}]%Z)", v.join("; ")) }
    }
}

fn gen_bounds_case(rng: &mut Rng, idx: usize, out: &mut Out) {
    let head: Vec<u8> = match rng.below(4) { 0 => b"MZ\x90\x00\x03\x00\x00\x00\x04".to_vec(), 1 => b"\x7fELF\x02\x01\x01\x00\x00".to_vec(),
                                             2 => b"PK\x03\x04abcdefg".to_vec(), _ => (0..9).map(|_| rng.below(256) as u8).collect() };
    let size_hint = *rng.pick(&[9i64, 12, 20, 64, 300]);
    let mut pat_ctr = 0usize;
    let n_items = 1 + rng.below(4) as usize;
    let truthy = rng.chance(2, 3);
    let items: Vec<CExp> = (0..n_items).map(|_| gen_citem(rng, 1, &mut pat_ctr, size_hint, &head, truthy)).collect();
    let c = if items.len() == 1 && rng.chance(1, 2) { items[0].clone() } else { CExp::And(items) };
    let mut defs = vec![]; cpatdefs(&c, &mut defs);
    let cs = csrc(&c);
    // $q / $r are always declared and used, so every rule has a pattern to which the compiler attaches the bounds
    let strings = |pfx: &str| format!("strings: $q = \"{}QQ\" $r = \"{}RR\" {}", pfx, pfx, defs.join(" "));
    let main_src = format!("rule m {{ {} condition: {} and ($q or $r or true) }}", strings("q"), cs);
    // the analysis descends only through `and`: through `not not (..)` nothing is derived
    let twin_src = format!("rule t {{ {} condition: not not ({}) and ($q or $r or true) }}", strings("q"), cs);
    let mut comp = yara_x::Compiler::new();
    let sm = add_rule(&mut comp, &main_src);
    let st = add_rule(&mut comp, &twin_src);
    // `.. and ($q or $r or true)`: the last operand is folded away but keeps the patterns "used"
    if sm != CStat::Ok || st != CStat::Ok {
        out.stats.inc(&format!("bounds:rejected:{:?}/{:?}", sm, st));
        out.dump_line(format!("bounds {} rejected {:?} {:?} :: {}", idx, sm, st, cs));
        // still consume the same random numbers as an accepted case
        for _ in 0..3 { let _ = gen_bounds_data(rng, &head, size_hint); }
        return;
    }
    let rules = comp.build();
    let table = rules.verif_c03_pattern_table();
    let rp = rules.verif_c03_rule_patterns();
    let main_pats = &rp.iter().find(|r| r.0 == "m").unwrap().1;
    let (has_obs, ob, oh) = match main_pats.first() { Some((_, id)) => (true, parse_fsb(&table[*id].1), parse_hc(&table[*id].2)), None => (false, parse_fsb(&None), parse_hc(&None)) };
    let mut runs = vec![]; let mut rj = vec![]; let mut dl = String::new();
    for k in 0..3 {
        let mut d = gen_bounds_data(rng, &head, size_hint);
        if k == 0 { d = vec![b'.'; size_hint as usize]; for (i, b) in head.iter().enumerate() { if i < d.len() { d[i] = *b; } } }
        let v = verdict_set(&rules, &d, false).unwrap_or_default();
        let (vm, vt) = (v.contains("m"), v.contains("t"));
        runs.push(format!("mkBRun {} {} {} {}", coq_z(d.len() as i128), coq_bytes_z(&d), coq_bool(vm), coq_bool(vt)));
        rj.push(format!("{{\"data_hex\":\"{}\",\"verdict\":{},\"verdict_without_pruning\":{}}}", hex(&d), vm, vt));
        let _ = write!(dl, "{}{}", vm as u8, vt as u8);
        if vt { out.stats.inc("bounds:condition_true"); } else { out.stats.inc("bounds:condition_false"); }
    }
    if ob != "(mkFsb Unb Unb)" { out.stats.inc("bounds:has_filesize_bounds"); }
    if oh != "HUnconstrained" { out.stats.inc(if oh == "HUnsatisfiable" { "bounds:header_unsatisfiable" } else { "bounds:has_header_constraint" }); }
    // the condition the compiler analysed is `cs and (..)`: one more level of `and`
    let model_c = match &c { CExp::And(es) => { let mut v = es.clone(); v.push(CExp::Other(9999, String::new())); CExp::And(v) } x => CExp::And(vec![x.clone(), CExp::Other(9999, String::new())]) };
    let case = format!("KBounds ({}) {} {} {} [{}]", ccoq(&model_c), coq_bool(has_obs), ob, oh, runs.join("; "));
    let class = if rj.iter().any(|r| r.contains("\"verdict\":true,\"verdict_without_pruning\":false") || r.contains("\"verdict\":false,\"verdict_without_pruning\":true")) { "verdict-changed-by-pruning" } else { "bounds-not-implied-by-condition" };
    let replay = format!("{{\"kind\":\"bounds\",\"index\":{},\"class\":\"{}\",\"rule\":{},\"twin\":{},\"observed_bounds\":{},\"observed_header_constraint\":{},\"runs\":[{}]}}",
        idx, class, json_str(&main_src), json_str(&twin_src), json_str(&ob), json_str(&oh), rj.join(","));
    out.dump_line(format!("bounds {} {} :: {}", idx, dl, cs));
    out.push(case, replay, Some(format!("bounds:{}", cs)));
}
fn coq_bytes_z(b: &[u8]) -> String { format!("{}%Z", coq_list(b, |x| format!("{}", x))) }
fn gen_bounds_data(rng: &mut Rng, head: &[u8], size_hint: i64) -> Vec<u8> {
    let n = match rng.below(6) { 0 => size_hint, 1 => size_hint + 1, 2 => size_hint - 1, 3 => rng.range(0, 8), 4 => size_hint * 2, _ => rng.range(0, 400) }.max(0) as usize;
    let mut d: Vec<u8> = (0..n).map(|_| b'.').collect();
    if rng.chance(4, 5) { for (i, b) in head.iter().enumerate() { if i < n { d[i] = *b; } } }
    if rng.chance(1, 5) && n > 0 { let i = rng.below(n.min(4) as u64) as usize; d[i] ^= 0x20; }
    if rng.chance(1, 2) && n >= 14 { d[10..13].copy_from_slice(b"qQQ"); }
    if rng.chance(1, 3) && n >= 18 { d[14..17].copy_from_slice(b"qRR"); }
    d
}

// ---------------------------------------------------------------- KScan
#[derive(Clone, Debug)]
struct Pat { def: String, inst: Vec<Vec<u8>>, fixed_len: bool }
#[derive(Clone, Debug)]
enum Use { Bare(usize), Count(usize, u32), OffsetEq(usize, u32), Len(usize), At(usize, u32), In(usize, u32, u32),
           OfSet(Vec<usize>, u32), OfIn(Vec<usize>, u32, u32), OfAtEnd(Vec<usize>), ForOfBare(Vec<usize>), ForOfCount(Vec<usize>),
           FsLt(u32), FsGe(u32), Hdr16(u32), Loop(u32), RuleRef(usize) }
#[derive(Clone, Debug)]
struct RuleSpec { pats: Vec<Pat>, uses: Vec<Use>, conj: bool }

const WORDS: [&str; 12] = ["alpha", "bravo", "charlie", "delta", "echo", "foxtrot", "golf", "hotel", "india", "juliet", "kilo", "lima"];

fn gen_pat(rng: &mut Rng, name: &str, uniq: usize, big_set: bool) -> Pat {
    let w = format!("{}{}", WORDS[rng.below(12) as usize], if big_set { format!("{:03}", uniq) } else { String::new() });
    let wb = w.as_bytes().to_vec();
    let hexs = |b: &[u8]| b.iter().map(|x| format!("{:02X}", x)).collect::<Vec<_>>().join(" ");
    match if big_set { rng.below(4) } else { rng.below(15) } {
        0 | 1 => Pat { def: format!("${} = \"{}\"", name, w), inst: vec![wb], fixed_len: true },
        2 => Pat { def: format!("${} = \"{}\" nocase", name, w), inst: vec![wb.clone(), w.to_uppercase().into_bytes()], fixed_len: true },
        3 => Pat { def: format!("${} = {{ {} }}", name, hexs(&wb)), inst: vec![wb], fixed_len: true },
        4 => { let wide: Vec<u8> = wb.iter().flat_map(|b| [*b, 0]).collect();
               Pat { def: format!("${} = \"{}\" ascii wide", name, w), inst: vec![wb, wide], fixed_len: false } }
        5 => Pat { def: format!("${} = \"{}\" fullword", name, w), inst: vec![wb.clone(), [b" ".to_vec(), wb, b" ".to_vec()].concat()], fixed_len: true },
        6 => { let short = &wb[..rng.range(1, 3) as usize]; // very short atoms: Teddy mask length 1..3
               Pat { def: format!("${} = \"{}\"", name, String::from_utf8_lossy(short)), inst: vec![short.to_vec()], fixed_len: true } }
        7 => { let mut i = wb.clone(); i.extend_from_slice(b"123x");
               Pat { def: format!("${} = /{}[0-9]+x/", name, w), inst: vec![i, [wb, b"7x".to_vec()].concat()], fixed_len: false } }
        8 => { let mut i = wb[..3].to_vec(); i.extend_from_slice(b"__"); i.extend_from_slice(&wb[3..]);
               Pat { def: format!("${} = {{ {} [0-3] {} }}", name, hexs(&wb[..3]), hexs(&wb[3..])), inst: vec![i, wb], fixed_len: false } }
        9 => { // alternatives whose atoms have different backtrack: discovered out of offset order
               let tail = &wb[..4.min(wb.len())];
               let mut i1 = b"zzzzzz".to_vec(); i1.extend_from_slice(tail);
               Pat { def: format!("${} = {{ ( ?? ?? ?? ?? ?? ?? {} | 51 52 53 54 ) }}", name, hexs(tail)), inst: vec![i1, b"..QRST".to_vec(), [b"..QRST".to_vec(), tail.to_vec()].concat()], fixed_len: false } }
        10 => { let mut i = wb.clone(); i[1] = b'?';
                Pat { def: format!("${} = {{ {} ?? {} }}", name, hexs(&wb[..1]), hexs(&wb[2..])), inst: vec![i, wb], fixed_len: true } }
        11 => { let mut i = wb.clone(); i.extend_from_slice(b"--"); i.extend_from_slice(b"end");
               Pat { def: format!("${} = /{}.{{0,4}}end/s", name, w), inst: vec![i], fixed_len: false } }
        // literal alternatives with a common prefix and different lengths (both at the same offset), in both orders:
        // which one is reported must not depend on the multi-pattern search that finds the atoms
        12 => { let short = &w[..w.len() - 1 - rng.below(2) as usize];
                let def = if rng.chance(1, 2) { format!("${} = /{}|{}/", name, w, short) } else { format!("${} = /{}|{}/", name, short, w) };
                Pat { def, inst: vec![wb.clone(), short.as_bytes().to_vec(), [wb.clone(), wb].concat()], fixed_len: false } }
        13 => { let short = &wb[..wb.len() - 1 - rng.below(2) as usize];
                let def = if rng.chance(1, 2) { format!("${} = {{ ( {} | {} ) }}", name, hexs(&wb), hexs(short)) } else { format!("${} = {{ ( {} | {} ) }}", name, hexs(short), hexs(&wb)) };
                Pat { def, inst: vec![wb.clone(), short.to_vec(), [wb.clone(), wb.clone()].concat()], fixed_len: false } }
        _ => { let mut i = wb.clone(); i.extend_from_slice(b"xy");
               Pat { def: format!("${} = /{}(xy)?/", name, w), inst: vec![i, wb], fixed_len: false } }
    }
}

fn gen_rule(rng: &mut Rng, rid: usize, shared: &mut Vec<(String, Pat)>, uniq: &mut usize, big_set: bool) -> RuleSpec {
    let np = if big_set { 1 + rng.below(2) as usize } else { 1 + rng.below(3) as usize };
    let mut pats = vec![];
    for k in 0..np {
        let name = format!("p{}", k);
        if !shared.is_empty() && rng.chance(1, if big_set { 12 } else { 3 }) {
            // re-use the text of an earlier pattern: same pattern id if bounds/constraints agree
            let (old, p) = rng.pick(shared).clone();
            pats.push(Pat { def: p.def.replacen(&format!("${}", old), &format!("${}", name), 1), ..p });
        } else {
            *uniq += 1;
            let p = gen_pat(rng, &name, *uniq, big_set);
            shared.push((name.clone(), p.clone()));
            pats.push(p);
        }
    }
    let mut uses = vec![];
    let mut used = vec![false; np];
    let nu = 1 + rng.below(3) as usize;
    for _ in 0..nu {
        let p = rng.below(np as u64) as usize;
        let all: Vec<usize> = (0..np).collect();
        let u = match if big_set { rng.below(6) } else { rng.below(24) } {
            0..=4 => Use::Bare(p), 5 => Use::Count(p, rng.below(3) as u32), 6 => Use::OffsetEq(p, rng.below(30) as u32), 7 => Use::Len(p),
            8 => Use::At(p, *rng.pick(&[0u32, 0, 4, 10])), 9 => Use::In(p, rng.below(10) as u32, 10 + rng.below(40) as u32),
            10 | 11 => Use::OfSet(all, 1 + rng.below(np as u64) as u32), 12 => Use::OfIn(all, rng.below(12) as u32, 12 + rng.below(60) as u32),
            13 => Use::OfAtEnd(all), 14 => Use::ForOfBare(all), 15 => Use::ForOfCount(all),
            16 => Use::FsLt(*rng.pick(&[8u32, 9, 64, 4096, 5000])), 17 => Use::FsGe(*rng.pick(&[0u32, 8, 9, 100, 4096])),
            18 => Use::Hdr16(*rng.pick(&[0x5a4du32, 0x4b50, 0x6c61])), 19 => Use::Loop(rng.below(3) as u32),
            20 if rid > 0 => Use::RuleRef(rng.below(rid as u64) as usize), _ => Use::Bare(p),
        };
        match &u { Use::Bare(q) | Use::Count(q, _) | Use::OffsetEq(q, _) | Use::Len(q) | Use::At(q, _) | Use::In(q, _, _) => used[*q] = true,
                   Use::OfSet(..) | Use::OfIn(..) | Use::OfAtEnd(..) | Use::ForOfBare(..) | Use::ForOfCount(..) => for x in used.iter_mut() { *x = true }, _ => {} }
        uses.push(u);
    }
    for (q, u) in used.iter().enumerate() { if !*u { uses.push(Use::Bare(q)); } }
    RuleSpec { pats, uses, conj: rng.chance(1, 2) }
}

fn use_src(u: &Use) -> String {
    let set = |s: &Vec<usize>| s.iter().map(|p| format!("$p{}", p)).collect::<Vec<_>>().join(", ");
    match u {
        Use::Bare(p) => format!("$p{}", p), Use::Count(p, k) => format!("#p{} > {}", p, k), Use::OffsetEq(p, o) => format!("@p{}[1] == {}", p, o),
        Use::Len(p) => format!("!p{}[1] > 0", p), Use::At(p, o) => format!("$p{} at {}", p, o), Use::In(p, a, b) => format!("$p{} in ({}..{})", p, a, b),
        Use::OfSet(s, n) => format!("{} of ({})", n, set(s)), Use::OfIn(s, a, b) => format!("any of ({}) in ({}..{})", set(s), a, b),
        Use::OfAtEnd(s) => format!("any of ({}) at (filesize - 8)", set(s)),
        Use::ForOfBare(s) => format!("for any of ({}) : ($)", set(s)), Use::ForOfCount(s) => format!("for any of ({}) : (# > 1)", set(s)),
        Use::FsLt(n) => format!("filesize < {}", n), Use::FsGe(n) => format!("filesize >= {}", n), Use::Hdr16(v) => format!("uint16(0) == 0x{:x}", v),
        // a loop with an invariant sub-expression (hoisting), possibly undefined
        Use::Loop(0) => "for any i in (0..3) : (uint8(i) == (filesize - filesize + 97))".into(),
        Use::Loop(1) => "for all i in (1..2) : (uint8(i) != uint8(filesize + 100) or i == 1 or i == 2)".into(),
        Use::Loop(_) => "for any i in (0..filesize) : (i * 2 == (filesize \\ 2) * 2 and uint8(0) == uint8(0))".into(),
        Use::RuleRef(r) => format!("r{}", r),
    }
}
fn rule_src(id: usize, r: &RuleSpec) -> String {
    let uses: Vec<String> = r.uses.iter().map(use_src).collect();
    // filesize / header uses are always and-ed at the top level so that they yield bounds
    let (top, rest): (Vec<_>, Vec<_>) = r.uses.iter().zip(uses.iter()).partition(|(u, _)| matches!(u, Use::FsLt(_) | Use::FsGe(_) | Use::Hdr16(_)));
    let rest_s: Vec<String> = rest.iter().map(|(_, s)| (*s).clone()).collect();
    let mut parts: Vec<String> = top.iter().map(|(_, s)| (*s).clone()).collect();
    if !rest_s.is_empty() { parts.push(if r.conj { rest_s.join(" and ") } else { format!("({})", rest_s.join(" or ")) }); }
    format!("rule r{} {{ strings: {} condition: {} }}", id, r.pats.iter().map(|p| p.def.clone()).collect::<Vec<_>>().join(" "), parts.join(" and "))
}

fn gen_scan_data(rng: &mut Rng, rules: &[RuleSpec], size_class: u32) -> Vec<u8> {
    let target = match size_class { 0 => 8usize, 1 => 19 + rng.below(46) as usize, _ => 4096 + rng.below(300) as usize };
    let mut d: Vec<u8> = match rng.below(3) { 0 => vec![b'.'; target], 1 => (0..target).map(|i| b"la MZ PK ."[i % 10]).collect(), _ => (0..target).map(|_| rng.below(256) as u8).collect() };
    let insts: Vec<&Vec<u8>> = rules.iter().flat_map(|r| r.pats.iter().flat_map(|p| p.inst.iter())).collect();
    if insts.is_empty() { return d; }
    let n_plant = match size_class { 0 => 1 + rng.below(2), 1 => 1 + rng.below(5), _ => 2 + rng.below(12) };
    for k in 0..n_plant {
        let i = *rng.pick(&insts);
        if i.len() > d.len() { continue; }
        let pos = match (k, rng.below(4)) { (0, 0) => 0, (_, 1) => d.len() - i.len(), _ => rng.below((d.len() - i.len() + 1) as u64) as usize };
        d[pos..pos + i.len()].copy_from_slice(i);
    }
    if rng.chance(1, 3) && d.len() >= 2 { d[0] = b'M'; d[1] = b'Z'; }
    d
}

type MatchMap = BTreeMap<usize, Vec<(usize, usize)>>;
struct Dump { fast: bool, verdicts: Vec<bool>, matches: MatchMap, err: Option<String> }

fn scan_cfg(rules: &yara_x::Rules, ids: &BTreeMap<(String, String), usize>, nrules: usize, data: &[u8], fast: bool) -> Dump {
    let r = catch(AssertUnwindSafe(|| {
        let mut s = yara_x::Scanner::new(rules);
        s.fast_scan(fast);
        let res = s.scan(data).map_err(|e| e.to_string())?;
        let mut verdicts = vec![false; nrules];
        let mut matches: MatchMap = BTreeMap::new();
        for r in res.matching_rules() {
            let rid: usize = r.identifier()[1..].parse().unwrap();
            verdicts[rid] = true;
            for p in r.patterns() {
                let id = ids[&(r.identifier().to_string(), p.identifier().to_string())];
                let ms: Vec<(usize, usize)> = p.matches().map(|m| (m.range().start, m.range().len())).collect();
                matches.insert(id, ms);
            }
        }
        Ok::<_, String>((verdicts, matches))
    }));
    match r {
        Ok(Ok((verdicts, matches))) => Dump { fast, verdicts, matches, err: None },
        Ok(Err(e)) => Dump { fast, verdicts: vec![], matches: BTreeMap::new(), err: Some(e) },
        Err(p) => Dump { fast, verdicts: vec![], matches: BTreeMap::new(), err: Some(format!("PANIC {}", p)) },
    }
}

fn fcond_of(r: &RuleSpec, rid: usize, ids: &BTreeMap<(String, String), usize>) -> String {
    let id = |p: usize| coq_nat(ids[&(format!("r{}", rid), format!("$p{}", p))]);
    let dummy = "(fun _ => true)";
    let mut items: Vec<String> = vec![];
    for u in &r.uses {
        match u {
            Use::Bare(p) => items.push(format!("FBare {}", id(*p))),
            Use::Count(p, _) | Use::OffsetEq(p, _) | Use::Len(p) | Use::In(p, _, _) => items.push(format!("FObs {} {}", id(*p), dummy)),
            Use::At(p, _) => items.push(format!("FObs {} {}", id(*p), dummy)),
            Use::OfSet(s, _) | Use::ForOfBare(s) => for p in s { items.push(format!("FBare {}", id(*p))) },
            Use::OfIn(s, _, _) | Use::OfAtEnd(s) => for p in s { items.push(format!("FOfAnch {} {}", id(*p), dummy)) },
            Use::ForOfCount(s) => for p in s { items.push(format!("FObs {} {}", id(*p), dummy)) },
            Use::RuleRef(q) => items.push(format!("FRule {}", coq_nat(*q))),
            _ => items.push("FConst true".into()),
        }
    }
    let mut t = items.pop().unwrap_or_else(|| "FConst true".into());
    while let Some(x) = items.pop() { t = format!("FAnd ({}) ({})", x, t); }
    t
}

fn gen_scan_cases(rng: &mut Rng, idx: usize, out: &mut Out) {
    let big_set = rng.chance(1, 4);
    let nrules = if big_set { 40 + rng.below(30) as usize } else { 1 + rng.below(4) as usize };
    let mut shared = vec![]; let mut uniq = 0usize;
    let specs: Vec<RuleSpec> = (0..nrules).map(|i| gen_rule(rng, i, &mut shared, &mut uniq, big_set)).collect();
    let srcs: Vec<String> = specs.iter().enumerate().map(|(i, r)| rule_src(i, r)).collect();
    let datas: Vec<Vec<u8>> = [0u32, 1, 2].iter().map(|c| gen_scan_data(rng, &specs, *c)).collect();
    // compile under both settings of condition_optimization
    let mut built: Vec<(bool, yara_x::Rules)> = vec![];
    for opt in [false, true] {
        let mut c = yara_x::Compiler::new();
        c.condition_optimization(opt);
        let ok = catch(AssertUnwindSafe(|| { for s in &srcs { c.add_source(s.as_str()).map_err(|e| e.to_string())?; } Ok::<(), String>(()) }));
        match ok {
            Ok(Ok(())) => built.push((opt, c.build())),
            other => { out.stats.inc("scan:rule_set_rejected(generator)"); eprintln!("c03: rule set {} rejected: {:?}\n{}", idx, other, srcs.join("\n"));
                       out.dump_line(format!("scan {} rejected", idx)); return; }
        }
    }
    let rp = built[0].1.verif_c03_rule_patterns();
    let mut ids: BTreeMap<(String, String), usize> = BTreeMap::new();
    for (r, ps) in &rp { for (p, id) in ps { ids.insert((r.clone(), p.clone()), *id); } }
    let table = built[0].1.verif_c03_pattern_table();
    let npat = table.len();
    let mut fixed = vec![true; npat];
    for (rid, r) in specs.iter().enumerate() { for (k, p) in r.pats.iter().enumerate() { let id = ids[&(format!("r{}", rid), format!("$p{}", k))]; fixed[id] = fixed[id] && p.fixed_len; } }
    let teddy = built[0].1.verif_c03_teddy_min_len();
    let natoms = built[0].1.verif_c03_num_atoms();
    out.stats.inc(if natoms > 64 { "scan:atoms>64(aho-corasick only)" } else { "scan:atoms<=64" });
    out.stats.inc(if teddy.is_some() { "scan:teddy_available" } else { "scan:no_teddy" });
    let model_rules = coq_list(&(0..nrules).collect::<Vec<_>>(), |i| fcond_of(&specs[*i], *i, &ids));
    let bits = coq_list(&table, |t| coq_bool(t.0).to_string());
    let fl = coq_list(&fixed, |b| coq_bool(*b).to_string());
    let has_of_anch = specs.iter().any(|r| r.uses.iter().any(|u| matches!(u, Use::OfIn(..) | Use::OfAtEnd(..))));
    // all buffers with the SIMD searcher (where one exists), then the same compiled rules with it removed
    let mut all_dumps: Vec<Vec<(String, Dump)>> = datas.iter().map(|_| vec![]).collect();
    for teddy_on in [true, false] {
        if !teddy_on { for (_, rules) in built.iter_mut() { rules.verif_c03_disable_teddy(); } }
        for (di, data) in datas.iter().enumerate() {
            for (opt, rules) in built.iter() {
                for fast in [false, true] {
                    all_dumps[di].push((format!("opt={} teddy={} fast={}", opt, if teddy_on { "on" } else { "off" }, fast), scan_cfg(rules, &ids, nrules, data, fast)));
                }
            }
        }
    }
    for (di, (data, dumps)) in datas.iter().zip(all_dumps.into_iter()).enumerate() {
        if let Some(t) = teddy { out.stats.inc(if data.len() >= t { "scan:buffer>=teddy_minimum(teddy used)" } else { "scan:buffer<teddy_minimum" }); }
        out.stats.inc(&format!("scan:buffer_class_{}", di));
        let errs: Vec<String> = dumps.iter().filter_map(|(n, d)| d.err.as_ref().map(|e| format!("{}: {}", n, e))).collect();
        // classification, for the fingerprint only (the decision is spec_case in Coq)
        let base = &dumps[0].1;
        let mut tags: Vec<&str> = vec![];
        for (_, d) in dumps.iter().skip(1) {
            if d.verdicts != base.verdicts { tags.push(if d.fast { if has_of_anch { "fast-scan:verdict-differs:of-with-anchor" } else { "fast-scan:verdict-differs" } } else { "verdict-differs" }); continue; }
            if !d.fast {
                if d.matches != base.matches {
                    // same offsets, different lengths: the alternative reported depends on the searcher that offered the atoms
                    let same_starts = d.matches.len() == base.matches.len() && d.matches.iter().all(|(p, ms)| base.matches.get(p).map_or(false, |bs| bs.len() == ms.len() && bs.iter().zip(ms.iter()).all(|(a, b)| a.0 == b.0)));
                    tags.push(if same_starts { "multi-pattern-search:match-length-differs" } else { "matches-differ" });
                }
                continue;
            }
            for (p, f) in &d.matches {
                if let Some(n) = base.matches.get(p) {
                    let has = |m: &(usize, usize), l: &Vec<(usize, usize)>| l.iter().any(|x| x.0 == m.0 && (!fixed[*p] || x.1 == m.1));
                    if !f.iter().all(|m| has(m, n)) { tags.push("fast-scan:not-a-subset"); }
                    else if let Some(m0) = n.first() { if !has(m0, f) { tags.push(if f.is_empty() { "fast-scan:no-match-kept" } else { "fast-scan:first-match-not-lowest-offset" }); } }
                }
            }
        }
        if !errs.is_empty() { tags.push("scan-error"); }
        tags.sort(); tags.dedup();
        for t in &tags { out.stats.inc(&format!("scan:{}", t)); }
        let dcoq = coq_list(&dumps, |(_, d)| format!("mkSDump {} {} {}", coq_bool(d.fast), coq_list(&d.verdicts, |b| coq_bool(*b).to_string()),
            coq_list(&d.matches.iter().collect::<Vec<_>>(), |(p, ms)| format!("({}, {})", coq_nat(**p), coq_list(ms, |m| format!("({}, {})", coq_z(m.0 as i128), coq_z(m.1 as i128)))))));
        let case = format!("KScan {} {} {} {}", model_rules, bits, fl, dcoq);
        let dj: Vec<String> = dumps.iter().map(|(n, d)| format!("{{\"config\":\"{}\",\"verdicts\":\"{}\",\"matches\":{}}}", n,
            d.verdicts.iter().map(|b| if *b { '1' } else { '0' }).collect::<String>(), json_str(&format!("{:?}", d.matches)))).collect();
        let src_json = if srcs.len() <= 6 { json_str(&srcs.join("\n")) } else { json_str(&format!("{} rules; first: {}", srcs.len(), srcs[..3].join("\n"))) };
        let replay = format!("{{\"kind\":\"scan\",\"index\":{},\"buffer\":{},\"class\":\"{}\",\"rules\":{},\"data_hex\":\"{}\",\"atoms\":{},\"teddy_min_len\":\"{:?}\",\"dumps\":[{}],\"errors\":{}}}",
            idx, di, tags.join("+"), src_json, if data.len() <= 200 { hex(data) } else { format!("{}..({} bytes)", hex(&data[..64]), data.len()) }, natoms, teddy, dj.join(","), json_str(&errs.join("; ")));
        // configuration-independent part: verdicts and matches of the plain scan, verdicts of the fast scan
        out.dump_line(format!("scan {} {} {} v={} m={:?} fv={}", idx, di, tags.join("+"), base.verdicts.iter().map(|b| if *b { '1' } else { '0' }).collect::<String>(),
            base.matches, dumps[1].1.verdicts.iter().map(|b| if *b { '1' } else { '0' }).collect::<String>()));
        out.push(case, replay, Some(format!("scan:{}:{}", idx, di)));
    }
}

fn corpus_scan_specs() -> Vec<Vec<RuleSpec>> {
    let lit = |name: &str, w: &str| Pat { def: format!("${} = \"{}\"", name, w), inst: vec![w.as_bytes().to_vec()], fixed_len: true };
    vec![
        // finding 18 (repaired by 2deda6b6): `any of (..) in (..)` used to leave the pattern fast-scan eligible
        vec![RuleSpec { pats: vec![lit("p0", "alpha")], uses: vec![Use::OfIn(vec![0], 10, 40)], conj: true }],
        vec![RuleSpec { pats: vec![lit("p0", "alpha")], uses: vec![Use::OfAtEnd(vec![0])], conj: true }],
    ]
}


// ---------------------------------------------------------------- KReSet: `or` of `matches`
/// kinds of left operands of `matches`
#[derive(Clone, Debug, PartialEq)]
enum Lhs { Global(usize), WithId(usize), LoopVar, Field(&'static str), Call(String), Lit(String) }

fn lhs_src(l: &Lhs) -> String {
    match l { Lhs::Global(i) => format!("gs{}", i), Lhs::WithId(j) => format!("w{}", j), Lhs::LoopVar => "lv".into(),
              Lhs::Field(f) => format!("test_proto2.{}", f), Lhs::Call(c) => c.clone(), Lhs::Lit(s) => format!("\"{}\"", s) }
}

fn gen_or_matches_case(rng: &mut Rng, idx: usize, out: &mut Out) {
    let n_ops = 2 + rng.below(5) as usize;
    // wrapper around the `or`: none, `with`, `for any lv in (..)`
    let wrapper = rng.below(4);
    let n_with = if wrapper == 1 { 1 + rng.below(3) as usize } else { 0 };
    // values of the globals in this scan: distinct tokens
    let toks = ["alfa", "brav", "char", "delt", "echo", "foxt"];
    let mut gvals: Vec<String> = (0..4).map(|i| format!("{}{}", toks[i], rng.below(3))).collect();
    // with identifiers are bound to globals, module fields or literals
    let with_defs: Vec<(String, String)> = (0..n_with).map(|j| {
        let (e, v) = match rng.below(4) { 0 => ("test_proto2.string_foo".to_string(), "foo".to_string()), 1 => ("test_proto2.string_bar".to_string(), "bar".to_string()),
                                          2 => { let t = format!("lit{}", j); (format!("\"{}\"", t), t) } _ => { let g = rng.below(4) as usize; (format!("gs{}", g), String::new() + &format!("@g{}", g)) } };
        (e, v)
    }).collect();
    let loop_items: Vec<(String, String)> = if wrapper == 2 {
        (0..2 + rng.below(2)).map(|k| match rng.below(3) { 0 => { let g = rng.below(4) as usize; (format!("gs{}", g), format!("@g{}", g)) } 1 => ("test_proto2.string_bar".to_string(), "bar".to_string()), _ => { let t = format!("item{}", k); (format!("\"{}\"", t), t) } }).collect()
    } else { vec![] };
    let mut ops: Vec<(Lhs, String)> = vec![]; // (left operand, regexp)
    let pick_lhs = |rng: &mut Rng| -> Lhs {
        loop {
            match rng.below(9) {
                0..=2 => { let m = if rng.chance(1, 2) { 2 } else { 4 }; return Lhs::Global(rng.below(m) as usize) }
                3 if n_with > 0 => return Lhs::WithId(rng.below(n_with as u64) as usize),
                4 if wrapper == 2 => return Lhs::LoopVar,
                5 => return Lhs::Field(if rng.chance(1, 2) { "string_foo" } else { "string_bar" }),
                6 => return Lhs::Call(match rng.below(3) { 0 => "test_proto2.get_foo()".to_string(), 1 => format!("test_proto2.uppercase(gs{})", rng.below(4)), _ => format!("test_proto2.head({})", 2 + rng.below(3)) }),
                7 => return Lhs::Lit(format!("const{}", rng.below(3))),
                _ => if rng.chance(1, 3) { return Lhs::Global(rng.below(4) as usize) },
            }
        }
    };
    // plain identifiers on the left are what a careless key cannot tell apart: make them frequent
    for _ in 0..n_ops {
        let l = pick_lhs(rng);
        // the regexp is aimed at the value of this operand, at the value of ANOTHER left operand
        // (so that evaluating it on the wrong operand gives a different answer), or at nothing
        let value_of = |l: &Lhs, rng: &mut Rng| -> String {
            let resolve = |v: &String| if let Some(g) = v.strip_prefix("@g") { gvals[g.parse::<usize>().unwrap()].clone() } else { v.clone() };
            match l { Lhs::Global(g) => gvals[*g].clone(), Lhs::WithId(j) => resolve(&with_defs[*j].1),
                      Lhs::LoopVar => resolve(&loop_items[rng.below(loop_items.len() as u64) as usize].1),
                      Lhs::Field(f) => if *f == "string_foo" { "foo".into() } else { "bar".into() },
                      Lhs::Call(c) => if c.contains("get_foo") { "foo".into() } else if c.contains("uppercase") { let g: usize = c[c.len() - 2..c.len() - 1].parse().unwrap(); gvals[g].to_uppercase() } else { "AB".into() },
                      Lhs::Lit(t) => t.clone() }
        };
        let target = match rng.below(10) {
            0..=4 => value_of(&l, rng),
            5..=7 if !ops.is_empty() => { let o = ops[rng.below(ops.len() as u64) as usize].0.clone(); value_of(&o, rng) }
            8 => "nothing".to_string(),
            _ => gvals[rng.below(4) as usize].clone(),
        };
        let re = match rng.below(3) { 0 => format!("/^{}/", target), 1 => format!("/{}$/", target), _ => format!("/^{}$/", target) };
        ops.push((l, re));
    }
    // make "only a later operand is true" frequent: give the first operand's global a value its regexp rejects
    if rng.chance(1, 2) { if let Lhs::Global(g) = ops[0].0 { gvals[g] = format!("zz{}", rng.below(9)); } }
    let wrap = |body: &str| -> String {
        match wrapper {
            1 => format!("with {} : ({})", with_defs.iter().enumerate().map(|(j, (e, _))| format!("w{} = {}", j, e)).collect::<Vec<_>>().join(", "), body),
            2 => format!("for any lv in ({}) : ({})", loop_items.iter().map(|(e, _)| e.clone()).collect::<Vec<_>>().join(", "), body),
            _ => body.to_string(),
        }
    };
    let op_src = |(l, re): &(Lhs, String)| format!("{} matches {}", lhs_src(l), re);
    let main_cond = wrap(&ops.iter().map(op_src).collect::<Vec<_>>().join(" or "));
    let mut c = yara_x::Compiler::new();
    for i in 0..4 { let _ = c.define_global(&format!("gs{}", i), ""); }
    let mut ok = add_rule(&mut c, &format!("import \"test_proto2\" rule r_main {{ condition: {} }}", main_cond)) == CStat::Ok;
    for (i, o) in ops.iter().enumerate() { ok &= add_rule(&mut c, &format!("import \"test_proto2\" rule r_op{} {{ condition: {} }}", i, wrap(&op_src(o)))) == CStat::Ok; }
    if !ok { out.stats.inc("reset:rejected(generator)"); out.dump_line(format!("reset {} rejected :: {}", idx, main_cond)); return; }
    let rules = c.build();
    let data: Vec<u8> = b"ABCDEF".to_vec();
    let scanned = catch(AssertUnwindSafe(|| {
        let mut s = yara_x::Scanner::new(&rules);
        s.set_timeout(std::time::Duration::from_secs(SCAN_TIMEOUT_S));
        for i in 0..4 { s.set_global(&format!("gs{}", i), gvals[i].as_str()).unwrap(); }
        let r = s.scan(&data).unwrap();
        r.matching_rules().map(|r| r.identifier().to_string()).collect::<HashSet<_>>()
    }));
    let errors = scanned.is_err() as usize;
    let v = scanned.unwrap_or_default();
    let verdict = v.contains("r_main");
    let alone: Vec<bool> = (0..ops.len()).map(|i| v.contains(&format!("r_op{}", i))).collect();
    // identity of the left operand: same source text = same expression
    let mut ids: Vec<usize> = vec![]; let mut seen: Vec<String> = vec![];
    for (l, _) in &ops { let t = lhs_src(l); let id = seen.iter().position(|x| *x == t).unwrap_or_else(|| { seen.push(t.clone()); seen.len() - 1 }); ids.push(id); }
    let plain = ops.iter().filter(|(l, _)| matches!(l, Lhs::Global(_) | Lhs::WithId(_) | Lhs::LoopVar | Lhs::Lit(_))).count();
    out.stats.inc(&format!("reset:distinct_left_operands:{}", seen.len().min(4)));
    if plain >= 2 { out.stats.inc("reset:two_or_more_plain_left_operands"); }
    if alone.iter().any(|b| *b) { out.stats.inc("reset:some_operand_true"); }
    if !alone.first().copied().unwrap_or(false) && alone.iter().skip(1).any(|b| *b) { out.stats.inc("reset:only_a_later_operand_true"); }
    let class = if errors > 0 { "regexp-set:scan-fails" } else if verdict != alone.iter().any(|b| *b) { if plain >= 2 { "regexp-set:or-differs-from-operands:plain-left-operands" } else { "regexp-set:or-differs-from-operands" } } else { "" };
    let case = format!("KReSet {} {} {} {}", coq_list(&ids, |i| coq_nat(*i)), coq_list(&alone, |b| coq_bool(*b).to_string()), coq_bool(verdict), coq_nat(errors));
    let replay = format!("{{\"kind\":\"reset\",\"index\":{},\"class\":\"{}\",\"condition\":{},\"globals\":{},\"data_hex\":\"{}\",\"verdict\":{},\"operands_alone\":{},\"scan_errors\":{}}}",
        idx, class, json_str(&main_cond), json_str(&format!("{:?}", gvals)), hex(&data), verdict, json_str(&format!("{:?}", alone)), errors);
    out.dump_line(format!("reset {} v={} alone={:?} :: {}", idx, verdict as u8, alone, main_cond));
    out.push(case, replay, Some(format!("reset:{}", main_cond)));
}

// ---------------------------------------------------------------- KHoist: loops whose bodies own variables
fn gen_hoist_case(rng: &mut Rng, idx: usize, out: &mut Out) {
    // outer loop: range, tuple, map; `v` is the integer the body works with
    let (outer_head, v) = match rng.below(4) {
        0 => (format!("for any i in (0..{})", 6 + rng.below(6)), "i"),
        1 => ("for any i in (1, 3, 5, 7)".to_string(), "i"),
        2 => ("for any k, mv in test_proto2.map_int64_int64".to_string(), "(mv - 995)"),   // {100: 1000} -> 5
        _ => ("for any i in test_proto2.array_int64".to_string(), "(i \\ 2)"),            // 1, 10, 100 -> 0, 5, 50
    };
    // k hoistable invariants
    let k = rng.below(4) as usize;
    let invs: Vec<String> = (0..k).map(|_| match rng.below(5) { 0 => "uint8(0) == 0x2e".to_string(), 1 => "uint8(1) == 0x2e".to_string(), 2 => "filesize > 4".to_string(),
                                                             3 => "uint16(2) == 0x2e2e".to_string(), _ => format!("uint8({}) != 0x41", rng.below(4)) }).collect();
    // one nested statement that owns variables and uses the outer loop variable
    let kind = rng.below(11);
    let pv = match rng.below(5) { 0 => "! >= 4", 1 => "# == 1", 2 => "@ > 3", 3 => "$", _ => "@ + ! <= 9" };
    let nested = match kind {
        0 => format!("for any j in (0..{v}) : (j + 1 == {v})"),
        1 => format!("for any x in ({v}, {v} + 1) : (x == 5)"),
        2 => format!("for any k2, v2 in test_proto2.map_int64_int64 : (v2 - 995 == {v})"),
        3 => format!("for any of ($a, $b) : ($ at {v})"),
        4 => format!("any of ($a, $b) in ({v}..{v})"),
        5 => format!("1 of ($a, $b) at {v}"),
        6 => format!("with t = {v} * 2 : (t == 10)"),
        7 => format!("2 of ({v} == 5, uint8(0) == 0x2e, {v} > 3)"),
        8 => format!("for all j in (1..2) : (any of ($a, $b) in ({v}..{v} + j))"),
        // a percentage quantifier computed from the loop variable (three forms of `of` / `for..of`)
        9 => match rng.below(3) { 0 => format!("({v} * 20)% of ($a, $b)"), 1 => format!("for ({v} * 20)% of ($a, $b) : ($)"), _ => format!("({v} * 10 + 16)% of (uint8(0) == 0x2e, {v} == 5, filesize > 100)") },
        // #, @, !, $ of the pattern a `for..of` iterates over, inside a `for..in`
        _ => match rng.below(3) { 0 => format!("for all of ($a, $b) : ({pv} and {v} >= 0)"), 1 => format!("for all of ($a, $b) : ({pv})"), _ => format!("for any of ($a, $b) : ({pv} and @ == {v})") },
    };
    let tail = match rng.below(3) { 0 => format!(" and {} == 5", v), 1 => format!(" and {} >= 0", v), _ => String::new() };
    let mut parts = invs.clone();
    let pos = rng.below(parts.len() as u64 + 1) as usize;
    parts.insert(pos, nested.clone());
    let cond = format!("{} : ({}{})", outer_head, parts.join(" and "), tail);
    let src = format!("import \"test_proto2\" rule h {{ strings: $a = \"aaaa\" $b = \"bbbb\" condition: {} and ($a or $b or true) }}", cond);
    let mut built = vec![];
    for opt in [false, true] {
        let mut c = yara_x::Compiler::new(); c.condition_optimization(opt);
        if add_rule(&mut c, &src) != CStat::Ok { out.stats.inc("hoist:rejected(generator)"); out.dump_line(format!("hoist {} rejected :: {}", idx, cond)); return; }
        built.push(c.build());
    }
    let bufs: Vec<Vec<u8>> = vec![b".....aaaa.....".to_vec(), b".....bbbb.....".to_vec(), b"....aaaa......".to_vec(), b"..aaaa.bbbb".to_vec(), b"A....aaaa".to_vec(), b"..".to_vec()];
    let mut errs: Vec<String> = vec![];
    let vs: Vec<Vec<bool>> = built.iter().enumerate().map(|(ci, r)| bufs.iter().map(|b| match verdict_set(r, b, false) { Ok(s) => s.contains("h"),
        Err(e) => { errs.push(format!("optimisation={} data={}: {}", ci == 1, hex(b), e.chars().take(120).collect::<String>())); false } }).collect()).collect();
    let names = ["for-in-range", "for-in-tuple", "for-in-map", "for-of", "of-in-range", "of-at", "with", "of-expr-tuple", "for-in+of", "percentage-quantifier", "for-of-pattern-var"];
    out.stats.inc(&format!("hoist:nested:{}", names[kind as usize]));
    out.stats.inc(&format!("hoist:invariants:{}", k));
    if vs[0].iter().any(|b| *b) { out.stats.inc("hoist:true_on_some_buffer"); }
    let class = if !errs.is_empty() { format!("hoisting:scan-fails:{}", names[kind as usize]) } else if vs[0] != vs[1] { format!("hoisting:verdict-differs:{}", names[kind as usize]) } else { String::new() };
    let case = format!("KHoist {} {} {}", coq_list(&vs[0], |b| coq_bool(*b).to_string()), coq_list(&vs[1], |b| coq_bool(*b).to_string()), coq_nat(errs.len()));
    let replay = format!("{{\"kind\":\"hoist\",\"index\":{},\"class\":\"{}\",\"rule\":{},\"buffers_hex\":{},\"unoptimised\":{},\"optimised\":{},\"scan_errors\":{}}}", idx, class, json_str(&src),
        json_str(&bufs.iter().map(|b| hex(b)).collect::<Vec<_>>().join(",")), json_str(&format!("{:?}", vs[0])), json_str(&format!("{:?}", vs[1])), json_str(&errs.join(" | ")));
    out.dump_line(format!("hoist {} u={:?} :: {}", idx, vs[0], cond));
    out.push(case, replay, Some(format!("hoist:{}", cond)));
}

// ---------------------------------------------------------------- main
fn main() { let args: Vec<String> = std::env::args().skip(1).collect(); std::process::exit(run(&args)); }

fn run(args: &[String]) -> i32 {
    quiet_panics();
    if arg_flag(args, "--probe") { return probe(args); }
    let seed = arg_u64(args, "--seed", 1);
    let n = arg_u64(args, "--n", 600) as usize;
    let out_dir = arg_val(args, "--out").expect("--out");
    let dump_path = arg_val(args, "--dump");
    let coq = !arg_flag(args, "--dump-only");
    let prelude = "From Coq Require Import List NArith ZArith Bool String.\nFrom YV Require Import Opt.Fold Gen.BoundsGen Opt.Bounds Opt.FastScan Opt.Hoist Opt.OptCheck.\nImport ListNotations.\nLocal Open Scope string_scope.\n";
    let mut out = Out { shards: Shards::new(Path::new(&out_dir), prelude, 40), stats: Stats::default(), distinct: HashSet::new(), samples: vec![],
                        dump: if dump_path.is_some() { Some(String::new()) } else { None }, coq };
    let mut rng = Rng::new(seed);
    start_watchdog();
    // shares of the budget: fold 45 %, r53 10 %, bounds 25 %, scan 20 % (a scan rule set yields 3 cases)
    let n_fold = n * 45 / 100; let n_r53 = n / 10; let n_bounds = n / 4; let n_scan_sets = (n / 5 / 3).max(2);

    // KFold
    let mut frng = rng.fork();
    let mut pending: Vec<BExp> = corpus_fold();
    let mut done = 0usize;
    while done < n_fold {
        while pending.len() < 25 { let big = frng.chance(3, 5); let depth = 1 + frng.below(3) as u32; pending.push(gen_bexp(&mut frng, depth, big)); }
        let batch: Vec<BExp> = pending.drain(..25.min(pending.len())).collect();
        let datas = vec![fold_data(&mut frng), fold_data(&mut frng)];
        now_at(format!("constant-folding batch at {} (seed {})", done, seed));
        run_fold_batch(&batch, &datas, &mut out, done);
        done += batch.len();
    }
    // KR53 / KF64
    let mut rrng = rng.fork();
    gen_r53(&mut rrng, &mut out, n_r53);
    // KBounds
    let mut brng = rng.fork();
    for i in 0..n_bounds { now_at(format!("pruning case {} (seed {})", i, seed)); gen_bounds_case(&mut brng, i, &mut out); }
    // KScan
    let mut srng = rng.fork();
    for (i, specs) in corpus_scan_specs().into_iter().enumerate() { scan_fixed(&specs, 1000 + i, &mut out); }
    for i in 0..n_scan_sets { now_at(format!("fast-scan rule set {} (seed {})", i, seed)); gen_scan_cases(&mut srng, i, &mut out); }
    // KReSet / KHoist
    let mut mrng = rng.fork();
    for i in 0..n / 8 { now_at(format!("regexp-set case {} (seed {})", i, seed)); gen_or_matches_case(&mut mrng, i, &mut out); }
    let mut hrng = rng.fork();
    for i in 0..n / 8 { now_at(format!("hoisting case {} (seed {})", i, seed)); gen_hoist_case(&mut hrng, i, &mut out); }
    *CURRENT.lock().unwrap() = None;

    out.shards.flush();
    if let Some(p) = dump_path { std::fs::write(p, out.dump.clone().unwrap_or_default().as_bytes()).unwrap(); }
    println!("{{\"evaluations\":{},\"distinct_nontrivial\":{},\"shards\":{},\"distribution\":{},\"samples\":[{}]}}",
        out.shards.total, out.distinct.len(), out.shards.shard_count, out.stats.json(), out.samples.join(","));
    0
}

/// corpus rule sets with a fixed buffer: pattern at 0 and at 12, 40 bytes
fn scan_fixed(specs: &[RuleSpec], idx: usize, out: &mut Out) {
    let srcs: Vec<String> = specs.iter().enumerate().map(|(i, r)| rule_src(i, r)).collect();
    let mut d = vec![b'.'; 40];
    for r in specs { for p in &r.pats { let i = &p.inst[0]; d[0..i.len()].copy_from_slice(i); d[12..12 + i.len()].copy_from_slice(i); d[32..32 + i.len()].copy_from_slice(i); } }
    let mut built = vec![];
    for opt in [false, true] { let mut c = yara_x::Compiler::new(); c.condition_optimization(opt); for s in &srcs { c.add_source(s.as_str()).unwrap(); } built.push((opt, c.build())); }
    let rp = built[0].1.verif_c03_rule_patterns();
    let mut ids = BTreeMap::new();
    for (r, ps) in &rp { for (p, id) in ps { ids.insert((r.clone(), p.clone()), *id); } }
    let table = built[0].1.verif_c03_pattern_table();
    let nrules = specs.len();
    let mut dumps: Vec<(String, Dump)> = vec![];
    for (opt, rules) in built.iter() { for fast in [false, true] { dumps.push((format!("opt={} teddy=on fast={}", opt, fast), scan_cfg(rules, &ids, nrules, &d, fast))); } }
    let base = &dumps[0].1;
    let differs = dumps.iter().any(|(_, x)| x.verdicts != base.verdicts);
    let tag = if differs { "fast-scan:verdict-differs:of-with-anchor" } else { "" };
    if differs { out.stats.inc("scan:fast-scan:verdict-differs:of-with-anchor"); }
    let model_rules = coq_list(&(0..nrules).collect::<Vec<_>>(), |i| fcond_of(&specs[*i], *i, &ids));
    let dcoq = coq_list(&dumps, |(_, d)| format!("mkSDump {} {} {}", coq_bool(d.fast), coq_list(&d.verdicts, |b| coq_bool(*b).to_string()),
        coq_list(&d.matches.iter().collect::<Vec<_>>(), |(p, ms)| format!("({}, {})", coq_nat(**p), coq_list(ms, |m| format!("({}, {})", coq_z(m.0 as i128), coq_z(m.1 as i128)))))));
    let case = format!("KScan {} {} {} {}", model_rules, coq_list(&table, |t| coq_bool(t.0).to_string()), coq_list(&table, |_| "true".to_string()), dcoq);
    let dj: Vec<String> = dumps.iter().map(|(n, x)| format!("{{\"config\":\"{}\",\"verdicts\":\"{}\",\"matches\":{}}}", n,
        x.verdicts.iter().map(|b| if *b { '1' } else { '0' }).collect::<String>(), json_str(&format!("{:?}", x.matches)))).collect();
    let replay = format!("{{\"kind\":\"scan\",\"index\":{},\"buffer\":0,\"class\":\"{}\",\"rules\":{},\"data_hex\":\"{}\",\"dumps\":[{}]}}", idx, tag, json_str(&srcs.join("\n")), hex(&d), dj.join(","));
    out.dump_line(format!("scan {} 0 {} v={} fv={}", idx, tag, base.verdicts.iter().map(|b| if *b { '1' } else { '0' }).collect::<String>(),
        dumps[1].1.verdicts.iter().map(|b| if *b { '1' } else { '0' }).collect::<String>()));
    out.push(case, replay, Some(format!("scan:{}", idx)));
}

/// `--probe --rules FILE --hex DATA`: print every configuration's dump (used for replays)
fn probe(args: &[String]) -> i32 {
    let src = std::fs::read_to_string(arg_val(args, "--rules").unwrap()).unwrap();
    let data = unhex(&arg_val(args, "--hex").unwrap_or_default());
    for opt in [false, true] {
        let mut c = yara_x::Compiler::new();
        c.condition_optimization(opt);
        match catch(AssertUnwindSafe(|| c.add_source(src.as_str()).map(|_| ()).map_err(|e| e.to_string()))) {
            Ok(Ok(())) => {}
            Ok(Err(e)) => { println!("opt={} COMPILE ERROR {}", opt, e); continue; }
            Err(p) => { println!("opt={} COMPILE PANIC {}", opt, p); continue; }
        }
        let mut rules = c.build();
        println!("opt={} teddy={:?} atoms={} table={:?}", opt, rules.verif_c03_teddy_min_len(), rules.verif_c03_num_atoms(), rules.verif_c03_pattern_table());
        for teddy in [true, false] {
            if !teddy { rules.verif_c03_disable_teddy(); }
            for fast in [false, true] {
                let r = catch(AssertUnwindSafe(|| {
                    let mut s = yara_x::Scanner::new(&rules); s.fast_scan(fast);
                    let res = s.scan(&data).unwrap();
                    res.matching_rules().map(|r| format!("{}{{{}}}", r.identifier(), r.patterns().map(|p| format!("{}:{:?}", p.identifier(),
                        p.matches().map(|m| (m.range().start, m.range().len())).collect::<Vec<_>>())).collect::<Vec<_>>().join(" "))).collect::<Vec<_>>().join(" ")
                }));
                println!("  teddy={} fast={} {}", teddy, fast, r.unwrap_or_else(|e| format!("PANIC {}", e)));
            }
        }
    }
    0
}
