//! C04: a scanner's results do not depend on what it scanned before.
//! Histories over the scanner API followed by a probe; the probe's canonical
//! result dump on the used scanner vs a fresh scanner (fresh thread) carrying
//! only the persistent-by-API options; prologue digests for the Coq model.
#[path = "../scanx.rs"]
mod scanx;
#[path = "../c04lib.rs"]
mod c04lib;
use c04lib::*;
use scanx::*;
use std::path::Path;
use verif_harness::util::*;

fn explore() -> i32 {
    let sets = rule_sets();
    let bufs = buffers();
    for (rs, set) in sets.iter().enumerate() {
        let t = std::time::Instant::now();
        for _ in 0..50 { let _s = yara_x::Scanner::new(&set.rules); }
        let t_new = t.elapsed();
        let mut s = yara_x::Scanner::new(&set.rules);
        for (i, b) in bufs.iter().enumerate() {
            let t = std::time::Instant::now();
            for _ in 0..20 { let _ = s.scan(b); }
            println!("rs {rs} buf {i} len {}: {:?} per scan", b.len(), t.elapsed() / 20);
        }
        println!("rs {rs}: Scanner::new {:?}", t_new / 50);
    }
    {
        let r = verif_harness::util::catch(std::panic::AssertUnwindSafe(|| { let mut b = yara_x::blocks::Scanner::new(&sets[1].rules); b.finish().map(|_| ()).map_err(|e| e.to_string()) }));
        println!("fresh blocks::Scanner::finish() without scan: {:?}", r);
    }
    {
        // triage: compile-time "deputy" items of struct arrays seen by a fresh block scanner
        for src in [r#"import "test_proto2" rule t { condition: test_proto2.array_struct.len() == 1 }"#,
                    r#"import "test_proto2" rule t { condition: defined test_proto2.array_struct[0].nested_int64_one }"#,
                    r#"import "pe" rule t { condition: pe.sections.len() == 1 }"#,
                    r#"import "pe" rule t { condition: defined pe.sections[0].name }"#,
                    r#"import "pe" rule t { condition: pe.number_of_sections == 0 or pe.sections.len() >= 0 }"#,
                    r#"import "elf" rule t { condition: elf.sections.len() == 1 }"#] {
            let rules = match yara_x::compile(src) { Ok(r) => r, Err(e) => { println!("compile error for {src}: {}", e.to_string().lines().next().unwrap_or("")); continue; } };
            let fresh_block = { let mut b = yara_x::blocks::Scanner::new(&rules); b.scan(0, b"abc").unwrap(); b.finish().unwrap().matching_rules().len() };
            let converted = { let mut c = yara_x::Scanner::new(&rules); let _ = c.scan(b"12345"); let mut b = yara_x::blocks::Scanner::from(c); b.scan(0, b"abc").unwrap(); b.finish().unwrap().matching_rules().len() };
            let converted_unused = { let c = yara_x::Scanner::new(&rules); let mut b = yara_x::blocks::Scanner::from(c); b.scan(0, b"abc").unwrap(); b.finish().unwrap().matching_rules().len() };
            let contiguous = { let mut c = yara_x::Scanner::new(&rules); c.scan(b"12345").unwrap().matching_rules().len() };
            println!("{src}\n   fresh block scanner: {fresh_block}  converted after scan: {converted}  converted unused: {converted_unused}  contiguous scan of `12345`: {contiguous}");
        }
    }
    {
        // triage: header constraints (`$a at 0 and $b`) in block mode when the block at base 0 is shorter than the header
        let rules = yara_x::compile(r#"rule t { strings: $a = "MZ" $b = "needle" condition: $a at 0 and $b }"#).unwrap();
        let file = b"MZ.. needle ....";
        for blocks in [vec![(0usize, 16usize)], vec![(0, 0), (0, 16)], vec![(0, 1), (0, 16)], vec![(0, 1), (1, 15)], vec![(0, 16), (0, 1)], vec![(0, 2), (2, 14)], vec![(2, 14), (0, 2)], vec![(0, 1), (0, 2), (2, 14)]] {
            let mut b = yara_x::blocks::Scanner::new(&rules);
            for (base, len) in &blocks { b.scan(*base, &file[*base..*base + *len]).unwrap(); }
            println!("header rule, blocks {:?}: matches = {}", blocks, b.finish().unwrap().matching_rules().len());
        }
    }
    if std::env::var("C04_EXPLORE_FULL").is_err() { return 0; }
    quiet_panics();
    let show = |name: &str, rs: usize, h: Vec<Op>, p: Probe| {
        let w = World { sets: &sets, bufs: &bufs, rs };
        let (u, tags, _) = run_used(&w, &h, &p);
        let f = run_fresh(&sets, &bufs, rs, &h, &p);
        println!("== {name}: history tags {:?}", tags);
        println!("   diff: {:?}", u.outcome.diff(&f.outcome));
        println!("   used : {}", u.outcome.json());
        println!("   fresh: {}", f.outcome.json());
        for (t, d) in &u.captures { println!("   used  capture {t}: {d}"); }
        for (t, d) in &f.captures { println!("   fresh capture {t}: {d}"); }
        println!("   used pre : {}", u.pre);
    };
    show("contig after contig", 0, vec![Op::Scan { buf: 3, timeout_at: None }], Probe { blocks: vec![(0, 0)] });
    show("block after contig (filesize)", 0, vec![Op::Scan { buf: 0, timeout_at: None }, Op::IntoBlocks], Probe { blocks: vec![(0, 2)] });
    show("fresh block after other scan (hash cache)", 2, vec![Op::OtherScan { rs: 2, buf: 0 }, Op::IntoBlocks], Probe { blocks: vec![(0, 2)] });
    show("user hash output after other scan", 2, vec![Op::OtherScan { rs: 2, buf: 0 }, Op::SetModuleOutput { which: 1 }], Probe { blocks: vec![(0, 8)] });
    show("module error leaves user outputs", 0, vec![Op::SetModuleOutput { which: 0 }, Op::ScanOpts { buf: 0, bad_meta: true }], Probe { blocks: vec![(0, 0)] });
    show("timeout in finish leaves snippets", 1, vec![Op::SetTimeout { secs: 1000 }, Op::IntoBlocks, Op::BlockScan { base: 0, buf: 2, timeout_at: None }, Op::BlockFinish { timeout_at: Some(1) }], Probe { blocks: vec![(0, 8)] });
    show("timeout contiguous", 0, vec![Op::SetTimeout { secs: 1000 }, Op::Scan { buf: 3, timeout_at: Some(5) }], Probe { blocks: vec![(0, 0)] });
    0
}


/// digest -> the values of Scanner/StateCheck.v `digest_cells`, in that order
fn digest_cells(d: &str) -> Vec<u64> {
    let m = parse_digest(d);
    if m.is_empty() { return vec![]; }
    let num = |k: &str| -> u64 { m.get(k).map(|v| digest_num(k, v).max(0) as u64).unwrap_or(0) };
    let timeout = match m.get("ctx.scan_timeout").map(|s| s.as_str()) { None | Some("none") => 0, Some(ms) => (ms.parse::<u64>().unwrap_or(0) + 999) / 1000 + 1 };
    let is_blk = m.contains_key("blk.needs_reset");
    vec![
        is_blk as u64, num("ctx.runtime_objects"), timeout, num("ctx.match_context_size"), num("ctx.scan_state"),
        num("ctx.matching_rules"), num("ctx.matching_rules_per_ns"), num("ctx.matching_rules_per_ns.keys"), num("ctx.num_matching_private_rules"),
        num("ctx.current_struct"), num("ctx.module_outputs"), num("ctx.user_provided_module_outputs"),
        num("tracker.pattern_matches"), num("tracker.pattern_matches.keys"), num("tracker.unconfirmed_matches"), num("tracker.disabled_patterns"),
        num("tracker.fast_scan"), num("ctx.deadline.rel"), num("ctx.regex_cache"), num("ctx.regex_set_cache"),
        num("ctx.custom_base64_engine_cache"), num("ctx.console_log"),
        (m.get("global.filesize").and_then(|v| v.parse::<i64>().ok()).unwrap_or(-1) + 1).max(0) as u64,
        num("global.pattern_search_done"), num("mem.rule_bitmap"), num("mem.pattern_bitmap"),
        num("root.globals"), num("root.modules"),
        if is_blk { num("blk.needs_reset") } else { 1 }, num("blk.snippets"),
    ]
}

fn clock_of(d: &str) -> String { parse_digest(d).get("clock").cloned().unwrap_or_default() }

fn cause_class(rule: &str) -> &'static str {
    let r = rule.rsplit(':').next().unwrap_or(rule);
    if r.starts_with('<') { return if r.starts_with("<outcome") { "outcome" } else { "module-outputs" }; }
    if r.starts_with("fs_") || r == "pat_fs" || r == "h_fs" { return "filesize"; }
    if r.starts_with("md5") || r.starts_with("crc") || r.starts_with("h_") || r == "ent_big" || r == "imphash_def" || r == "cuckoo_dns" { return "thread-local-cache"; }
    if r.starts_with("pe_") || r.starts_with("tp2") || r.starts_with("tp3") { return "module-fields"; }
    if r.starts_with("u8") || r.starts_with("u16") || r == "ent_def" || r == "pat_hdr" { return "data-readers"; }
    if r.starts_with("g_") { return "globals"; }
    "patterns"
}

/// the module whose per-thread state a rule observes
fn cache_module(rule: &str) -> &'static str {
    let r = rule.rsplit(':').next().unwrap_or(rule);
    if r == "cuckoo_dns" { "cuckoo" } else if r == "imphash_def" { "pe" } else if r == "ent_big" || r == "h_ent" { "math" } else { "hash" }
}

/// the root cause a minimised difference is attributed to (known findings are listed by these)
fn root_cause(class: &str, block_probe: bool, h: &[Op], differing: &[String]) -> String {
    let has = |k: &str| h.iter().any(|o| o.kind() == k);
    let timed_out = has("block_finish_timeout") || has("block_scan_timeout");
    let user_out = has("set_module_output");
    if class == "thread-local-cache" {
        // which module's per-thread state leaked (hash and math are scan-scoped since fix d9b2a73c: they must not appear)
        let mut mods: Vec<&str> = differing.iter().map(|d| cache_module(d)).collect();
        mods.sort(); mods.dedup();
        if block_probe { return format!("module-thread-local-survives-into-block-mode:{}", mods.join("+")); }
        if user_out { return format!("user-supplied-module-output-skips-thread-local-reset:{}", mods.join("+")); }
    }
    if block_probe && matches!(class, "filesize" | "module-fields") {
        return format!("{}-survives-into-block-mode", class);
    }
    if !block_probe && user_out && has("scan_module_error") { return "module-error-leaves-user-supplied-outputs".into(); }
    if block_probe && class == "patterns" && timed_out { return "snippets-survive-timed-out-block-scan".into(); }
    format!("unclassified:{}:{}:{}", class, if block_probe { "block" } else { "contiguous" }, shape(h))
}

fn norm_kind(k: &str) -> &'static str {
    match k {
        "scan" | "scan_with_options" | "scan_timeout" => "contiguous_scan",
        "scan_module_error" => "scan_module_error",
        "other_scan" | "other_blocks" => "other_scanner_scan",
        "set_global" => "set_global", "set_timeout" => "set_timeout", "max_matches_per_pattern" => "max_matches_per_pattern",
        "fast_scan" => "fast_scan", "match_context_size" => "match_context_size", "set_module_output" => "set_module_output",
        "into_blocks" => "into_blocks", "block_scan" => "block_scan", "block_scan_timeout" => "block_scan_timeout",
        "block_finish" => "block_finish", "block_finish_timeout" => "block_finish_timeout", _ => "other",
    }
}

/// canonical shape of a (minimal) history: option setters first (sorted), then the rest in order, repeats collapsed
fn shape(h: &[Op]) -> String {
    let mut setters: Vec<&str> = h.iter().filter(|o| o.is_setter() && !matches!(o, Op::SetModuleOutput { .. })).map(|o| norm_kind(o.kind())).collect();
    setters.sort(); setters.dedup();
    let mut rest: Vec<&str> = vec![];
    for o in h.iter().filter(|o| !o.is_setter() || matches!(o, Op::SetModuleOutput { .. })) {
        let k = norm_kind(o.kind());
        if rest.last() != Some(&k) { rest.push(k); }
    }
    setters.into_iter().chain(rest).collect::<Vec<_>>().join(">")
}

const BASES: [usize; 5] = [0, 10_000, 20_000, 30_000, 40_000];

/// `open`: bases already used in the block sequence that is currently open
fn gen_op(rng: &mut Rng, blocks: bool, nbufs: usize, has_timeout: bool, open: &[usize], is_mix: bool) -> Op {
    let buf = rng.below(nbufs as u64) as usize;
    let tmo = |rng: &mut Rng| if has_timeout && rng.chance(1, 3) { Some(1 + rng.below(60)) } else { None };
    loop {
        let r = rng.below(100);
        let op = match r {
            0..=24 => Op::Scan { buf, timeout_at: tmo(rng) },
            25..=30 => Op::ScanOpts { buf, bad_meta: is_mix && rng.chance(1, 2) },
            31..=36 => match rng.below(3) { 0 => Op::SetGlobal { name: "g_int", val: GVal::Int(*rng.pick(&[7, 0, -1])) },
                                              1 => Op::SetGlobal { name: "g_str", val: GVal::Str(*rng.pick(&["xyz", "", "x-z"])) },
                                              _ => Op::SetGlobal { name: "g_bool", val: GVal::Bool(rng.chance(1, 2)) } },
            37..=43 => Op::SetTimeout { secs: 1000 },
            44..=48 => Op::MaxMatches { n: *rng.pick(&[1usize, 2, 3, 1_000_000]) },
            49..=53 => Op::FastScan { on: rng.chance(2, 3) },
            54..=57 => Op::ContextSize { n: *rng.pick(&[0usize, 2, 16]) },
            58..=64 => Op::SetModuleOutput { which: rng.below(5) as u8 },
            65..=70 => Op::IntoBlocks,
            71..=82 => {
                // blocks of one sequence never overlap (the API leaves consistency of overlapping data to the user)
                let free: Vec<usize> = BASES.iter().copied().filter(|b| !open.contains(b)).collect();
                if free.is_empty() { continue; }
                Op::BlockScan { base: *rng.pick(&free), buf, timeout_at: tmo(rng) }
            }
            // finish() without a scanned block used to panic (repaired by fix a275e4a4); histories keep finishing only open sequences
            83..=89 => { if open.is_empty() { continue; } Op::BlockFinish { timeout_at: tmo(rng) } }
            90..=95 => Op::OtherScan { rs: rng.below(3) as usize, buf },
            _ => Op::OtherBlocks { rs: rng.below(3) as usize, buf },
        };
        if applicable(&op, blocks) { return op; }
    }
}

fn gen_history(rng: &mut Rng, max_len: usize, nbufs: usize, is_mix: bool) -> Vec<Op> {
    let n = rng.below(max_len as u64 + 1) as usize;
    let (mut h, mut blocks, mut has_timeout) = (vec![], false, false);
    let mut open: Vec<usize> = vec![];
    if rng.chance(1, 4) { h.push(Op::IntoBlocks); blocks = true; } // scanners born as block scanners
    while h.len() < n {
        let op = gen_op(rng, blocks, nbufs, has_timeout, &open, is_mix);
        match &op {
            Op::IntoBlocks => blocks = true, Op::SetTimeout { .. } => has_timeout = true,
            Op::BlockScan { base, .. } => open.push(*base), Op::BlockFinish { .. } => open.clear(), _ => {}
        }
        h.push(op);
    }
    h
}

fn gen_probe(rng: &mut Rng, blocks: bool, nbufs: usize) -> Probe {
    if !blocks { return Probe { blocks: vec![(0, rng.below(nbufs as u64) as usize)] }; }
    let n = 1 + rng.below(3) as usize;
    let mut bases: Vec<usize> = BASES.to_vec();
    // any delivery order
    for i in (1..bases.len()).rev() { let j = rng.below(i as u64 + 1) as usize; bases.swap(i, j); }
    if rng.chance(1, 2) { if let Some(p) = bases.iter().position(|b| *b == 0) { bases.swap(0, p); } }
    Probe { blocks: (0..n).map(|i| (bases[i], rng.below(nbufs as u64) as usize)).collect() }
}

/// no finish() without a scanned block, no two blocks of one sequence at the same base
fn valid_history(h: &[Op]) -> bool {
    let mut open: Vec<usize> = vec![];
    for o in h {
        match o {
            Op::BlockScan { base, .. } => { if open.contains(base) { return false; } open.push(*base); }
            Op::BlockFinish { .. } => { if open.is_empty() { return false; } open.clear(); }
            _ => {}
        }
    }
    true
}

fn corpus() -> Vec<(usize, Vec<Op>, Probe)> {
    vec![
        // DESIGN section 7 #3: filesize survives Scanner -> blocks::Scanner
        (0, vec![Op::Scan { buf: 0, timeout_at: None }, Op::IntoBlocks], Probe { blocks: vec![(0, 2)] }),
        // #4: digest cache of another scanner's scan visible to a fresh block scanner
        (2, vec![Op::OtherScan { rs: 2, buf: 0 }, Op::IntoBlocks], Probe { blocks: vec![(0, 2)] }),
        // user-supplied hash output: the digest cache of the previous file answers hash.md5
        (2, vec![Op::OtherScan { rs: 2, buf: 0 }, Op::SetModuleOutput { which: 1 }], Probe { blocks: vec![(0, 8)] }),
        // module error leaves the user-supplied outputs of later modules in place
        (0, vec![Op::SetModuleOutput { which: 0 }, Op::ScanOpts { buf: 0, bad_meta: true }], Probe { blocks: vec![(0, 0)] }),
        // a finish() that times out keeps the snippets of the abandoned scan
        (1, vec![Op::SetTimeout { secs: 1000 }, Op::IntoBlocks, Op::BlockScan { base: 0, buf: 2, timeout_at: None }, Op::BlockFinish { timeout_at: Some(1) }], Probe { blocks: vec![(0, 4)] }),
        // timeouts at several polls, then a contiguous probe
        (0, vec![Op::SetTimeout { secs: 1000 }, Op::Scan { buf: 3, timeout_at: Some(1) }, Op::Scan { buf: 3, timeout_at: Some(9) }, Op::Scan { buf: 5, timeout_at: Some(30) }], Probe { blocks: vec![(0, 0)] }),
        // the cuckoo report of the previous scan (a thread-local that is not scan-scoped) in block mode ...
        (0, vec![Op::ScanOpts { buf: 0, bad_meta: false }, Op::IntoBlocks], Probe { blocks: vec![(0, 2)] }),
        // ... and when the output of cuckoo is supplied by the user
        (0, vec![Op::ScanOpts { buf: 0, bad_meta: false }, Op::SetModuleOutput { which: 4 }], Probe { blocks: vec![(0, 8)] }),
        // byte distribution cache of math with a user-supplied math output (two buffers >= 5000 bytes)
        (2, vec![Op::Scan { buf: 5, timeout_at: None }, Op::SetModuleOutput { which: 2 }], Probe { blocks: vec![(0, 6)] }),
        // a heavy scan (more than 10000 of total match-list capacity), then small scans: `#`, `@`, `!` and the reported
        // matches of patterns that had a few matches in the heavy buffer
        (0, vec![Op::Scan { buf: 9, timeout_at: None }], Probe { blocks: vec![(0, 2)] }),
        (1, vec![Op::Scan { buf: 9, timeout_at: None }], Probe { blocks: vec![(0, 0)] }),
        (1, vec![Op::Scan { buf: 9, timeout_at: None }, Op::Scan { buf: 4, timeout_at: None }], Probe { blocks: vec![(0, 2)] }),
        (0, vec![Op::IntoBlocks, Op::BlockScan { base: 0, buf: 9, timeout_at: None }, Op::BlockFinish { timeout_at: None }], Probe { blocks: vec![(0, 2)] }),
        (0, vec![Op::MaxMatches { n: 1 }, Op::FastScan { on: true }, Op::Scan { buf: 3, timeout_at: None }, Op::Scan { buf: 6, timeout_at: None }], Probe { blocks: vec![(0, 4)] }),
    ]
}

fn run_pair(sets: &[RuleSet], bufs: &[Vec<u8>], rs: usize, h: &[Op], p: &Probe) -> (ProbeRun, ProbeRun, Vec<&'static str>, bool) {
    let w = World { sets, bufs, rs };
    for _ in 0..3 {
        let (u, tags, blocks) = run_used(&w, h, p);
        let f = run_fresh(sets, bufs, rs, h, p);
        // the process-wide heartbeat ticked during a probe: the deadline digests are not comparable, run again
        if clock_of(&u.pre) == clock_of(&u.post) && clock_of(&f.pre) == clock_of(&f.post) { return (u, f, tags, blocks); }
    }
    let (u, tags, blocks) = run_used(&w, h, p);
    (u, run_fresh(sets, bufs, rs, h, p), tags, blocks)
}

pub fn run(args: &[String]) -> i32 {
    let seed = arg_u64(args, "--seed", 1);
    let n = arg_u64(args, "--n", 1500) as usize;
    let max_len = arg_u64(args, "--max-len", 6) as usize;
    let out = arg_val(args, "--out").expect("--out");
    let sets = rule_sets();
    let mut bufs = buffers();
    bufs.push(heavy_buffer());      // index 9: crosses the capacity threshold of PatternMatches::clear
    if std::env::var("C04_LOUD").is_err() { quiet_panics(); }
    let prelude = "From Coq Require Import List NArith ZArith Bool.\nFrom YV Require Import Scanner.StateCheck.\nImport ListNotations.\n";
    let mut shards = Shards::new(Path::new(&out), prelude, 100);
    let mut rng = Rng::new(seed);
    let mut stats = Stats::default();
    let mut distinct = std::collections::HashSet::new();
    let mut samples: Vec<String> = vec![];
    let mut corpus = corpus();
    let mut idx = 0usize;
    while idx < n {
        idx += 1;
        let (rs, h, p) = if !corpus.is_empty() { corpus.remove(0) } else {
            let rs = match rng.below(10) { 0..=5 => 0, 6..=7 => 1, _ => 2 };
            let h = gen_history(&mut rng, max_len, bufs.len(), rs == 0);
            let (blocks, _) = persistent_ops(&h);
            let p = gen_probe(&mut rng, blocks, bufs.len());
            (rs, h, p)
        };
        let (u, f, tags, blocks) = run_pair(&sets, &bufs, rs, &h, &p);
        stats.inc("histories");
        stats.inc(&format!("len_{}", match h.len() { 0 => "0", 1..=2 => "1-2", 3..=6 => "3-6", _ => "7+" }));
        stats.inc(if blocks { "probe_block" } else { "probe_contiguous" });
        stats.inc(&format!("ruleset_{}", sets[rs].name));
        for o in &h { stats.inc(&format!("op_{}", o.kind())); }
        for t in &tags { stats.inc(&format!("history_outcome_{}", t)); }
        stats.inc(&format!("probe_outcome_{}", u.outcome.tag()));
        if h.len() >= 2 { distinct.insert(format!("{}{:?}{:?}", rs, h, p)); }

        let diffs = u.outcome.diff(&f.outcome);
        let mut emit = |h: &[Op], u: &ProbeRun, f: &ProbeRun, extra: String, shards: &mut Shards, samples: &mut Vec<String>| {
            let cap = |r: &ProbeRun| r.captures.first().map(|(_, d)| digest_cells(d)).unwrap_or_default();
            let l = |v: &Vec<u64>| coq_list(v, |x| coq_n(*x));
            let case = format!("mkCase {} {} {} {} {} {} ({}) ({})", coq_bool(blocks), coq_n(bufs[p.blocks[0].1].len() as u64),
                l(&digest_cells(&u.pre)), l(&cap(u)), l(&digest_cells(&f.pre)), l(&cap(f)), u.outcome.coq(), f.outcome.coq());
            let replay = format!("{{\"index\":{},\"seed\":{},\"ruleset\":{},\"rules_source\":{},\"history\":[{}],\"probe_blocks\":{},\"buffers_hex\":[{}],\"probe_mode\":\"{}\",\"used\":{},\"fresh\":{}{}}}",
                idx, seed, json_str(sets[rs].name), json_str(&sets[rs].source), h.iter().map(|o| o.json()).collect::<Vec<_>>().join(","),
                json_str(&format!("{:?}", p.blocks)), bufs.iter().map(|b| format!("\"{}\"", if b.len() > 64 { format!("{}..({} bytes)", hex(&b[..64]), b.len()) } else { hex(b) })).collect::<Vec<_>>().join(","),
                if blocks { "block" } else { "contiguous" }, u.outcome.json(), f.outcome.json(), extra);
            if samples.len() < 3 && h.len() >= 3 { samples.push(replay.clone()); }
            shards.push(case, replay);
        };
        if diffs.is_empty() {
            emit(&h, &u, &f, String::new(), &mut shards, &mut samples);
        } else {
            stats.inc("probe_differs");
            // one minimised case per cause class
            let mut classes: Vec<&'static str> = diffs.iter().map(|d| cause_class(d)).collect();
            classes.sort(); classes.dedup();
            for class in classes {
                let mut fails = |hh: &[Op]| -> bool {
                    let (pb, _) = persistent_ops(hh);
                    if pb != blocks || !valid_history(hh) { return false; }
                    let (u2, f2, _, _) = run_pair(&sets, &bufs, rs, hh, &p);
                    u2.outcome.diff(&f2.outcome).iter().any(|d| cause_class(d) == class)
                };
                let hmin = shrink(&h, &mut fails);
                let (u2, f2, _, _) = run_pair(&sets, &bufs, rs, &hmin, &p);
                let d2: Vec<String> = u2.outcome.diff(&f2.outcome).into_iter().filter(|d| cause_class(d) == class).collect();
                stats.inc(&format!("differs_{}", class));
                let extra = format!(",\"root_cause\":\"{}\",\"cause_class\":\"{}\",\"differing_rules\":{},\"shape\":\"{}\",\"original_history_len\":{}", root_cause(class, blocks, &hmin, &d2), class, json_str(&d2.join(",")), shape(&hmin), h.len());
                emit(&hmin, &u2, &f2, extra, &mut shards, &mut samples);
            }
        }
    }
    shards.flush();
    println!("{{\"evaluations\":{},\"distinct_nontrivial\":{},\"shards\":{},\"distribution\":{},\"samples\":[{}]}}",
        shards.total, distinct.len(), shards.shard_count, stats.json(), samples.join(","));
    0
}

fn main() {
    let args: Vec<String> = std::env::args().skip(1).collect();
    if arg_flag(&args, "--explore") { std::process::exit(explore()); }
    std::process::exit(run(&args));
}
