//! C04: a scanner's results do not depend on what it scanned before.
//! Histories over the scanner API followed by a probe; the probe's canonical
//! result dump on the used scanner vs a fresh scanner (fresh thread) carrying
//! only the persistent-by-API options; prologue digests for the Coq model.
#[path = "../scanx.rs"]
mod scanx;
#[path = "../c04lib.rs"]
mod c04lib;
use c04lib::*;
use scanx::*;
use std::path::Path;
use verif_harness::util::*;

fn explore() -> i32 {
    let sets = rule_sets();
    let bufs = buffers();
    quiet_panics();
    let show = |name: &str, rs: usize, h: Vec<Op>, p: Probe| {
        let w = World { sets: &sets, bufs: &bufs, rs };
        let (u, tags, _) = run_used(&w, &h, &p);
        let f = run_fresh(&sets, &bufs, rs, &h, &p);
        println!("== {name}: history tags {:?}", tags);
        println!("   diff: {:?}", u.outcome.diff(&f.outcome));
        println!("   used : {}", u.outcome.json());
        println!("   fresh: {}", f.outcome.json());
        for (t, d) in &u.captures { println!("   used  capture {t}: {d}"); }
        for (t, d) in &f.captures { println!("   fresh capture {t}: {d}"); }
        println!("   used pre : {}", u.pre);
    };
    show("contig after contig", 0, vec![Op::Scan { buf: 3, timeout_at: None }], Probe { blocks: vec![(0, 0)] });
    show("block after contig (filesize)", 0, vec![Op::Scan { buf: 0, timeout_at: None }, Op::IntoBlocks], Probe { blocks: vec![(0, 2)] });
    show("fresh block after other scan (hash cache)", 2, vec![Op::OtherScan { rs: 2, buf: 0 }, Op::IntoBlocks], Probe { blocks: vec![(0, 2)] });
    show("user hash output after other scan", 2, vec![Op::OtherScan { rs: 2, buf: 0 }, Op::SetModuleOutput { which: 1 }], Probe { blocks: vec![(0, 8)] });
    show("module error leaves user outputs", 0, vec![Op::SetModuleOutput { which: 0 }, Op::ScanOpts { buf: 0, bad_meta: true }], Probe { blocks: vec![(0, 0)] });
    show("timeout in finish leaves snippets", 1, vec![Op::SetTimeout { secs: 1000 }, Op::IntoBlocks, Op::BlockScan { base: 0, buf: 2, timeout_at: None }, Op::BlockFinish { timeout_at: Some(1) }], Probe { blocks: vec![(0, 8)] });
    show("timeout contiguous", 0, vec![Op::SetTimeout { secs: 1000 }, Op::Scan { buf: 3, timeout_at: Some(5) }], Probe { blocks: vec![(0, 0)] });
    0
}

fn main() {
    let args: Vec<String> = std::env::args().skip(1).collect();
    if arg_flag(&args, "--explore") { std::process::exit(explore()); }
    let _ = Path::new(".");
    std::process::exit(2);
}
