//! C05: scanning never crashes, for any compiled rules and any data.
//!
//! Generated ACCEPTED rule sets whose conditions do arithmetic on run-time
//! integers (manufactured from `filesize` / `#c`, so that constant folding
//! cannot remove them) x buffers {empty, 1 byte, small random, dense}, scanned
//! through Scanner::scan, Scanner::scan_file, blocks::Scanner and the C API.
//! Every (case, mode) runs in a child process (rlimits + alarm): a panic
//! inside a host function called from WASM, or one that crosses the C ABI,
//! aborts the process; a WASM trap becomes a panic in eval_conditions.
//! After each scan the SAME scanner scans a trivial buffer.
//!
//! Each Coq case carries the expression shapes of the rules with their
//! evaluated run-time integer operands, so that the model (Cond/HostModel.v,
//! Cond/Traps.v) can predict the outcome class.
use std::collections::{BTreeMap, HashSet};
use std::io::{Read, Write};
use std::panic::AssertUnwindSafe;
use std::path::Path;
use std::process::{Command, Stdio};
use std::time::{Duration, Instant};
use verif_harness::util::*;

const REUSE_DATA: &[u8] = b"Z";
const SCAN_TIMEOUT_S: u64 = 1;
const CHILD_ALARM_S: u32 = 50;
const CHILD_HARD_S: u64 = 60;
const RLIMIT_AS_BYTES: u64 = 8 << 30;

// ------------------------------------------------------------------ run-time integers

#[derive(Clone, Copy, Debug, PartialEq)]
enum Leaf { Filesize, Count }
impl Leaf { fn text(self) -> &'static str { match self { Leaf::Filesize => "filesize", Leaf::Count => "#c" } } }

#[derive(Clone, Copy, Debug, PartialEq)]
enum Op { Bare, Add, Sub, RSub, Mul, Const }

/// `leaf`, `leaf + k`, `leaf - k`, `k - leaf`, `leaf * k` or the constant `k`.
#[derive(Clone, Debug)]
struct RtInt { leaf: Leaf, op: Op, k: i64 }

#[derive(Clone, Copy, Debug)]
struct Env { filesize: Option<i64>, count: i64 }

fn lit(k: i64) -> String {
    if k == i64::MIN { "(-9223372036854775807-1)".into() }
    else if k < 0 { format!("(-{})", k.unsigned_abs()) }
    else if k > 0xffff && (k & 0xf == 0xf || k & 0xfff == 0) { format!("0x{:x}", k) }
    else { format!("{}", k) }
}

impl RtInt {
    fn text(&self) -> String {
        let l = self.leaf.text();
        match self.op {
            Op::Bare => l.to_string(),
            Op::Add => format!("({} + {})", l, lit(self.k)),
            Op::Sub => format!("({} - {})", l, lit(self.k)),
            Op::RSub => format!("({} - {})", lit(self.k), l),
            Op::Mul => format!("({} * {})", l, lit(self.k)),
            Op::Const => lit(self.k),
        }
    }
    fn eval(&self, env: &Env) -> Option<i64> {
        if self.op == Op::Const { return Some(self.k); }
        let l = match self.leaf { Leaf::Filesize => env.filesize?, Leaf::Count => env.count };
        Some(match self.op {
            Op::Bare => l,
            Op::Add => l.wrapping_add(self.k),
            Op::Sub => l.wrapping_sub(self.k),
            Op::RSub => self.k.wrapping_sub(l),
            Op::Mul => l.wrapping_mul(self.k),
            Op::Const => self.k,
        })
    }
    fn uses_count(&self) -> bool { self.op != Op::Const && self.leaf == Leaf::Count }
    fn is_const(&self) -> bool { self.op == Op::Const }
}

const BOUNDARY: [i64; 34] = [
    0, 1, -1, 2, -2, 3, 7, 63, 64, 65, 100, 255, 256, 65535, 65536,
    0x7fff_ffff, 0x8000_0000, 0x7fff_fffe, 0xffff_ffff, 0x1_0000_0000, 0x7_ffff_fff0,
    -0x8000_0000, -0x8000_0001, 1 << 53, (1 << 53) + 1, -(1 << 53),
    i64::MAX, i64::MAX - 1, i64::MIN, i64::MIN + 1, i64::MAX / 2, 0x3fff_ffff_ffff_ffff, 1 << 62, -(1 << 62),
];

/// A run-time expression that evaluates to `target` when the leaf has value
/// `leafval` (directed: boundary values are hit exactly at run time).
fn rt_target(rng: &mut Rng, leaf: Leaf, leafval: i64, target: i64) -> RtInt {
    let d = target.wrapping_sub(leafval);
    if d == 0 && rng.chance(1, 2) { return RtInt { leaf, op: Op::Bare, k: 0 }; }
    if rng.chance(1, 6) {
        // k - leaf == target
        let k = target.wrapping_add(leafval);
        return RtInt { leaf, op: Op::RSub, k };
    }
    if d < 0 && d != i64::MIN { RtInt { leaf, op: Op::Sub, k: d.wrapping_neg() } } else { RtInt { leaf, op: Op::Add, k: d } }
}

fn gen_value(rng: &mut Rng) -> i64 {
    match rng.below(10) {
        0..=5 => *rng.pick(&BOUNDARY),
        6 => rng.range(-20, 20),
        7 => (*rng.pick(&BOUNDARY)).wrapping_add(rng.range(-2, 2)),
        8 => rng.next() as i64,
        _ => rng.range(0, 5000),
    }
}

/// run-time integer: mostly directed at a boundary value, sometimes free-form
fn gen_rt(rng: &mut Rng, fs: i64, cnt: i64) -> RtInt {
    let leaf = if rng.chance(3, 4) { Leaf::Filesize } else { Leaf::Count };
    let lv = if leaf == Leaf::Filesize { fs } else { cnt };
    match rng.below(12) {
        0 => RtInt { leaf, op: Op::Mul, k: *rng.pick(&[0, 1, -1, 2, 1000, 0x7fff_ffff, 0x1_0000_0000, 1 << 53, i64::MAX, i64::MIN, 1 << 62]) },
        1 => RtInt { leaf, op: Op::Const, k: gen_value(rng) },
        2 => RtInt { leaf, op: Op::Bare, k: 0 },
        _ => { let t = gen_value(rng); rt_target(rng, leaf, lv, t) }
    }
}
fn gen_rt_to(rng: &mut Rng, fs: i64, cnt: i64, target: i64) -> RtInt {
    let leaf = if rng.chance(3, 4) { Leaf::Filesize } else { Leaf::Count };
    let lv = if leaf == Leaf::Filesize { fs } else { cnt };
    rt_target(rng, leaf, lv, target)
}

// ------------------------------------------------------------------ shapes

/// where a string operand comes from: a literal (two literals are folded by the compiler), a
/// global variable defined before compiling (value known only at scan time: a reference-counted
/// runtime string), or the result of a function call (`math.to_string(<run-time integer>)`)
#[derive(Clone, Debug)]
enum StrSrc { Lit(Vec<u8>), Global(Vec<u8>), ToString(RtInt) }

impl StrSrc {
    fn bytes(&self, env: &Env) -> Option<Vec<u8>> {
        match self { StrSrc::Lit(b) | StrSrc::Global(b) => Some(b.clone()), StrSrc::ToString(r) => r.eval(env).map(|v| v.to_string().into_bytes()) }
    }
    fn is_lit(&self) -> bool { matches!(self, StrSrc::Lit(_)) }
}

fn yara_lit(b: &[u8]) -> String {
    let mut s = String::from("\"");
    for &c in b { if c == b'"' || c == b'\\' { s.push('\\'); s.push(c as char); } else if (0x20..0x7f).contains(&c) { s.push(c as char); } else { s.push_str(&format!("\\x{:02x}", c)); } }
    s.push('"'); s
}
fn yara_regex(b: &[u8]) -> String {
    let mut s = String::from("/");
    for &c in b { if c.is_ascii_alphanumeric() { s.push(c as char); } else { s.push_str(&format!("\\x{:02x}", c)); } }
    if b.is_empty() { s.push_str("a?"); }
    s.push('/'); s
}

const STR_OPS: [(&str, &str); 14] = [("contains", "OContains"), ("icontains", "OIContains"), ("startswith", "OStartsWith"), ("istartswith", "OIStartsWith"),
    ("endswith", "OEndsWith"), ("iendswith", "OIEndsWith"), ("iequals", "OIEquals"), ("==", "OEq"), ("!=", "ONe"), ("<", "OLt"), (">", "OGt"), ("<=", "OLe"), (">=", "OGe"), ("matches", "OMatches")];

#[derive(Clone, Debug)]
enum Shape {
    /// `l op r` for a binary string operator
    StrOp { op: usize, l: StrSrc, r: StrSrc },
    /// `N of ($a, $b)`: contiguous pattern ids -> pat_range_match(start, end, N)
    OfRange { n: RtInt, them: bool },
    /// `for N of ($a, $b) : ($)`: loop, N only compared inside WASM
    ForNOf { n: RtInt },
    /// `Q% of ($a,$b)` / `for Q% of ... : ($)`: loop with n = number of patterns
    PctOf { q: RtInt, for_form: bool },
    /// `for Q% i in (lo..hi) : (true)`: n = hi - lo + 1
    PctRange { q: RtInt, lo: RtInt, hi: RtInt },
    /// `for N i in (lo..hi) : (true)`
    ForNRange { n: RtInt, lo: RtInt, hi: RtInt },
    Div { a: RtInt, b: RtInt },
    Mod { a: RtInt, b: RtInt },
    Shl { a: RtInt, b: RtInt },
    Shr { a: RtInt, b: RtInt },
    Arith { text: String },
    At { n: RtInt },
    In { lo: RtInt, hi: RtInt },
    CountIn { lo: RtInt, hi: RtInt },
    Offset { n: RtInt },
    /// `N of ($a, $b) in (lo..hi)`: loop calling is_pat_match_in with run-time bounds
    OfIn { n: RtInt, lo: RtInt, hi: RtInt, any: bool },
    /// `for any i in (lo..hi) : ($a at i)` over a short run-time range around real matches
    ForInAt { lo: RtInt, hi: RtInt, count_form: bool },
    Length { n: RtInt },
    UintN { f: &'static str, width: i64, n: RtInt },
    Abs { n: RtInt },
    HashRange { f: &'static str, off: RtInt, size: RtInt },
    MathRange { f: &'static str, off: RtInt, len: RtInt },
    ConsoleRange { off: RtInt, len: RtInt, msg: bool },
    /// a condition outside the model (text, needs $a/$b, imports)
    Other { text: String, pats: bool, imports: &'static [&'static str], uses_c: bool, kind: &'static str },
}

const UINT_FNS: [(&str, i64); 14] = [("uint8", 1), ("uint16", 2), ("uint32", 4), ("uint8be", 1), ("uint16be", 2), ("uint32be", 4),
    ("int8", 1), ("int16", 2), ("int32", 4), ("int8be", 1), ("int16be", 2), ("int32be", 4), ("float32", 4), ("float64", 8)];
const HASH_FNS: [&str; 5] = ["hash.md5", "hash.sha1", "hash.sha256", "hash.crc32", "hash.checksum32"];
const MATH_RANGE_FNS: [&str; 6] = ["math.entropy", "math.mean", "math.serial_correlation", "math.monte_carlo_pi", "math.mode", "math.count"];

struct RuleText { strings: Vec<String>, imports: Vec<&'static str>, cond: String }

/// pattern texts of the rule at position i of a rule set: ($a, $b, $c).  Distinct per
/// position, so no pattern is shared between rules and the ids of a rule's patterns
/// are contiguous (what makes `N of ($a, $b)` go through pat_range_match).
const TOKENS: [(&str, &str, &str); 3] = [("AAAA", "BBBB", "QZ"), ("CCCC", "DDDD", "QY"), ("EEEE", "FFFF", "QX")];

impl Shape {
    fn kind(&self) -> &'static str {
        match self {
            Shape::StrOp { .. } => "string operator", Shape::OfRange { .. } => "N of (contiguous)", Shape::ForNOf { .. } => "for N of", Shape::PctOf { .. } => "Q% of",
            Shape::PctRange { .. } => "for Q% in range", Shape::ForNRange { .. } => "for N in range",
            Shape::Div { .. } => "div", Shape::Mod { .. } => "mod", Shape::Shl { .. } => "shl", Shape::Shr { .. } => "shr", Shape::Arith { .. } => "arith",
            Shape::At { .. } => "$a at N", Shape::In { .. } => "$a in (lo..hi)", Shape::CountIn { .. } => "#a in (lo..hi)",
            Shape::Offset { .. } => "@a[N]", Shape::OfIn { .. } => "N of .. in (lo..hi)", Shape::ForInAt { .. } => "for i in (lo..hi): $a at i", Shape::Length { .. } => "!a[N]", Shape::UintN { .. } => "uintN(N)",
            Shape::Abs { .. } => "math.abs", Shape::HashRange { .. } => "hash.*(off,size)", Shape::MathRange { .. } => "math.*(off,len)", Shape::ConsoleRange { .. } => "console.log(off,len)",
            Shape::Other { kind, .. } => kind,
        }
    }
    fn rts(&self) -> Vec<&RtInt> {
        match self {
            Shape::OfRange { n, .. } | Shape::ForNOf { n } | Shape::At { n } | Shape::Offset { n } | Shape::Length { n } | Shape::UintN { n, .. } | Shape::Abs { n } => vec![n],
            Shape::PctOf { q, .. } => vec![q],
            Shape::PctRange { q, lo, hi } => vec![q, lo, hi],
            Shape::ForNRange { n, lo, hi } | Shape::OfIn { n, lo, hi, .. } => vec![n, lo, hi],
            Shape::ForInAt { lo, hi, .. } => vec![lo, hi],
            Shape::Div { a, b } | Shape::Mod { a, b } | Shape::Shl { a, b } | Shape::Shr { a, b } => vec![a, b],
            Shape::In { lo, hi } | Shape::CountIn { lo, hi } => vec![lo, hi],
            Shape::HashRange { off, size, .. } => vec![off, size],
            Shape::MathRange { off, len, .. } | Shape::ConsoleRange { off, len, .. } => vec![off, len],
            Shape::StrOp { l, r, .. } => { let mut v = vec![]; for x in [l, r] { if let StrSrc::ToString(t) = x { v.push(t); } } v }
            Shape::Arith { .. } | Shape::Other { .. } => vec![],
        }
    }
    fn rule(&self, idx: usize) -> RuleText {
        let tk = TOKENS[idx % 3];
        let a = format!("$a = \"{}\"", tk.0); let b = format!("$b = \"{}\"", tk.1);
        let (a, b) = (a.as_str(), b.as_str());
        let mut strings: Vec<&str> = vec![];
        let mut imports: Vec<&'static str> = vec![];
        let cond = match self {
            Shape::StrOp { op, l, r } => {
                let name = |side: &str| format!("g{}{}", idx, side);
                let txt = |x: &StrSrc, side: &str, imports: &mut Vec<&'static str>| match x {
                    StrSrc::Lit(b) => yara_lit(b), StrSrc::Global(_) => name(side),
                    StrSrc::ToString(t) => { if !imports.contains(&"math") { imports.push("math"); } format!("math.to_string({})", t.text()) } };
                let lt = txt(l, "l", &mut imports);
                let rt = if STR_OPS[*op].0 == "matches" { match r { StrSrc::Lit(b) | StrSrc::Global(b) => yara_regex(b), _ => "/1/".into() } } else { txt(r, "r", &mut imports) };
                format!("{} {} {}", lt, STR_OPS[*op].0, rt) }
            Shape::OfRange { n, them } => { strings = vec![a, b]; format!("{} of {}", n.text(), if *them { "them" } else { "($a, $b)" }) }
            Shape::ForNOf { n } => { strings = vec![a, b]; format!("for {} of ($a, $b) : ( $ )", n.text()) }
            Shape::PctOf { q, for_form } => { strings = vec![a, b]; if *for_form { format!("for {}% of ($a, $b) : ( $ )", q.text()) } else { format!("{}% of ($a, $b)", q.text()) } }
            Shape::PctRange { q, lo, hi } => format!("for {}% i in ({}..{}) : ( true )", q.text(), lo.text(), hi.text()),
            Shape::ForNRange { n, lo, hi } => format!("for {} i in ({}..{}) : ( true )", n.text(), lo.text(), hi.text()),
            Shape::Div { a, b } => format!("{} \\ {} == 1", a.text(), b.text()),
            Shape::Mod { a, b } => format!("{} % {} == 1", a.text(), b.text()),
            Shape::Shl { a, b } => format!("{} << {} == 1", a.text(), b.text()),
            Shape::Shr { a, b } => format!("{} >> {} == 1", a.text(), b.text()),
            Shape::Arith { text } => text.clone(),
            Shape::At { n } => { strings = vec![a]; format!("$a at {}", n.text()) }
            Shape::In { lo, hi } => { strings = vec![a]; format!("$a in ({}..{})", lo.text(), hi.text()) }
            Shape::CountIn { lo, hi } => { strings = vec![a]; format!("#a in ({}..{}) == 1", lo.text(), hi.text()) }
            Shape::Offset { n } => { strings = vec![a]; format!("@a[{}] == 0", n.text()) }
            Shape::OfIn { n, lo, hi, any } => { strings = vec![a, b];
                if *any { format!("any of ($a, $b) in ({}..{})", lo.text(), hi.text()) } else { format!("{} of ($a, $b) in ({}..{})", n.text(), lo.text(), hi.text()) } }
            Shape::ForInAt { lo, hi, count_form } => { strings = vec![a];
                if *count_form { format!("for any i in ({}..{}) : ( #a in (i..{}) > 0 or #a in ({}..i) > 1 )", lo.text(), hi.text(), lo.text(), hi.text()) }
                else { format!("for any i in ({}..{}) : ( $a at i )", lo.text(), hi.text()) } }
            Shape::Length { n } => { strings = vec![a]; format!("!a[{}] == 4", n.text()) }
            Shape::UintN { f, n, .. } => format!("{}({}) == 65", f, n.text()),
            Shape::Abs { n } => { imports = vec!["math"]; format!("math.abs({}) == 1", n.text()) }
            Shape::HashRange { f, off, size } => { imports = vec!["hash"]; let rhs = if f.ends_with("32") { "1".to_string() } else { "\"x\"".to_string() }; format!("{}({}, {}) == {}", f, off.text(), size.text(), rhs) }
            Shape::MathRange { f, off, len } => { imports = vec!["math"];
                if *f == "math.count" { format!("math.count(65, {}, {}) == 1", off.text(), len.text()) }
                else if *f == "math.mode" { format!("math.mode({}, {}) == 65", off.text(), len.text()) }
                else { format!("{}({}, {}) > 0.5", f, off.text(), len.text()) } }
            Shape::ConsoleRange { off, len, msg } => { imports = vec!["console"]; if *msg { format!("console.log(\"m\", {}, {})", off.text(), len.text()) } else { format!("console.log({}, {})", off.text(), len.text()) } }
            Shape::Other { text, pats, imports: im, .. } => { if *pats { strings = vec![a, b]; } imports = im.to_vec(); text.clone() }
        };
        let uses_c = self.rts().iter().any(|r| r.uses_count()) || matches!(self, Shape::Other { uses_c: true, .. }) || matches!(self, Shape::Arith { text } if text.contains("#c"));
        let c = format!("$c = \"{}\"", tk.2);
        if uses_c { strings.push(c.as_str()); }
        RuleText { strings: strings.into_iter().map(|x| x.to_string()).collect(), imports, cond }
    }
    /// global variables the rule at position idx needs: (identifier, value)
    fn globals(&self, idx: usize) -> Vec<(String, Vec<u8>)> {
        let mut v = vec![];
        if let Shape::StrOp { op, l, r } = self {
            if let StrSrc::Global(b) = l { v.push((format!("g{}l", idx), b.clone())); }
            if let StrSrc::Global(b) = r { if STR_OPS[*op].0 != "matches" { v.push((format!("g{}r", idx), b.clone())); } }
        }
        v
    }
    /// evaluation path of a string operator (what wasm/string.rs distinguishes) and the length relation of the operands
    fn str_path(&self, env: &Env) -> Option<String> {
        if let Shape::StrOp { op, l, r } = self {
            let (lb, rb) = (l.bytes(env)?, r.bytes(env)?);
            let name = STR_OPS[*op].0;
            let eval = if l.is_lit() && (r.is_lit() || name == "matches") { "literal operands (folded or literal ids)" } else if matches!(l, StrSrc::ToString(_)) || matches!(r, StrSrc::ToString(_)) { "function result operand" } else { "global variable operand" };
            let path = if name == "matches" { "regexp" } else if !name.starts_with('i') { "case-sensitive bstr" }
                       else if lb.is_ascii() && rb.is_ascii() { "ci ASCII fast path" } else if std::str::from_utf8(&lb).is_ok() && std::str::from_utf8(&rb).is_ok() { "ci to_lowercase (non-ASCII UTF-8)" } else { "ci to_lowercase (invalid UTF-8)" };
            let rel = if rb.is_empty() { "right empty" } else if rb.len() < lb.len() { "right shorter" } else if rb.len() == lb.len() { "equal length" } else { "right longer" };
            return Some(format!("{} | {} | {}", path, eval, rel));
        }
        None
    }
    /// Coq term; `obs`: whether the rule matched (None when not observed)
    fn coq_obs(&self, env: &Env, datalen: Option<i64>, obs: Option<bool>) -> String {
        if let Shape::StrOp { op, l, r } = self {
            let bl = |b: Option<Vec<u8>>| match b { None => "None".to_string(), Some(v) => format!("(Some {}%Z)", coq_list(&v, |x| format!("{}", x))) };
            let runtime = !(l.is_lit() && (r.is_lit() || STR_OPS[*op].0 == "matches"));
            return format!("SStrOp {} {} {} {} {}", STR_OPS[*op].1, coq_bool(runtime), bl(l.bytes(env)), bl(r.bytes(env)), match obs { None => "None", Some(true) => "(Some true)", Some(false) => "(Some false)" });
        }
        self.coq(env, datalen)
    }
    /// Coq term of the shape with operands evaluated under `env` (None = undefined)
    fn coq(&self, env: &Env, datalen: Option<i64>) -> String {
        let z = |r: &RtInt| coq_oz(r.eval(env));
        match self {
            Shape::OfRange { n, .. } => format!("SPatRangeMatch {}", z(n)),
            Shape::PctOf { q, .. } => format!("SPct (Some 2%Z) {}", z(q)),
            Shape::PctRange { q, lo, hi } => {
                let n = match (lo.eval(env), hi.eval(env)) { (Some(l), Some(h)) => Some(h.wrapping_sub(l).wrapping_add(1)), _ => Some(0) };
                format!("SPct {} {}", coq_oz(n), z(q))
            }
            Shape::Div { a, b } => format!("SDiv {} {}", z(a), z(b)),
            Shape::Mod { a, b } => format!("SRem {} {}", z(a), z(b)),
            Shape::Shl { a, b } => format!("SShift true {} {}", z(a), z(b)),
            Shape::Shr { a, b } => format!("SShift false {} {}", z(a), z(b)),
            Shape::At { n } => format!("SPatMatchAt {}", z(n)),
            Shape::In { lo, hi } => format!("SMatchesInRange \"is_pat_match_in\" {} {}", z(lo), z(hi)),
            Shape::CountIn { lo, hi } => format!("SMatchesInRange \"pat_matches_in\" {} {}", z(lo), z(hi)),
            Shape::Offset { n } => format!("SPatIndex \"pat_offset\" {}", z(n)),
            // the quantifier is only compared inside WASM; when it is undefined nothing is called
            Shape::OfIn { n, lo, hi, any } => if *any || n.eval(env).is_some() { format!("SMatchesInRange \"is_pat_match_in\" {} {}", z(lo), z(hi)) } else { "SOther".into() },
            Shape::Length { n } => format!("SPatIndex \"pat_length\" {}", z(n)),
            Shape::UintN { f, width, n } => format!("SUintN \"{}\" {}%Z {} {}", f, width, z(n), coq_oz(datalen)),
            Shape::Abs { n } => format!("SAbs {}", z(n)),
            Shape::HashRange { f, off, size } => format!("SHashRange \"{}\" {} {}", rust_fn(f), z(off), z(size)),
            Shape::MathRange { f, off, len } => format!("SDataRange \"{}\" {} {}", rust_fn(f), z(off), z(len)),
            Shape::ConsoleRange { off, len, .. } => format!("SConsoleRange {} {} {}", z(off), z(len), coq_oz(datalen)),
            Shape::ForNOf { .. } | Shape::ForNRange { .. } | Shape::ForInAt { .. } | Shape::Arith { .. } | Shape::Other { .. } | Shape::StrOp { .. } => "SOther".into(),
        }
    }
    /// which known trap / panic class this shape hits under `env` (harness-side
    /// evaluation, used only to NAME the fingerprint of an observed crash)
    fn crash_hint(&self, env: &Env) -> Option<&'static str> {
        match self {
            Shape::Div { a, b } => if a.eval(env) == Some(i64::MIN) && b.eval(env) == Some(-1) { Some("i64.div_s:min-by-minus-one") } else { None },
            Shape::PctOf { q, .. } => pct_hint(Some(2), q.eval(env)),
            Shape::PctRange { q, lo, hi } => match (lo.eval(env), hi.eval(env)) { (Some(l), Some(h)) => pct_hint(Some(h.wrapping_sub(l).wrapping_add(1)), q.eval(env)), _ => None },
            _ => None,
        }
    }
}

/// name of the Rust function behind a module function (the key of the generated table)
fn rust_fn(f: &str) -> &'static str {
    match f {
        "hash.md5" => "hash.md5_data", "hash.sha1" => "hash.sha1_data", "hash.sha256" => "hash.sha256_data",
        "hash.crc32" => "hash.crc_data", "hash.checksum32" => "hash.checksum_data",
        "math.entropy" => "math.entropy_data", "math.mean" => "math.mean_data", "math.serial_correlation" => "math.serial_correlation_data",
        "math.monte_carlo_pi" => "math.monte_carlo_pi_data", "math.mode" => "math.mode_range", "math.count" => "math.count_range",
        _ => "?",
    }
}
fn pct_value(n: i64, q: i64) -> f64 { ((n as f64) * (q as f64) / 100.0).ceil() }
fn pct_traps(n: i64, q: i64) -> bool { let v = pct_value(n, q); !(v >= -9223372036854775808.0 && v < 9223372036854775808.0) }
fn pct_hint(n: Option<i64>, q: Option<i64>) -> Option<&'static str> {
    match (n, q) { (Some(n), Some(q)) if n > 0 && pct_traps(n, q) => Some("trunc_f64_s:percentage"), _ => None }
}
fn coq_oz(v: Option<i64>) -> String { match v { None => "None".into(), Some(x) => format!("(Some {})", coq_z(x as i128)) } }

// ------------------------------------------------------------------ generator

fn other_shapes() -> Vec<Shape> {
    let o = |text: &str, pats: bool, imports: &'static [&'static str], uses_c: bool, kind: &'static str| Shape::Other { text: text.to_string(), pats, imports, uses_c, kind };
    vec![
        o("for any i in (0..filesize) : ( for any j in (0..3) : ( for any k in (0..#c) : ( i + j + k == 0x7fffffffffffffff - filesize ) ) )", false, &[], true, "nested loops"),
        o("for all i in (0..filesize \\ 2) : ( for 2 j in (i..i+3) : ( for any k in (1..2) : ( uint8(i + j * k) >= 0 or true ) ) )", false, &[], false, "nested loops"),
        o("for any i in (filesize - 3..filesize + 3) : ( for all j in (0 - i..i) : ( @a[j] != j or !b[i] == i ) )", true, &[], false, "nested loops"),
        o("for any of ($a, $b) : ( for any i in (1..#) : ( @[i] + filesize * 0x7fffffffffffffff > !a[i] ) )", true, &[], false, "nested loops"),
        o("for any i in (0x7ffffffffffffff0 + filesize..0x7ffffffffffffff8 + filesize) : ( i < 0 )", false, &[], false, "loop range wrapping"),
        o("with x = filesize * 0x7fffffffffffffff, y = (0 - filesize) : ( x + y - (x * y) == 1 or -x == y or ~x == y )", false, &[], false, "with/arith"),
        o("\"abc\" contains \"b\" and \"ABC\" icontains \"bc\" and not \"\" startswith \"a\" and \"\" endswith \"\" and \"x\" iequals \"X\" and \"aaa\" matches /a+/", false, &[], false, "string ops"),
        o("math.to_string(filesize - 9223372036854775807 - 1) contains \"9\" or math.to_string(filesize * 0x7fffffff, 16) startswith \"7\" or math.to_string(filesize, filesize) == \"\"", false, &["math"], false, "math.to_string"),
        o("math.to_string(#c - 1, 8) iequals \"1777777777777777777777\" or math.to_string(0 - filesize, 16) endswith \"f\" or math.to_string(filesize, 0 - 1) == \"x\"", false, &["math"], true, "math.to_string"),
        o("string.to_int(math.to_string(filesize + 0x7ffffffffffffff0)) > 0 or string.to_int(\"zz\", filesize + 35) == 1295 or string.to_int(\"1\", 0 - filesize) == 1 or string.length(math.to_string(filesize)) == 1", false, &["math", "string"], false, "string module"),
        o("math.min(filesize - 9223372036854775807, 0 - filesize) < math.max(filesize * 0x7fffffffffffffff, #c - 1) or math.in_range(filesize, 0 - filesize, filesize)", false, &["math"], true, "math.min/max"),
        o("math.count(filesize + 250) >= 0 or math.count(0 - filesize) >= 0 or math.percentage(filesize * 256) >= 0.0 or math.percentage(65, 0 - filesize, filesize) > 0.1", false, &["math"], false, "math.count/percentage"),
        o("math.deviation(filesize - 1, 0x7fffffffffffffff, 0.5) > 1.0 or math.deviation(0 - filesize, filesize, 0.5) > 1.0 or math.to_number(filesize > 3) == 1", false, &["math"], false, "math.deviation"),
        o("console.log(filesize - 9223372036854775807 - 1) and console.hex(0 - filesize) and console.log(\"m\", filesize * 0x7fffffffffffffff) and console.log(filesize - 1, 0x7fffffffffffffff) and console.log(\"d\", 0 - filesize, filesize)", false, &["console"], false, "console"),
        o("(filesize + 0.5) \\ (filesize - filesize) > 1.0 or (filesize * 1.0e308) * 10.0 > 1.0 or (0.0 \\ (filesize - filesize * 1.0)) == 0.0 or -(filesize - 9223372036854775807 - 1) < 0", false, &[], false, "float arith"),
        o("#a + #b * filesize - @a[#a] + !b[#b + 1] == 0 or $a at @b[1] - 4 or $b in (@a[1]..@a[#a] + 0x7fffffffffffffff)", true, &[], false, "pattern arithmetic"),
        o("any of ($a, $b) at filesize - 4 or all of them in (0 - filesize..filesize * 0x7fffffffffffffff) or none of ($a*) at 0x7fffffffffffffff + filesize", true, &[], false, "of-at/in"),
        o("for any of them : ( # > filesize - 9223372036854775807 and @ < 0x7fffffffffffffff - filesize and ! != filesize )", true, &[], false, "for-of anchors"),
        o("for all i in (1, filesize, 0 - filesize, filesize * 0x7fffffffffffffff) : ( i \\ (i - 1) != i % (i + 1) or i >> (i & 63) == i << (0 - i) )", false, &[], false, "for in tuple"),
        o("filesize & 0x7fffffffffffffff | (0 - filesize) ^ ~filesize == filesize >> 70 or filesize << (filesize - 9223372036854775807 - 1) == 0 or filesize >> (0 - filesize) == 0", false, &[], false, "bitwise"),
        o("uint32(uint32(uint8(filesize - 1))) == uint16be(int8(0) * filesize) or int32be(0 - int32(0)) == float32(filesize - 4) or float64be(uint8(0) - filesize) > 0.0", false, &[], false, "nested uintN"),
        o("hash.md5(\"\") == \"d41d8cd98f00b204e9800998ecf8427e\" and hash.crc32(math.to_string(filesize)) != filesize and hash.checksum32(\"\") == 0 or hash.sha256(0, filesize) == hash.sha256(0, filesize + 0)", false, &["hash", "math"], false, "hash strings"),
        o("defined (filesize \\ (filesize - filesize)) or not defined (@a[filesize + 100]) or defined (uint8(0 - filesize)) or not defined (1 \\ #b % #b)", true, &[], false, "defined/undefined"),
    ]
}

/// all (overlapping) occurrences of the $a token of the rule at position idx
fn match_starts(d: &[u8], idx: usize) -> Vec<i64> {
    let t = TOKENS[idx % 3].0.as_bytes();
    if d.len() < t.len() { return vec![]; }
    (0..=d.len() - t.len()).filter(|i| &d[*i..*i + t.len()] == t).map(|i| i as i64).collect()
}

/// an offset placed relative to the real matches: on a match, just before / after it, strictly
/// between two matches, before the first, after the last, at / beyond the end of the data, negative
fn gen_point(rng: &mut Rng, starts: &[i64], len: i64) -> i64 {
    if starts.is_empty() || rng.chance(1, 6) { return *rng.pick(&[0i64, -1, -7, 1, len - 1, len, len + 9, i64::MAX, i64::MIN, 1 << 40]); }
    let k = rng.below(starts.len() as u64) as usize;
    let s = starts[k];
    match rng.below(9) {
        0 | 1 => s,
        2 => s - 1,
        3 => s + 1,
        4 => s + 4,
        5 => if k + 1 < starts.len() { (s + starts[k + 1]) / 2 } else { s + 2 },
        6 => starts[0] - 1 - rng.below(3) as i64,
        7 => starts[starts.len() - 1] + 1 + rng.below(6) as i64,
        _ => *rng.pick(&[0i64, -1, -3, len - 1, len, len + 5]),
    }
}

/// a pair of bounds in every ordering: lo < hi, lo = hi, lo > hi (inverted, possibly with matches in the gap)
fn gen_bounds(rng: &mut Rng, starts: &[i64], len: i64) -> (i64, i64) {
    let (p, q) = (gen_point(rng, starts, len), gen_point(rng, starts, len));
    match rng.below(6) {
        0 | 1 => (p.min(q), p.max(q)),
        2 | 3 => (p.max(q), p.min(q)),
        4 => (p, p),
        _ => (p, q),
    }
}

/// operand pairs over the length matrix (empty / shorter / equal / longer; prefix, suffix, infix,
/// case-flipped, near-miss of each other) x {ASCII, non-ASCII UTF-8, invalid UTF-8}
fn gen_str_pair(rng: &mut Rng, left: Option<Vec<u8>>) -> (Vec<u8>, Vec<u8>) {
    let word = |rng: &mut Rng| -> Vec<u8> { let n = rng.below(7) as usize; (0..n).map(|_| *rng.pick(b"abABzZ09_ xY")).collect() };
    let flip = |v: &[u8]| -> Vec<u8> { v.iter().map(|c| if c.is_ascii_lowercase() { c.to_ascii_uppercase() } else { c.to_ascii_lowercase() }).collect() };
    let mut l = left.unwrap_or_else(|| word(rng));
    let extra = |rng: &mut Rng| -> Vec<u8> { let n = 1 + rng.below(4) as usize; (0..n).map(|_| *rng.pick(b"xyzQ7")).collect() };
    let mut r: Vec<u8> = match rng.below(12) {
        0 => vec![],
        1 => l.clone(),
        2 => flip(&l),
        3 => l[..l.len() / 2].to_vec(),
        4 => flip(&l[l.len() - l.len() / 2..]),
        5 => { let a = l.len() / 3; l[a..l.len() - a.min(l.len() - a)].to_vec() }
        6 => { let mut v = l.clone(); v.extend(extra(rng)); v }                  // longer, left is a prefix of right
        7 | 8 => { let mut v = extra(rng); v.extend(flip(&l)); v }              // longer, left is a (case-flipped) suffix of right
        9 => { let mut v = l.clone(); if !v.is_empty() { let i = rng.below(v.len() as u64) as usize; v[i] ^= 1; } v }
        10 => { let mut v = extra(rng); v.extend(l.clone()); v.extend(extra(rng)); v }
        _ => word(rng),
    };
    // character classes: mostly ASCII (the fast path), some non-ASCII UTF-8, some invalid UTF-8
    match rng.below(10) {
        0 => { let t = *rng.pick(&["\u{e9}", "\u{df}", "\u{130}", "\u{1c4}", "\u{f1}A"]); if rng.chance(1, 2) { l.extend_from_slice(t.as_bytes()); } else { r.extend_from_slice(t.as_bytes()); } }
        1 => { let t = *rng.pick(&["\u{c9}", "\u{d1}"]); l.extend_from_slice(t.to_lowercase().as_bytes()); r.extend_from_slice(t.as_bytes()); }
        2 => { let t: &[u8] = *rng.pick(&[&b"\xff"[..], b"\xc3", b"\x80\x80", b"\x00"]); if rng.chance(1, 2) { l.extend_from_slice(t); } else { r.extend_from_slice(t); } }
        _ => {}
    }
    if rng.chance(1, 8) { std::mem::swap(&mut l, &mut r); }
    (l, r)
}

fn gen_strop(rng: &mut Rng, fs: i64, cnt: i64) -> Shape {
    let op = if rng.chance(3, 5) { rng.below(7) as usize } else { rng.below(14) as usize };
    // the left operand is sometimes the result of a function call on a run-time integer
    let (l, lb) = if rng.chance(1, 7) { let tv = *rng.pick(&[0i64, 7, -1, 12345, i64::MAX, i64::MIN]); let t = gen_rt_to(rng, fs, cnt, tv);
                                        let v = t.eval(&Env { filesize: Some(fs), count: cnt }).unwrap_or(0).to_string().into_bytes(); (Some(StrSrc::ToString(t)), Some(v)) } else { (None, None) };
    let (a, b) = gen_str_pair(rng, lb);
    let src = |rng: &mut Rng, v: Vec<u8>| if rng.chance(2, 5) { StrSrc::Lit(v) } else { StrSrc::Global(v) };
    let l = l.unwrap_or_else(|| src(rng, a));
    let mut r = src(rng, b);
    // two literals are folded at compile time: keep some, but mostly force a run-time operand
    if l.is_lit() && r.is_lit() && rng.chance(3, 4) { if let StrSrc::Lit(v) = r { r = StrSrc::Global(v); } }
    Shape::StrOp { op, l, r }
}

fn gen_shape(rng: &mut Rng, fs: i64, cnt: i64, others: &[Shape], starts: &[i64]) -> Shape {
    if rng.chance(1, 5) { return gen_strop(rng, fs, cnt); }
    // shapes aimed at the match lists: run-time bounds / indexes placed around real matches
    if !starts.is_empty() && (if starts.len() >= 2 { rng.chance(3, 5) } else { rng.chance(1, 4) }) {
        let nm = starts.len() as i64;
        match rng.below(7) {
            0 | 1 | 2 => { let (l, h) = gen_bounds(rng, starts, fs);
                let (lo, hi) = (gen_rt_to(rng, fs, cnt, l), gen_rt_to(rng, fs, cnt, h));
                return if rng.chance(1, 2) { Shape::CountIn { lo, hi } } else { Shape::In { lo, hi } }; }
            3 => { let (l, h) = gen_bounds(rng, starts, fs);
                let nv = *rng.pick(&[0i64, 1, 2, 3, -1]);
                return Shape::OfIn { n: gen_rt_to(rng, fs, cnt, nv), lo: gen_rt_to(rng, fs, cnt, l), hi: gen_rt_to(rng, fs, cnt, h), any: rng.chance(1, 3) }; }
            4 => { // short ranges only: the loop runs hi - lo + 1 times
                let l = gen_point(rng, starts, fs).clamp(-20, fs + 20);
                let h = if rng.chance(1, 3) { l - 1 - rng.below(12) as i64 } else { l + rng.below(40) as i64 };
                return Shape::ForInAt { lo: gen_rt_to(rng, fs, cnt, l), hi: gen_rt_to(rng, fs, cnt, h), count_form: rng.chance(1, 2) }; }
            5 => { let p = gen_point(rng, starts, fs); return Shape::At { n: gen_rt_to(rng, fs, cnt, p) }; }
            _ => { let i = *rng.pick(&[0i64, 1, nm, nm + 1, nm - 1, -1, nm + 2]);
                let n = gen_rt_to(rng, fs, cnt, i);
                return if rng.chance(1, 2) { Shape::Offset { n } } else { Shape::Length { n } }; }
        }
    }
    let big_q = |rng: &mut Rng| -> i64 { *rng.pick(&[0i64, 1, -1, 50, 100, 101, 1000, 3000, 0x7fff_ffff, 1 << 53, 1 << 62, i64::MAX, i64::MIN, -100, i64::MAX / 2]) };
    match rng.below(22) {
        0 | 1 => {
            // quantifiers: boundary values around i32
            let t = if rng.chance(2, 3) { *rng.pick(&[0i64, 1, 2, 3, -1, 0x7fff_ffff, 0x8000_0000, 0x8000_0001, 0xffff_ffff, 0x1_0000_0000, 0x1_0000_0001, 0x7_ffff_fff0, -0x8000_0000, -0x8000_0001, i64::MAX, i64::MIN, 1 << 32]) } else { gen_value(rng) };
            Shape::OfRange { n: gen_rt_to(rng, fs, cnt, t), them: rng.chance(1, 3) }
        }
        2 => Shape::ForNOf { n: gen_rt(rng, fs, cnt) },
        3 => { let q = big_q(rng); Shape::PctOf { q: gen_rt_to(rng, fs, cnt, q), for_form: rng.chance(1, 2) } }
        4 | 5 => {
            // percentage over a range: n*q/100 may exceed the i64 range in trunc_f64_s
            loop {
                let lo_v = *rng.pick(&[0i64, 1, -5, 100, -(1 << 62)]);
                let n_v = *rng.pick(&[1i64, 2, 100, 1000, 0x3fff_ffff_ffff_ffff, 1 << 62, 1 << 53, 1_000_000, i64::MAX]);
                let hi_v = lo_v.wrapping_add(n_v).wrapping_sub(1);
                let q_v = big_q(rng);
                // keep scans short: either trunc traps, or few iterations are needed
                let n = hi_v.wrapping_sub(lo_v).wrapping_add(1);
                // keep scans short: with the saturating conversion an out-of-range positive count makes the loop
                // run over the whole range until the scan timeout (a documented error): such cases are kept, but rare
                if n > 0 && !pct_traps(n, q_v) { let m = pct_value(n, q_v); if m > 50_000.0 && n > 50_000 { continue; } }
                if n > 50_000 && pct_traps(n, q_v) && pct_value(n, q_v) > 0.0 && !rng.chance(1, 10) { continue; }
                let lo = if rng.chance(1, 2) { RtInt { leaf: Leaf::Filesize, op: Op::Const, k: lo_v } } else { gen_rt_to(rng, fs, cnt, lo_v) };
                let hi = if rng.chance(1, 2) { RtInt { leaf: Leaf::Filesize, op: Op::Const, k: hi_v } } else { gen_rt_to(rng, fs, cnt, hi_v) };
                if lo.is_const() && hi.is_const() && lo_v > hi_v { continue; }
                return Shape::PctRange { q: gen_rt_to(rng, fs, cnt, q_v), lo, hi };
            }
        }
        6 => {
            let lo_v = rng.range(-3, 3); let n_v = rng.range(0, 300);
            let n = gen_rt(rng, fs, cnt);
            Shape::ForNRange { n, lo: gen_rt_to(rng, fs, cnt, lo_v), hi: gen_rt_to(rng, fs, cnt, lo_v + n_v) }
        }
        7 | 8 | 9 => {
            let directed = rng.chance(1, 6);
            let a_v = if directed { i64::MIN } else if rng.chance(1, 2) { *rng.pick(&[i64::MIN, i64::MIN + 1, i64::MAX, 0, 1, -1, 7, -7]) } else { gen_value(rng) };
            let b_v = if directed { -1 } else if rng.chance(2, 3) { *rng.pick(&[0i64, -1, 1, 2, -2, i64::MIN, i64::MAX]) } else { gen_value(rng) };
            let a = if rng.chance(1, 2) { RtInt { leaf: Leaf::Filesize, op: Op::Const, k: a_v } } else { gen_rt_to(rng, fs, cnt, a_v) };
            let b = gen_rt_to(rng, fs, cnt, b_v);
            if rng.chance(3, 5) { Shape::Div { a, b } } else { Shape::Mod { a, b } }
        }
        10 => {
            let a = gen_rt(rng, fs, cnt);
            let b_v = if rng.chance(2, 3) { *rng.pick(&[0i64, 1, 63, 64, 65, -1, -64, 127, 128, i64::MAX, i64::MIN, 1 << 32]) } else { gen_value(rng) };
            let b = gen_rt_to(rng, fs, cnt, b_v);
            if rng.chance(1, 2) { Shape::Shl { a, b } } else { Shape::Shr { a, b } }
        }
        11 => {
            let a = gen_rt(rng, fs, cnt); let b = gen_rt(rng, fs, cnt); let c = gen_rt(rng, fs, cnt);
            let op1 = *rng.pick(&["+", "-", "*", "&", "|", "^"]); let op2 = *rng.pick(&["+", "-", "*"]);
            let un = *rng.pick(&["", "-", "~"]);
            let mut a2 = a.clone(); if a2.is_const() { a2.op = Op::Bare; }
            Shape::Arith { text: format!("{}({} {} {}) {} {} == {}", un, a2.text(), op1, b.text(), op2, c.text(), lit(gen_value(rng))) }
        }
        12 => Shape::At { n: gen_rt(rng, fs, cnt) },
        13 => { let lo = gen_rt(rng, fs, cnt); let mut hi = gen_rt(rng, fs, cnt); if lo.is_const() && hi.is_const() { hi.op = Op::Add; }
                if rng.chance(1, 2) { Shape::In { lo, hi } } else { Shape::CountIn { lo, hi } } }
        14 => { let t = if rng.chance(1, 2) { *rng.pick(&[0i64, 1, 2, -1, i64::MAX, i64::MIN, 0x1_0000_0000, 1 << 53]) } else { gen_value(rng) };
                let n = gen_rt_to(rng, fs, cnt, t); if rng.chance(1, 2) { Shape::Offset { n } } else { Shape::Length { n } } }
        15 | 16 => { let (f, width) = *rng.pick(&UINT_FNS);
                let t = if rng.chance(2, 3) { let base = *rng.pick(&[0i64, -1, 1, i64::MAX, i64::MAX - 1, i64::MAX - 3, i64::MAX - 7, i64::MIN, 1 << 32, 1 << 53]); base.wrapping_add(if rng.chance(1, 3) { fs - width } else { 0 }) } else { gen_value(rng) };
                Shape::UintN { f, width, n: gen_rt_to(rng, fs, cnt, t) } }
        17 => { let t = *rng.pick(&[i64::MIN, i64::MIN + 1, -1, 0, 1, i64::MAX]); Shape::Abs { n: gen_rt_to(rng, fs, cnt, t) } }
        18 | 19 => {
            let off_v = if rng.chance(2, 3) { *rng.pick(&[0i64, 1, -1, i64::MAX, i64::MAX - 1, i64::MIN, 1 << 62, 100]) } else { gen_value(rng) };
            let size_v = if rng.chance(2, 3) { *rng.pick(&[0i64, 1, -1, i64::MAX, i64::MIN, 2, 1 << 62, 100]) } else { gen_value(rng) };
            let off = gen_rt_to(rng, fs, cnt, off_v); let size = gen_rt_to(rng, fs, cnt, size_v);
            match rng.below(10) { 0..=4 => Shape::HashRange { f: *rng.pick(&HASH_FNS), off, size }, 5..=7 => Shape::MathRange { f: *rng.pick(&MATH_RANGE_FNS), off, len: size },
                                  _ => Shape::ConsoleRange { off, len: size, msg: rng.chance(1, 2) } }
        }
        _ => rng.pick(others).clone(),
    }
}

#[derive(Clone)]
struct Case { shapes: Vec<Shape>, src: String, data: Vec<u8>, buf_kind: &'static str, globals: Vec<(String, Vec<u8>)> }

fn globals_of(shapes: &[Shape]) -> Vec<(String, Vec<u8>)> { shapes.iter().enumerate().flat_map(|(i, s)| s.globals(i)).collect() }

fn count_tok(d: &[u8], idx: usize) -> i64 { let t = TOKENS[idx % 3].2.as_bytes(); d.windows(2).filter(|w| *w == t).count() as i64 }

fn gen_buffer(rng: &mut Rng) -> (Vec<u8>, &'static str) {
    match rng.below(11) {
        0 => (vec![], "empty"),
        1 => (vec![*rng.pick(&[b'A', b'Q', 0u8, 0xffu8])], "1 byte"),
        2 | 3 => { let n = 2 + rng.below(60) as usize; ((0..n).map(|_| rng.next() as u8).collect(), "small random") }
        4 => { // tokens of the patterns
            let mut d = vec![]; let n = 1 + rng.below(8);
            for _ in 0..n { d.extend_from_slice(*rng.pick(&[&b"AAAA"[..], b"BBBB", b"QZ", b"AAAAA", b"..", b"QZQZ", b"\x00\x01", b"AAAABBBB", b"CCCC", b"DDDD", b"QY", b"EEEE", b"FFFF", b"QX"])); }
            (d, "pattern tokens") }
        5 => { let n = 64 + rng.below(4000) as usize; let b = *rng.pick(&[b'A', b'B', b'C', b'F']); (vec![b; n], "dense repetitive") }
        6 => { let n = 16 + rng.below(600) as usize; let t = *rng.pick(&[&b"QZ"[..], b"QY", b"QX"]); let mut d = Vec::with_capacity(2 * n); for _ in 0..n { d.extend_from_slice(t); } (d, "dense repetitive") }
        7 => { let n = 3 + rng.below(5) as usize; ((0..n).map(|i| b"AAAAB"[i % 5]).collect(), "tiny") }
        _ => { // the patterns occur at several offsets, separated by filler of varying length
            let mut d = vec![]; let n = 2 + rng.below(6);
            for _ in 0..rng.below(5) { d.push(b'_'); }
            for _ in 0..n {
                d.extend_from_slice(*rng.pick(&[&b"AAAA"[..], b"AAAA", b"AAAA", b"BBBB", b"AAAAA", b"CCCC", b"DDDD", b"EEEE", b"QZ"]));
                for _ in 0..1 + rng.below(7) { d.push(b'_'); }
            }
            (d, "spaced matches") }
    }
}

fn build_source(shapes: &[Shape]) -> String {
    let mut imports: Vec<&str> = vec![];
    let mut rules = String::new();
    for (i, s) in shapes.iter().enumerate() {
        let r = s.rule(i);
        for im in r.imports { if !imports.contains(&im) { imports.push(im); } }
        let strings = if r.strings.is_empty() { String::new() } else { format!("strings: {} ", r.strings.join(" ")) };
        rules.push_str(&format!("rule r{} {{ {}condition: {} }}\n", i, strings, r.cond));
    }
    let mut s = String::new();
    for im in imports { s.push_str(&format!("import \"{}\"\n", im)); }
    s + &rules
}

fn gen_case(rng: &mut Rng, others: &[Shape]) -> Case {
    let (data, buf_kind) = gen_buffer(rng);
    let fs = data.len() as i64;
    let n = match rng.below(10) { 0..=6 => 1, 7 | 8 => 2, _ => 3 };
    let shapes: Vec<Shape> = (0..n).map(|i| { let st = match_starts(&data, i); gen_shape(rng, fs, count_tok(&data, i), others, &st) }).collect();
    Case { src: build_source(&shapes), globals: globals_of(&shapes), shapes, data, buf_kind }
}

/// the known defects (DESIGN.md section 7, #5 #7 #8) and earlier failures, run first
fn corpus() -> Vec<Case> {
    let fsz = |op, k| RtInt { leaf: Leaf::Filesize, op, k };
    let konst = |k| RtInt { leaf: Leaf::Filesize, op: Op::Const, k };
    let mk = |shapes: Vec<Shape>, data: &[u8]| Case { src: build_source(&shapes), globals: globals_of(&shapes), shapes, data: data.to_vec(), buf_kind: "corpus" };
    vec![
        mk(vec![Shape::OfRange { n: fsz(Op::Add, 0x7_ffff_fff0), them: false }], b"AAAA BBBB"),
        mk(vec![Shape::Div { a: konst(i64::MIN), b: fsz(Op::Sub, 4) }], b"abc"),
        mk(vec![Shape::PctRange { q: fsz(Op::Mul, 1000), lo: konst(0), hi: konst(0x3fff_ffff_ffff_ffff) }], b"abc"),
        mk(vec![Shape::Abs { n: fsz(Op::Add, i64::MIN) }], b""),
        mk(vec![Shape::HashRange { f: "hash.md5", off: konst(i64::MAX), size: fsz(Op::Bare, 0) }], b"abc"),
        mk(vec![Shape::ConsoleRange { off: fsz(Op::Sub, 1), len: konst(i64::MAX), msg: false }], b"abc"),
        mk(vec![Shape::OfRange { n: fsz(Op::Add, 0x7fff_fffe), them: true }], b"A"),
        // case-insensitive ASCII fast paths with a right operand longer than the left / empty, operands known only at scan time
        mk(vec![Shape::StrOp { op: 5, l: StrSrc::Global(b"ab".to_vec()), r: StrSrc::Lit(b"xyzAB".to_vec()) }], b"abc"),
        mk(vec![Shape::StrOp { op: 3, l: StrSrc::Global(b"ab".to_vec()), r: StrSrc::Global(b"ABxyz".to_vec()) }, Shape::StrOp { op: 1, l: StrSrc::Global(b"ab".to_vec()), r: StrSrc::Global(vec![]) }], b"abc"),
        mk(vec![Shape::StrOp { op: 1, l: StrSrc::ToString(fsz(Op::Bare, 0)), r: StrSrc::Global(b"1234567".to_vec()) }, Shape::StrOp { op: 5, l: StrSrc::Global(vec![]), r: StrSrc::Global(b"A".to_vec()) }], b"abc"),
        // inverted run-time range with a match strictly between the bounds
        mk(vec![Shape::CountIn { lo: fsz(Op::Sub, 4), hi: fsz(Op::Sub, 14) }], b"AAAA__AAAA__AAAA___"),
        mk(vec![Shape::In { lo: fsz(Op::Sub, 4), hi: fsz(Op::Sub, 14) }], b"AAAA__AAAA__AAAA___"),
        mk(vec![Shape::OfIn { n: fsz(Op::Sub, 18), lo: fsz(Op::Sub, 4), hi: fsz(Op::Sub, 14), any: false }], b"AAAA__AAAA__AAAA___"),
        mk(vec![Shape::Offset { n: fsz(Op::Sub, 15) }, Shape::Length { n: fsz(Op::Sub, 19) }], b"AAAA__AAAA__AAAA___"),
        mk(vec![Shape::Mod { a: konst(i64::MIN), b: fsz(Op::Sub, 4) }], b"abc"),
        mk(vec![Shape::UintN { f: "uint32", width: 4, n: fsz(Op::Add, i64::MAX - 5) }], b"abcd"),
    ]
}

// ------------------------------------------------------------------ child

// `mod compiler` of the capi crate is private: its #[no_mangle] functions are reachable
// through their C symbols only (needed to define global variables before compiling).
#[repr(C)]
pub struct YRX_COMPILER { _p: [u8; 0] }
#[allow(improper_ctypes)]
extern "C" {
    fn yrx_compiler_create(flags: u32, compiler: *mut *mut YRX_COMPILER) -> yara_x_capi::YRX_RESULT;
    fn yrx_compiler_destroy(compiler: *mut YRX_COMPILER);
    fn yrx_compiler_add_source(compiler: *mut YRX_COMPILER, src: *const std::ffi::c_char) -> yara_x_capi::YRX_RESULT;
    fn yrx_compiler_define_global_str(compiler: *mut YRX_COMPILER, ident: *const std::ffi::c_char, value: *const std::ffi::c_char) -> yara_x_capi::YRX_RESULT;
    fn yrx_compiler_build(compiler: *mut YRX_COMPILER) -> *mut yara_x_capi::YRX_RULES;
}

#[derive(Clone, Debug, PartialEq)]
enum Out { Ok, Err(String), Panic { site: String, msg: String }, Abort { sig: i32, site: String, msg: String }, Timeout, NotRun }

const MODES: [&str; 4] = ["mem", "file", "blocks", "capi"];

fn set_limits() {
    unsafe {
        let lim = libc::rlimit { rlim_cur: RLIMIT_AS_BYTES, rlim_max: RLIMIT_AS_BYTES };
        libc::setrlimit(libc::RLIMIT_AS, &lim);
        let core = libc::rlimit { rlim_cur: 0, rlim_max: 0 };
        libc::setrlimit(libc::RLIMIT_CORE, &core);
        libc::alarm(CHILD_ALARM_S);
    }
}

fn err_kind(e: &yara_x::ScanError) -> &'static str {
    match e {
        yara_x::ScanError::Timeout => "timeout", yara_x::ScanError::OpenError { .. } => "open", yara_x::ScanError::MapError { .. } => "map",
        yara_x::ScanError::ProtoError { .. } => "proto", yara_x::ScanError::UnknownModule { .. } => "unknown-module", yara_x::ScanError::ModuleError { .. } => "module",
        #[allow(unreachable_patterns)] _ => "other",
    }
}

fn say(s: &str) { let mut o = std::io::stdout().lock(); let _ = writeln!(o, "{}", s); let _ = o.flush(); }

/// consume results the way a client would: iterate rules, patterns, matches, data();
/// returns the identifiers of the matching rules
fn consume(r: &yara_x::ScanResults) -> String {
    let mut n = 0;
    let mut names = vec![];
    for rule in r.matching_rules() {
        n += 1;
        names.push(rule.identifier().to_string());
        for p in rule.patterns() { for m in p.matches().take(50) { n += m.data().len().min(1); let _ = m.range(); } }
    }
    for _ in r.non_matching_rules() { n += 1; }
    let _ = n;
    names.join(",")
}

/// Child: {"src","data_hex","modes":[..],"tmp"} on stdin. Prints, per mode,
/// `MODE m`, then `SCAN m i ok|err:<kind>|panic` for the scan (i=0) and the
/// reuse scan (i=1) on the same scanner; the panic hook prints `PANIC file:line msg`.
fn child() -> i32 {
    set_limits();
    std::panic::set_hook(Box::new(|info| {
        let loc = info.location().map(|l| format!("{}:{}", l.file(), l.line())).unwrap_or_else(|| "?".into());
        let p = info.payload();
        let msg = if let Some(s) = p.downcast_ref::<String>() { s.clone() } else if let Some(s) = p.downcast_ref::<&str>() { s.to_string() } else { "panic".into() };
        say(&format!("PANIC {} {}", loc, msg.replace('\n', " | ")));
    }));
    let mut inp = String::new();
    std::io::stdin().read_to_string(&mut inp).unwrap();
    let v: serde_json::Value = serde_json::from_str(&inp).unwrap();
    let src = v["src"].as_str().unwrap().to_string();
    let data = unhex(v["data_hex"].as_str().unwrap());
    let tmp = v["tmp"].as_str().unwrap().to_string();
    let modes: Vec<String> = v["modes"].as_array().unwrap().iter().map(|m| m.as_str().unwrap().to_string()).collect();

    let globals: Vec<(String, Vec<u8>)> = v["globals"].as_array().map(|a| a.iter().map(|g| (g[0].as_str().unwrap().to_string(), unhex(g[1].as_str().unwrap()))).collect()).unwrap_or_default();
    let mut comp = yara_x::Compiler::new();
    for (name, val) in &globals {
        let ok = match std::str::from_utf8(val) { Ok(sv) => comp.define_global(name, sv).is_ok(), Err(_) => comp.define_global(name, val.as_slice()).is_ok() };
        if !ok { say("REJECTED define_global failed"); return 0; }
    }
    let added = catch(AssertUnwindSafe(|| comp.add_source(src.as_str()).map(|_| ()).map_err(|e| e.to_string())));
    match added {
        Ok(Ok(())) => {}
        Ok(Err(e)) => { say(&format!("REJECTED {}", e.lines().next().unwrap_or("").chars().take(200).collect::<String>())); return 0; }
        Err(_) => { say("COMPILE-PANIC"); return 0; }
    }
    let rules = match catch(AssertUnwindSafe(move || comp.build())) { Ok(r) => r, Err(_) => { say("COMPILE-PANIC"); return 0; } };
    say("COMPILED");
    let res = |r: Result<String, String>| match r { Ok(names) => format!("ok {}", names).trim_end().to_string(), Err(k) => format!("err:{}", k) };
    for m in modes {
        say(&format!("MODE {}", m));
        let bufs: [&[u8]; 2] = [&data, REUSE_DATA];
        match m.as_str() {
            "mem" => {
                let mut sc = yara_x::Scanner::new(&rules);
                sc.set_timeout(Duration::from_secs(SCAN_TIMEOUT_S));
                for (i, b) in bufs.iter().enumerate() {
                    let r = catch(AssertUnwindSafe(|| sc.scan(b).map(|r| consume(&r)).map_err(|e| err_kind(&e).to_string())));
                    say(&format!("SCAN {} {} {}", m, i, match r { Ok(x) => res(x), Err(_) => "panic".into() }));
                }
            }
            "file" => {
                let mut sc = yara_x::Scanner::new(&rules);
                sc.set_timeout(Duration::from_secs(SCAN_TIMEOUT_S));
                for (i, b) in bufs.iter().enumerate() {
                    let path = format!("{}/c05_{}_{}.bin", tmp, std::process::id(), i);
                    std::fs::write(&path, b).unwrap();
                    let r = catch(AssertUnwindSafe(|| sc.scan_file(&path).map(|r| consume(&r)).map_err(|e| err_kind(&e).to_string())));
                    say(&format!("SCAN {} {} {}", m, i, match r { Ok(x) => res(x), Err(_) => "panic".into() }));
                    let _ = std::fs::remove_file(&path);
                }
            }
            "blocks" => {
                let mut sc = yara_x::blocks::Scanner::new(&rules);
                sc.set_timeout(Duration::from_secs(SCAN_TIMEOUT_S));
                for (i, b) in bufs.iter().enumerate() {
                    let r = catch(AssertUnwindSafe(|| {
                        if let Err(e) = sc.scan(0, b) { return Err(err_kind(&e).to_string()); }
                        if let Err(e) = sc.scan(b.len() + 16, b"") { return Err(err_kind(&e).to_string()); }
                        sc.finish().map(|r| consume(&r)).map_err(|e| err_kind(&e).to_string())
                    }));
                    say(&format!("SCAN {} {} {}", m, i, match r { Ok(x) => res(x), Err(_) => "panic".into() }));
                }
            }
            "capi" => unsafe {
                use yara_x_capi::*;
                let csrc = std::ffi::CString::new(src.as_str()).unwrap();
                let mut crules: *mut YRX_RULES = std::ptr::null_mut();
                if globals.is_empty() {
                    if !matches!(yrx_compile(csrc.as_ptr(), &mut crules), YRX_RESULT::YRX_SUCCESS) { say("SCAN capi 0 err:capi-compile"); say("SCAN capi 1 err:capi-compile"); continue; }
                } else {
                    // globals need the compiler API; C strings cannot carry NUL bytes or invalid UTF-8
                    let cg: Option<Vec<(std::ffi::CString, std::ffi::CString)>> = globals.iter().map(|(k, v)| {
                        if std::str::from_utf8(v).is_err() { return None; }
                        Some((std::ffi::CString::new(k.as_str()).ok()?, std::ffi::CString::new(v.clone()).ok()?)) }).collect();
                    let cg = match cg { Some(x) => x, None => { say("SCAN capi 0 err:capi-global-not-a-c-string"); say("SCAN capi 1 err:capi-global-not-a-c-string"); continue; } };
                    let mut cc: *mut YRX_COMPILER = std::ptr::null_mut();
                    if !matches!(yrx_compiler_create(0, &mut cc), YRX_RESULT::YRX_SUCCESS) { say("SCAN capi 0 err:capi-compiler"); say("SCAN capi 1 err:capi-compiler"); continue; }
                    let mut okg = true;
                    for (k, v) in &cg { if !matches!(yrx_compiler_define_global_str(cc, k.as_ptr(), v.as_ptr()), YRX_RESULT::YRX_SUCCESS) { okg = false; } }
                    if !okg || !matches!(yrx_compiler_add_source(cc, csrc.as_ptr()), YRX_RESULT::YRX_SUCCESS) { yrx_compiler_destroy(cc); say("SCAN capi 0 err:capi-compile"); say("SCAN capi 1 err:capi-compile"); continue; }
                    crules = yrx_compiler_build(cc);
                    yrx_compiler_destroy(cc);
                    if crules.is_null() { say("SCAN capi 0 err:capi-build"); say("SCAN capi 1 err:capi-build"); continue; }
                }
                let mut sc: *mut YRX_SCANNER = std::ptr::null_mut();
                if !matches!(yrx_scanner_create(crules, &mut sc), YRX_RESULT::YRX_SUCCESS) { say("SCAN capi 0 err:capi-create"); say("SCAN capi 1 err:capi-create"); continue; }
                yrx_scanner_set_timeout(sc, SCAN_TIMEOUT_S);
                for (i, b) in bufs.iter().enumerate() {
                    // a panic crossing the C ABI aborts the process: nothing to catch here
                    let r = yrx_scanner_scan(sc, b.as_ptr(), b.len());
                    let t = match r { YRX_RESULT::YRX_SUCCESS => "ok".to_string(), YRX_RESULT::YRX_SCAN_TIMEOUT => "err:timeout".to_string(),
                                      YRX_RESULT::YRX_SCAN_ERROR => "err:scan-error".to_string(), _ => "err:capi-other".to_string() };
                    say(&format!("SCAN {} {} {}", m, i, t));
                }
                yrx_scanner_destroy(sc);
                yrx_rules_destroy(crules);
            },
            _ => {}
        }
    }
    say("DONE");
    0
}

// ------------------------------------------------------------------ parent

struct ChildRun { rejected: Option<String>, compiled: bool, outs: BTreeMap<String, Vec<Out>>,
                  /// per mode, per scan: identifiers of the matching rules (None: not reported)
                  matched: BTreeMap<String, Vec<Option<Vec<String>>>> }

/// enclosing `fn` of file:line in /repo (so fingerprints survive line shifts)
fn site_of(loc: &str) -> String {
    let (file, line) = match loc.rsplit_once(':') { Some((f, l)) => (f, l.parse::<usize>().unwrap_or(0)), None => (loc, 0) };
    // repository-relative, wherever the checkout lives
    let rel = ["/lib/src/", "/capi/src/", "/parser/src/", "/fmt/src/", "/macros/src/"].iter().find_map(|m| file.find(m).map(|i| &file[i + 1..])).unwrap_or_else(|| file.trim_start_matches("/repo/"));
    let path = if file.starts_with('/') { file.to_string() } else { format!("/repo/{}", file) };
    if let Ok(text) = std::fs::read_to_string(&path) {
        let lines: Vec<&str> = text.lines().collect();
        let mut i = line.min(lines.len());
        while i > 0 {
            i -= 1;
            let l = lines[i].trim_start();
            let l = l.strip_prefix("pub(crate) ").or_else(|| l.strip_prefix("pub ")).unwrap_or(l);
            if let Some(rest) = l.strip_prefix("fn ") {
                let name: String = rest.chars().take_while(|c| c.is_alphanumeric() || *c == '_' || *c == '$').collect();
                return format!("{}:{}", rel, name);
            }
        }
    }
    if rel.contains("/rustc/") || rel.contains("library/core") { return "core".into(); }
    rel.to_string()
}

fn run_child(exe: &Path, case: &Case, modes: &[&str], tmp: &str) -> (ChildRun, Option<i32>, bool) {
    let spec = serde_json::json!({"src": case.src, "data_hex": hex(&case.data), "modes": modes, "tmp": tmp,
        "globals": case.globals.iter().map(|(k, v)| vec![k.clone(), hex(v)]).collect::<Vec<_>>()});
    let mut ch = Command::new(exe).arg("--child").stdin(Stdio::piped()).stdout(Stdio::piped()).stderr(Stdio::null()).spawn().unwrap();
    ch.stdin.take().unwrap().write_all(spec.to_string().as_bytes()).unwrap();
    let mut stdout = ch.stdout.take().unwrap();
    let reader = std::thread::spawn(move || { let mut s = String::new(); let _ = stdout.read_to_string(&mut s); s });
    let t0 = Instant::now();
    let mut hard = false;
    let status = loop {
        match ch.try_wait().unwrap() {
            Some(st) => break st,
            None => {
                if t0.elapsed() > Duration::from_secs(CHILD_HARD_S) { let _ = ch.kill(); hard = true; break ch.wait().unwrap(); }
                std::thread::sleep(Duration::from_millis(2));
            }
        }
    };
    let text = reader.join().unwrap_or_default();
    use std::os::unix::process::ExitStatusExt;
    let sig = status.signal();
    let mut run = ChildRun { rejected: None, compiled: false, outs: BTreeMap::new(), matched: BTreeMap::new() };
    let mut cur: Option<String> = None;
    let mut last_panic: Option<(String, String)> = None;
    for l in text.lines() {
        if let Some(r) = l.strip_prefix("REJECTED ") { run.rejected = Some(r.to_string()); }
        else if l == "COMPILE-PANIC" { run.rejected = Some("compiler panicked (C09)".into()); }
        else if l == "COMPILED" { run.compiled = true; }
        else if let Some(m) = l.strip_prefix("MODE ") { cur = Some(m.to_string()); run.outs.insert(m.to_string(), vec![]); last_panic = None; }
        else if let Some(p) = l.strip_prefix("PANIC ") {
            let (loc, msg) = p.split_once(' ').unwrap_or((p, ""));
            // keep the FIRST panic of a scan (a panic crossing the C ABI is followed by
            // "panic in a function that cannot unwind")
            if last_panic.is_none() { last_panic = Some((site_of(loc), msg.to_string())); }
        }
        else if let Some(s) = l.strip_prefix("SCAN ") {
            let f: Vec<&str> = s.splitn(3, ' ').collect();
            let mut names: Option<Vec<String>> = None;
            let o = match f[2] {
                "ok" => { if f[0] != "capi" { names = Some(vec![]); } Out::Ok }
                x if x.starts_with("ok ") => { names = Some(x[3..].split(',').map(|t| t.to_string()).collect()); Out::Ok }
                "panic" => { let (site, msg) = last_panic.take().unwrap_or(("?".into(), "?".into())); Out::Panic { site, msg } }
                e => Out::Err(e.trim_start_matches("err:").to_string()),
            };
            run.outs.get_mut(f[0]).unwrap().push(o);
            run.matched.entry(f[0].to_string()).or_default().push(names);
            last_panic = None;
        }
    }
    // the child died inside a mode: the scan in progress gets the abort
    let died = sig.is_some() || hard || (!text.contains("\nDONE") && !text.starts_with("DONE") && run.compiled);
    if died {
        if let Some(m) = &cur {
            let (site, msg) = last_panic.take().unwrap_or(("?".into(), "?".into()));
            let o = if hard || sig == Some(libc::SIGALRM) { Out::Timeout } else { Out::Abort { sig: sig.unwrap_or(0), site, msg } };
            run.outs.get_mut(m).unwrap().push(o);
        }
    }
    (run, sig, hard)
}

/// all four modes of a case; a mode that kills the child does not hide the others
fn run_case(exe: &Path, case: &Case, tmp: &str) -> ChildRun {
    let mut remaining: Vec<&str> = MODES.to_vec();
    let mut total = ChildRun { rejected: None, compiled: false, outs: BTreeMap::new(), matched: BTreeMap::new() };
    let mut timeouts = 0;
    while !remaining.is_empty() {
        let (run, sig, hard) = run_child(exe, case, &remaining, tmp);
        // a child killed by the wall-clock limits is run again (twice at most): on a heavily loaded
        // machine a child can starve although every scan has its own 1 s timeout; only a
        // reproducible hard timeout is reported
        if (hard || sig == Some(libc::SIGALRM)) && timeouts < 2 { timeouts += 1; continue; }
        if run.rejected.is_some() { total.rejected = run.rejected; return total; }
        if !run.compiled { total.rejected = Some("child died before the rules were compiled".into()); return total; }
        total.compiled = true;
        let mut done = 0;
        for m in &remaining { if let Some(o) = run.outs.get(*m) { total.outs.insert(m.to_string(), o.clone()); total.matched.insert(m.to_string(), run.matched.get(*m).cloned().unwrap_or_default()); done += 1; } else { break; } }
        if done == 0 { break; }
        remaining.drain(0..done);
    }
    total
}

fn msg_class(msg: &str) -> String {
    let m = msg.to_lowercase();
    if m.contains("tryfrominterror") { "unwrap-TryFromIntError".into() }
    else if m.contains("attempt to add with overflow") { "add-overflow".into() }
    else if m.contains("attempt to subtract with overflow") { "sub-overflow".into() }
    else if m.contains("attempt to multiply with overflow") { "mul-overflow".into() }
    else if m.contains("attempt to negate with overflow") { "neg-overflow".into() }
    else if m.contains("wasm trap: integer overflow") { "wasm-trap-integer-overflow".into() }
    else if m.contains("wasm trap: integer divide by zero") { "wasm-trap-divide-by-zero".into() }
    else if m.contains("wasm trap: invalid conversion to integer") { "wasm-trap-invalid-conversion".into() }
    else if m.contains("wasm trap: out of bounds memory access") { "wasm-trap-oob-memory".into() }
    else if m.contains("wasm trap: wasm `unreachable`") { "wasm-trap-unreachable".into() }
    else if m.contains("wasm trap") { "wasm-trap-other".into() }
    else if m.contains("called `option::unwrap()` on a `none`") { "unwrap-None".into() }
    else if m.contains("slice index starts at") { "slice-index-start-after-end".into() }
    else if m.contains("index out of bounds") || m.contains("out of range for slice") { "index-out-of-bounds".into() }
    else if m.contains("unreachable") { "unreachable".into() }
    else { msg.chars().filter(|c| c.is_ascii_alphabetic() || *c == ' ').take(48).collect::<String>().split_whitespace().collect::<Vec<_>>().join("-") }
}

/// specific fingerprint of a non-Ok outcome
fn fingerprint(o: &Out, case: &Case, envs: &[Env], release: bool) -> String {
    let hints: Vec<&'static str> = case.shapes.iter().zip(envs.iter()).filter_map(|(s, env)| s.crash_hint(env)).collect();
    let prof = if release { "" } else { " (debug profile)" };
    match o {
        Out::Ok | Out::Err(_) | Out::NotRun => "C05:none".into(),
        Out::Timeout => "C05:hard-timeout".into(),
        Out::Panic { site, msg } | Out::Abort { site, msg, .. } => {
            let mc = msg_class(msg);
            if site.ends_with(":eval_conditions") && msg.contains("executing WASM main function") {
                // a WASM trap (the message holds only an anonymous backtrace): the trapping instruction
                // is named from the operand values of the rule's shapes; a trap they do not explain
                // stays "unexplained"
                let h = hints.first().copied().unwrap_or("unexplained");
                return format!("C05:trap:{}", h);
            }
            if mc.starts_with("wasm-trap") { return format!("C05:trap:{}", mc); }
            let site = if site == "core" || site == "?" {
                // overflow inside an inlined core method: name the module function from the shape
                case.shapes.iter().find_map(|s| match s { Shape::Abs { .. } => Some("math.abs".to_string()), _ => None }).unwrap_or(site.clone())
            } else { site.clone() };
            let overflow = mc.ends_with("-overflow");
            let abort = if matches!(o, Out::Abort { site, .. } if site == "?") { format!(":signal-{}", if let Out::Abort { sig, .. } = o { *sig } else { 0 }) } else { String::new() };
            format!("C05:panic:{}:{}{}{}", site, mc, abort, if overflow { prof } else { "" })
        }
    }
}

fn out_coq(o: &Out) -> String {
    match o { Out::Ok => "OOk".into(), Out::Err(k) => format!("(OErr {})", if k == "timeout" { "true" } else { "false" }), Out::Panic { .. } => "OPanic".into(),
              Out::Abort { .. } => "OAbort".into(), Out::Timeout => "OTimeout".into(), Out::NotRun => "ONotRun".into() }
}
fn out_json(o: &Out) -> String {
    match o { Out::Ok => "\"ok\"".into(), Out::Err(k) => json_str(&format!("err:{}", k)), Out::Timeout => "\"hard-timeout\"".into(), Out::NotRun => "\"not-run\"".into(),
              Out::Panic { site, msg } => format!("{{\"panic\":{},\"site\":{}}}", json_str(&msg.chars().take(300).collect::<String>()), json_str(site)),
              Out::Abort { sig, site, msg } => format!("{{\"abort_signal\":{},\"panic\":{},\"site\":{}}}", sig, json_str(&msg.chars().take(300).collect::<String>()), json_str(site)) }
}

fn main() {
    let args: Vec<String> = std::env::args().skip(1).collect();
    if arg_flag(&args, "--child") { std::process::exit(child()); }
    std::process::exit(run(&args));
}

fn run(args: &[String]) -> i32 {
    quiet_panics();
    let seed = arg_u64(args, "--seed", 1);
    let n = arg_u64(args, "--n", 300) as usize;
    let out = arg_val(args, "--out").expect("--out");
    let jobs = arg_u64(args, "--jobs", std::thread::available_parallelism().map(|x| x.get() as u64).unwrap_or(4).min(16)) as usize;
    // --exe: run the children from another build of this binary (release profile)
    let exe = arg_val(args, "--exe").map(std::path::PathBuf::from).unwrap_or_else(|| std::env::current_exe().unwrap());
    let release = arg_flag(args, "--release-profile");
    let tmp = arg_val(args, "--tmp").unwrap_or_else(|| "/verif/.cache/c05_tmp".into());
    std::fs::create_dir_all(&tmp).unwrap();
    if let Some(src) = arg_val(args, "--replay-src") {
        // replay one (rules, data) pair: prints the outcomes
        let data = unhex(&arg_val(args, "--replay-data").unwrap_or_default());
        let globals: Vec<(String, Vec<u8>)> = arg_val(args, "--replay-globals").map(|g| g.split(',').filter_map(|kv| kv.split_once('=')).map(|(k, v)| (k.to_string(), unhex(v))).collect()).unwrap_or_default();
        let case = Case { shapes: vec![], src, data, buf_kind: "replay", globals };
        let r = run_case(&exe, &case, &tmp);
        if let Some(e) = &r.rejected { println!("rejected: {}", e); return 0; }
        let mut bad = false;
        for (m, outs) in &r.outs { for (i, o) in outs.iter().enumerate() { println!("{} scan#{}: {}", m, i, out_json(o)); if !matches!(o, Out::Ok | Out::Err(_)) { bad = true; } } }
        return if bad { 1 } else { 0 };
    }
    let prelude = "From Coq Require Import List ZArith Bool String.\nFrom YV Require Import Cond.StrModel Cond.HostCheck.\nImport ListNotations.\nLocal Open Scope string_scope.\n";
    let mut shards = Shards::new(Path::new(&out), prelude, 150);
    let mut rng = Rng::new(seed);
    let others = other_shapes();
    let mut stats = Stats::default();
    let mut distinct = HashSet::new();
    let mut samples = vec![];
    let mut pending = corpus();
    let ncorpus = pending.len();
    let mut pushed = 0usize;
    let mut generated = 0usize;
    while pushed < n {
        // a batch of cases from the single PRNG, run in parallel children, recorded in order
        let mut batch: Vec<Case> = vec![];
        while batch.len() < 4 * jobs && pushed + batch.len() < n + 8 {
            if !pending.is_empty() { batch.push(pending.remove(0)); } else { batch.push(gen_case(&mut rng, &others)); }
        }
        let results: Vec<ChildRun> = std::thread::scope(|sc| {
            let chunks: Vec<Vec<(usize, &Case)>> = (0..jobs).map(|j| batch.iter().enumerate().filter(|(i, _)| i % jobs == j).collect()).collect();
            let handles: Vec<_> = chunks.into_iter().map(|ch| { let exe = exe.clone(); let tmp = tmp.clone();
                sc.spawn(move || ch.into_iter().map(|(i, c)| (i, run_case(&exe, c, &tmp))).collect::<Vec<_>>()) }).collect();
            let mut all: Vec<(usize, ChildRun)> = handles.into_iter().flat_map(|h| h.join().unwrap()).collect();
            all.sort_by_key(|x| x.0);
            all.into_iter().map(|x| x.1).collect()
        });
        for (case, r) in batch.iter().zip(results.into_iter()) {
            generated += 1;
            if let Some(e) = &r.rejected {
                stats.inc("rejected by the compiler (skipped)");
                if generated <= ncorpus { eprintln!("corpus case rejected: {} :: {}", case.src, e); }
                continue;
            }
            if pushed >= n { break; }
            for (ri, s) in case.shapes.iter().enumerate() {
                stats.inc(&format!("shape:{}", s.kind()));
                if let Some(p) = s.str_path(&Env { filesize: Some(case.data.len() as i64), count: count_tok(&case.data, ri) }) { stats.inc(&format!("strop:{}", p)); }
                // where the run-time bounds / indexes fall relative to the real matches (in-memory scan)
                let env = Env { filesize: Some(case.data.len() as i64), count: count_tok(&case.data, ri) };
                let st = match_starts(&case.data, ri);
                match s {
                    Shape::In { lo, hi } | Shape::CountIn { lo, hi } | Shape::OfIn { lo, hi, .. } => if let (Some(l), Some(h)) = (lo.eval(&env), hi.eval(&env)) {
                        let inside = st.iter().filter(|m| l.min(h) <= **m && **m <= l.max(h)).count();
                        let strictly = st.iter().filter(|m| l.min(h) < **m && **m < l.max(h)).count();
                        let k = if l > h && h >= 0 && strictly > 0 { "inverted, hi >= 0, matches strictly between the bounds" }
                                else if l > h { "inverted, other" } else if l == h { if inside > 0 { "lo = hi on a match" } else { "lo = hi, no match" } }
                                else if inside > 0 { "ordered, matches inside" } else { "ordered, no match inside" };
                        stats.inc(&format!("bounds:{}", k));
                    },
                    Shape::Offset { n } | Shape::Length { n } => if let Some(i) = n.eval(&env) {
                        let c = st.len() as i64;
                        stats.inc(&format!("index:{}", if i <= 0 { "<= 0" } else if i < c { "1..count-1" } else if i == c { "= count" } else if i == c + 1 { "= count+1" } else { "> count+1" }));
                    },
                    Shape::At { n } => if let Some(o) = n.eval(&env) { stats.inc(&format!("at:{}", if st.contains(&o) { "on a match" } else if st.contains(&o.wrapping_sub(1)) || st.contains(&o.wrapping_add(1)) { "next to a match" } else { "elsewhere" })); },
                    _ => {}
                }
            }
            stats.inc(&format!("buffer:{}", case.buf_kind));
            stats.inc(&format!("rules:{}", case.shapes.len()));
            distinct.insert(case.src.clone());
            for m in MODES {
                let outs = r.outs.get(m).cloned().unwrap_or_default();
                let blocks = m == "blocks";
                let bufs: [&[u8]; 2] = [&case.data, REUSE_DATA];
                // per scan, per rule position: the values of the run-time leaves
                let envs: Vec<Vec<Env>> = bufs.iter().map(|b| (0..case.shapes.len()).map(|ri|
                    Env { filesize: if blocks { None } else { Some(b.len() as i64) }, count: count_tok(b, ri) }).collect()).collect();
                let dls = [if blocks { None } else { Some(case.data.len() as i64) }, if blocks { None } else { Some(REUSE_DATA.len() as i64) }];
                let mt = r.matched.get(m).cloned().unwrap_or_default();
                let shapes_coq = |i: usize| { let v: Vec<String> = case.shapes.iter().enumerate().map(|(ri, s)| {
                    let obs = mt.get(i).cloned().flatten().map(|names| names.iter().any(|n| *n == format!("r{}", ri)));
                    s.coq_obs(&envs[i][ri], dls[i], obs) }).collect(); format!("[{}]", v.join("; ")) };
                let mut scans = vec![]; let mut jouts = vec![]; let mut fps = vec![];
                for i in 0..2 {
                    let o = outs.get(i).cloned().unwrap_or(Out::NotRun);
                    scans.push(format!("({}, {})", shapes_coq(i), out_coq(&o)));
                    jouts.push(out_json(&o));
                    let fp = fingerprint(&o, case, &envs[i], release);
                    if fp != "C05:none" { fps.push(fp); }
                    match &o { Out::Ok => stats.inc("outcome:ok"), Out::Err(k) => stats.inc(&format!("outcome:err:{}", k)), Out::Panic { .. } => stats.inc("outcome:panic"),
                               Out::Abort { .. } => stats.inc("outcome:abort"), Out::Timeout => stats.inc("outcome:hard-timeout"), Out::NotRun => stats.inc("outcome:not-run(after a crash)") }
                }
                let coq = format!("mkCase {} [{}]", coq_bool(release), scans.join("; "));
                let fp = fps.first().cloned().unwrap_or_else(|| "C05:none".into());
                if fp != "C05:none" { stats.inc(&format!("finding:{}", fp)); }
                let gl = case.globals.iter().map(|(k, v)| format!("{}={}", k, hex(v))).collect::<Vec<_>>().join(",");
                let replay = format!("{{\"rules\":{},\"globals_hex\":{},\"data_hex\":{},\"mode\":{},\"profile\":{},\"outcomes\":[{}],\"fingerprint\":{},\"shapes\":{},\"replay\":{}}}",
                    json_str(&case.src), json_str(&gl), json_str(&hex(&case.data)), json_str(m), json_str(if release { "release" } else { "debug" }), jouts.join(","), json_str(&fp),
                    json_str(&shapes_coq(0)),
                    json_str(&format!("c05 --replay-src '<rules>' --replay-data {}", hex(&case.data))));
                if samples.len() < 3 && m == "mem" { samples.push(replay.clone()); }
                shards.push(coq, replay);
            }
            pushed += 1;
        }
    }
    shards.flush();
    println!("{{\"evaluations\":{},\"distinct_nontrivial\":{},\"shards\":{},\"distribution\":{},\"samples\":[{}]}}",
        shards.total, distinct.len(), shards.shard_count, stats.json(), samples.join(","));
    0
}
