//! C06: a source that fails to compile leaves no trace in the compiler.
//!
//! For generated [A.., bad, B..] vs [A.., B..] (namespaces, linters and ignored
//! modules in play): digest of the compiled tables (hook
//! `Rules::verif_c06_digest`), scan dumps in normal and fast-scan mode,
//! errors()/ignored_rules() accounting, build() and scans. Every case runs in a
//! child process: a panic inside a host function called from WASM cannot unwind
//! and aborts the process.
use std::panic::AssertUnwindSafe;
use std::path::Path;
use verif_harness::util::*;

#[derive(Clone, Debug)]
struct Src { ns: usize, text: String }

#[derive(Clone, Debug)]
struct Case {
    pre: Vec<Src>, bad: Src, post: Vec<Src>,
    /// sources submitted last that must be REJECTED with and without the bad source (they use
    /// identifiers a failing rule may have leaked: loop variables, the rule's own name)
    probes: Vec<Src>,
    /// files below the include directory: (relative path, content)
    files: Vec<(String, String)>,
    /// the failing source is submitted this many times in a row (1 or 2)
    repeat: usize,
    /// the failing source goes on, after its failing include, with a rule that fails too: its error must
    /// be attributed to the including source
    tail: bool,
    kind: String,
    slow_err: bool, lint: bool, ignore_mod: bool,
    /// number of entries the bad source must add to errors(): [min, max]
    exp_errors: (usize, usize),
    /// number of entries it must add to ignored_rules()
    exp_ignored: usize,
    /// add_source(bad) must return Err
    exp_err: bool,
}

const WORDS: [&str; 6] = ["alpha", "bravo", "charlie", "delta", "echo1", "fox"];

fn gen_pattern(rng: &mut Rng, name: &str) -> String {
    let w = WORDS[rng.below(WORDS.len() as u64) as usize];
    match rng.below(6) {
        0 => format!("${} = \"{}\"", name, w),
        1 => format!("${} = \"{}\" nocase", name, w),
        2 => format!("${} = \"{}\" wide ascii", name, w),
        3 => format!("${} = {{ {} }}", name, w.bytes().map(|b| format!("{:02x}", b)).collect::<Vec<_>>().join(" ")),
        4 => format!("${} = /{}[0-9]?x/", name, w),
        _ => format!("${} = {{ {} [0-2] 21 }}", name, w.bytes().take(3).map(|b| format!("{:02x}", b)).collect::<Vec<_>>().join(" ")),
    }
}

/// an `or` of `matches` operands: the compiler groups them into a regexp set (Compiler.regex_sets,
/// ids handed out by the map's length); a failing rule leaves its sets behind
fn gen_regex_group(rng: &mut Rng) -> String {
    let res = ["/alp/", "/zzz/", "/^bra/", "/vo$/", "/a.p/", "/[0-9]+/", "/ALPHA/i", "/q+/"];
    let n = 2 + rng.below(3) as usize;
    let ops: Vec<String> = (0..n).map(|_| format!("gs{} matches {}", rng.below(2), res[rng.below(res.len() as u64) as usize])).collect();
    format!("({})", ops.join(" or "))
}

fn gen_use(rng: &mut Rng, name: &str) -> String {
    match rng.below(6) {
        0 => format!("${}", name),
        1 => format!("${} at 0", name),
        2 => format!("#{} > 1", name),
        3 => format!("${} in (0..20)", name),
        4 => format!("@{}[1] >= 0", name),
        _ => format!("${} at {}", name, rng.below(8)),
    }
}

/// rule header honouring the linters when they are on: name ^OK_, meta author, no tags
fn header(lint: bool, name: &str) -> (String, &'static str) {
    if lint { (format!("rule OK_{}", name), "meta: author = \"me\" ") } else { (format!("rule {}", name), "") }
}

fn rule_ident(lint: bool, name: &str) -> String { if lint { format!("OK_{}", name) } else { name.to_string() } }

fn gen_good(rng: &mut Rng, ns: usize, name: &str, lint: bool, shared: &mut Vec<String>, deps: &[String]) -> Src {
    let np = 1 + rng.below(3) as usize;
    let mut pats = vec![];
    let mut uses = vec![];
    for k in 0..np {
        let pname = format!("p{}", k);
        let def = if !shared.is_empty() && rng.chance(1, 3) {
            format!("${} = {}", pname, rng.pick(shared))
        } else {
            let d = gen_pattern(rng, &pname);
            shared.push(d.splitn(2, " = ").nth(1).unwrap().to_string());
            d
        };
        pats.push(def);
        uses.push(gen_use(rng, &pname));
    }
    let extra = match rng.below(4) { 0 => " and filesize < 1000", 1 => " and filesize > 2", _ => "" };
    let extra = if rng.chance(1, 3) { format!("{} and {}", extra, gen_regex_group(rng)) } else { extra.to_string() };
    // a rule of the same namespace declared earlier, used in the condition
    let extra = if !deps.is_empty() && rng.chance(1, 3) {
        let d = rng.pick(deps);
        if rng.chance(1, 2) { format!("{} or {}", extra, d) } else { format!("{} and ({} or filesize >= 0)", extra, d) }
    } else { extra };
    let (h, meta) = header(lint, name);
    let flags = match rng.below(12) { 0 | 1 => "private ", 2 => "global ", 3 => "private global ", _ => "" };
    let tags = if rng.chance(1, 4) { if lint { " : good" } else { " : t1 good" } } else { "" };
    let joiner = if rng.chance(1, 2) { " or " } else { " and " };
    Src { ns, text: format!("{}{}{} {{ {}strings: {} condition: ({}){} }}", flags, h, tags, meta, pats.join(" "), uses.join(joiner), extra) }
}

fn gen_bad(rng: &mut Rng, ns: usize, id: usize, lint: bool, slow_err: bool, ignore_mod: bool,
           shared: &[String], good_names: &[String], ignored_rule: Option<&String>) -> (Src, String, (usize, usize), usize, bool, String) {
    // patterns of the same rule that are registered before the failure
    let k = rng.below(4) as usize;
    let mut pats = vec![];
    let mut uses = vec![];
    for j in 0..k {
        let name = format!("q{}", j);
        let def = if !shared.is_empty() && rng.chance(1, 2) { format!("${} = {}", name, rng.pick(shared)) } else { gen_pattern(rng, &name) };
        pats.push(def);
        uses.push(gen_use(rng, &name));
    }
    let pre = if pats.is_empty() { String::new() } else { pats.join(" ") + " " };
    if rng.chance(1, 3) { uses.push(gen_regex_group(rng)); }
    // the failing rule depends on an earlier rule of its namespace
    if !good_names.is_empty() && rng.chance(1, 3) { uses.push(format!("({} or filesize >= 0)", { let g: &String = rng.pick(good_names); rule_ident(lint, g.as_str()) })); }
    let cond_pre = if uses.is_empty() { String::new() } else { uses.join(" and ") + " and " };
    let strings = |extra: &str| -> String {
        if pre.is_empty() && extra.is_empty() { String::new() } else { format!("strings: {}{} ", pre, extra) }
    };
    let (h, meta0) = header(lint, &format!("bad{}", id));
    // half of the failing sources carry warning-suppression comments whose span covers a long line:
    // suppressions are per source and must not outlive the failed attempt
    let suppress = rng.chance(1, 2);
    let meta_s = if suppress { format!("meta: {}pad = \"{}\" ", if lint { "author = \"me\" " } else { "" }, "x".repeat(200 + rng.below(200) as usize)) } else { meta0.to_string() };
    let meta = meta_s.as_str();
    let one = (1usize, 1usize);
    let mut kinds: Vec<u32> = (0..9).collect();
    kinds.extend([14, 14, 15, 16, 16, 17]);
    if !good_names.is_empty() { kinds.push(9); }
    if slow_err { kinds.extend([10, 10, 11, 11]); }
    if lint { kinds.extend([12, 12, 12]); }
    if ignore_mod { kinds.extend([13, 13]); }
    if ignored_rule.is_some() { kinds.extend([18, 18, 18]); }
    let kind = *rng.pick(&kinds);
    let (text, kindname, exp_errors, exp_ignored, exp_err): (String, &str, (usize, usize), usize, bool) = match kind {
        0 => (format!("{} {{ {}{}condition: {}true and and }}", h, meta, strings(""), cond_pre), "syntax", (1, 50), 0, true),
        1 => (format!("{} {{ {}{}condition: {}unknown_ident_{} }}", h, meta, strings(""), cond_pre, id), "unknown-identifier", one, 1, true),
        2 => (format!("{} {{ {}{}condition: {}(1 + \"a\" == 2) }}", h, meta, strings(""), cond_pre), "type-error", one, 1, true),
        3 => (format!("{} {{ {}{}condition: {}$z }}", h, meta, strings("$z = \"abc\" xor nocase"), cond_pre), "invalid-modifier", one, 1, true),
        4 => (format!("{} {{ {}{}condition: {}true }}", h, meta, strings("$unused = \"zzz\""), cond_pre), "unused-pattern", one, 1, true),
        5 => (format!("{} {{ {}{}condition: {}$z }}", h, meta, strings("$z = /(abc)*/"), cond_pre), "regexp-matches-empty", one, 1, true),
        6 => (format!("{} {{ {}{}condition: {}$z }}", h, meta, strings("$z = /a*/"), cond_pre), "regexp-matches-empty", one, 1, true),
        7 => (format!("{} {{ {}{}condition: {}$z }}", h, meta, strings("$z = /ab(c/"), cond_pre), "invalid-regexp", one, 1, true),
        8 => (format!("{} {{ {}{}condition: {}for any i in (1..3) : ( i == undefined_in_loop_{} ) }}", h, meta, strings(""), cond_pre, id), "unknown-identifier-in-loop", one, 1, true),
        9 => { let n = rng.pick(good_names).clone();
               let (hh, m) = header(lint, &n);
               (format!("{} {{ {}{}condition: {}true }}", hh, m, strings(""), cond_pre), "duplicate-rule", one, 1, true) }
        10 => (format!("{} {{ {}{}condition: {}#z > 1 }}", h, meta, strings("$z = /a.*b/"), cond_pre), "slow-regexp-as-error", one, 1, true),
        // a slow literal AND a condition error inside a loop body: two error paths in one rule
        11 => (format!("{} {{ {}{}condition: {}$z and for any i in (1..3) : ( i == undefined_in_loop_{} ) }}", h, meta,
                       strings("$z = { 00 00 00 00 00 00 }"), cond_pre, id), "slow-literal+loop-error", one, 1, true),
        // a rule violating three linters at once: all three errors must be recorded
        12 => (format!("rule lowercase_bad{} : evil {{ {}condition: {}true }}", id, strings(""), cond_pre), "three-linter-errors", (3, 3), 1, true),
        // the failure is found two or three scopes deep (for / for / with): every scope opened by the rule must go
        14 => (format!("{} {{ {}{}condition: {}for any i in (1..3) : ( for all j in (1..2) : ( with k = i + j : ( k == undefined_deep_{} ) ) ) }}", h, meta, strings(""), cond_pre, id),
               "unknown-identifier-in-nested-scopes", one, 1, true),
        15 => (format!("{} {{ {}{}condition: {}with k = 1 : ( for any i in (1..3) : ( for any j in (i..4) : ( j + k == \"a\" ) ) ) }}", h, meta, strings(""), cond_pre),
               "type-error-in-nested-scopes", one, 1, true),
        // too-large regexps: found only after the earlier patterns of the rule were registered
        16 => (format!("{} {{ {}{}condition: {}$z }}", h, meta, strings("$z = /abcd((efg){0,10000}){0,10000}/"), cond_pre), "regexp-too-large", one, 1, true),
        17 => (format!("{} {{ {}{}condition: {}gs0 matches /([a-z]{{2000}}){{1000}}/ }}", h, meta, strings(""), cond_pre), "matches-regexp-too-large", one, 1, true),
        // a rule depending on a rule that was ignored because of an ignored module is skipped too
        18 => (format!("{} {{ {}{}condition: {}{} }}", h, meta, strings(""), cond_pre, ignored_rule.unwrap()), "depends-on-ignored-rule", (0, 0), 1, false),
        // a rule using an ignored module is skipped, listed in ignored_rules(), not an error
        _ => (format!("{} {{ {}{}condition: {}ghost_module.some_field == {} }}", h, meta, strings(""), cond_pre, id), "uses-ignored-module", (0, 0), 1, false),
    };
    // a second rule with a syntax error next to the rule with the semantic error: both must be recorded
    let (text, kindname, exp_errors) = if exp_err && kind != 0 && kind != 10 && rng.chance(1, 4) {
        (format!("{} rule syn{} {{ condition: true and and }}", text, id), format!("{}+syntax-error-in-next-rule", kindname), (exp_errors.0 + 1, exp_errors.1 + 50))
    } else { (text, kindname.to_string(), exp_errors) };
    let kindname = kindname.as_str();
    let text = if suppress {
        let codes = "text_as_hex, slow_pattern, invariant_expr, non_bool_expr, consecutive_jumps, redundant_case_modifier, unsatisfiable_expr";
        if rng.chance(1, 2) { format!("{} // suppress: {}", text, codes) } else { format!("// suppress: {}\n{}", codes, text) }
    } else { text };
    let kindname = if suppress { format!("{}+suppress", kindname) } else { kindname.to_string() };
    let ident = match kind { 12 => format!("lowercase_bad{}", id), 9 => String::new(), _ => rule_ident(lint, &format!("bad{}", id)) };
    (Src { ns, text }, kindname, exp_errors, exp_ignored, exp_err, ident)
}

struct Compiled { rules: Option<yara_x::Rules>, add_results: Vec<bool>, n_errors: usize, n_ignored: usize, build_panic: bool, warnings: Vec<String>, diag_ok: bool }

static DIR_COUNTER: std::sync::atomic::AtomicUsize = std::sync::atomic::AtomicUsize::new(0);

fn compile(srcs: &[Src], case: &Case, bad_idx: Option<(usize, usize)>) -> Compiled {
    let mut c = yara_x::Compiler::new();
    // the include directory of the case, private to this compilation
    let dir = std::env::temp_dir().join(format!("c06_{}_{}", std::process::id(), DIR_COUNTER.fetch_add(1, std::sync::atomic::Ordering::SeqCst)));
    if !case.files.is_empty() {
        for (rel, content) in &case.files {
            let p = dir.join("inc").join(rel);
            std::fs::create_dir_all(p.parent().unwrap()).unwrap();
            std::fs::write(&p, content).unwrap();
        }
        c.add_include_dir(dir.join("inc"));
    }
    c.error_on_slow_pattern(case.slow_err);
    c.define_global("gs0", "alpha").unwrap();
    c.define_global("gs1", "bravo").unwrap();
    if case.ignore_mod { c.ignore_module("ghost_module"); }
    if case.lint {
        c.add_linter(yara_x::linters::rule_name("^OK_").unwrap().error(true));
        c.add_linter(yara_x::linters::metadata("author").required(true).error(true));
        c.add_linter(yara_x::linters::tags_allowed(vec!["good".to_string()]).error(true));
    }
    let mut add_results = vec![];
    let mut cur = usize::MAX;
    let mut k = 0usize;
    for (i, s) in srcs.iter().enumerate() {
        if s.ns != cur { c.new_namespace(&format!("ns{}", s.ns)); cur = s.ns; }
        // origins make every warning attributable to the source it is about
        let origin = if bad_idx.map_or(false, |(a, b)| i >= a && i < b) { "BADSRC.yar".to_string() } else { k += 1; format!("src{}.yar", k) };
        let r = catch(AssertUnwindSafe(|| c.add_source(yara_x::SourceCode::from(s.text.as_str()).with_origin(origin.as_str())).is_ok()));
        add_results.push(r.unwrap_or(false));
    }
    let tmp = dir.to_string_lossy().to_string();
    let warnings: Vec<String> = c.warnings().iter().map(|w| w.to_string().replace(tmp.as_str(), "<dir>")).filter(|w| !w.contains("BADSRC.yar") && !w.contains("a/bad.yar")).collect();
    if !case.files.is_empty() { let _ = std::fs::remove_dir_all(&dir); }
    // every diagnostic can be rendered, and the error about the rule that follows a failing include
    // names the including source
    let rendered = catch(AssertUnwindSafe(|| {
        let mut v: Vec<String> = c.errors().iter().map(|e| e.to_string()).collect();
        v.extend(c.warnings().iter().map(|w| w.to_string()));
        v
    }));
    let diag_ok = match &rendered {
        Err(_) => false,
        Ok(v) => !(case.tail && bad_idx.is_some()) || v.iter().any(|t| t.contains("undefined_tail") && t.contains("BADSRC.yar")),
    };
    let n_errors = c.errors().len();
    let n_ignored = c.ignored_rules().count();
    match catch(AssertUnwindSafe(move || c.build())) {
        Ok(r) => Compiled { rules: Some(r), add_results, n_errors, n_ignored, build_panic: false, warnings, diag_ok },
        Err(_) => Compiled { rules: None, add_results, n_errors, n_ignored, build_panic: true, warnings, diag_ok },
    }
}

fn scan_dump(rules: &yara_x::Rules, data: &[u8], fast: bool) -> String {
    let r = catch(AssertUnwindSafe(|| {
        let mut s = yara_x::Scanner::new(rules);
        s.fast_scan(fast);
        match s.scan(data).map_err(|e| e.to_string()) {
            Err(e) => format!("ERR {}", e),
            Ok(res) => {
                let mut out = vec![];
                for r in res.matching_rules() {
                    let mut ps = vec![];
                    for p in r.patterns() {
                        let ms: Vec<String> = p.matches().map(|m| format!("{}+{}", m.range().start, m.range().len())).collect();
                        ps.push(format!("{}:[{}]", p.identifier(), ms.join(",")));
                    }
                    out.push(format!("{}:{}{{{}}}", r.namespace(), r.identifier(), ps.join(" ")));
                }
                out.join(" ")
            }
        }
    }));
    match r { Ok(s) => s, Err(e) => format!("PANIC {}", e.lines().next().unwrap_or("")) }
}

fn buffers(rng: &mut Rng) -> Vec<Vec<u8>> {
    let mut v = vec![];
    for _ in 0..3 {
        let mut d = vec![];
        let n = 1 + rng.below(6);
        for _ in 0..n {
            let w = WORDS[rng.below(WORDS.len() as u64) as usize];
            match rng.below(5) {
                0 => d.extend_from_slice(w.as_bytes()),
                1 => d.extend_from_slice(w.to_uppercase().as_bytes()),
                2 => { for b in w.bytes() { d.push(b); d.push(0); } }
                3 => { d.extend_from_slice(w.as_bytes()); d.extend_from_slice(b"7x"); }
                _ => { d.extend_from_slice(&w.as_bytes()[..3]); d.extend_from_slice(b"..!"); }
            }
            if rng.chance(1, 2) { d.push(b' '); }
        }
        v.push(d);
    }
    v
}

fn digest_components(d: &str) -> Vec<(String, String)> {
    d.split(';').filter_map(|kv| kv.split_once('=')).map(|(k, v)| (k.to_string(), v.to_string())).collect()
}

fn coq_string(s: &str) -> String { format!("\"{}\"", s.replace('"', "\"\"")) }

fn main() {
    let args: Vec<String> = std::env::args().skip(1).collect();
    if arg_flag(&args, "--child") { std::process::exit(child()); }
    std::process::exit(run(&args));
}

/// Result of evaluating one case on the implementation.
#[derive(Default, Debug, Clone)]
struct Outcome {
    bad_returned_err: bool, good_rejected: bool, errors_delta: i64, ignored_delta: i64, others_same: bool,
    build_ok: bool, scans_equal: bool, no_panic: bool, comps: Vec<(String, bool)>, warnings_same: bool, n_warnings: usize, diag_ok: bool,
}

fn srcs_json(v: &[Src]) -> serde_json::Value { serde_json::json!(v.iter().map(|s| serde_json::json!([s.ns, s.text])).collect::<Vec<_>>()) }
fn srcs_from(v: &serde_json::Value) -> Vec<Src> {
    v.as_array().unwrap().iter().map(|x| Src { ns: x[0].as_u64().unwrap() as usize, text: x[1].as_str().unwrap().to_string() }).collect()
}
fn case_json(c: &Case, seed: u64) -> serde_json::Value {
    serde_json::json!({"repeat": c.repeat, "tail": c.tail, "files": c.files.iter().map(|(a, b)| serde_json::json!([a, b])).collect::<Vec<_>>(), "probes": srcs_json(&c.probes), "pre": srcs_json(&c.pre), "bad": srcs_json(&[c.bad.clone()]), "post": srcs_json(&c.post), "kind": c.kind,
        "slow": c.slow_err, "lint": c.lint, "ignore_mod": c.ignore_mod, "exp_errors": [c.exp_errors.0, c.exp_errors.1],
        "exp_ignored": c.exp_ignored, "exp_err": c.exp_err, "seed": seed})
}
fn case_from(v: &serde_json::Value) -> Case {
    Case { repeat: v["repeat"].as_u64().unwrap_or(1) as usize, tail: v["tail"].as_bool().unwrap_or(false), files: v["files"].as_array().map(|a| a.iter().map(|x| (x[0].as_str().unwrap().to_string(), x[1].as_str().unwrap().to_string())).collect()).unwrap_or_default(),
           probes: srcs_from(&v["probes"]), pre: srcs_from(&v["pre"]), bad: srcs_from(&v["bad"])[0].clone(), post: srcs_from(&v["post"]), kind: v["kind"].as_str().unwrap().to_string(),
           slow_err: v["slow"].as_bool().unwrap(), lint: v["lint"].as_bool().unwrap(), ignore_mod: v["ignore_mod"].as_bool().unwrap(),
           exp_errors: (v["exp_errors"][0].as_u64().unwrap() as usize, v["exp_errors"][1].as_u64().unwrap() as usize),
           exp_ignored: v["exp_ignored"].as_u64().unwrap() as usize, exp_err: v["exp_err"].as_bool().unwrap() }
}

fn outcome_line(tag: &str, o: &Outcome) -> String {
    format!("{} {} {} {} {} {} {} {} {} {} {} {} {}", tag, o.bad_returned_err, o.good_rejected, o.errors_delta, o.ignored_delta, o.others_same, o.build_ok,
        o.scans_equal, o.no_panic, o.warnings_same, o.n_warnings, o.diag_ok, o.comps.iter().map(|(k, e)| format!("{}={}", k, e)).collect::<Vec<_>>().join(","))
}

fn child() -> i32 {
    quiet_panics();
    let mut inp = String::new();
    std::io::Read::read_to_string(&mut std::io::stdin(), &mut inp).unwrap();
    let v: serde_json::Value = serde_json::from_str(&inp).unwrap();
    let case = case_from(&v);
    let mut rng = Rng(v["seed"].as_u64().unwrap());
    let o = evaluate(&case, &mut rng);
    println!("{}", outcome_line("OUT", &o));
    0
}

fn evaluate(case: &Case, rng: &mut Rng) -> Outcome {
    let mut with: Vec<Src> = case.pre.clone(); for _ in 0..case.repeat.max(1) { with.push(case.bad.clone()); } with.extend(case.post.iter().cloned()); with.extend(case.probes.iter().cloned());
    let mut without: Vec<Src> = case.pre.clone(); without.extend(case.post.iter().cloned()); without.extend(case.probes.iter().cloned());
    let bad_idx = case.pre.len();
    let rep = case.repeat.max(1);
    let cw = compile(&with, case, Some((bad_idx, bad_idx + rep)));
    let co = compile(&without, case, None);
    let mut o = Outcome::default();
    o.bad_returned_err = !cw.add_results[bad_idx] && !cw.add_results[bad_idx + rep - 1];
    o.diag_ok = cw.diag_ok && co.diag_ok;
    o.good_rejected = !co.add_results[..case.pre.len() + case.post.len()].iter().all(|x| *x);
    o.warnings_same = cw.warnings == co.warnings;
    o.n_warnings = co.warnings.len();
    o.errors_delta = cw.n_errors as i64 - co.n_errors as i64;
    o.ignored_delta = cw.n_ignored as i64 - co.n_ignored as i64;
    o.others_same = true;
    for (i, r) in co.add_results.iter().enumerate() {
        let j = if i < bad_idx { i } else { i + rep };
        if cw.add_results[j] != *r { o.others_same = false; }
    }
    o.build_ok = !cw.build_panic && !co.build_panic;
    o.scans_equal = true; o.no_panic = true;
    if let (Some(rw), Some(ro)) = (&cw.rules, &co.rules) {
        let dw = digest_components(&rw.verif_c06_digest());
        let dout = digest_components(&ro.verif_c06_digest());
        for ((k, v1), (_, v2)) in dw.iter().zip(dout.iter()) { o.comps.push((k.clone(), v1 == v2)); }
        // tell the parent what is known so far, in case a scan aborts the process
        println!("{}", outcome_line("PRE", &o));
        let mut bufrng = rng.fork();
        for b in buffers(&mut bufrng) {
            for fast in [false, true] {
                let a = scan_dump(rw, &b, fast);
                let c = scan_dump(ro, &b, fast);
                if a.starts_with("PANIC") || c.starts_with("PANIC") { o.no_panic = false; }
                if a != c { o.scans_equal = false; }
            }
        }
    }
    o
}

fn parse_outcome(l: &str, died_scanning: bool) -> Outcome {
    let f: Vec<&str> = l.split(' ').collect();
    let b = |s: &str| s == "true";
    Outcome { bad_returned_err: b(f[1]), good_rejected: b(f[2]), errors_delta: f[3].parse().unwrap(), ignored_delta: f[4].parse().unwrap(),
              others_same: b(f[5]), build_ok: b(f[6]), scans_equal: b(f[7]) && !died_scanning, no_panic: b(f[8]) && !died_scanning,
              warnings_same: b(f[9]), n_warnings: f[10].parse().unwrap(), diag_ok: b(f[11]),
              comps: f.get(12).unwrap_or(&"").split(',').filter_map(|kv| kv.split_once('=')).map(|(k, v)| (k.to_string(), v == "true")).collect() }
}

/// Parent side: run one case in a child process.
fn run_in_child(case: &Case, seed: u64) -> Option<Outcome> {
    use std::io::Write;
    use std::process::{Command, Stdio};
    let mut ch = Command::new(std::env::current_exe().unwrap()).arg("--child")
        .stdin(Stdio::piped()).stdout(Stdio::piped()).stderr(Stdio::null()).spawn().unwrap();
    ch.stdin.take().unwrap().write_all(case_json(case, seed).to_string().as_bytes()).unwrap();
    let out = ch.wait_with_output().unwrap();
    let text = String::from_utf8_lossy(&out.stdout).to_string();
    if let Some(l) = text.lines().find(|l| l.starts_with("OUT ")) { return Some(parse_outcome(l, false)); }
    if let Some(l) = text.lines().find(|l| l.starts_with("PRE ")) { return Some(parse_outcome(l, true)); }
    // died while compiling or building
    let mut o = Outcome::default();
    o.bad_returned_err = case.exp_err; o.build_ok = false; o.warnings_same = true; o.diag_ok = true;
    Some(o)
}

fn corpus() -> Vec<Case> {
    let s = |ns: usize, t: &str| Src { ns, text: t.to_string() };
    let base = |pre: Vec<Src>, bad: Src, post: Vec<Src>, kind: &str| Case { pre, bad, post, probes: vec![], files: vec![], repeat: 1, tail: false, kind: kind.to_string(), slow_err: false, lint: false,
        ignore_mod: false, exp_errors: (1, 1), exp_ignored: 1, exp_err: true };
    let mut v = vec![
        // (fixed) anchored literal registered, then a regexp of the same rule fails
        base(vec![], s(0, "rule bad { strings: $a = \"abcd\" $b = /a*/ condition: $a at 0 and $b }"),
             vec![s(0, "rule good { strings: $a = \"alpha\" condition: $a }")], "regexp-matches-empty"),
        // (fixed) a pattern shared with an earlier rule has its fast-scan bit cleared by the failing rule
        base(vec![s(0, "rule g0 { strings: $p0 = \"alpha\" condition: $p0 }")],
             s(0, "rule bad { strings: $q0 = \"alpha\" $z = /a*/ condition: #q0 > 1 and $z }"), vec![], "regexp-matches-empty"),
    ];
    // slow literal + error inside a loop body, then a new namespace re-using a rule name
    let mut c = base(vec![s(0, "rule foo { condition: true }")],
        s(0, "rule bad { strings: $z = { 00 00 00 00 00 00 } condition: $z and for any i in (1..3) : ( i == undefined_in_loop ) }"),
        vec![s(1, "rule foo { condition: true }"), s(1, "rule uses_i { condition: filesize > 0 }")], "slow-literal+loop-error");
    c.slow_err = true;
    v.push(c);
    v
}

fn gen_case(rng: &mut Rng) -> Case {
    let mut shared = vec![];
    let lint = rng.chance(1, 5);
    let slow_err = rng.chance(1, 4);
    let ignore_mod = rng.chance(1, 5);
    let npre = rng.below(4) as usize;
    let npost = rng.below(3) as usize;
    let mut ns = 0usize;
    let mut pre = vec![];
    let mut names = vec![];
    for i in 0..npre {
        if i > 0 && rng.chance(1, 3) { ns += 1; }
        let name = format!("g{}", i);
        let deps: Vec<String> = pre.iter().zip(names.iter()).filter(|(s, _): &(&Src, &String)| s.ns == ns).map(|(_, n)| rule_ident(lint, n)).collect();
        pre.push(gen_good(rng, ns, &name, lint, &mut shared, &deps));
        names.push(name);
    }
    // a rule that is ignored (not an error) because it uses an ignored module; later rules may depend on it
    let mut ignored_rule = None;
    if ignore_mod && rng.chance(1, 2) {
        let (h, meta) = header(lint, "ign0");
        pre.push(Src { ns, text: format!("{} {{ {}condition: ghost_module.a == 1 }}", h, meta) });
        names.push("ign0".to_string());
        ignored_rule = Some(rule_ident(lint, "ign0"));
    }
    let npre = pre.len();
    // names visible in the bad rule's namespace
    let visible: Vec<String> = pre.iter().zip(names.iter()).filter(|(s, n)| s.ns == ns && n.as_str() != "ign0").map(|(_, n)| n.clone()).collect();
    let (bad, kind, exp_errors, exp_ignored, exp_err, bad_ident) = gen_bad(rng, ns, npre, lint, slow_err, ignore_mod, &shared, &visible, ignored_rule.as_ref());
    let bad_ns = ns;
    let mut post = vec![];
    for i in 0..npost {
        // later sources often open a new namespace and re-use earlier rule names there
        if rng.chance(1, 2) { ns += 1; }
        // sometimes a later rule takes the very name of the rule that failed: it must be free
        let name = if exp_err && ns == bad_ns && !bad_ident.is_empty() && !kind.starts_with("three-linter") && i == 0 && rng.chance(1, 3) { format!("bad{}", npre) }
                   else if ns > 0 && rng.chance(1, 2) { format!("g{}", i) } else { format!("h{}", i) };
        let fresh_in_ns = !pre.iter().zip(names.iter()).any(|(s, n)| s.ns == ns && *n == name)
            && !post.iter().any(|(s, n): &(Src, String)| s.ns == ns && *n == name);
        let name = if fresh_in_ns { name } else { format!("k{}_{}", ns, i) };
        let deps: Vec<String> = pre.iter().zip(names.iter()).map(|(s, n)| (s, n.clone())).chain(post.iter().map(|(s, n): &(Src, String)| (s, n.clone())))
            .filter(|(s, n)| s.ns == ns && n.as_str() != "ign0").map(|(_, n)| rule_ident(lint, &n)).collect();
        post.push((gen_good(rng, ns, &name, lint, &mut shared, &deps), name));
    }
    // probes: sources that must be rejected whether or not the bad source was seen
    let mut probes = vec![];
    if rng.chance(1, 2) {
        let (h, meta) = header(lint, "probe0");
        let body = *rng.pick(&["i == 1", "j == 1 or k == 2", "k + i > 0", "for any x in (1..2) : ( x == j )"]);
        probes.push(Src { ns, text: format!("{} {{ {}condition: {} }}", h, meta, body) });
    }
    // the name of a rule that failed must stay unknown (only when it ends in the namespace the bad rule was in)
    if exp_err && !bad_ident.is_empty() && ns == bad_ns && rng.chance(1, 2) {
        let (h, meta) = header(lint, "probe1");
        probes.push(Src { ns, text: format!("{} {{ {}condition: {} or filesize > 0 }}", h, meta, bad_ident) });
    }
    // the failing rule lives in an included file; a later source includes a file whose name also exists
    // next to the failed file: relative includes are looked up next to the file on top of the include stack
    let mut files = vec![];
    let mut tail = false;
    let mut bad = bad; let mut kind = kind;
    let mut post: Vec<(Src, String)> = post;
    if rng.chance(1, 5) {
        let (h1, m1) = header(lint, "from_include_dir");
        let (h2, m2) = header(lint, "from_subdir");
        files.push(("common.yar".to_string(), format!("{} {{ {}condition: true }}", h1, m1)));
        files.push(("a/common.yar".to_string(), format!("{} {{ {}condition: filesize > 0 }}", h2, m2)));
        files.push(("a/bad.yar".to_string(), bad.text.clone()));
        tail = exp_err && !kind.starts_with("slow-regexp-as-error") && rng.chance(1, 2);
        let tail_rule = if tail { let (h, m) = header(lint, &format!("tail{}", npre)); format!(" {} {{ {}condition: undefined_tail_{} }}", h, m, npre) } else { String::new() };
        bad = Src { ns: bad.ns, text: format!("include \"a/bad.yar\"{}", tail_rule) };
        kind = format!("{}+in-included-file{}", kind, if tail { "+failing-rule-after-the-include" } else { "" });
        if let Some(p) = post.last_mut() { p.0.text = format!("include \"common.yar\"\n{}", p.0.text); }
        else { post.push((Src { ns, text: "include \"common.yar\"".to_string() }, "inc_only".to_string())); }
    }
    // in a quarter of the cases every source imports a module and every rule (the failing one too) calls it
    let mut pre = pre; let mut probes = probes;
    if rng.chance(1, 4) {
        let with_mod = |t: &str| -> String {
            if t.starts_with("include ") { return t.to_string(); }
            let t = t.replace(" condition: ", " condition: math.abs(-1) == 1 and ");
            format!("import \"math\" {}", t)
        };
        for s in pre.iter_mut() { s.text = with_mod(&s.text); }
        for (s, _) in post.iter_mut() { s.text = with_mod(&s.text); }
        for s in probes.iter_mut() { s.text = with_mod(&s.text); }
        if files.is_empty() { bad.text = with_mod(&bad.text); } else { for f in files.iter_mut() { f.1 = with_mod(&f.1); } }
        kind = format!("{}+module-calls", kind);
    }
    // a failing source is often submitted again unchanged: every attempt is recorded on its own
    let repeat = if rng.chance(1, 4) { 2 } else { 1 };
    let extra = if tail { 1 } else { 0 };
    let exp_errors = ((exp_errors.0 + extra) * repeat, (exp_errors.1 + extra) * repeat);
    let exp_ignored = (exp_ignored + extra) * repeat;
    if repeat == 2 { kind = format!("{}+submitted-twice", kind); }
    Case { pre, bad, post: post.into_iter().map(|p| p.0).collect(), probes, files, repeat, tail, kind, slow_err, lint, ignore_mod, exp_errors, exp_ignored, exp_err }
}

pub fn run(args: &[String]) -> i32 {
    quiet_panics();
    let seed = arg_u64(args, "--seed", 1);
    let n = arg_u64(args, "--n", 300) as usize;
    let out = arg_val(args, "--out").expect("--out");
    let prelude = "From Coq Require Import List NArith ZArith Bool String.\nFrom YV Require Import Gen.SnapshotGen Compiler.Snapshot Compiler.SnapshotCheck.\nImport ListNotations.\nLocal Open Scope string_scope.\n";
    let mut shards = Shards::new(Path::new(&out), prelude, 150);
    let mut rng = Rng::new(seed);
    let mut stats = Stats::default();
    let mut distinct = std::collections::HashSet::new();
    let mut samples = vec![];
    let mut corpus = corpus();
    let mut attempts = 0usize;
    while shards.total < n && attempts < n * 4 {
        attempts += 1;
        let case = if !corpus.is_empty() { corpus.remove(0) } else { gen_case(&mut rng) };
        let o = match run_in_child(&case, rng.next()) { Some(o) => o, None => continue };
        stats.inc(&format!("bad_kind:{}", case.kind));
        if o.good_rejected { stats.inc("good_rejected(generator)"); continue; }
        if case.exp_err && !o.bad_returned_err { stats.inc("bad_accepted(not a C06 case)"); continue; }
        if case.lint { stats.inc("with_linters"); }
        if case.ignore_mod { stats.inc("with_ignored_module"); }
        if case.slow_err { stats.inc("error_on_slow_pattern"); }
        if case.pre.iter().chain(case.post.iter()).map(|s| s.ns).max().unwrap_or(0) > 0 { stats.inc("several_namespaces"); }
        let outcome_ok = o.bad_returned_err == case.exp_err;
        let recorded = o.errors_delta >= case.exp_errors.0 as i64 && o.errors_delta <= case.exp_errors.1 as i64 && o.diag_ok;
        if !o.diag_ok { stats.inc("diagnostic_unrenderable_or_misattributed"); }
        let ignored_ok = o.ignored_delta == case.exp_ignored as i64;
        distinct.insert(format!("{}|{}|{}", case.pre.len(), case.kind, case.bad.text));
        if o.comps.iter().any(|c| !c.1) { stats.inc("digest_differs"); }
        if !o.scans_equal { stats.inc("scans_differ"); }
        if !o.no_panic { stats.inc("scan_crashes"); }
        if !o.warnings_same { stats.inc("warnings_differ"); }
        if o.n_warnings > 0 { stats.inc("good_sources_emit_warnings"); }
        if !case.probes.is_empty() { stats.inc("with_probe_source"); }
        if !case.files.is_empty() { stats.inc("failing_rule_in_included_file"); }
        if !recorded { stats.inc("errors_not_recorded"); }
        if !ignored_ok { stats.inc("ignored_rules_mismatch"); }
        let coq_case = format!("mkCase {} {} {} {} {} {} {}",
            coq_list(&o.comps, |(k, eq)| format!("({}, {})", coq_string(k), coq_bool(*eq))),
            coq_bool(recorded && ignored_ok && outcome_ok), coq_bool(o.others_same), coq_bool(o.build_ok), coq_bool(o.scans_equal), coq_bool(o.no_panic), coq_bool(o.warnings_same));
        let fmt_srcs = |v: &[Src]| v.iter().map(|s| format!("// ns{}\n{}", s.ns, s.text)).collect::<Vec<_>>().join("\n");
        let replay = format!("{{\"pre\":{},\"bad\":{},\"bad_kind\":{},\"post\":{},\"error_on_slow_pattern\":{},\"linters\":{},\"ignore_module\":{},\"digest_equal\":{},\"errors_delta\":{},\"expected_errors\":[{},{}],\"ignored_delta\":{},\"expected_ignored\":{},\"bad_returned_err\":{},\"recorded\":{},\"others_same\":{},\"build_ok\":{},\"scans_equal\":{},\"no_panic\":{},\"probes\":{},\"warnings_same\":{},\"warnings_of_good_sources\":{}}}",
            json_str(&fmt_srcs(&case.pre)), json_str(&fmt_srcs(&[case.bad.clone()])), json_str(&case.kind), json_str(&fmt_srcs(&case.post)),
            case.slow_err, case.lint, case.ignore_mod, json_str(&format!("{:?}", o.comps)), o.errors_delta, case.exp_errors.0, case.exp_errors.1,
            o.ignored_delta, case.exp_ignored, o.bad_returned_err, recorded && ignored_ok && outcome_ok, o.others_same, o.build_ok, o.scans_equal, o.no_panic, json_str(&fmt_srcs(&case.probes)), o.warnings_same, o.n_warnings);
        if samples.len() < 3 { samples.push(replay.clone()); }
        shards.push(coq_case, replay);
    }
    shards.flush();
    println!("{{\"evaluations\":{},\"distinct_nontrivial\":{},\"shards\":{},\"distribution\":{},\"samples\":[{}]}}",
        shards.total, distinct.len(), shards.shard_count, stats.json(), samples.join(","));
    0
}
